//go:build ignore

// DESIGN-PHASE PROBE (not machinery): a real controller.Controller driven with real *remote.Remote backends (built by the
// overlay-added constructor remote.NewForVerif), model replica nodes behind an in-process http.DefaultTransport, a fake
// frontend and a harness BackendFactory. Build: go build -tags verif -overlay <overlay with vtime shim + zz_verif files>.
// Observed on the unchanged tree: whole scenario 3.2 ms; write with 1 of 2 replicas failing returns (0, nil), the failed
// replica is ERR-marked and removed, the volume turns read-only.
package main

import (
	"bytes"
	"encoding/json"
	"fmt"
	"io"
	"net/http"
	"net/http/httptest"
	"os"
	"runtime/pprof"
	"strings"
	"time"

	"github.com/openebs/jiva/backend/remote"
	"github.com/openebs/jiva/controller"
	"github.com/openebs/jiva/types"
	"github.com/sirupsen/logrus"
)

type node struct {
	ip      string
	state   string
	mode    string
	rev     int64
	chain   []string
	cp      string
	writes  []string
	failW   bool
	calls   []string
	actions []string
}

func (n *node) ServeHTTP(w http.ResponseWriter, r *http.Request) {
	n.calls = append(n.calls, r.Method+" "+r.URL.RequestURI())
	if r.Method == "POST" {
		var body map[string]interface{}
		if r.Body != nil {
			json.NewDecoder(r.Body).Decode(&body)
		}
		switch r.URL.Query().Get("action") {
		case "open":
			n.state = "open"
			n.mode = "INIT"
		case "close":
			n.state = "closed"
		case "snapshot":
			name := "volume-snap-" + body["name"].(string) + ".img"
			n.chain = append([]string{n.chain[0], name}, n.chain[1:]...)
		case "setreplicamode":
			n.mode = body["mode"].(string)
		case "setrevisioncounter":
			fmt.Sscan(body["counter"].(string), &n.rev)
		case "setcheckpoint":
			n.cp = body["snapshotName"].(string)
		case "start":
			n.actions = append(n.actions, body["Action"].(string))
		}
	}
	json.NewEncoder(w).Encode(map[string]interface{}{
		"state": n.state, "size": "16384", "sectorSize": 512, "chain": n.chain, "replicamode": n.mode,
		"revisioncounter": fmt.Sprint(n.rev), "remainsnapshots": 100, "clonestatus": "NA", "checkpoint": n.cp,
	})
}

type ios struct{ n *node }

func (i ios) WriteAt(b []byte, off int64) (int, error) {
	if i.n.failW {
		return 0, fmt.Errorf("injected")
	}
	i.n.writes = append(i.n.writes, fmt.Sprintf("%d@%d", b[0], off))
	if i.n.mode == "RW" {
		i.n.rev++
	}
	return len(b), nil
}
func (i ios) ReadAt(b []byte, off int64) (int, error) {
	i.n.calls = append(i.n.calls, "READ")
	return len(b), nil
}
func (i ios) Sync() (int, error)              { return 0, nil }
func (i ios) Unmap(int64, int64) (int, error) { return 0, nil }
func (i ios) Close() error                    { return nil }

type rt struct{ nodes map[string]*node }

func (t *rt) RoundTrip(req *http.Request) (*http.Response, error) {
	n, ok := t.nodes[strings.Split(req.URL.Host, ":")[0]]
	if !ok {
		return nil, fmt.Errorf("connection refused")
	}
	rec := httptest.NewRecorder()
	n.ServeHTTP(rec, req)
	return rec.Result(), nil
}

type factory struct {
	t       *rt
	signals []string
}

func (f *factory) Create(address string) (types.Backend, error) {
	ip := strings.Split(strings.TrimPrefix(address, "tcp://"), ":")[0]
	n := f.t.nodes[ip]
	r := remote.NewForVerif(address, ip+":9502", ios{n})
	if n.state != "closed" {
		return nil, fmt.Errorf("Replica must be closed")
	}
	if err := r.VerifOpen(); err != nil {
		return nil, err
	}
	return r, nil
}
func (f *factory) SignalToAdd(a, act string) error {
	f.signals = append(f.signals, a+":"+act)
	return nil
}
func (f *factory) VerifyReplicaAlive(string) bool { return true }

type fe struct{ up bool }

func (f *fe) Startup(string, string, string, int64, int64, types.IOs) error { f.up = true; return nil }
func (f *fe) Shutdown() error                                               { f.up = false; return nil }
func (f *fe) State() types.State {
	if f.up {
		return types.StateUp
	}
	return types.StateDown
}
func (f *fe) Stats() types.Stats  { return types.Stats{} }
func (f *fe) Resize(uint64) error { return nil }

// NOTE: debug=1 aggregates identical stacks; the real harness must use debug=2 (one entry per goroutine).
func monitors() int {
	var b bytes.Buffer
	pprof.Lookup("goroutine").WriteTo(&b, 2)
	return strings.Count(b.String(), "Controller).monitoring(")
}

func main() {
	logrus.SetOutput(io.Discard)
	os.Setenv("REPLICATION_FACTOR", "3")
	t := &rt{nodes: map[string]*node{}}
	for _, ip := range []string{"10.0.0.1", "10.0.0.2", "10.0.0.3"} {
		t.nodes[ip] = &node{ip: ip, state: "closed", rev: 1, chain: []string{"volume-head-000.img"}}
	}
	http.DefaultTransport = t
	f := &factory{t: t}
	c := controller.NewController(controller.WithName("v"), controller.WithBackend(f), controller.WithFrontend(&fe{}, ""), controller.WithRF(3))
	t0 := time.Now()
	fmt.Println(c.RegisterReplica(types.RegReplica{Address: "10.0.0.1", UUID: "u1", RevCount: 5, RepType: "Backend", RepState: "closed"}))
	fmt.Println(c.RegisterReplica(types.RegReplica{Address: "10.0.0.2", UUID: "u2", RevCount: 9, RepType: "Backend", RepState: "closed"}))
	fmt.Println(f.signals, c.VerifDump())
	fmt.Println("start wrong:", c.Start("tcp://10.0.0.1:9502"))
	fmt.Println("start:", c.Start("tcp://10.0.0.2:9502"))
	buf := make([]byte, 4096)
	buf[0] = 1
	n, err := c.WriteAt(buf, 0)
	fmt.Println("write while RO:", n, err)
	fmt.Println("add:", c.AddReplica("tcp://10.0.0.1:9502"), c.VerifDump())
	fmt.Println("verify:", c.VerifyRebuildReplica("tcp://10.0.0.1:9502"), c.VerifDump())
	n, err = c.WriteAt(buf, 0)
	fmt.Println("write", n, err, t.nodes["10.0.0.1"].writes, t.nodes["10.0.0.2"].writes)
	t.nodes["10.0.0.1"].failW = true
	n, err = c.WriteAt(buf, 0)
	fmt.Println("write with 1 failing of 2:", n, err, c.VerifDump(), "monitor goroutines:", monitors(), time.Since(t0))
}
