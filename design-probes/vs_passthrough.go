//go:build ignore

// pass-through version of the channel shim used only to compile-check the rewriter's output
package vs

import "reflect"

type Case struct {
	send bool
	ch   reflect.Value
	val  reflect.Value
}

func Go(f func())                        { go f() }
func Send[T any](ch chan<- T, v T)       { ch <- v }
func Recv[T any](ch <-chan T) T          { return <-ch }
func Recv2[T any](ch <-chan T) (T, bool) { v, ok := <-ch; return v, ok }
func Close[T any](ch chan<- T)           { close(ch) }
func R[T any](ch <-chan T) Case          { return Case{ch: reflect.ValueOf(ch)} }
func S[T any](ch chan<- T, v T) Case {
	return Case{send: true, ch: reflect.ValueOf(ch), val: reflect.ValueOf(&v).Elem()}
}
func As[T any](ch <-chan T, v reflect.Value) T {
	var z T
	if !v.IsValid() {
		return z
	}
	x, _ := v.Interface().(T)
	return x
}
func As2[T any](ch <-chan T, v reflect.Value) (T, bool) { return As(ch, v), v.IsValid() }
func Select(hasDefault bool, cases ...Case) (int, reflect.Value) {
	var sc []reflect.SelectCase
	for _, c := range cases {
		if c.send {
			sc = append(sc, reflect.SelectCase{Dir: reflect.SelectSend, Chan: c.ch, Send: c.val})
		} else {
			sc = append(sc, reflect.SelectCase{Dir: reflect.SelectRecv, Chan: c.ch})
		}
	}
	if hasDefault {
		sc = append(sc, reflect.SelectCase{Dir: reflect.SelectDefault})
	}
	i, v, ok := reflect.Select(sc)
	if hasDefault && i == len(cases) {
		return -1, reflect.Value{}
	}
	if !ok {
		return i, reflect.Value{}
	}
	return i, v
}
