//go:build ignore

// injected as /repo/controller/zz_verif.go with `//go:build verif`
package controller

import (
	"fmt"
	"sort"
)

func (c *Controller) VerifDump() string {
	s := fmt.Sprintf("RO=%v RWC=%d CP=%q Max=%q Sig=%v reps=%v", c.ReadOnly, c.RWReplicaCount, c.Checkpoint, c.MaxRevReplica, c.StartSignalled, c.replicas)
	var b []string
	if c.backend != nil {
		for a, w := range c.backend.backends {
			b = append(b, fmt.Sprintf("%s:%s", a, w.mode))
		}
		sort.Strings(b)
		s += fmt.Sprintf(" backends=%v readers=%d avail=%v", b, len(c.backend.readers), c.backend.backendsAvailable)
	}
	var r []string
	for a, x := range c.RegisteredReplicas {
		r = append(r, fmt.Sprintf("%s:%d", a, x.RevCount))
	}
	sort.Strings(r)
	return s + fmt.Sprintf(" reg=%v", r)
}
