//go:build ignore

package vtime

import "time"

type Duration = time.Duration
type Time = time.Time

const (
	Nanosecond  = time.Nanosecond
	Microsecond = time.Microsecond
	Millisecond = time.Millisecond
	Second      = time.Second
	Minute      = time.Minute
	Hour        = time.Hour
)

var Scale Duration = 10000

func Sleep(d Duration)             { time.Sleep(d / Scale) }
func Now() Time                    { return time.Now() }
func Since(t Time) Duration        { return time.Since(t) }
func After(d Duration) <-chan Time { return time.After(d / Scale) }

type Ticker struct {
	C <-chan Time
	t *time.Ticker
}

func NewTicker(d Duration) *Ticker { t := time.NewTicker(d/Scale + 1); return &Ticker{C: t.C, t: t} }
func (t *Ticker) Stop()            { t.t.Stop() }
