// DESIGN-PHASE PROBE (not machinery): ptrace tracer that counts the file-system calls of a victim that touch DIR,
// can run a hook before each of them (crash-state copy) and can make call K fail with an errno.
//   gcc -O1 -o fstrace fstrace.c ;  ./fstrace DIR [--fail K ERRNO] [--hook CMD] victim args...
// Verified against a Go victim (runtime.LockOSThread): deterministic log; --fail 37 28 on Snapshot reproduced the
// encodeToFile defect. Missing for the real tool: marker syscalls to reset the counter, newfstatat/close/mkdir
// handling, --snap-each built in, x86-64 only.
#define _GNU_SOURCE
#include <stdio.h>
#include <stdlib.h>
#include <string.h>
#include <unistd.h>
#include <errno.h>
#include <signal.h>
#include <sys/ptrace.h>
#include <sys/wait.h>
#include <sys/user.h>
#include <sys/syscall.h>
#include <sys/uio.h>
#include <limits.h>

static const char *dir; static int failK = -1, failErr = 0; static const char *hook = NULL;
static int counter = 0;
struct th { pid_t tid; int insys; int failing; } ths[256]; int nth = 0;
static struct th *get(pid_t t){ for(int i=0;i<nth;i++) if(ths[i].tid==t) return &ths[i]; ths[nth].tid=t; ths[nth].insys=0; ths[nth].failing=0; return &ths[nth++]; }

static int readstr(pid_t pid, unsigned long addr, char *buf, size_t n){
  struct iovec l={buf,n-1}, r={(void*)addr,n-1}; ssize_t k=process_vm_readv(pid,&l,1,&r,1,0);
  if(k<=0){ size_t i=0; for(;i<n-1;i++){ struct iovec l1={buf+i,1}, r1={(void*)(addr+i),1}; if(process_vm_readv(pid,&l1,1,&r1,1,0)!=1) break; if(!buf[i]) return 0; } buf[i]=0; return 0; }
  buf[k]=0; return 0;
}
static int fdpath(pid_t pid, int fd, char *out, size_t n){ char p[64]; snprintf(p,sizeof p,"/proc/%d/fd/%d",pid,fd); ssize_t k=readlink(p,out,n-1); if(k<0) return -1; out[k]=0; return 0; }
static int under(const char *p){ return strncmp(p,dir,strlen(dir))==0; }

static int relevant(pid_t pid, struct user_regs_struct *r, char *desc, size_t n){
  long nr=r->orig_rax; char p[PATH_MAX]="", q[PATH_MAX]="";
  switch(nr){
   case SYS_openat: readstr(pid,r->rsi,p,sizeof p); snprintf(desc,n,"openat(%s,0x%llx)",p,r->rdx); return under(p);
   case SYS_renameat: case SYS_renameat2: readstr(pid,r->rsi,p,sizeof p); readstr(pid,r->r10,q,sizeof q); snprintf(desc,n,"rename(%s,%s)",p,q); return under(p)||under(q);
   case SYS_rename: readstr(pid,r->rdi,p,sizeof p); readstr(pid,r->rsi,q,sizeof q); snprintf(desc,n,"rename(%s,%s)",p,q); return under(p)||under(q);
   case SYS_linkat: readstr(pid,r->rsi,p,sizeof p); readstr(pid,r->r10,q,sizeof q); snprintf(desc,n,"link(%s,%s)",p,q); return under(p)||under(q);
   case SYS_unlinkat: readstr(pid,r->rsi,p,sizeof p); snprintf(desc,n,"unlink(%s)",p); return under(p);
   case SYS_unlink: readstr(pid,r->rdi,p,sizeof p); snprintf(desc,n,"unlink(%s)",p); return under(p);
   case SYS_truncate: readstr(pid,r->rdi,p,sizeof p); snprintf(desc,n,"truncate(%s,%lld)",p,r->rsi); return under(p);
   case SYS_mkdirat: readstr(pid,r->rsi,p,sizeof p); snprintf(desc,n,"mkdir(%s)",p); return under(p);
   case SYS_write: case SYS_pwrite64: case SYS_fsync: case SYS_fdatasync: case SYS_ftruncate: case SYS_fallocate:
     if(fdpath(pid,(int)r->rdi,p,sizeof p)<0) return 0;
     snprintf(desc,n,"%s(%s,len=%lld,off=%lld)", nr==SYS_write?"write":nr==SYS_pwrite64?"pwrite":nr==SYS_fsync?"fsync":nr==SYS_fdatasync?"fdatasync":nr==SYS_ftruncate?"ftruncate":"fallocate", p, r->rdx, r->r10); return under(p);
  }
  return 0;
}

int main(int argc, char **argv){
  int i=1; dir=argv[i++];
  while(i<argc && argv[i][0]=='-'){ if(!strcmp(argv[i],"--fail")){ failK=atoi(argv[i+1]); failErr=atoi(argv[i+2]); i+=3; } else if(!strcmp(argv[i],"--hook")){ hook=argv[i+1]; i+=2; } else break; }
  pid_t child=fork();
  if(child==0){ ptrace(PTRACE_TRACEME,0,0,0); raise(SIGSTOP); execvp(argv[i],argv+i); perror("exec"); _exit(127); }
  int st; waitpid(child,&st,0);
  ptrace(PTRACE_SETOPTIONS,child,0,PTRACE_O_TRACESYSGOOD|PTRACE_O_TRACECLONE|PTRACE_O_TRACEFORK|PTRACE_O_TRACEVFORK|PTRACE_O_TRACEEXEC|PTRACE_O_EXITKILL);
  ptrace(PTRACE_SYSCALL,child,0,0);
  int exitcode=-1;
  for(;;){
    pid_t t=waitpid(-1,&st,__WALL); if(t<0) break;
    if(WIFEXITED(st)||WIFSIGNALED(st)){ if(t==child){ exitcode=WIFEXITED(st)?WEXITSTATUS(st):128+WTERMSIG(st); } continue; }
    if(!WIFSTOPPED(st)) continue;
    int sig=WSTOPSIG(st); struct th *h=get(t);
    if(sig==(SIGTRAP|0x80)){
      struct user_regs_struct r; ptrace(PTRACE_GETREGS,t,0,&r);
      if(!h->insys){ h->insys=1; char d[2*PATH_MAX+64];
        if(relevant(t,&r,d,sizeof d)){
          if(hook){ char cmd[PATH_MAX+64]; snprintf(cmd,sizeof cmd,"%s %d",hook,counter); system(cmd); }
          fprintf(stderr,"FS %d tid=%d %s%s\n",counter,t,d,counter==failK?" <= FAIL":"");
          if(counter==failK){ r.orig_rax=-1; ptrace(PTRACE_SETREGS,t,0,&r); h->failing=1; }
          counter++;
        }
      } else { h->insys=0; if(h->failing){ h->failing=0; r.rax=-(long)failErr; ptrace(PTRACE_SETREGS,t,0,&r); } }
      ptrace(PTRACE_SYSCALL,t,0,0);
    } else if(sig==SIGTRAP && (st>>16)){ ptrace(PTRACE_SYSCALL,t,0,0); }
    else if(sig==SIGSTOP && get(t)->insys==0 && t!=child){ ptrace(PTRACE_SYSCALL,t,0,0); }
    else { ptrace(PTRACE_SYSCALL,t,0,(sig==SIGSTOP||sig==SIGTRAP)?0:sig); }
  }
  fprintf(stderr,"TRACER done calls=%d exit=%d\n",counter,exitcode); return exitcode<0?1:exitcode;
}
