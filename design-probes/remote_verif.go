//go:build ignore

// injected as /repo/backend/remote/zz_verif.go with `//go:build verif`
package remote

import (
	"fmt"
	"net/http"

	"github.com/openebs/jiva/types"
)

func NewForVerif(address string, controlAddress string, ios types.IOs) *Remote {
	return &Remote{
		IOs:         ios,
		Name:        address,
		replicaURL:  fmt.Sprintf("http://%s/v1/replicas/1", controlAddress),
		pingURL:     fmt.Sprintf("http://%s/ping", controlAddress),
		httpClient:  &http.Client{Timeout: timeout},
		closeChan:   make(chan struct{}, 5),
		monitorChan: make(types.MonitorChannel, 5),
	}
}

func (r *Remote) VerifOpen() error              { return r.open() }
func (r *Remote) VerifCloseChan() chan struct{} { return r.closeChan }
