//go:build ignore

// DESIGN-PHASE PROBE (not machinery): type-free AST rewrite of go/chan/select/close/range-over-channel plus the
// time/sync import shims. Usage: instr IN.go OUT.go [channel-range-expr...]   (module: require golang.org/x/tools v0.29.0)
// Verified: output for rpc/{client,server,wire}.go, backend/remote/remote.go, controller/{control,multi_writer_at,
// replicator}.go compiles against pass-through shims. KNOWN BUG to fix in the real tool: a SendStmt/recv in a select
// case *body* has the CommClause as parent too; compare with cc.Comm by identity instead of testing the parent type.
package main

import (
	"bytes"
	"fmt"
	"go/ast"
	"go/format"
	"go/parser"
	"go/token"
	"os"
	"strconv"
	"strings"

	"golang.org/x/tools/go/ast/astutil"
)

const shim = "github.com/openebs/jiva/verifshim/"

var chanRanges = map[string]bool{}
var counter int

func id(s string) *ast.Ident                          { return ast.NewIdent(s) }
func sel(p, n string) ast.Expr                        { return &ast.SelectorExpr{X: id(p), Sel: id(n)} }
func call(f ast.Expr, args ...ast.Expr) *ast.CallExpr { return &ast.CallExpr{Fun: f, Args: args} }
func src(fset *token.FileSet, n ast.Node) string {
	var b bytes.Buffer
	format.Node(&b, fset, n)
	return b.String()
}
func tmp(p string) string { counter++; return fmt.Sprintf("__%s%d", p, counter) }

func isRecv(e ast.Expr) (ast.Expr, bool) {
	if u, ok := e.(*ast.UnaryExpr); ok && u.Op == token.ARROW {
		return u.X, true
	}
	if p, ok := e.(*ast.ParenExpr); ok {
		return isRecv(p.X)
	}
	return nil, false
}

func rewriteSelect(s *ast.SelectStmt) ast.Stmt {
	iv, vv := tmp("i"), tmp("v")
	var cases []ast.Expr
	hasDefault := false
	sw := &ast.SwitchStmt{Tag: id(iv), Body: &ast.BlockStmt{}}
	idx := 0
	for _, c := range s.Body.List {
		cc := c.(*ast.CommClause)
		if cc.Comm == nil {
			hasDefault = true
			sw.Body.List = append(sw.Body.List, &ast.CaseClause{List: []ast.Expr{&ast.BasicLit{Kind: token.INT, Value: "-1"}}, Body: cc.Body})
			continue
		}
		var pre []ast.Stmt
		switch st := cc.Comm.(type) {
		case *ast.SendStmt:
			cases = append(cases, call(sel("vs", "S"), st.Chan, st.Value))
		case *ast.ExprStmt:
			ch, _ := isRecv(st.X)
			cases = append(cases, call(sel("vs", "R"), ch))
		case *ast.AssignStmt:
			ch, _ := isRecv(st.Rhs[0])
			cases = append(cases, call(sel("vs", "R"), ch))
			rhs := []ast.Expr{call(sel("vs", "As"), ch, id(vv))}
			if len(st.Lhs) == 2 {
				rhs = []ast.Expr{call(sel("vs", "As2"), ch, id(vv))}
			}
			pre = append(pre, &ast.AssignStmt{Lhs: st.Lhs, Tok: st.Tok, Rhs: rhs})
			if st.Tok == token.DEFINE { // avoid "declared and not used"
				for _, l := range st.Lhs {
					if n, ok := l.(*ast.Ident); ok && n.Name != "_" {
						pre = append(pre, &ast.AssignStmt{Lhs: []ast.Expr{id("_")}, Tok: token.ASSIGN, Rhs: []ast.Expr{id(n.Name)}})
					}
				}
			}
		}
		sw.Body.List = append(sw.Body.List, &ast.CaseClause{List: []ast.Expr{&ast.BasicLit{Kind: token.INT, Value: strconv.Itoa(idx)}}, Body: append(pre, cc.Body...)})
		idx++
	}
	args := append([]ast.Expr{id(fmt.Sprint(hasDefault))}, cases...)
	init := &ast.AssignStmt{Lhs: []ast.Expr{id(iv), id(vv)}, Tok: token.DEFINE, Rhs: []ast.Expr{call(sel("vs", "Select"), args...)}}
	use := &ast.AssignStmt{Lhs: []ast.Expr{id("_")}, Tok: token.ASSIGN, Rhs: []ast.Expr{id(vv)}}
	return &ast.BlockStmt{List: []ast.Stmt{init, use, sw}}
}

func rewriteGo(g *ast.GoStmt) ast.Stmt {
	var pre []ast.Stmt
	c := g.Call
	fn := c.Fun
	if _, lit := fn.(*ast.FuncLit); !lit {
		f := tmp("f")
		pre = append(pre, &ast.AssignStmt{Lhs: []ast.Expr{id(f)}, Tok: token.DEFINE, Rhs: []ast.Expr{fn}})
		fn = id(f)
	}
	var args []ast.Expr
	for _, a := range c.Args {
		t := tmp("a")
		pre = append(pre, &ast.AssignStmt{Lhs: []ast.Expr{id(t)}, Tok: token.DEFINE, Rhs: []ast.Expr{a}})
		args = append(args, id(t))
	}
	inner := &ast.CallExpr{Fun: fn, Args: args, Ellipsis: c.Ellipsis}
	lit := &ast.FuncLit{Type: &ast.FuncType{Params: &ast.FieldList{}}, Body: &ast.BlockStmt{List: []ast.Stmt{&ast.ExprStmt{X: inner}}}}
	pre = append(pre, &ast.ExprStmt{X: call(sel("vs", "Go"), lit)})
	return &ast.BlockStmt{List: pre}
}

func main() {
	in, out := os.Args[1], os.Args[2]
	for _, r := range os.Args[3:] {
		chanRanges[r] = true
	}
	fset := token.NewFileSet()
	f, err := parser.ParseFile(fset, in, nil, parser.ParseComments)
	if err != nil {
		panic(err)
	}
	used := false
	res := astutil.Apply(f, nil, func(c *astutil.Cursor) bool {
		switch n := c.Node().(type) {
		case *ast.SelectStmt:
			c.Replace(rewriteSelect(n))
			used = true
		case *ast.GoStmt:
			c.Replace(rewriteGo(n))
			used = true
		case *ast.SendStmt:
			if _, inSel := c.Parent().(*ast.CommClause); !inSel { // BUG: also true for statements of the case body
				c.Replace(&ast.ExprStmt{X: call(sel("vs", "Send"), n.Chan, n.Value)})
				used = true
			}
		case *ast.AssignStmt:
			if len(n.Rhs) == 1 {
				if ch, ok := isRecv(n.Rhs[0]); ok {
					if _, inSel := c.Parent().(*ast.CommClause); !inSel {
						fn := "Recv"
						if len(n.Lhs) == 2 {
							fn = "Recv2"
						}
						n.Rhs[0] = call(sel("vs", fn), ch)
						used = true
					}
				}
			}
		case *ast.ExprStmt:
			if ch, ok := isRecv(n.X); ok {
				if _, inSel := c.Parent().(*ast.CommClause); !inSel {
					n.X = call(sel("vs", "Recv"), ch)
					used = true
				}
			}
		case *ast.CallExpr:
			if i, ok := n.Fun.(*ast.Ident); ok && i.Name == "close" && len(n.Args) == 1 {
				n.Fun = sel("vs", "Close")
				used = true
			}
		case *ast.RangeStmt:
			if chanRanges[src(fset, n.X)] {
				ok := tmp("ok")
				key := n.Key
				if key == nil {
					key = id("_")
				}
				recv := &ast.AssignStmt{Lhs: []ast.Expr{key, id(ok)}, Tok: token.DEFINE, Rhs: []ast.Expr{call(sel("vs", "Recv2"), n.X)}}
				brk := &ast.IfStmt{Cond: &ast.UnaryExpr{Op: token.NOT, X: id(ok)}, Body: &ast.BlockStmt{List: []ast.Stmt{&ast.BranchStmt{Tok: token.BREAK}}}}
				body := append([]ast.Stmt{recv, brk}, n.Body.List...)
				c.Replace(&ast.ForStmt{Body: &ast.BlockStmt{List: body}})
				used = true
			}
		}
		return true
	})
	f = res.(*ast.File)
	for _, im := range f.Imports {
		p, _ := strconv.Unquote(im.Path.Value)
		if p == "time" || p == "sync" {
			im.Path.Value = strconv.Quote(shim + "v" + p)
			im.Name = id(p)
		}
	}
	if used {
		astutil.AddNamedImport(fset, f, "vs", shim+"vs")
	}
	var b bytes.Buffer
	if err := format.Node(&b, fset, f); err != nil {
		panic(err)
	}
	s := b.String()
	if strings.Contains(s, "<-") {
		fmt.Fprintln(os.Stderr, "NOTE: residual '<-' tokens (types or unhandled ops) in", in)
		for i, l := range strings.Split(s, "\n") {
			if strings.Contains(l, "<-") {
				fmt.Fprintf(os.Stderr, "  %d: %s\n", i+1, strings.TrimSpace(l))
			}
		}
	}
	os.WriteFile(out, b.Bytes(), 0644)
}
