package ec

import (
	"bufio"
	"bytes"
	"encoding/json"
	"fmt"
	"os"
	"os/exec"
	"path/filepath"
	"strconv"
	"strings"
	"syscall"
	"time"

	"verif/harness/ea"
	"verif/harness/kernel"
)

// Pair is one (pre-state, operation) of the enumeration.
type Pair struct {
	Blocks  int      `json:"blocks"`
	History []string `json:"history"`         // built with the real code; see BuildPre
	Dirty   bool     `json:"dirty,omitempty"` // pre-state left by a killed process instead of a clean close
	Op      string   `json:"op"`
}

func (p Pair) String() string {
	d := ""
	if p.Dirty {
		d = " (not closed)"
	}
	return fmt.Sprintf("[%s]%s -> %s", strings.Join(p.History, " "), d, p.Op)
}

// Job is a request to a worker: the whole pair, or exactly one case of it (verification re-runs, replay).
type Job struct {
	Pair
	Kind   string `json:"kind"`             // pair | crash | fail | lint | cont
	K      int    `json:"k"`                // crash: death just before counted call K (K = number of calls: after the last one); fail/lint: call K
	Errno  string `json:"errno,omitempty"`  // fail: ENOSPC | EIO
	C10    bool   `json:"c10,omitempty"`    // only the revision-counter crash clause (C10crash): crash states only
	Script string `json:"script,omitempty"` // cont: the continuation script run on crash state K
	Quick  bool   `json:"quick,omitempty"`  // pair: quick tier (continuations restricted, see contOp/scripts)
}

// Call is one counted file-system call of the operation (a line of the tracer log).
type Call struct {
	K        int    `json:"k"`
	Tid      int    `json:"tid"`
	Sys      string `json:"sys"`
	Path     string `json:"path"`
	Path2    string `json:"path2,omitempty"`
	Flags    string `json:"flags,omitempty"`
	Len      *int64 `json:"len,omitempty"`
	Off      *int64 `json:"off,omitempty"`
	Creates  bool   `json:"creates,omitempty"`
	Injected bool   `json:"injected,omitempty"`
	Ret      int64  `json:"ret"`
}

// norm is the part of a call that must repeat exactly from run to run.
func (c Call) norm() string {
	s := c.Sys + "(" + c.Path
	if c.Path2 != "" {
		s += "->" + c.Path2
	}
	if c.Flags != "" {
		s += "," + c.Flags
	}
	if c.Len != nil {
		s += fmt.Sprintf(",len=%d", *c.Len)
	}
	if c.Off != nil {
		s += fmt.Sprintf(",off=%d", *c.Off)
	}
	s += ")"
	return s
}

func (c Call) String() string {
	r := "ok"
	if c.Ret < 0 {
		r = syscall.Errno(-c.Ret).Error()
	}
	s := fmt.Sprintf("#%d %s = %s", c.K, c.norm(), r)
	if c.Injected {
		s += " [injected]"
	}
	return s
}

func (c Call) class(oldHead string) string {
	s := c.Sys + "(" + pathClass(c.Path, oldHead)
	if c.Path2 != "" {
		s += "->" + pathClass(c.Path2, oldHead)
	}
	return s + ")"
}

// Finding is one oracle failure on one case.
type Finding struct {
	Pair      Pair   `json:"pair"`
	Kind      string `json:"kind"`
	K         int    `json:"k"`
	Errno     string `json:"errno,omitempty"`
	Script    string `json:"script,omitempty"`
	Oracle    string `json:"oracle"`
	Signature string `json:"signature"`
	What      string `json:"what"`
	Detail    string `json:"detail"`
}

// Result is what a worker reports about a job.
type Result struct {
	Pair          Pair      `json:"pair"`
	Calls         int       `json:"calls"`
	CrashStates   int       `json:"crash_states"`    // crash states judged (death before each call, and after the last)
	CrashRecover  int       `json:"crash_recovered"` // of those, distinct directory contents actually reopened (equal contents share the verdict)
	FailRuns      int       `json:"fail_runs"`
	Continuations int       `json:"continuations"`    // continuation scripts run on crash states
	ContStates    int       `json:"continued_states"` // distinct accepted crash states that were continued
	LintCalls     int       `json:"lint_calls"`
	Recoveries    int       `json:"recoveries"`
	RevertChecks  int       `json:"revert_checks"`
	VictimRuns    int       `json:"victim_runs"`
	C10Points     int       `json:"c10_points"`
	C10Bad        int       `json:"c10_bad"`
	OtherThread   int       `json:"other_thread_calls"`
	OtherCalls    []string  `json:"other_thread_detail,omitempty"`
	Findings      []Finding `json:"findings,omitempty"`
	HarnessErr    string    `json:"harness_err,omitempty"`
	Trace         []string  `json:"trace,omitempty"`
	OpErr         string    `json:"op_err,omitempty"`
	Verbose       []string  `json:"verbose,omitempty"`
	WallMs        int64     `json:"wall_ms"`
}

var (
	scratchBase string
	jobSeq      int
)

// Scratch returns (creating it) this process's scratch directory: $VERIF_EC_SCRATCH/w<pid> under a coordinator,
// /tmp/verif-ec-<pid> when run alone.
func Scratch() string {
	if scratchBase == "" {
		if b := os.Getenv("VERIF_EC_SCRATCH"); b != "" {
			scratchBase = filepath.Join(b, fmt.Sprintf("w%d", os.Getpid()))
		} else {
			scratchBase = fmt.Sprintf("/tmp/verif-ec-%d", os.Getpid())
		}
		os.RemoveAll(scratchBase)
		if err := os.MkdirAll(scratchBase, 0755); err != nil {
			panic(err)
		}
	}
	return scratchBase
}

func Cleanup() {
	if scratchBase != "" {
		os.RemoveAll(scratchBase)
	}
}

func fstracePath() string { return filepath.Join(kernel.VerifDir, "build", "fstrace") }

type runOut struct {
	otherCalls []string
	calls      []Call
	others     int
	rep        *Report
	exit       int
	start      bool
	end        bool
	stderr     string
}

// traced runs the victim on dir under the tracer.
// tracedAfter is handed to the victim as VERIF_EC_AFTER (what it does after the operation: "", "retry", "close").
var tracedAfter string

func traced(dir string, blocks int, vop string, extra ...string) (*runOut, error) {
	self, err := os.Executable()
	if err != nil {
		return nil, err
	}
	logp := dir + ".log"
	args := append([]string{"--dir", dir, "--log", logp}, extra...)
	args = append(args, "--", self, "victim", dir, strconv.Itoa(blocks), vop)
	cmd := exec.Command(fstracePath(), args...)
	cmd.Env = append(os.Environ(), "VERIF_EC_AFTER="+tracedAfter)
	var so, se bytes.Buffer
	cmd.Stdout, cmd.Stderr = &so, &se
	done := make(chan error, 1)
	if err := cmd.Start(); err != nil {
		return nil, err
	}
	go func() { done <- cmd.Wait() }()
	select {
	case err = <-done:
	case <-time.After(60 * time.Second):
		cmd.Process.Kill()
		<-done
		return nil, fmt.Errorf("traced victim timed out (60 s); stderr: %s", se.String())
	}
	out := &runOut{stderr: se.String()}
	if ee, ok := err.(*exec.ExitError); ok {
		out.exit = ee.ExitCode()
	} else if err != nil {
		return nil, err
	}
	defer os.Remove(logp)
	lf, err := os.Open(logp)
	if err != nil {
		return nil, fmt.Errorf("tracer log: %v; stderr: %s", err, se.String())
	}
	defer lf.Close()
	sc := bufio.NewScanner(lf)
	sc.Buffer(make([]byte, 1<<20), 1<<20)
	for sc.Scan() {
		line := sc.Bytes()
		var probe struct {
			Marker int   `json:"marker"`
			Done   bool  `json:"done"`
			K      *int  `json:"k"`
			Start  int   `json:"start"`
			End    int   `json:"end"`
			Others int   `json:"other_thread_calls"`
			Exit   int   `json:"exit"`
			Tid    int   `json:"tid"`
			Ret    int64 `json:"ret"`
		}
		if err := json.Unmarshal(line, &probe); err != nil {
			return nil, fmt.Errorf("tracer log line %q: %v", line, err)
		}
		switch {
		case probe.Marker == 2:
			out.others = probe.Others
		case probe.Done:
			out.start, out.end = probe.Start == 1, probe.End == 1
		case probe.K != nil && *probe.K < 0:
			var c Call
			json.Unmarshal(line, &c)
			out.otherCalls = append(out.otherCalls, c.norm())
		case probe.K != nil && *probe.K >= 0:
			var c Call
			json.Unmarshal(line, &c)
			out.calls = append(out.calls, c)
		}
	}
	for _, l := range strings.Split(so.String(), "\n") {
		l = strings.TrimSpace(l)
		if strings.HasPrefix(l, "{") {
			var r Report
			if json.Unmarshal([]byte(l), &r) == nil {
				out.rep = &r
			}
		}
	}
	if out.rep == nil {
		return out, fmt.Errorf("victim printed no report (exit %d); stderr: %s", out.exit, se.String())
	}
	if out.rep.SetupErr != "" {
		return out, fmt.Errorf("victim set-up failed: %s", out.rep.SetupErr)
	}
	if !out.start {
		return out, fmt.Errorf("tracer saw no start marker")
	}
	// calls are logged at their exit stop; order them by ordinal
	for i := range out.calls {
		for j := i + 1; j < len(out.calls); j++ {
			if out.calls[j].K < out.calls[i].K {
				out.calls[i], out.calls[j] = out.calls[j], out.calls[i]
			}
		}
	}
	return out, nil
}

func traceNorm(cs []Call) []string {
	var s []string
	for _, c := range cs {
		s = append(s, c.norm())
	}
	return s
}

// samePrefix compares the first n calls of two traces.
func samePrefix(a, b []Call, n int) string {
	for i := 0; i < n; i++ {
		if i >= len(a) || i >= len(b) {
			return fmt.Sprintf("trace lengths differ (%d vs %d, comparing %d)", len(a), len(b), n)
		}
		if a[i].norm() != b[i].norm() {
			return fmt.Sprintf("call %d differs: %s vs %s", i, a[i].norm(), b[i].norm())
		}
	}
	return ""
}

// victimOp turns the abstract operation of a pair into the victim's argument and computes the models.
func prepareExpect(p Pair, pre *Pre) (vop string, e *expect, err error) {
	f := strings.Split(p.Op, ":")
	e = &expect{op: f, blocks: p.Blocks}
	if f[0] == "Create" {
		e.create = true
		e.m1 = ea.NewModel(p.Blocks * ea.SPB)
		e.m1.Open, e.m1.Mode = true, "RW"
		e.rev0, e.rev1 = 1, 1
		return "Create", e, nil
	}
	m0 := pre.M.Clone()
	vop = p.Op
	bad := func() (string, *expect, error) {
		return "", nil, fmt.Errorf("operation %s is not enabled in this pre-state", p.Op)
	}
	switch f[0] {
	case "Recreate":
		e.create = true
		vop = "Create"
	case "W", "WWO":
		vop = fmt.Sprintf("%s:%s:%s:%d", f[0], f[1], f[2], m0.NW+1)
		e.wr = [2]int{atoi(f[1]), atoi(f[2])}
	case "SnapU", "SnapA":
		vop = fmt.Sprintf("%s:s%d", f[0], m0.NSnap+1)
	case "Revert":
		i := atoi(f[1])
		if i < 0 || i >= len(m0.Chain) {
			return bad()
		}
		vop = "Revert:" + ea.Disk(m0.Chain[i].Name)
	case "Replace":
		// ReplaceDisk(target = member i-1, source = member i): the source's file takes the target's name and the
		// source leaves the chain.  Only where the source's file already holds every block of the target's (so that no
		// coalesce step is needed) and neither is promised.
		i := atoi(f[1])
		if !replaceEnabled(m0, i) {
			return bad()
		}
		m0.Chain[i].Removed = true // set-up: PrepareRemoveDisk of the source
	case "Rm", "Fold":
		i := atoi(f[1])
		if i < 1 || i > len(m0.Chain)-2 || m0.Chain[i-1].Retained() {
			return bad()
		}
		m0.Chain[i].Removed = true // the victim's set-up: PrepareRemoveDisk …
		if f[0] == "Rm" {
			m0.Chain[i-1].Img = append([]uint8(nil), m0.Chain[i].Img...) // … and the fold
		}
	case "Rebuild":
		if f[1] == "f" {
			m0.Rebuilding = true
		}
	case "CloneInfo":
		if m0.CloneOf == "" {
			return bad()
		}
		vop = fmt.Sprintf("CloneInfo:%s:%d", m0.CloneOf, pre.CloneRev)
	}
	m1 := m0.Clone()
	switch f[0] {
	case "CloneInfo":
		// the head is rewired on top of the copied snapshot: the copied files become the chain, the volume reads the
		// snapshot's image, the counter is the one the source recorded for the snapshot
		m1.Chain, m1.Orphans = m1.Orphans, nil
		m1.Live = append([]uint8(nil), m1.Chain[len(m1.Chain)-1].Img...)
		m1.Rev = pre.CloneRev
		m1.CloneOf = ""
	case "Open", "Close", "Reload", "Recreate":
	case "Rm", "Replace":
		m1.Remove(atoi(f[1]))
	case "WWO":
		m1.Write(atoi(f[1]), atoi(f[2])) // applied, but a write-only (rebuilding) replica does not count it
	case "Fold":
		i := atoi(f[1])
		m1.Chain[i-1].Img = append([]uint8(nil), m1.Chain[i].Img...)
	default:
		if !applyModel(m1, p.Op) {
			return bad()
		}
	}
	e.m0, e.m1 = m0, m1
	e.rev0, e.rev1 = m0.Rev, m1.Rev
	return vop, e, nil
}

type jobCtx struct {
	job  *Job
	res  *Result
	base string
	pre  *Pre
	e    *expect
	vop  string
	ref  *runOut
	st   ostats
	verb bool
}

func (x *jobCtx) say(f string, a ...interface{}) {
	if x.verb {
		x.res.Verbose = append(x.res.Verbose, fmt.Sprintf(f, a...))
	}
}

// fresh makes base/<name> a fresh copy of the pre-state.
func (x *jobCtx) fresh(name string) (string, error) {
	d := filepath.Join(x.base, name)
	os.RemoveAll(d)
	if x.job.Op == "Create" {
		return d, os.MkdirAll(d, 0755)
	}
	return d, copyDir(filepath.Join(x.base, "pre"), d)
}

func (x *jobCtx) oldHead() string {
	if len(x.e.chain0) > 0 {
		return x.e.chain0[0]
	}
	return ""
}

func (x *jobCtx) finding(kind string, k int, errno string, v *verdict, what string) {
	oc := opClass(x.job.Op)
	var sig string
	switch kind {
	case "crash":
		after := "start"
		if k > 0 {
			after = fmt.Sprintf("#%d:%s", k-1, x.ref.calls[k-1].class(x.oldHead()))
		}
		sig = fmt.Sprintf("crash:%s:after:%s:%s", oc, after, v.oracle)
	case "fail":
		if callSiteOracle[v.oracle] || (oc == "UpdateCloneInfo" && v.oracle == "revision-counter-old") {
			// by-the-letter classes that cannot be repaired by a small patch: the signature names the call site, not
			// every ordinal and errno at which it shows
			sig = fmt.Sprintf("fail:%s:%s:%s", oc, x.ref.calls[k].class(x.oldHead()), v.oracle)
		} else {
			sig = fmt.Sprintf("fail:%s:#%d:%s:%s:%s", oc, k, x.ref.calls[k].class(x.oldHead()), errno, v.oracle)
		}
	case "lint":
		sig = fmt.Sprintf("lint:%s:#%d:%s:%s", oc, k, x.ref.calls[k].class(x.oldHead()), v.oracle)
	case "nofault":
		sig = fmt.Sprintf("nofault:%s:%s", oc, v.oracle)
	}
	x.res.Findings = append(x.res.Findings, Finding{Pair: x.job.Pair, Kind: kind, K: k, Errno: errno, Oracle: v.oracle, Signature: sig, What: what, Detail: v.detail})
}

var callSiteOracle = map[string]bool{"failure-reported-but-effect-in-place": true, "success-after-failed-flush": true, "after-failure-then-close:failure-reported-but-effect-in-place": true}

// RunJob executes one job in this process (pre-state and recoveries in-process, victims as traced child processes).
func RunJob(job *Job, verbose bool) (res *Result) {
	t0 := time.Now()
	res = &Result{Pair: job.Pair}
	jobSeq++
	x := &jobCtx{job: job, res: res, base: filepath.Join(Scratch(), fmt.Sprintf("j%d", jobSeq)), verb: verbose}
	defer func() {
		if r := recover(); r != nil {
			res.HarnessErr = fmt.Sprintf("harness panic: %v", r)
			Poisoned = true
		}
		os.RemoveAll(x.base)
		res.Recoveries, res.RevertChecks = x.st.recoveries, x.st.revertChecks
		res.WallMs = time.Since(t0).Milliseconds()
	}()
	os.MkdirAll(x.base, 0755)
	herr := func(f string, a ...interface{}) *Result { res.HarnessErr = fmt.Sprintf(f, a...); return res }

	// 1. pre-state, models
	if job.Op != "Create" {
		pre, err := BuildPre(filepath.Join(x.base, "pre"), job.Blocks, job.History, job.Dirty)
		if err != nil {
			return herr("pre-state: %v", err)
		}
		x.pre = pre
	}
	vop, e, err := prepareExpect(job.Pair, x.pre)
	if err != nil {
		return herr("%v", err)
	}
	x.vop, x.e = vop, e

	// 2. reference run, twice: the counted call sequence must repeat exactly
	var refs [2]*runOut
	var refDir string
	for i := 0; i < 2; i++ {
		d, err := x.fresh("ref")
		if err != nil {
			return herr("copy: %v", err)
		}
		refDir = d
		o, err := traced(d, job.Blocks, vop)
		res.VictimRuns++
		if err != nil {
			return herr("reference run: %v", err)
		}
		if !o.end {
			return herr("reference run: no end marker (exit %d) report %+v", o.exit, o.rep)
		}
		if o.rep.Failed {
			return herr("reference run: the operation fails without any injected fault: %s %s %s", o.rep.Err, o.rep.Fatal, o.rep.Panic)
		}
		refs[i] = o
	}
	if len(refs[0].calls) != len(refs[1].calls) {
		return herr("nondeterministic victim: %d vs %d counted calls", len(refs[0].calls), len(refs[1].calls))
	}
	if d := samePrefix(refs[0].calls, refs[1].calls, len(refs[0].calls)); d != "" {
		return herr("nondeterministic victim: %s", d)
	}
	if !eqs(refs[0].rep.ChainAfter, refs[1].rep.ChainAfter) || refs[0].rep.RevAfter != refs[1].rep.RevAfter {
		return herr("nondeterministic victim: reports differ")
	}
	ref := refs[1]
	x.ref = ref
	res.Calls = len(ref.calls)
	res.OtherThread = ref.others
	res.OtherCalls = ref.otherCalls
	res.Trace = traceNorm(ref.calls)
	n := len(ref.calls)
	for _, c := range ref.calls {
		x.say("   %s", c.String())
	}
	// real chains and counters as reported by the real code
	switch e.op[0] {
	case "Create":
		e.chain0, e.chain1 = nil, []string{"volume-head-000.img"}
	case "Recreate":
		e.chain0, e.chain1 = x.pre.Chain, x.pre.Chain
	case "Open":
		e.chain0, e.chain1 = x.pre.Chain, ref.rep.ChainAfter
	case "Close":
		e.chain0, e.chain1 = ref.rep.ChainBefore, ref.rep.ChainBefore
	case "CloneInfo":
		// the process that rewired the head cannot list its chain before the reload that follows (its in-memory tables
		// predate the copied files): the expected chain is the head on top of the copied snapshots, newest first
		e.chain0 = ref.rep.ChainBefore
		e.chain1 = append([]string{}, ref.rep.ChainBefore[:1]...)
		for i := len(e.m1.Chain) - 1; i >= 0; i-- {
			e.chain1 = append(e.chain1, ea.Disk(e.m1.Chain[i].Name))
		}
	default:
		e.chain0, e.chain1 = ref.rep.ChainBefore, ref.rep.ChainAfter
	}
	if e.op[0] != "Create" && e.op[0] != "Recreate" && e.op[0] != "Open" {
		if ref.rep.RevBefore != e.rev0 {
			return herr("reference run: revision counter before the operation %d, model %d", ref.rep.RevBefore, e.rev0)
		}
		if e.op[0] != "Close" && ref.rep.RevAfter != e.rev1 {
			// the implementation disagrees with the model without any fault: E-A's business (C10), not a crash finding
			return herr("reference run: revision counter after the operation %d, model %d", ref.rep.RevAfter, e.rev1)
		}
	}
	if len(e.chain1) != len(e.m1.Chain)+1 || (e.m0 != nil && len(e.chain0) != len(e.m0.Chain)+1) {
		return herr("reference run: chains %v -> %v do not have the model's lengths", e.chain0, e.chain1)
	}
	x.say("operation %s: %d counted calls; chain %v -> %v; rev %d -> %d", vop, n, e.chain0, e.chain1, e.rev0, e.rev1)

	doCrash := func(k int, dir string) *verdict { return e.check(dir, "crash", &x.st) }

	switch job.Kind {
	case "pair":
		// the state the fault-free run leaves must be the complete new state (also validates the oracle)
		if v := e.check(refDir, "new", &x.st); v != nil {
			// Without any fault the directory the operation leaves is not the complete new state.  If it is not even an
			// acceptable crash state (process death right after the operation returned) that is a finding of its own
			// and the rest of the pair is skipped; otherwise the model and the code disagree (E-A's business).
			if err := x.crashOne(n); err != nil {
				return herr("%v", err)
			}
			if len(res.Findings) > 0 {
				f := &res.Findings[len(res.Findings)-1]
				f.What += " - NO fault injected: the operation itself leaves this state"
				return res
			}
			if ref.rep.Err == "" {
				// The operation returned success, the process dies right after it: the directory is an acceptable crash
				// state (the old one) but not the complete new state - the acknowledged effect is not durable
				// ("once an operation has returned success its effect is durable").  On the unchanged tree this never
				// fires; if the reference model were wrong it would show here as well, so the detail names the oracle.
				x.finding("nofault", n, "", &verdict{oracle: "success-not-durable:" + v.oracle, detail: v.detail},
					fmt.Sprintf("%s returned success without any fault, but a process death right after it leaves the OLD state: the acknowledged effect is not on disk", vop))
				return res
			}
			return herr("oracle rejects the state left by the fault-free reference run: %s: %s", v.oracle, v.detail)
		}
		if !job.C10 {
			x.lint(-1)
		}
		if err := x.crashAll(doCrash); err != nil {
			return herr("%v", err)
		}
		if !job.C10 {
			if err := x.failAll(); err != nil {
				return herr("%v", err)
			}
		} else if strings.HasPrefix(job.Op, "W:") || strings.HasPrefix(job.Op, "WWO:") {
			// C10: "counts applied writes exactly" - every single failing call of a write: a write that reported failure
			// has not moved the counter (only the counter verdicts belong to C10; the rest is C08's business)
			before := len(x.res.Findings)
			if err := x.failAll(); err != nil {
				return herr("%v", err)
			}
			kept := x.res.Findings[:before]
			for _, f := range x.res.Findings[before:] {
				if strings.Contains(f.Oracle, "revision-counter") {
					kept = append(kept, f)
				}
			}
			x.res.Findings = kept
		}
	case "crash":
		if job.K < 0 || job.K > n {
			return herr("crash index %d out of range 0..%d", job.K, n)
		}
		if err := x.crashOne(job.K); err != nil {
			return herr("%v", err)
		}
	case "fail":
		if job.K < 0 || job.K >= n {
			return herr("call %d out of range 0..%d", job.K, n-1)
		}
		if err := x.failOne(job.K, job.Errno); err != nil {
			return herr("%v", err)
		}
	case "lint":
		x.lint(job.K)
	case "nofault":
		// re-run of a "success is not durable" finding: the state the fault-free run leaves must be the complete new state
		if v := e.check(refDir, "new", &x.st); v != nil && ref.rep.Err == "" {
			x.finding("nofault", n, "", &verdict{oracle: "success-not-durable:" + v.oracle, detail: v.detail},
				fmt.Sprintf("%s returned success without any fault, but a process death right after it leaves the OLD state: the acknowledged effect is not on disk", vop))
		}
	case "cont":
		if job.K < 0 || job.K > n {
			return herr("crash index %d out of range 0..%d", job.K, n)
		}
		if err := x.contOne(job.K, job.Script); err != nil {
			return herr("%v", err)
		}
	default:
		return herr("unknown job kind %q", job.Kind)
	}
	return res
}

// snapRun runs the victim once with --snap-each and returns the directory holding the crash states 0..n-1 and final.
func (x *jobCtx) snapRun() (string, error) {
	d, err := x.fresh("snaprun")
	if err != nil {
		return "", err
	}
	out := filepath.Join(x.base, "states")
	os.RemoveAll(out)
	o, err := traced(d, x.job.Blocks, x.vop, "--snap-each", out)
	x.res.VictimRuns++
	if err != nil {
		return "", fmt.Errorf("snap-each run: %v", err)
	}
	if len(o.calls) != len(x.ref.calls) {
		return "", fmt.Errorf("nondeterministic victim: snap-each run made %d counted calls, reference %d", len(o.calls), len(x.ref.calls))
	}
	if dd := samePrefix(o.calls, x.ref.calls, len(o.calls)); dd != "" {
		return "", fmt.Errorf("nondeterministic victim (snap-each run): %s", dd)
	}
	os.RemoveAll(d)
	return out, nil
}

func (x *jobCtx) stateDir(states string, k int) string {
	if k == len(x.ref.calls) {
		return filepath.Join(states, "final")
	}
	return filepath.Join(states, strconv.Itoa(k))
}

func (x *jobCtx) crashWhat(k int) string {
	n := len(x.ref.calls)
	switch {
	case k == 0:
		return "process death before the first file-system call of the operation"
	case k == n:
		return fmt.Sprintf("process death right after the last call %s (operation complete, not yet acknowledged)", x.ref.calls[k-1].String())
	}
	return fmt.Sprintf("process death between %s and %s", x.ref.calls[k-1].String(), x.ref.calls[k].String())
}

func (x *jobCtx) crashAll(judge func(int, string) *verdict) error {
	states, err := x.snapRun()
	if err != nil {
		return err
	}
	defer os.RemoveAll(states)
	n := len(x.ref.calls)
	seen := map[string]*verdict{}
	known := map[string]bool{}
	for k := 0; k <= n; k++ {
		d := x.stateDir(states, k)
		if _, err := os.Stat(d); err != nil {
			return fmt.Errorf("crash state %d missing: %v", k, err)
		}
		dg := digest(d)
		x.res.CrashStates++
		var v *verdict
		if known[dg] {
			v = seen[dg]
		} else {
			cont := !x.job.C10 && contOp(x.job.Op, x.job.Quick)
			pristine := d + ".p"
			if cont {
				if err := copyDir(d, pristine); err != nil {
					return err
				}
			}
			v = judge(k, d)
			known[dg], seen[dg] = true, v
			x.res.CrashRecover++
			if cont && v == nil {
				if err := x.continuations(k, pristine, x.e.lastRC, x.job.Quick, ""); err != nil {
					return err
				}
			}
			os.RemoveAll(pristine)
		}
		os.RemoveAll(d)
		x.c10(v)
		if v != nil {
			if k == 0 {
				return fmt.Errorf("oracle rejects the pre-state itself (crash state 0): %s: %s", v.oracle, v.detail)
			}
			x.finding("crash", k, "", v, x.crashWhat(k))
		}
	}
	return nil
}

func (x *jobCtx) crashOne(k int) error {
	states, err := x.snapRun()
	if err != nil {
		return err
	}
	defer os.RemoveAll(states)
	d := x.stateDir(states, k)
	if x.verb {
		x.say("crash state %d (%s):", k, x.crashWhat(k))
		x.listDir(d)
	}
	x.res.CrashStates++
	x.res.CrashRecover++
	v := x.e.check(d, "crash", &x.st)
	x.c10(v)
	if v != nil {
		x.finding("crash", k, "", v, x.crashWhat(k))
	}
	return nil
}

// c10 counts one crash point of the revision-counter clause (C10): writes in RW and WO mode and SetRevisionCounter.
func (x *jobCtx) c10(v *verdict) {
	switch x.e.op[0] {
	case "W", "WWO", "SetRev":
		x.res.C10Points++
		if v != nil && strings.HasPrefix(v.oracle, "revision-counter") {
			x.res.C10Bad++
		}
	}
}

// contOne: one continuation script on crash state k (verification re-runs, replay).
func (x *jobCtx) contOne(k int, scriptID string) error {
	states, err := x.snapRun()
	if err != nil {
		return err
	}
	defer os.RemoveAll(states)
	d := x.stateDir(states, k)
	if x.verb {
		x.say("crash state %d (%s):", k, x.crashWhat(k))
		x.listDir(d)
	}
	pristine := d + ".p"
	if err := copyDir(d, pristine); err != nil {
		return err
	}
	defer os.RemoveAll(pristine)
	x.res.CrashStates++
	x.res.CrashRecover++
	if v := x.e.check(d, "crash", &x.st); v != nil {
		x.finding("crash", k, "", v, x.crashWhat(k))
		return nil
	}
	return x.continuations(k, pristine, x.e.lastRC, false, scriptID)
}

func (x *jobCtx) listDir(d string) {
	ents, _ := os.ReadDir(d)
	for _, en := range ents {
		if fi, err := en.Info(); err == nil {
			x.say("      %-34s %6d bytes", en.Name(), fi.Size())
		}
	}
}

var errnos = map[string]int{"ENOSPC": int(syscall.ENOSPC), "EIO": int(syscall.EIO)}

// errnosFor: EIO for every call; ENOSPC for the calls that can need space.
func errnosFor(c Call) []string {
	switch c.Sys {
	case "openat":
		if strings.Contains(c.Flags, "O_CREAT") {
			return []string{"ENOSPC", "EIO"}
		}
		return []string{"EIO"}
	case "write", "pwrite64", "rename", "link", "mkdir", "fallocate", "truncate", "ftruncate":
		return []string{"ENOSPC", "EIO"}
	}
	return []string{"EIO"}
}

func (x *jobCtx) failAll() error {
	for k, c := range x.ref.calls {
		for _, en := range errnosFor(c) {
			if err := x.failOne(k, en); err != nil {
				return err
			}
		}
	}
	return nil
}

func (x *jobCtx) failOne(k int, en string) error {
	code, ok := errnos[en]
	if !ok {
		return fmt.Errorf("unknown errno %q", en)
	}
	d, err := x.fresh("fail")
	if err != nil {
		return err
	}
	defer os.RemoveAll(d)
	o, err := traced(d, x.job.Blocks, x.vop, "--fail", strconv.Itoa(k), strconv.Itoa(code))
	x.res.VictimRuns++
	if err != nil {
		return fmt.Errorf("fail run #%d %s: %v", k, en, err)
	}
	if dd := samePrefix(o.calls, x.ref.calls, k+1); dd != "" {
		return fmt.Errorf("nondeterministic victim (fail run #%d): %s", k, dd)
	}
	if !o.calls[k].Injected || o.calls[k].Ret != -int64(code) {
		return fmt.Errorf("fail run #%d: the tracer did not inject (%s)", k, o.calls[k].String())
	}
	x.res.FailRuns++
	c := x.ref.calls[k]
	what := fmt.Sprintf("call %s made to fail with %s", c.String(), en)
	mode := "new"
	outcome := "the operation reported success"
	switch {
	case o.rep.Fatal != "" || o.rep.Panic != "":
		mode = "crash"
		outcome = "the process died (" + firstLine(o.rep.Fatal+o.rep.Panic) + ")"
	case o.rep.Failed:
		mode = "old"
		outcome = "the operation reported failure (" + o.rep.Err + ")"
	}
	if x.verb {
		x.say("%s; %s; calls after the injected one:", what, outcome)
		for _, cc := range o.calls[k:] {
			x.say("   %s", cc.String())
		}
		x.say("directory left behind:")
		x.listDir(d)
	}
	v := x.e.check(d, mode, &x.st)
	if v != nil {
		v.detail = outcome + "; " + v.detail
		if mode == "new" {
			v.oracle = "success-over-damage:" + v.oracle
		}
		x.finding("fail", k, en, v, what)
		return nil
	}
	if mode == "old" && en == "EIO" && x.job.Op != "Close" {
		// The operation reported the failure and left the directory intact - but the process is still alive.  What its
		// memory holds shows in what it does next: (a) an orderly close must still leave the old state (nothing of the
		// refused operation may have stayed in memory); (b) the same request issued again, if it now reports success,
		// must have its complete effect on disk when the process dies right afterwards.
		afters := []string{"close", "retry"}
		if strings.HasPrefix(x.job.Op, "W:") || strings.HasPrefix(x.job.Op, "WWO:") {
			// a replica that failed a write is detached and rebuilt: nobody re-issues the write on it (and what a block
			// holds after a failed write is not defined)
			afters = []string{"close"}
		}
		for _, after := range afters {
			d2, err := x.fresh("fail-" + after)
			if err != nil {
				return err
			}
			tracedAfter = after
			o2, err := traced(d2, x.job.Blocks, x.vop, "--fail", strconv.Itoa(k), strconv.Itoa(code))
			tracedAfter = ""
			x.res.VictimRuns++
			if err != nil {
				os.RemoveAll(d2)
				return fmt.Errorf("fail run #%d %s (+%s): %v", k, en, after, err)
			}
			if !o2.rep.AfterDone || o2.rep.Fatal != "" || o2.rep.Panic != "" {
				os.RemoveAll(d2)
				continue
			}
			var v2 *verdict
			switch {
			case after == "close":
				v2 = x.e.check(d2, "old", &x.st)
			case o2.rep.AfterErr == "":
				v2 = x.e.check(d2, "new", &x.st)
			}
			os.RemoveAll(d2)
			if v2 != nil {
				v2.oracle = "after-failure-then-" + after + ":" + v2.oracle
				v2.detail = outcome + "; then the caller issued " + map[string]string{"close": "an orderly close (which succeeded? " + fmt.Sprint(o2.rep.AfterErr == "") + ")", "retry": "the same request again, which reported success"}[after] + "; " + v2.detail
				x.finding("fail", k, en, v2, what)
				return nil
			}
		}
	}
	// a flush that failed and was not repeated cannot have made the operation's updates durable
	if mode == "new" && (c.Sys == "fsync" || c.Sys == "fdatasync") {
		retried := false
		for _, cc := range o.calls[k+1:] {
			if (cc.Sys == "fsync" || cc.Sys == "fdatasync") && cc.Path == c.Path && cc.Ret == 0 {
				retried = true
			}
		}
		if !retried {
			x.finding("fail", k, en, &verdict{"success-after-failed-flush", outcome + " although its flush " + c.norm() + " failed and no later flush of the same object succeeded: the updates made before it are not known to be durable"}, what)
		}
	}
	return nil
}

func firstLine(s string) string {
	if i := strings.IndexByte(s, '\n'); i >= 0 {
		return s[:i]
	}
	return s
}

// lint applies the durability rules to the reference trace (an operation that returned success).  only>=0 restricts
// it to findings about that call.
func (x *jobCtx) lint(only int) {
	cs := x.ref.calls
	dirSyncAfter := func(k int) bool {
		for _, c := range cs[k+1:] {
			if c.Sys == "fsync" && c.Path == "." && c.Ret == 0 {
				return true
			}
		}
		return false
	}
	for k, c := range cs {
		if only >= 0 && k != only {
			continue
		}
		if c.Ret < 0 {
			continue
		}
		if c.Path == "tmpFile.tmp" {
			continue // Server.isExtentSupported's scratch probe file: created, written, FIEMAP-ed and removed; never read back
		}
		dirop := c.Sys == "rename" || c.Sys == "link" || c.Sys == "unlink" || c.Sys == "mkdir" || (c.Sys == "openat" && c.Creates)
		if dirop {
			x.res.LintCalls++
			if !dirSyncAfter(k) {
				x.finding("lint", k, "", &verdict{"no-dir-fsync", fmt.Sprintf("%s changes the replica directory and the operation returns success without a later fsync of the directory", c.String())}, "durability lint on the trace of a successful operation")
			}
		}
		if c.Sys == "rename" && strings.HasSuffix(c.Path, ".tmp") && strings.HasSuffix(c.Path2, ".meta") {
			x.res.LintCalls++
			synced, wrote := true, false
			for _, w := range cs[:k] {
				if w.Path != c.Path {
					continue
				}
				switch w.Sys {
				case "openat":
					synced, wrote = true, false // a new incarnation of the temporary file
				case "write", "pwrite64":
					wrote = true
					if !strings.Contains(w.Flags, "O_SYNC") && !strings.Contains(w.Flags, "O_DSYNC") {
						synced = false
					}
				case "fsync", "fdatasync":
					if w.Ret == 0 {
						synced = true
					}
				}
			}
			if !wrote || !synced {
				x.finding("lint", k, "", &verdict{"meta-not-synced", fmt.Sprintf("%s installs a metadata file whose content was not written through O_SYNC nor fsynced before the rename (written=%v)", c.String(), wrote)}, "durability lint on the trace of a successful operation")
			}
		}
	}
}

// Exec is the worker body under kernel.Pool: req.Cfg is a Job, the Result travels in resp.Note[0].
func Exec(req *kernel.Request) *kernel.Response {
	resp := &kernel.Response{}
	var job Job
	if err := json.Unmarshal(req.Cfg, &job); err != nil {
		resp.Err = "job: " + err.Error()
		return resp
	}
	res := RunJob(&job, req.Trace)
	b, _ := json.Marshal(res)
	resp.Note = []string{string(b)}
	return resp
}
