package ec

import (
	"crypto/sha1"
	"fmt"
	"os"
	"path/filepath"
	"regexp"
	"sort"
	"strings"

	"github.com/openebs/jiva/replica"
	"github.com/openebs/jiva/types"
	"github.com/openebs/jiva/util"

	"verif/harness/ea"
)

// expect is what the oracles know about one (pre-state, operation) pair: the reference model before (m0) and after
// (m1) the operation, and what the real code reported in the fault-free reference run.
type expect struct {
	op     []string
	blocks int
	create bool // recovery = Create(size) then Open (what a starting replica process does); else Open
	m0, m1 *ea.Model
	chain0 []string // real chain (head first) before the operation; nil for Create on an empty directory
	chain1 []string // after
	rev0   int64
	rev1   int64
	wr     [2]int     // sector range (off,n) of the write under test; n=0: the operation is not a write
	lastRC *recovered // what the last check() saw after reopening
}

// SetLog: the logging settings before (written in the victim's set-up) and after the operation under test
var setLogOld = util.LogToFile{Enable: true, MaxLogFileSize: 100, RetentionPeriod: 10, MaxBackups: 2}
var setLogNew = util.LogToFile{Enable: false, MaxLogFileSize: 50, RetentionPeriod: 5, MaxBackups: 1}

type verdict struct {
	oracle string
	detail string
}

type ostats struct {
	recoveries   int
	revertChecks int
}

func eqs(a, b []string) bool {
	if len(a) != len(b) {
		return false
	}
	for i := range a {
		if a[i] != b[i] {
			return false
		}
	}
	return true
}

func sameModelSet(ms []*ea.Model, m *ea.Model) bool {
	for _, x := range ms {
		if x == m {
			return true
		}
	}
	return false
}

// recovered is what the real code shows after reopening a directory.
type recovered struct {
	logInfo *util.LogToFile // log.info as a starting replica process reads it (nil: no such file)
	logErr  error
	chain   []string
	info    replica.Info
	rev     int64
	disks   map[string]types.DiskInfo
	live    []byte
}

func (e *expect) reopen(dir string) (*recovered, error) {
	inProc()
	srv := replica.NewServer(addr, dir, 512, "")
	rc := &recovered{}
	// what app.startLoggingToFile does before anything else when a replica process starts: an existing log.info must
	// be readable, or the process exits
	if _, err := os.Stat(filepath.Join(dir, util.LogInfo)); err == nil {
		lf, err := util.ReadLogInfo(dir)
		rc.logInfo, rc.logErr = &lf, err
		if err != nil {
			return nil, fmt.Errorf("log.info exists but cannot be read (%v): a starting replica process exits on that", err)
		}
	}
	err, _ := guard(func() error {
		if e.create {
			if err := srv.Create(int64(e.blocks) * ea.Block); err != nil {
				return fmt.Errorf("Create (what a starting replica does first): %v", err)
			}
		}
		if err := srv.Open(); err != nil {
			return fmt.Errorf("Open: %v", err)
		}
		r := srv.Replica()
		var err error
		if rc.chain, err = r.Chain(); err != nil {
			srv.Close()
			return fmt.Errorf("Chain: %v", err)
		}
		rc.info = r.Info()
		rc.rev = r.GetRevisionCounter()
		rc.disks = r.ListDisks()
		if rc.info.Size <= 0 || rc.info.Size > 1<<24 {
			srv.Close()
			return fmt.Errorf("implausible volume size %d", rc.info.Size)
		}
		rc.live = make([]byte, rc.info.Size)
		if _, err := srv.ReadAt(rc.live, 0); err != nil {
			srv.Close()
			return fmt.Errorf("read of the whole volume: %v", err)
		}
		return srv.Close()
	})
	if err != nil {
		return nil, err
	}
	return rc, nil
}

// check reopens dir with the real code and judges it.
//
//	mode "crash": the process died (or logrus.Fatal fired): the state before OR the state after the operation.
//	mode "old":   the operation reported failure: the state before (bytes of the failed write itself may be new).
//	mode "new":   the operation reported success: the state after, complete.
func (e *expect) check(dir, mode string, st *ostats) *verdict {
	st.recoveries++
	if e.m0 == nil {
		// Create on an empty directory: there is no old state; whatever happened, a starting replica (Create, then
		// Open) must end up with the fresh volume
		mode = "new"
	}
	rc, err := e.reopen(dir)
	if err != nil {
		return &verdict{"reopen-failed", fmt.Sprintf("the replica directory cannot be reopened: %v", err)}
	}
	e.lastRC = rc
	v := e.judge(dir, rc, mode, st)
	if v != nil && mode == "old" {
		if e.judge(dir, rc, "new", &ostats{}) == nil {
			return &verdict{"failure-reported-but-effect-in-place", "the failure was reported after the operation's commit point: reopening shows the complete NEW state, not the old one (" + v.detail + ")"}
		}
	}
	return v
}

func (e *expect) judge(dir string, rc *recovered, mode string, st *ostats) *verdict {
	c0 := e.chain0 != nil && eqs(rc.chain, e.chain0)
	c1 := eqs(rc.chain, e.chain1)
	if e.m0 == nil {
		c0 = false
	}
	switch {
	case !c0 && !c1:
		return &verdict{"chain-neither", fmt.Sprintf("chain after reopen %v is neither the chain before %v nor the chain after %v", rc.chain, e.chain0, e.chain1)}
	case mode == "old" && !c0:
		return &verdict{"failure-but-changed", fmt.Sprintf("the operation reported failure but the chain after reopen is %v (before: %v)", rc.chain, e.chain0)}
	case mode == "new" && !c1:
		return &verdict{"success-but-missing", fmt.Sprintf("the operation reported success but the chain after reopen is %v (expected %v)", rc.chain, e.chain1)}
	}
	var cands []*ea.Model
	if c0 && mode != "new" {
		cands = append(cands, e.m0)
	}
	if c1 && mode != "old" {
		cands = append(cands, e.m1)
	}
	// size
	var sized []*ea.Model
	for _, m := range cands {
		if int64(len(m.Live))*ea.Sector == rc.info.Size {
			sized = append(sized, m)
		}
	}
	if len(sized) == 0 {
		return &verdict{"size-" + mode, fmt.Sprintf("volume size after reopen %d matches none of the acceptable states (%s)", rc.info.Size, sizes(cands))}
	}
	cands = sized
	// live data: every block equals the block of an acceptable state; for a write that was not acknowledged each block
	// of its range may be old or new
	dataC := cands
	if e.wr[1] > 0 && mode != "new" && e.m0 != nil {
		dataC = nil
		for _, m := range []*ea.Model{e.m0, e.m1} {
			if int64(len(m.Live))*ea.Sector == rc.info.Size {
				dataC = append(dataC, m)
			}
		}
	}
	nb := int(rc.info.Size / ea.Block)
	for b := 0; b < nb; b++ {
		got := rc.live[b*ea.Block : (b+1)*ea.Block]
		ok := false
		for _, m := range dataC {
			if string(ea.ExpectBytes(m.Live, b*ea.SPB, ea.SPB)) == string(got) {
				ok = true
				break
			}
		}
		if !ok {
			var want []string
			for _, m := range dataC {
				want = append(want, fmt.Sprint(m.Live[b*ea.SPB:(b+1)*ea.SPB]))
			}
			return &verdict{"data-" + mode, fmt.Sprintf("block %d of the live volume after reopen: %s; acceptable per-sector tags: %s", b,
				ea.DiffTags(got, dataC[0].Live, b*ea.SPB, e.m1.NW), strings.Join(want, " or "))}
		}
	}
	// chain members: names and flags
	for i := 1; i < len(rc.chain); i++ {
		name := rc.chain[i]
		di, ok := rc.disks[name]
		if !ok {
			return &verdict{"chain-member-" + mode, "ListDisks lacks chain member " + name}
		}
		okAny := false
		var want []string
		for _, m := range cands {
			idx := len(m.Chain) - i
			if idx < 0 || idx >= len(m.Chain) {
				continue
			}
			ms := m.Chain[idx]
			want = append(want, fmt.Sprintf("%s user=%v removed=%v", ea.Disk(ms.Name), ms.User, ms.Removed))
			if ea.Disk(ms.Name) == name && ms.User == di.UserCreated && ms.Removed == di.Removed {
				okAny = true
			}
		}
		if !okAny {
			return &verdict{"chain-member-" + mode, fmt.Sprintf("chain member %d after reopen is %s user=%v removed=%v; acceptable: %s", i, name, di.UserCreated, di.Removed, strings.Join(want, " or "))}
		}
		if i+1 < len(rc.chain) && di.Parent != rc.chain[i+1] {
			return &verdict{"chain-member-" + mode, fmt.Sprintf("%s has parent %q but the chain continues with %q", name, di.Parent, rc.chain[i+1])}
		}
	}
	// revision counter
	revs := map[int64]bool{}
	switch mode {
	case "crash":
		revs[e.rev0], revs[e.rev1] = true, true
	case "old":
		// a write that reported failure was not applied as far as the counter is concerned: the data call comes first and
		// the counter is only increased after it succeeded (bytes of the failed write itself may be old or new)
		revs[e.rev0] = true
	case "new":
		revs[e.rev1] = true
	}
	if e.m0 == nil {
		revs = map[int64]bool{e.rev1: true}
	}
	if !revs[rc.rev] {
		return &verdict{"revision-counter-" + mode, fmt.Sprintf("revision counter after reopen %d; before the operation %d, after it %d", rc.rev, e.rev0, e.rev1)}
	}
	// log.info (SetLogging): the old or the new settings, by mode
	if e.op[0] == "SetLog" {
		got := -1
		if rc.logInfo != nil {
			got = rc.logInfo.MaxLogFileSize
		}
		okOld, okNew := got == setLogOld.MaxLogFileSize, got == setLogNew.MaxLogFileSize
		switch {
		case mode == "crash" && !okOld && !okNew, mode == "old" && !okOld, mode == "new" && !okNew:
			return &verdict{"log-info-" + mode, fmt.Sprintf("log.info after reopen holds maxlogfilesize=%d; before the operation %d, after it %d", got, setLogOld.MaxLogFileSize, setLogNew.MaxLogFileSize)}
		}
	}
	// attributes kept in volume.meta
	attrOK := false
	for _, m := range cands {
		cp := ""
		if m.Checkpoint != "" {
			cp = ea.Disk(m.Checkpoint)
		}
		if rc.info.Checkpoint == cp && rc.info.Rebuilding == m.Rebuilding {
			attrOK = true
		}
	}
	if !attrOK {
		return &verdict{"attributes-" + mode, fmt.Sprintf("after reopen checkpoint=%q rebuilding=%v matches none of the acceptable states", rc.info.Checkpoint, rc.info.Rebuilding)}
	}
	// retained snapshots: user-created, not marked removed, and a MEMBER OF THE CHAIN in every acceptable state.  A
	// snapshot that a revert dropped out of the chain (an orphan) is no longer a snapshot of the volume - it is
	// invisible through Chain()/ListDisks after a reload - and nothing is promised about it.
	first := cands[0]
	all := append([]*ea.Snap(nil), first.Chain...)
	for _, s := range all {
		if !s.Retained() {
			continue
		}
		inAll := true
		for _, m := range cands[1:] {
			found := false
			for _, t := range m.Chain {
				if t.Name == s.Name && t.Retained() {
					found = true
				}
			}
			inAll = inAll && found
		}
		if !inAll {
			continue
		}
		st.revertChecks++
		if v := e.revertOnCopy(dir, s, rc.info.Size); v != nil {
			return v
		}
	}
	return nil
}

func sizes(ms []*ea.Model) string {
	var s []string
	for _, m := range ms {
		s = append(s, fmt.Sprint(len(m.Live)*ea.Sector))
	}
	return strings.Join(s, " or ")
}

// revertOnCopy copies the (recovered) directory, reverts the copy to snapshot s with the real code and compares what
// the volume then reads with the image the snapshot must hold.
func (e *expect) revertOnCopy(dir string, s *ea.Snap, size int64) *verdict {
	cp := dir + ".rv"
	defer os.RemoveAll(cp)
	if err := copyDir(dir, cp); err != nil {
		panic("copyDir: " + err.Error())
	}
	srv := replica.NewServer("127.0.0.1:9602", cp, 512, "")
	var got []byte
	err, _ := guard(func() error {
		if err := srv.Open(); err != nil {
			return fmt.Errorf("open copy: %v", err)
		}
		if err := srv.Revert(ea.Disk(s.Name), ea.Created); err != nil {
			srv.Close()
			return fmt.Errorf("revert copy: %v", err)
		}
		got = make([]byte, srv.Replica().Info().Size)
		if _, err := srv.ReadAt(got, 0); err != nil {
			srv.Close()
			return fmt.Errorf("read copy: %v", err)
		}
		return srv.Close()
	})
	if err != nil {
		return &verdict{"snapshot-unusable", fmt.Sprintf("retained user snapshot %s cannot be reverted to on a copy of the reopened directory: %v", s.Name, err)}
	}
	img := append([]uint8(nil), s.Img...)
	for len(img)*ea.Sector < len(got) {
		img = append(img, 0)
	}
	if len(img)*ea.Sector != len(got) {
		return &verdict{"snapshot-changed", fmt.Sprintf("retained user snapshot %s: reverted copy has size %d, image %d", s.Name, len(got), len(img)*ea.Sector)}
	}
	if string(ea.ExpectBytes(img, 0, len(img))) != string(got) {
		return &verdict{"snapshot-changed", fmt.Sprintf("retained user snapshot %s no longer holds its image: %s", s.Name, ea.DiffTags(got, img, 0, e.m1.NW))}
	}
	return nil
}

// digest identifies the content of a (flat) directory: names, sizes and bytes.
func digest(dir string) string {
	ents, err := os.ReadDir(dir)
	if err != nil {
		return "ERR:" + err.Error()
	}
	var names []string
	for _, en := range ents {
		names = append(names, en.Name())
	}
	sort.Strings(names)
	h := sha1.New()
	for _, n := range names {
		b, err := os.ReadFile(filepath.Join(dir, n))
		fmt.Fprintf(h, "%s|%d|%v|", n, len(b), err != nil)
		h.Write(b)
	}
	return fmt.Sprintf("%x", h.Sum(nil)[:10])
}

var (
	reHead = regexp.MustCompile(`volume-head-\d+\.img`)
	reSnap = regexp.MustCompile(`volume-snap-[^.]+\.img`)
)

// pathClass abstracts the concrete head number and snapshot names so that a signature names the same call of the same
// operation in every pre-state.
func pathClass(p string, oldHead string) string {
	if oldHead != "" {
		p = strings.ReplaceAll(p, oldHead, "<head>")
	}
	p = reHead.ReplaceAllString(p, "<newhead>")
	p = reSnap.ReplaceAllString(p, "<snap>")
	return p
}

func opClass(op string) string {
	f := strings.Split(op, ":")
	switch f[0] {
	case "Create":
		return "Create"
	case "Recreate":
		return "Create(existing)"
	case "W":
		off, n := atoi(f[1]), atoi(f[2])
		if off%ea.SPB == 0 && n%ea.SPB == 0 {
			return "Write(aligned)"
		}
		return "Write(unaligned)"
	case "WWO":
		return "Write(WO)"
	case "Replace":
		return "ReplaceDisk"
	case "SnapU":
		return "Snapshot(user)"
	case "SnapA":
		return "Snapshot(auto)"
	case "Mark":
		return "PrepareRemoveDisk"
	case "Rm":
		return "RemoveDiffDisk"
	case "Fold":
		return "Fold"
	case "Grow":
		return "Resize"
	case "CloneInfo":
		return "UpdateCloneInfo"
	case "SetLog":
		return "SetLogging"
	case "Checkpoint":
		return "SetCheckpoint"
	case "Rebuild":
		if f[1] == "t" {
			return "SetRebuilding(true)"
		}
		return "SetRebuilding(false)"
	case "SetRev":
		return "SetRevisionCounter"
	}
	return f[0]
}
