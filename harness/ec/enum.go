package ec

import (
	"fmt"
	"sort"
	"strings"

	"verif/harness/ea"
)

const Blocks = 4 // 16 KiB volume: four 4 KiB blocks, 32 sectors

// modelOf runs a history on the reference model alone (the coordinator never touches a replica).
func modelOf(history []string) (*ea.Model, bool) {
	m := ea.NewModel(Blocks * ea.SPB)
	m.Open, m.Mode = true, "RW"
	for _, ev := range history {
		if !applyModel(m, ev) {
			return nil, false
		}
	}
	return m, true
}

// shapeKey identifies a pre-state by its chain shape: per chain member (base … latest) user/auto and removed, and the
// set of 4 KiB blocks its file holds (= the blocks that differ from the member below; what the data path, fold,
// preload and revert depend on - which write produced a block does not matter); the same for the head and for the
// orphans a revert left behind; the volume size.
func shapeKey(m *ea.Model) string {
	layer := func(img, below []uint8) string {
		var b strings.Builder
		for blk := 0; blk*ea.SPB < len(img); blk++ {
			diff := false
			for i := blk * ea.SPB; i < (blk+1)*ea.SPB; i++ {
				var lo uint8
				if below != nil && i < len(below) {
					lo = below[i]
				}
				if img[i] != lo {
					diff = true
				}
			}
			if diff {
				b.WriteByte('x')
			} else {
				b.WriteByte('.')
			}
		}
		return b.String()
	}
	byName := map[string]*ea.Snap{}
	for _, s := range m.Chain {
		byName[s.Name] = s
	}
	for _, s := range m.Orphans {
		byName[s.Name] = s
	}
	imgOf := func(name string) []uint8 {
		if s := byName[name]; s != nil {
			return s.Img
		}
		return nil
	}
	var b strings.Builder
	for _, s := range m.Chain {
		fmt.Fprintf(&b, "[%v %v %s]", s.User, s.Removed, layer(s.Img, imgOf(s.Parent)))
	}
	var last []uint8
	if n := len(m.Chain); n > 0 {
		last = m.Chain[n-1].Img
	}
	fmt.Fprintf(&b, "|head:%s|orph:", layer(m.Live, last))
	var os []string
	for _, s := range m.Orphans {
		depth := 0
		for p := s.Parent; p != "" && byName[p] != nil && depth < 20; p = byName[p].Parent {
			depth++
		}
		os = append(os, fmt.Sprintf("[%v %v d%d %s]", s.User, s.Removed, depth, layer(s.Img, imgOf(s.Parent))))
	}
	sort.Strings(os)
	b.WriteString(strings.Join(os, ""))
	fmt.Fprintf(&b, "|n=%d", len(m.Live))
	return b.String()
}

// opsFor lists the operations under test that are enabled in the state, full = the whole set, else the subset that
// changes the chain or the data (used for the larger pre-states of the quick tier).
func opsFor(m *ea.Model, full bool) []string {
	if m.CloneOf != "" {
		// a clone replica whose files have been copied: the one operation of interest is the rewiring of its head
		return []string{"CloneInfo", "Open"}
	}
	ops := []string{"Open", "W:0:8", "W:3:2", "SnapU", "SnapA", "Reload", "Grow:1"}
	if full {
		ops = append(ops, "Close", "W:8:16", "W:4:8", "WWO:0:8", "WWO:3:2", "Rebuild:t", "Rebuild:f", fmt.Sprintf("SetRev:%d", m.Rev+7), "Recreate", "SetLog")
		if len(m.Chain) > 0 {
			ops = append(ops, fmt.Sprintf("Checkpoint:%d", len(m.Chain)-1))
		}
	}
	firstRm := true
	for i := 1; i <= len(m.Chain)-2; i++ {
		if !m.Chain[i].Removed {
			ops = append(ops, fmt.Sprintf("Mark:%d", i))
		}
		if !m.Chain[i].Retained() && !m.Chain[i-1].Retained() {
			ops = append(ops, fmt.Sprintf("Rm:%d", i))
			if firstRm && full {
				ops = append(ops, fmt.Sprintf("Fold:%d", i))
				firstRm = false
			}
		} else if m.Chain[i].Retained() && !m.Chain[i-1].Retained() {
			// a user snapshot the user deletes: PrepareRemoveDisk marks it, then it is merged and removed
			ops = append(ops, fmt.Sprintf("Rm:%d", i))
		}
	}
	for i := 1; i <= len(m.Chain)-2; i++ {
		if replaceEnabled(m, i) {
			ops = append(ops, fmt.Sprintf("Replace:%d", i))
		}
	}
	for i := range m.Chain {
		if i == 0 || i == len(m.Chain)-1 || full {
			ops = append(ops, fmt.Sprintf("Revert:%d", i))
		}
	}
	return ops
}

// layerBlocks: the 4 KiB blocks the file of chain member i holds (those that differ from the member below).
func layerBlocks(m *ea.Model, i int) []bool {
	img := m.Chain[i].Img
	var below []uint8
	if i > 0 {
		below = m.Chain[i-1].Img
	}
	out := make([]bool, len(img)/ea.SPB)
	for s := range img {
		var lo uint8
		if below != nil && s < len(below) {
			lo = below[s]
		}
		if img[s] != lo {
			out[s/ea.SPB] = true
		}
	}
	return out
}

// replaceEnabled: ReplaceDisk(target=i-1, source=i) is meaningful without a coalesce step.
func replaceEnabled(m *ea.Model, i int) bool {
	if i < 1 || i > len(m.Chain)-2 || m.Chain[i].Retained() || m.Chain[i-1].Retained() {
		return false
	}
	t, s := layerBlocks(m, i-1), layerBlocks(m, i)
	for b := range t {
		if t[b] && (b >= len(s) || !s[b]) {
			return false
		}
	}
	return true
}

type preState struct {
	History []string
	Dirty   bool
	Full    bool
}

func h(s string) []string {
	if s == "" {
		return nil
	}
	return strings.Fields(s)
}

// quickPre: hand-picked pre-states: chain lengths 1..5, user/auto/removed members, data spread over several files,
// orphans after a revert, a grown volume, a removed member, directories left by a kill instead of a close.
var quickPre = []preState{
	{h(""), false, true},
	{h("W:0:8"), false, false},
	{h("W:0:8 SnapU"), false, false},
	{h("W:0:8 SnapU W:0:8"), false, true},
	{h("W:0:16 SnapA W:3:2"), true, false},
	{h("W:0:8 SnapU W:8:8 SnapA W:0:8"), false, true},
	{h("SnapA SnapU"), false, false},
	{h("W:0:8 SnapA W:8:8 SnapA W:0:8 SnapU W:16:8"), false, true},
	{h("W:0:8 SnapA W:8:8 SnapA W:0:8 SnapU W:16:8 Mark:1"), false, false},
	{h("W:0:8 SnapA W:8:8 SnapA W:0:8 SnapU W:16:8 Rm:1"), true, false},
	{h("W:0:8 SnapA W:8:8 SnapU W:0:8 SnapA W:24:8 Mark:1"), false, false},
	{h("W:0:8 SnapU W:8:8 SnapU W:0:8 Revert:0"), false, true},
	{h("W:0:8 SnapU W:8:8 SnapU W:0:8 Revert:0 W:16:8 SnapA"), false, false},
	{h("W:0:8 SnapA W:8:8 SnapA W:16:8 SnapA W:24:8 SnapU W:0:16"), false, false},
	{h("W:0:8 SnapU Grow:1 W:32:8"), false, false},
	{h("W:4:8 SnapU W:0:32 SnapA"), true, false},
	// member 1 (s2) holds no block that member 2 (s3) lacks: ReplaceDisk(s2 <- s3) needs no coalesce
	{h("W:0:8 SnapA SnapA W:0:8 SnapA W:8:8 SnapU"), false, false},
	// ReplaceDisk whose target is the base snapshot (reads of never-written blocks end in the base file)
	{h("SnapA SnapA SnapU"), false, false},
	// a revert to an inner member leaves a newer USER snapshot (s3) behind as an orphan hanging off an automatic one
	{h("W:0:8 SnapA W:8:8 SnapA W:0:8 SnapU W:16:8 Revert:1 W:8:8"), false, false},
	{h("W:0:8 SnapA W:8:8 SnapA W:0:8 SnapU W:16:8 Revert:1 SnapU"), false, false},
	// a clone replica in the middle of its clone: the source's snapshot files are in its directory, its head has not
	// been rewired yet (UpdateCloneInfo is the operation under test)
	{h("W:0:8 SnapU W:8:8 SnapA W:0:8 MakeClone:1"), false, false},
	{h("W:0:16 SnapU MakeClone:0"), false, false},
}

// EnumPairs lists the (pre-state, operation) pairs of a tier.
func EnumPairs(tier string, c10 bool) []Pair {
	var pairs []Pair
	add := func(ps preState) {
		m, ok := modelOf(ps.History)
		if !ok {
			panic("bad pre-state history: " + strings.Join(ps.History, " "))
		}
		for _, op := range opsFor(m, ps.Full) {
			if c10 && !(strings.HasPrefix(op, "W:") || strings.HasPrefix(op, "WWO:") || strings.HasPrefix(op, "SetRev")) {
				continue
			}
			if op == "Recreate" && len(ps.History) == 0 {
				continue
			}
			pairs = append(pairs, Pair{Blocks: Blocks, History: ps.History, Dirty: ps.Dirty, Op: op})
		}
	}
	if !c10 {
		pairs = append(pairs, Pair{Blocks: Blocks, Op: "Create"})
	}
	if tier != "thorough" {
		for _, ps := range quickPre {
			ps.Full = true
			add(ps)
		}
		return pairs
	}
	// thorough: every history up to depth 3 over the alphabet, from two seeds (the second already has three
	// snapshots so that marking, removal and revert of inner members are within reach), deduplicated by shape
	seen := map[string]bool{}
	alphabet := func(m *ea.Model) []string {
		evs := []string{"W:0:8", "W:8:8", "W:3:2", "SnapU", "SnapA"}
		for i := 1; i <= len(m.Chain)-2; i++ {
			evs = append(evs, fmt.Sprintf("Mark:%d", i), fmt.Sprintf("Rm:%d", i))
		}
		for i := range m.Chain {
			evs = append(evs, fmt.Sprintf("Revert:%d", i))
		}
		return evs
	}
	seeds := [][]string{nil, h("W:0:8 SnapA W:8:8 SnapA W:0:8 SnapU W:16:8")}
	for _, seed := range seeds {
		frontier := [][]string{seed}
		for depth := 0; depth <= 3; depth++ {
			var next [][]string
			for _, hist := range frontier {
				m, ok := modelOf(hist)
				if !ok {
					continue
				}
				k := shapeKey(m)
				if seen[k] {
					continue
				}
				seen[k] = true
				// the operations that only rewrite volume.meta or the counter (Close, SetCheckpoint, SetRebuilding,
				// SetRevisionCounter, Create on an existing directory, the extra write shapes, Fold) do not depend on the
				// chain shape: they run on every pre-state up to depth 2; the deepest level gets the chain/data operations
				add(preState{History: hist, Full: depth < 3})
				if depth < 3 {
					for _, ev := range alphabet(m) {
						next = append(next, append(append([]string(nil), hist...), ev))
					}
				}
			}
			frontier = next
		}
	}
	// the kill-instead-of-close variants and the special ones of the quick list
	for _, ps := range quickPre {
		m, _ := modelOf(ps.History)
		if ps.Dirty || !seen[shapeKey(m)] {
			seen[shapeKey(m)] = true
			ps.Full = true
			add(ps)
		}
	}
	return pairs
}
