package ec

import (
	"bytes"
	"encoding/json"
	"fmt"
	"os"
	"os/exec"
	"path/filepath"
	"runtime/debug"
	"strconv"
	"strings"
	"time"

	"github.com/openebs/jiva/replica"
	"github.com/openebs/jiva/types"
	"github.com/openebs/sparse-tools/sparse"
	"github.com/sirupsen/logrus"

	"verif/harness/ea"
)

// CRASH-STATE CONTINUATION.  A crash state that reopens cleanly is not yet shown to be harmless: leftovers of the
// interrupted attempt (a new head, hard links, temporary files) stay in the directory and the NEXT operations meet
// them.  So every distinct crash state of the namespace-changing operations is used further: a child process opens
// it with the real code, runs a fixed script of operations to completion and closes; the directory is then reopened
// and compared with the reference model advanced by exactly the steps the child reported as successful.

// Step is one operation of a continuation script.  Snapshots are named by model name ("s3", "c1").
type Step struct {
	T      string `json:"t"` // snap | w | rm | revert | replace | grow
	Name   string `json:"name,omitempty"`
	User   bool   `json:"user,omitempty"`
	Off    int    `json:"off,omitempty"` // sectors
	N      int    `json:"n,omitempty"`
	Tag    uint8  `json:"tag,omitempty"`
	Target string `json:"target,omitempty"`
	Source string `json:"source,omitempty"`
	Size   int64  `json:"size,omitempty"` // bytes
}

func (s Step) String() string {
	switch s.T {
	case "snap":
		if s.User {
			return "Snapshot(user," + s.Name + ")"
		}
		return "Snapshot(auto," + s.Name + ")"
	case "w":
		return fmt.Sprintf("Write(sector %d,+%d)", s.Off, s.N)
	case "rm":
		return "Remove(" + s.Name + ": prepare, fold, RemoveDiffDisk)"
	case "revert":
		return "Revert(" + s.Name + ")"
	case "replace":
		return "ReplaceDisk(" + s.Target + "<-" + s.Source + ")"
	case "grow":
		return fmt.Sprintf("Resize(%d)", s.Size)
	}
	return s.T
}

type StepOut struct {
	Ran bool   `json:"ran"`
	Err string `json:"err,omitempty"`
}

// ContReport is what the continuation child prints.
type ContReport struct {
	OpenErr    string    `json:"open_err,omitempty"`
	ChainStart []string  `json:"chain_start,omitempty"`
	RevStart   int64     `json:"rev_start"`
	Steps      []StepOut `json:"steps"`
	Died       int       `json:"died"` // index of the step inside which logrus.Fatal fired or a panic unwound; -1 none
	DiedMsg    string    `json:"died_msg,omitempty"`
	CloseErr   string    `json:"close_err,omitempty"`
	Log        string    `json:"log,omitempty"`
}

// ContMain: ec cont <dir> <blocks> <create 0|1> <json steps>
func ContMain(args []string) {
	if len(args) < 4 {
		fmt.Fprintln(os.Stderr, "usage: ec cont <dir> <blocks> <create> <steps>")
		os.Exit(2)
	}
	dir, blocks, create := args[0], atoi(args[1]), args[2] == "1"
	var steps []Step
	if err := json.Unmarshal([]byte(args[3]), &steps); err != nil {
		fmt.Fprintln(os.Stderr, "steps:", err)
		os.Exit(2)
	}
	rp := &ContReport{Died: -1, Steps: make([]StepOut, len(steps))}
	cur := -1
	out := func(code int) {
		if code != 0 || rp.OpenErr != "" {
			rp.Log = string(vlog.b)
		}
		b, _ := json.Marshal(rp)
		os.Stdout.Write(append(b, '\n'))
		os.Exit(code)
	}
	logrus.SetOutput(vlog)
	logrus.SetLevel(logrus.WarnLevel)
	logrus.StandardLogger().ExitFunc = func(code int) {
		rp.Died, rp.DiedMsg = cur, "logrus.Fatal: process exits here"
		out(3)
	}
	defer func() {
		if r := recover(); r != nil {
			rp.Died, rp.DiedMsg = cur, fmt.Sprintf("panic: %v\n%s", r, debug.Stack())
			out(4)
		}
	}()
	types.ShouldPunchHoles = false
	types.DrainOps = types.DrainDone
	go replica.CreateHoles()
	srv := replica.NewServer(addr, dir, 512, "")
	if create {
		if err := srv.Create(int64(blocks) * ea.Block); err != nil {
			rp.OpenErr = "create: " + err.Error()
			out(0)
		}
	}
	if err := srv.Open(); err != nil {
		rp.OpenErr = "open: " + err.Error()
		out(0)
	}
	if err := srv.SetReplicaMode("RW"); err != nil {
		rp.OpenErr = "setmode: " + err.Error()
		out(0)
	}
	rp.ChainStart = chainOf(srv)
	rp.RevStart = srv.Replica().GetRevisionCounter()
	for i, st := range steps {
		cur = i
		var err error
		switch st.T {
		case "snap":
			err = srv.Snapshot(st.Name, st.User, ea.Created)
		case "w":
			buf := make([]byte, st.N*ea.Sector)
			ea.Fill(buf, st.Tag, int64(st.Off)*ea.Sector)
			_, err = srv.WriteAt(buf, int64(st.Off)*ea.Sector)
		case "rm":
			var ops []replica.PrepareRemoveAction
			ops, err = srv.PrepareRemoveDisk(ea.Disk(st.Name))
			if err == nil && len(ops) == 0 {
				err = fmt.Errorf("PrepareRemoveDisk: nothing to remove")
			}
			for _, op := range ops {
				if err != nil {
					break
				}
				switch op.Action {
				case replica.OpCoalesce:
					err = sparse.FoldFile(filepath.Join(dir, op.Source), filepath.Join(dir, op.Target), ea.FoldStub{})
				case replica.OpRemove:
					err = srv.RemoveDiffDisk(op.Source)
				}
			}
		case "revert":
			err = srv.Revert(ea.Disk(st.Name), ea.Created)
		case "replace":
			if _, err = srv.PrepareRemoveDisk(ea.Disk(st.Source)); err == nil {
				err = srv.ReplaceDisk(ea.Disk(st.Target), ea.Disk(st.Source))
			}
		case "grow":
			err = srv.Resize(strconv.FormatInt(st.Size, 10))
		default:
			err = fmt.Errorf("unknown step")
		}
		rp.Steps[i].Ran = true
		if err != nil {
			rp.Steps[i].Err = err.Error()
		}
	}
	cur = len(steps)
	if err := srv.Close(); err != nil {
		rp.CloseErr = err.Error()
	}
	out(0)
}

// ---------------------------------------------------------------------------------------------------------------

func findSnap(m *ea.Model, name string) int {
	for i, s := range m.Chain {
		if s.Name == name {
			return i
		}
	}
	return -1
}

func nameTaken(m *ea.Model, name string) bool {
	if findSnap(m, name) >= 0 {
		return true
	}
	for _, o := range m.Orphans {
		if o.Name == name {
			return true
		}
	}
	return false
}

// stepModel applies a step to the model; false = the model does not allow the step in this state.
func stepModel(m *ea.Model, st Step) bool {
	switch st.T {
	case "snap":
		if nameTaken(m, st.Name) {
			return false
		}
		s := &ea.Snap{Name: st.Name, User: st.User, Img: append([]uint8(nil), m.Live...)}
		if n := len(m.Chain); n > 0 {
			s.Parent = m.Chain[n-1].Name
		}
		m.Chain = append(m.Chain, s)
	case "w":
		if st.Off+st.N > len(m.Live) {
			return false
		}
		for i := st.Off; i < st.Off+st.N; i++ {
			m.Live[i] = st.Tag
		}
		m.Rev++
	case "rm":
		i := findSnap(m, st.Name)
		if i < 1 || i > len(m.Chain)-2 {
			return false
		}
		m.Chain[i].Removed = true
		m.Remove(i)
	case "revert":
		i := findSnap(m, st.Name)
		if i < 0 {
			return false
		}
		m.Revert(i)
	case "replace":
		i := findSnap(m, st.Source)
		if i < 1 || i > len(m.Chain)-2 || m.Chain[i-1].Name != st.Target {
			return false
		}
		m.Chain[i].Removed = true
		m.Remove(i)
	case "grow":
		sec := int(st.Size / ea.Sector)
		if sec < len(m.Live) {
			return false
		}
		m.Grow(sec)
	default:
		return false
	}
	return true
}

// contOps: the operations whose crash states are continued (they change the directory's name space).
func contOp(op string, quick bool) bool {
	switch strings.Split(op, ":")[0] {
	case "SnapU", "SnapA", "Rm":
		return true
	case "Revert", "Replace", "Grow", "Create":
		return !quick
	}
	return false
}

// opStep: the pair's operation with its ORIGINAL arguments (names resolved against the model before the operation).
func (x *jobCtx) opStep() *Step {
	f := x.e.op
	m0 := x.e.m0
	switch f[0] {
	case "SnapU", "SnapA":
		return &Step{T: "snap", Name: x.e.m1.Chain[len(x.e.m1.Chain)-1].Name, User: f[0] == "SnapU"}
	case "Rm":
		return &Step{T: "rm", Name: m0.Chain[atoi(f[1])].Name}
	case "Revert":
		return &Step{T: "revert", Name: m0.Chain[atoi(f[1])].Name}
	case "Replace":
		i := atoi(f[1])
		return &Step{T: "replace", Target: m0.Chain[i-1].Name, Source: m0.Chain[i].Name}
	case "Grow":
		return &Step{T: "grow", Size: int64(len(x.e.m1.Live)) * ea.Sector}
	}
	return nil // Create: the recovery itself (Create, then Open) is the retry
}

type script struct {
	id    string
	steps []Step
}

// scripts builds the continuation scripts for a crash state whose reopened state is model m.
func (x *jobCtx) scripts(m *ea.Model, quick bool) []script {
	op := x.opStep()
	var out []script
	// S1: the real system retries the interrupted operation with the same arguments
	if op != nil {
		out = append(out, script{"S1-retry", []Step{*op, *op}})
	}
	// S2: other work first (a different snapshot, an aligned write), then the same operation again, then a write
	s2 := []Step{{T: "snap", Name: "c1"}, {T: "w", Off: 8, N: 8, Tag: 101}}
	if op != nil {
		s2 = append(s2, *op)
	}
	s2 = append(s2, Step{T: "w", Off: 0, N: 8, Tag: 102})
	out = append(out, script{"S2-detour", s2})
	if quick {
		return out
	}
	// S3: a write, then a revert to the latest retained user snapshot of the chain, if any
	s3 := []Step{{T: "w", Off: 16, N: 8, Tag: 103}}
	for i := len(m.Chain) - 1; i >= 0; i-- {
		if m.Chain[i].Retained() {
			s3 = append(s3, Step{T: "revert", Name: m.Chain[i].Name})
			break
		}
	}
	out = append(out, script{"S3-revert", s3})
	return out
}

// startModel: which of the two acceptable states the (already accepted) crash state is.
func (e *expect) startModel(rc *recovered) *ea.Model {
	if e.m0 != nil && eqs(rc.chain, e.chain0) && int64(len(e.m0.Live))*ea.Sector == rc.info.Size {
		return e.m0
	}
	return e.m1
}

func runContChild(dir string, blocks int, create bool, steps []Step) (*ContReport, error) {
	self, err := os.Executable()
	if err != nil {
		return nil, err
	}
	js, _ := json.Marshal(steps)
	c := "0"
	if create {
		c = "1"
	}
	cmd := exec.Command(self, "cont", dir, strconv.Itoa(blocks), c, string(js))
	var so, se bytes.Buffer
	cmd.Stdout, cmd.Stderr = &so, &se
	if err := cmd.Start(); err != nil {
		return nil, err
	}
	done := make(chan error, 1)
	go func() { done <- cmd.Wait() }()
	select {
	case <-done:
	case <-time.After(60 * time.Second):
		cmd.Process.Kill()
		<-done
		return nil, fmt.Errorf("continuation child timed out (60 s)")
	}
	for _, l := range strings.Split(so.String(), "\n") {
		l = strings.TrimSpace(l)
		if strings.HasPrefix(l, "{") {
			var r ContReport
			if json.Unmarshal([]byte(l), &r) == nil {
				return &r, nil
			}
		}
	}
	return nil, fmt.Errorf("continuation child printed no report; stderr: %s", tailStr(se.String(), 800))
}

// continueState runs one script on a copy of the pristine crash state and judges the result.
func (x *jobCtx) continueState(pristine string, start *ea.Model, rev0 int64, sc script) (*verdict, error) {
	d := pristine + "." + sc.id
	defer os.RemoveAll(d)
	if err := copyDir(pristine, d); err != nil {
		return nil, err
	}
	rp, err := runContChild(d, x.job.Blocks, x.e.create, sc.steps)
	x.res.Continuations++
	if err != nil {
		return nil, err
	}
	desc := func() string {
		var s []string
		for i, st := range sc.steps {
			o := "not run"
			if rp.Steps[i].Ran {
				o = "ok"
				if rp.Steps[i].Err != "" {
					o = "error: " + rp.Steps[i].Err
				}
			}
			if rp.Died == i {
				o = "PROCESS DIED: " + firstLine(rp.DiedMsg)
			}
			s = append(s, fmt.Sprintf("%d. %s -> %s", i+1, st.String(), o))
		}
		return strings.Join(s, "; ")
	}
	if x.verb {
		x.say("   continuation %s: %s", sc.id, desc())
	}
	if rp.OpenErr != "" {
		return &verdict{"cont-open-failed", "the crash state could not be opened by the continuing process: " + rp.OpenErr}, nil
	}
	// advance the model by what the child reported
	m := start.Clone()
	m.Rev = rp.RevStart
	cands := []*ea.Model{m}
	succ := 0
	for i, st := range sc.steps {
		so := rp.Steps[i]
		switch {
		case rp.Died == i:
			// death inside a step: its effect may or may not be in place
			var more []*ea.Model
			for _, c := range cands {
				c2 := c.Clone()
				if stepModel(c2, st) {
					more = append(more, c2)
				}
			}
			cands = append(cands, more...)
		case !so.Ran:
		case so.Err == "":
			succ++
			for _, c := range cands {
				// a step the model does not allow here (e.g. the retry of an operation whose commit already happened
				// and that now only clears the leftovers) must then be a no-op: the final comparison decides
				stepModel(c, st)
			}
		default:
			if st.T == "w" {
				// a write reported as failed may have reached the disk
				var more []*ea.Model
				for _, c := range cands {
					c2 := c.Clone()
					if stepModel(c2, st) {
						c2.Rev--
						more = append(more, c2)
					}
				}
				cands = append(cands, more...)
			}
		}
	}
	if rp.CloseErr != "" && rp.Died < 0 {
		return &verdict{"cont-close-failed", "Close after the script failed: " + rp.CloseErr + "; script: " + desc()}, nil
	}
	// liveness of the retry: when the interrupted operation's effect is absent, retrying it must succeed eventually
	if sc.id == "S1-retry" && start == x.e.m0 && rp.Died < 0 {
		ok := false
		for i := range sc.steps {
			if rp.Steps[i].Ran && rp.Steps[i].Err == "" {
				ok = true
			}
		}
		if !ok {
			return &verdict{"retry-never-succeeds", "the interrupted operation was retried twice with the same arguments after the restart and failed both times; script: " + desc()}, nil
		}
	}
	// final close/reopen against the advanced model
	var first *verdict
	for _, c := range cands {
		c.NW = 250
		e2 := &expect{op: x.e.op, blocks: x.job.Blocks, m1: c, rev0: c.Rev, rev1: c.Rev}
		x.st.recoveries++
		rc, err := e2.reopen(d)
		if err != nil {
			return &verdict{"cont-reopen-failed", fmt.Sprintf("after the script and a clean close the directory cannot be reopened: %v; script: %s", err, desc())}, nil
		}
		if len(rc.chain) == 0 {
			return &verdict{"cont-reopen-failed", "empty chain after reopen; script: " + desc()}, nil
		}
		e2.chain1 = []string{rc.chain[0]}
		for i := len(c.Chain) - 1; i >= 0; i-- {
			e2.chain1 = append(e2.chain1, ea.Disk(c.Chain[i].Name))
		}
		v := e2.judge(d, rc, "new", &x.st)
		if v == nil {
			return nil, nil
		}
		if first == nil {
			first = v
		}
	}
	first.oracle = "cont-" + strings.TrimSuffix(first.oracle, "-new")
	first.detail = fmt.Sprintf("after the script, a clean close and a reopen: %s; script: %s", first.detail, desc())
	return first, nil
}

func (x *jobCtx) contFinding(k int, sc string, v *verdict) {
	after := "start"
	if k > 0 {
		after = fmt.Sprintf("#%d:%s", k-1, x.ref.calls[k-1].class(x.oldHead()))
	}
	sig := fmt.Sprintf("cont:%s:after:%s:%s:%s", opClass(x.job.Op), after, sc, v.oracle)
	x.res.Findings = append(x.res.Findings, Finding{Pair: x.job.Pair, Kind: "cont", K: k, Script: sc, Oracle: v.oracle, Signature: sig,
		What: x.crashWhat(k) + "; the process is restarted and continues with script " + sc, Detail: v.detail})
}

// continuations runs every script (only = one script id, "" = all) on the pristine copy of accepted crash state k.
func (x *jobCtx) continuations(k int, pristine string, rc *recovered, quick bool, only string) error {
	start := x.e.startModel(rc)
	x.res.ContStates++
	for _, sc := range x.scripts(start, quick && only == "") {
		if only != "" && sc.id != only {
			continue
		}
		v, err := x.continueState(pristine, start, rc.rev, sc)
		if err != nil {
			return fmt.Errorf("continuation %s of crash state %d: %v", sc.id, k, err)
		}
		if v != nil {
			x.contFinding(k, sc.id, v)
		}
	}
	return nil
}
