package ec

import (
	"io"
	"os"
	"path/filepath"
	"strings"
	"syscall"

	"github.com/openebs/sparse-tools/sparse"
)

const (
	seekData = 3
	seekHole = 4
)

// copyDir copies a flat replica directory preserving holes (SEEK_DATA/SEEK_HOLE; image data is written with
// O_DIRECT so that the copy's extents exist at once).  Unlike ea.CopyDir it accepts empty image files, which occur
// in crash states (new head created, not yet sized).
func copyDir(src, dst string) error {
	os.RemoveAll(dst)
	if err := os.MkdirAll(dst, 0755); err != nil {
		return err
	}
	ents, err := os.ReadDir(src)
	if err != nil {
		return err
	}
	// names that are hard links of one file in the source stay hard links of one file in the copy (the leftover of an
	// interrupted snapshot is a second name of the head: code that recognises it by inode must still do so)
	first := map[uint64]string{}
	for _, e := range ents {
		if e.IsDir() {
			continue
		}
		sp, dp := filepath.Join(src, e.Name()), filepath.Join(dst, e.Name())
		if fi, err := os.Stat(sp); err == nil {
			if st, ok := fi.Sys().(*syscall.Stat_t); ok && st.Nlink > 1 {
				if prev, ok := first[st.Ino]; ok {
					if err := os.Link(prev, dp); err != nil {
						return err
					}
					continue
				}
				first[st.Ino] = dp
			}
		}
		if !strings.HasSuffix(e.Name(), ".img") {
			b, err := os.ReadFile(sp)
			if err != nil {
				return err
			}
			if err := os.WriteFile(dp, b, 0644); err != nil {
				return err
			}
			continue
		}
		if err := copySparse(sp, dp); err != nil {
			return err
		}
	}
	return nil
}

func copySparse(sp, dp string) error {
	in, err := os.Open(sp)
	if err != nil {
		return err
	}
	defer in.Close()
	st, err := in.Stat()
	if err != nil {
		return err
	}
	size := st.Size()
	out, err := os.OpenFile(dp, os.O_RDWR|os.O_CREATE|os.O_TRUNC|syscall.O_DIRECT, 0644)
	direct := true
	if err != nil {
		direct = false
		if out, err = os.OpenFile(dp, os.O_RDWR|os.O_CREATE|os.O_TRUNC, 0644); err != nil {
			return err
		}
	}
	defer out.Close()
	if err := out.Truncate(size); err != nil {
		return err
	}
	fd := int(in.Fd())
	pos := int64(0)
	for pos < size {
		d, err := syscall.Seek(fd, pos, seekData)
		if err != nil {
			if err == syscall.ENXIO {
				break
			}
			return err
		}
		hEnd, err := syscall.Seek(fd, d, seekHole)
		if err != nil {
			hEnd = size
		}
		n := int(hEnd - d)
		var buf []byte
		if direct && d%4096 == 0 && n%4096 == 0 {
			buf = sparse.AllocateAligned(n)
		} else {
			if direct {
				out.Close()
				if out, err = os.OpenFile(dp, os.O_RDWR, 0644); err != nil {
					return err
				}
				direct = false
			}
			buf = make([]byte, n)
		}
		if _, err := in.ReadAt(buf, d); err != nil && err != io.EOF {
			return err
		}
		if _, err := out.WriteAt(buf, d); err != nil {
			return err
		}
		pos = hEnd
	}
	return nil
}
