// Package ec is engine E-C (FS-CRASH): every boundary between two file-system calls of one replica operation
// (process death there) and every single such call made to fail, on the real jiva replica code, driven from outside
// the process by the ptrace tracer tools/fstrace.
package ec

import (
	"encoding/json"
	"fmt"
	"io"
	"os"
	"path/filepath"
	"runtime"
	"runtime/debug"
	"strconv"
	"strings"
	"syscall"

	"github.com/openebs/jiva/replica"
	"github.com/openebs/jiva/types"
	"github.com/openebs/jiva/util"
	"github.com/openebs/sparse-tools/sparse"
	"github.com/sirupsen/logrus"

	"verif/harness/ea"
)

const (
	markWhich = 0x7e57
	addr      = "127.0.0.1:9502"
)

// Report is the JSON line the victim prints about its one operation.
type Report struct {
	Op          string   `json:"op"`
	Err         string   `json:"err,omitempty"` // error returned by the operation ("" = success)
	Failed      bool     `json:"failed"`
	Fatal       string   `json:"fatal,omitempty"` // logrus.Fatal fired: the process would have exited here
	Panic       string   `json:"panic,omitempty"`
	Phase       string   `json:"phase"` // setup | op | done
	ChainBefore []string `json:"chain_before,omitempty"`
	ChainAfter  []string `json:"chain_after,omitempty"`
	RevBefore   int64    `json:"rev_before"`
	RevAfter    int64    `json:"rev_after"`
	SizeAfter   int64    `json:"size_after"`
	After       string   `json:"after,omitempty"`     // what the victim did after the operation: "retry" | "close"
	AfterErr    string   `json:"after_err,omitempty"` // error of that step ("" = it succeeded)
	AfterDone   bool     `json:"after_done,omitempty"`
	SetupErr    string   `json:"setup_err,omitempty"` // harness: the steps before the marker failed
	Log         string   `json:"log,omitempty"`
}

var rep Report

type tail struct{ b []byte }

func (t *tail) Write(p []byte) (int, error) {
	t.b = append(t.b, p...)
	if len(t.b) > 2048 {
		t.b = t.b[len(t.b)-2048:]
	}
	return len(p), nil
}

var vlog = &tail{}

func emit(code int) {
	if rep.Failed || rep.Fatal != "" || rep.Panic != "" || rep.SetupErr != "" {
		rep.Log = string(vlog.b)
	}
	b, _ := json.Marshal(&rep)
	os.Stdout.Write(append(b, '\n'))
	os.Exit(code)
}

func marker(k uintptr) { syscall.Syscall(syscall.SYS_GETPRIORITY, markWhich, k, 0) }

func chainOf(s *replica.Server) []string {
	if s.Replica() == nil {
		return nil
	}
	c, err := s.Replica().Chain()
	if err != nil {
		return []string{"ERR:" + err.Error()}
	}
	return c
}

func atoi(s string) int { n, _ := strconv.Atoi(s); return n }

// snapshotsOf lists the snapshot members of a chain base … latest (Chain() is head first).
func snapsBaseFirst(chain []string) []string {
	var out []string
	for i := len(chain) - 1; i >= 1; i-- {
		out = append(out, chain[i])
	}
	return out
}

// VictimMain: ec victim <dir> <blocks> <op>.  The calling goroutine must be locked to its thread (main does it in init).
//
// Opens the prepared directory with the real code, performs the set-up steps of the operation (outside the counted
// window), issues marker 1, performs ONE operation, issues marker 2, prints the Report and exits WITHOUT closing the
// replica (unless the operation is Close): the directory left behind is what a process that died right after the
// operation leaves.
func VictimMain(args []string) {
	runtime.LockOSThread()
	if len(args) < 3 {
		fmt.Fprintln(os.Stderr, "usage: ec victim <dir> <blocks> <op>")
		os.Exit(2)
	}
	dir, blocks, op := args[0], atoi(args[1]), args[2]
	rep.Op = op
	rep.Phase = "setup"
	logrus.SetOutput(vlog)
	logrus.SetLevel(logrus.WarnLevel)
	logrus.StandardLogger().ExitFunc = func(code int) {
		rep.Fatal = "logrus.Fatal: process exits here"
		rep.Failed = true
		emit(3)
	}
	defer func() {
		if r := recover(); r != nil {
			rep.Panic = fmt.Sprintf("%v\n%s", r, debug.Stack())
			rep.Failed = true
			emit(4)
		}
	}()
	types.ShouldPunchHoles = false
	types.DrainOps = types.DrainDone
	go replica.CreateHoles()
	srv := replica.NewServer(addr, dir, 512, "")
	f := strings.Split(op, ":")
	size := int64(blocks) * ea.Block

	setupFail := func(what string, err error) {
		rep.SetupErr = what + ": " + err.Error()
		emit(5)
	}
	var run func() error
	switch f[0] {
	case "Create":
		run = func() error { return srv.Create(size) }
	case "Open":
		run = func() error { return srv.Open() }
	case "CloneInfo":
		// the clone replica is open and marked rebuilding (its pre-state), mode untouched: sync.Task.CloneReplica calls
		// UpdateCloneInfo right after the last file transfer
		if err := srv.Open(); err != nil {
			setupFail("open", err)
		}
		run = func() error { return srv.UpdateCloneInfo(f[1], f[2]) }
	default:
		if err := srv.Open(); err != nil {
			setupFail("open", err)
		}
		mode := "RW"
		if f[0] == "WWO" {
			mode = "WO"
		}
		if err := srv.SetReplicaMode(mode); err != nil {
			setupFail("setmode", err)
		}
		snaps := snapsBaseFirst(chainOf(srv))
		switch f[0] {
		case "Close":
			run = func() error { return srv.Close() }
		case "W", "WWO":
			off, n := atoi(f[1]), atoi(f[2])
			tag := uint8(atoi(f[3]))
			buf := make([]byte, n*ea.Sector)
			ea.Fill(buf, tag, int64(off)*ea.Sector)
			run = func() error {
				_, err := srv.WriteAt(buf, int64(off)*ea.Sector)
				return err
			}
		case "SnapU", "SnapA":
			name := f[1]
			run = func() error { return srv.Snapshot(name, f[0] == "SnapU", ea.Created) }
		case "Mark":
			name := snaps[atoi(f[1])]
			run = func() error {
				ops, err := srv.PrepareRemoveDisk(name)
				if err == nil && len(ops) == 0 {
					return fmt.Errorf("PrepareRemoveDisk returned no operations")
				}
				return err
			}
		case "Fold", "Rm":
			name := snaps[atoi(f[1])]
			ops, err := srv.PrepareRemoveDisk(name)
			if err != nil || len(ops) != 2 || ops[0].Action != replica.OpCoalesce || ops[1].Action != replica.OpRemove {
				setupFail("prepare", fmt.Errorf("%v %+v", err, ops))
			}
			fold := func() error {
				return sparse.FoldFile(filepath.Join(dir, ops[0].Source), filepath.Join(dir, ops[0].Target), ea.FoldStub{})
			}
			if f[0] == "Fold" {
				run = fold
			} else {
				if err := fold(); err != nil {
					setupFail("fold", err)
				}
				run = func() error { return srv.RemoveDiffDisk(ops[1].Source) }
			}
		case "Replace":
			i := atoi(f[1])
			target, source := snaps[i-1], snaps[i]
			if _, err := srv.PrepareRemoveDisk(source); err != nil {
				setupFail("prepare", err)
			}
			run = func() error { return srv.ReplaceDisk(target, source) }
		case "Revert":
			name := f[1] // disk name
			run = func() error { return srv.Revert(name, ea.Created) }
		case "Grow":
			nb := blocks + atoi(f[1])
			if cur := srv.Replica().Info().Size; cur > 0 {
				nb = int(cur/ea.Block) + atoi(f[1])
			}
			run = func() error { return srv.Resize(strconv.Itoa(nb * ea.Block)) }
		case "Checkpoint":
			name := snaps[atoi(f[1])]
			run = func() error { return srv.SetCheckpoint(name) }
		case "Rebuild":
			if f[1] == "f" {
				if err := srv.SetRebuilding(true); err != nil {
					setupFail("setrebuilding", err)
				}
			}
			run = func() error { return srv.SetRebuilding(f[1] == "t") }
		case "SetRev":
			n := int64(atoi(f[1]))
			run = func() error { return srv.SetRevisionCounter(n) }
		case "SetLog":
			// the setlogging action (and every replica start) rewrites log.info in the replica directory
			if err := util.WriteLogInfo(dir, setLogOld); err != nil {
				setupFail("log.info", err)
			}
			run = func() error { return util.SetLogging(dir, setLogNew) }
		case "Reload":
			// Reload turns hole punching on and queues punches for blocks that a newer file shadows; the puncher runs on
			// its own goroutine.  The operation is taken to include them: wait (inside the window) until the queue is
			// drained so that the state after the operation does not depend on a race with the victim's exit.
			run = func() error {
				err := srv.Reload()
				replica.VerifFlushHoles()
				return err
			}
		default:
			fmt.Fprintln(os.Stderr, "victim: unknown op", op)
			os.Exit(2)
		}
	}
	rep.ChainBefore = chainOf(srv)
	if srv.Replica() != nil {
		rep.RevBefore = srv.Replica().GetRevisionCounter()
	}
	rep.Phase = "op"
	marker(1)
	err := run()
	marker(2)
	rep.Phase = "done"
	if err != nil {
		rep.Err = err.Error()
		rep.Failed = true
	}
	// what a caller does next with a process that is still alive (outside the counted window, no fault injected):
	// "retry": the operation that reported failure is issued again; "close": the replica is shut down in an orderly way
	switch after := os.Getenv("VERIF_EC_AFTER"); {
	case after == "retry" && rep.Failed && srv.Replica() != nil:
		rep.After, rep.AfterDone = after, true
		if e := run(); e != nil {
			rep.AfterErr = e.Error()
		}
	case after == "close" && srv.Replica() != nil:
		rep.After, rep.AfterDone = after, true
		if e := srv.Close(); e != nil {
			rep.AfterErr = e.Error()
		}
	}
	rep.ChainAfter = chainOf(srv)
	if srv.Replica() != nil {
		rep.RevAfter = srv.Replica().GetRevisionCounter()
		rep.SizeAfter = srv.Replica().Info().Size
	}
	emit(0)
}

var _ = io.EOF
