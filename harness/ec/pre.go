package ec

import (
	"fmt"
	"os"
	"path/filepath"
	"runtime/debug"
	"strconv"
	"strings"
	"sync"

	"github.com/openebs/jiva/replica"
	"github.com/openebs/jiva/types"
	"github.com/openebs/sparse-tools/sparse"
	"github.com/sirupsen/logrus"

	"verif/harness/ea"
)

type fatalExit struct{ msg string }

var (
	once     sync.Once
	wlog     = &tail{}
	Poisoned bool // a panic/fatal unwound through jiva code in this process: locks may be held, start a fresh worker
)

// inProc prepares this process for running the real replica code in-process (pre-state building, recovery).
func inProc() {
	once.Do(func() {
		logrus.SetOutput(wlog)
		logrus.SetLevel(logrus.WarnLevel)
		logrus.StandardLogger().ExitFunc = func(code int) { panic(fatalExit{"logrus.Fatal: process would exit here"}) }
		go replica.CreateHoles()
	})
	types.ShouldPunchHoles = false
	types.DrainOps = types.DrainDone
}

// guard runs jiva code; a panic or logrus.Fatal inside becomes an error.
func guard(f func() error) (err error, died string) {
	defer func() {
		if r := recover(); r != nil {
			Poisoned = true
			if fe, ok := r.(fatalExit); ok {
				died = fe.msg + " | " + lastLog()
			} else {
				died = fmt.Sprintf("panic: %v\n%s", r, debug.Stack())
			}
			err = fmt.Errorf("%s", died)
		}
	}()
	return f(), ""
}

func lastLog() string {
	s := strings.TrimSpace(string(wlog.b))
	if len(s) > 600 {
		s = s[len(s)-600:]
	}
	return s
}

// Pre is a built pre-state: the reference model and what the real code reported.
type Pre struct {
	M     *ea.Model
	Chain []string // head first, as Replica.Chain()
	Rev   int64
	// MakeClone pre-states: the revision count the source recorded for the cloned snapshot
	CloneRev int64
}

// applyModel applies a history event to the model only; ok=false when the event is not enabled in that state.
func applyModel(m *ea.Model, ev string) bool {
	f := strings.Split(ev, ":")
	switch f[0] {
	case "W":
		off, n := atoi(f[1]), atoi(f[2])
		if off+n > len(m.Live) {
			return false
		}
		m.Write(off, n)
		m.Rev++
	case "SnapU", "SnapA":
		m.Snapshot(f[0] == "SnapU")
	case "Mark":
		i := atoi(f[1])
		if i < 1 || i > len(m.Chain)-2 || m.Chain[i].Removed {
			return false
		}
		m.Chain[i].Removed = true
	case "Rm":
		i := atoi(f[1])
		if i < 1 || i > len(m.Chain)-2 || m.Chain[i].Retained() || m.Chain[i-1].Retained() {
			return false // only where the system itself deletes: neither the target nor the parent it is merged into is retained
		}
		m.Chain[i].Removed = true
		m.Remove(i)
	case "Revert":
		i := atoi(f[1])
		if i < 0 || i >= len(m.Chain) {
			return false
		}
		m.Revert(i)
	case "Grow":
		m.Grow(len(m.Live) + atoi(f[1])*ea.SPB)
	case "SetRev":
		m.Rev = int64(atoi(f[1]))
	case "Checkpoint":
		i := atoi(f[1])
		if i < 0 || i >= len(m.Chain) {
			return false
		}
		m.Checkpoint = m.Chain[i].Name
	case "Rebuild":
		m.Rebuilding = f[1] == "t"
	case "SetLog": // log.info only: the volume model is untouched
	case "MakeClone":
		// the directory becomes that of a CLONE replica in the middle of its clone: a fresh replica marked rebuilding
		// into which the source's snapshot files base … member i have been copied (they are outside its chain until
		// UpdateCloneInfo rewires the head)
		i := atoi(f[1])
		if i < 0 || i >= len(m.Chain) || m.CloneOf != "" {
			return false
		}
		src := m.Clone()
		*m = *ea.NewModel(len(src.Chain[i].Img))
		m.Open, m.Mode = true, "RW"
		m.Rebuilding = true
		m.NSnap, m.NW = src.NSnap, src.NW
		m.Orphans = src.Chain[:i+1]
		m.CloneOf = src.Chain[i].Name
	default:
		return false
	}
	return true
}

// BuildPre builds the pre-state directory with the real code from a history and returns the model.  dirty=true
// leaves the directory as a killed process would (no clean close: the copy is taken while the replica is open).
func BuildPre(dir string, blocks int, history []string, dirty bool) (*Pre, error) {
	inProc()
	os.RemoveAll(dir)
	if err := os.MkdirAll(dir, 0755); err != nil {
		return nil, err
	}
	work := dir
	if dirty {
		work = dir + ".build"
		os.RemoveAll(work)
		os.MkdirAll(work, 0755)
		defer os.RemoveAll(work)
	}
	srv := replica.NewServer(addr, work, 512, "")
	m := ea.NewModel(blocks * ea.SPB)
	var p *Pre
	err, _ := guard(func() error {
		if err := srv.Create(int64(blocks) * ea.Block); err != nil {
			return fmt.Errorf("create: %v", err)
		}
		if err := srv.Open(); err != nil {
			return fmt.Errorf("open: %v", err)
		}
		if err := srv.SetReplicaMode("RW"); err != nil {
			return err
		}
		m.Open, m.Mode = true, "RW"
		for k, ev := range history {
			if strings.HasPrefix(ev, "MakeClone:") {
				if k != len(history)-1 || dirty {
					return fmt.Errorf("MakeClone must be the last event of a clean history")
				}
				var err error
				p, err = makeClone(srv, work, m, atoi(strings.Split(ev, ":")[1]))
				return err
			}
			if err := applyReal(srv, work, m, ev); err != nil {
				return fmt.Errorf("history event %s: %v", ev, err)
			}
		}
		ch, err := srv.Replica().Chain()
		if err != nil {
			return err
		}
		p = &Pre{M: m, Chain: ch, Rev: srv.Replica().GetRevisionCounter()}
		if p.Rev != m.Rev {
			return fmt.Errorf("pre-state: revision counter %d, model %d", p.Rev, m.Rev)
		}
		if dirty {
			if err := copyDir(work, dir); err != nil {
				return fmt.Errorf("copy: %v", err)
			}
		}
		return srv.Close()
	})
	if err != nil {
		return nil, err
	}
	return p, nil
}

// makeClone turns dir (the source replica built so far, open on srv) into the directory of a clone replica in the
// middle of its clone: what sync.Task.CloneReplica has done just before it calls UpdateCloneInfo - the clone was
// created, opened and marked rebuilding, and the source's snapshot files base … member i (.img and .meta) have been
// transferred into its directory.
func makeClone(srv *replica.Server, dir string, m *ea.Model, i int) (*Pre, error) {
	if i < 0 || i >= len(m.Chain) {
		return nil, fmt.Errorf("MakeClone: no chain member %d", i)
	}
	name := ea.Disk(m.Chain[i].Name)
	rev := srv.Replica().ListDisks()[name].RevisionCounter
	size := srv.Replica().Info().Size
	var files []string
	for _, s := range m.Chain[:i+1] {
		files = append(files, ea.Disk(s.Name), ea.Disk(s.Name)+".meta")
	}
	if err := srv.Close(); err != nil {
		return nil, err
	}
	src := dir + ".src"
	os.RemoveAll(src)
	if err := os.Rename(dir, src); err != nil {
		return nil, err
	}
	defer os.RemoveAll(src)
	if err := os.MkdirAll(dir, 0755); err != nil {
		return nil, err
	}
	c := replica.NewServer(addr, dir, 512, "")
	if err := c.Create(size); err != nil {
		return nil, fmt.Errorf("clone create: %v", err)
	}
	if err := c.Open(); err != nil {
		return nil, fmt.Errorf("clone open: %v", err)
	}
	if err := c.SetRebuilding(true); err != nil {
		return nil, fmt.Errorf("clone setrebuilding: %v", err)
	}
	stage := dir + ".stage"
	os.RemoveAll(stage)
	if err := os.MkdirAll(stage, 0755); err != nil {
		return nil, err
	}
	defer os.RemoveAll(stage)
	for _, f := range files {
		if err := os.Link(filepath.Join(src, f), filepath.Join(stage, f)); err != nil {
			return nil, err
		}
	}
	// hole-preserving copy of the staged files into a scratch directory, then into the clone's directory
	cp := dir + ".cp"
	if err := copyDir(stage, cp); err != nil {
		return nil, err
	}
	defer os.RemoveAll(cp)
	for _, f := range files {
		if err := os.Rename(filepath.Join(cp, f), filepath.Join(dir, f)); err != nil {
			return nil, err
		}
	}
	ch, err := c.Replica().Chain()
	if err != nil {
		return nil, err
	}
	if !applyModel(m, fmt.Sprintf("MakeClone:%d", i)) {
		return nil, fmt.Errorf("model refuses MakeClone")
	}
	p := &Pre{M: m, Chain: ch, Rev: c.Replica().GetRevisionCounter(), CloneRev: rev}
	return p, c.Close()
}

// applyReal applies one history event to the real server and the model.
func applyReal(srv *replica.Server, dir string, m *ea.Model, ev string) error {
	f := strings.Split(ev, ":")
	switch f[0] {
	case "W":
		off, n := atoi(f[1]), atoi(f[2])
		buf := make([]byte, n*ea.Sector)
		ea.Fill(buf, m.NW+1, int64(off)*ea.Sector)
		if _, err := srv.WriteAt(buf, int64(off)*ea.Sector); err != nil {
			return err
		}
	case "SnapU", "SnapA":
		if err := srv.Snapshot(fmt.Sprintf("s%d", m.NSnap+1), f[0] == "SnapU", ea.Created); err != nil {
			return err
		}
	case "Mark", "Rm":
		i := atoi(f[1])
		if i < 1 || i > len(m.Chain)-2 {
			return fmt.Errorf("not enabled")
		}
		ops, err := srv.PrepareRemoveDisk(ea.Disk(m.Chain[i].Name))
		if err != nil {
			return err
		}
		if f[0] == "Rm" {
			for _, op := range ops {
				switch op.Action {
				case replica.OpCoalesce:
					err = sparse.FoldFile(filepath.Join(dir, op.Source), filepath.Join(dir, op.Target), ea.FoldStub{})
				case replica.OpRemove:
					err = srv.RemoveDiffDisk(op.Source)
				}
				if err != nil {
					return err
				}
			}
		}
	case "Revert":
		i := atoi(f[1])
		if i < 0 || i >= len(m.Chain) {
			return fmt.Errorf("not enabled")
		}
		if err := srv.Revert(ea.Disk(m.Chain[i].Name), ea.Created); err != nil {
			return err
		}
		if err := srv.SetReplicaMode("RW"); err != nil {
			return err
		}
	case "Grow":
		nb := len(m.Live)/ea.SPB + atoi(f[1])
		if err := srv.Resize(strconv.Itoa(nb * ea.Block)); err != nil {
			return err
		}
	case "SetRev":
		if err := srv.SetRevisionCounter(int64(atoi(f[1]))); err != nil {
			return err
		}
	default:
		return fmt.Errorf("unknown history event")
	}
	if !applyModel(m, ev) {
		return fmt.Errorf("model refuses the event")
	}
	return nil
}
