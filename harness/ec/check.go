package ec

import (
	"crypto/sha1"
	"encoding/json"
	"fmt"
	"os"
	"os/exec"
	"os/signal"
	"path/filepath"
	"sort"
	"strings"
	"sync"
	"syscall"
	"time"

	"verif/harness/kernel"
)

func budgetFor(tier string) time.Duration {
	if s := os.Getenv("VERIF_EC_BUDGET_S"); s != "" {
		return time.Duration(atoi(s)) * time.Second
	}
	if tier == "thorough" {
		return 20 * time.Minute
	}
	return 195 * time.Second
}

type group struct {
	sig   string
	first Finding
	count int
	pairs []string
}

func jobOf(f Finding, c10 bool) Job {
	return Job{Pair: f.Pair, Kind: f.Kind, K: f.K, Errno: f.Errno, C10: c10, Script: f.Script}
}

// Check runs the whole enumeration for C08 (or only the revision-counter crash clause for C10crash).
func Check(prop string) int {
	c10 := prop == "C10crash"
	if prop != "C08" && !c10 {
		fmt.Fprintf(os.Stderr, "ec: no check for %s\n", prop)
		return 2
	}
	report := "C08"
	if c10 {
		report = "C10"
	}
	tier := kernel.Tier()
	start := time.Now()
	if out, err := exec.Command(filepath.Join(kernel.VerifDir, "bin", "build-fstrace")).CombinedOutput(); err != nil {
		fmt.Fprintf(os.Stderr, "ec: building the tracer failed: %v\n%s", err, out)
		return 2
	}
	base := fmt.Sprintf("/tmp/verif-ec-%d", os.Getpid())
	os.RemoveAll(base)
	if err := os.MkdirAll(base, 0755); err != nil {
		fmt.Fprintln(os.Stderr, err)
		return 2
	}
	defer os.RemoveAll(base)
	sigc := make(chan os.Signal, 1)
	signal.Notify(sigc, syscall.SIGINT, syscall.SIGTERM)
	go func() { <-sigc; os.RemoveAll(base); os.Exit(130) }()

	known := kernel.LoadFindings()
	removeStaleReplays(report, known)
	pairs := EnumPairs(tier, c10)
	budget := budgetFor(tier)
	pool := &kernel.Pool{Args: []string{"worker"}, Env: []string{"VERIF_EC_SCRATCH=" + base}, N: 16, Timeout: 10 * time.Minute}
	pool.Start()

	var mu sync.Mutex
	var results []*Result
	var harness []string
	var wg sync.WaitGroup
	submitted := 0
	budgetHit := false
	collect := func(p Pair) func(*kernel.Response) {
		return func(r *kernel.Response) {
			defer wg.Done()
			mu.Lock()
			defer mu.Unlock()
			if r.Err != "" || r.Died || len(r.Note) == 0 {
				harness = append(harness, fmt.Sprintf("%s: worker failed: %s died=%v %s", p, r.Err, r.Died, tailStr(r.Log, 600)))
				return
			}
			var res Result
			if err := json.Unmarshal([]byte(r.Note[0]), &res); err != nil {
				harness = append(harness, fmt.Sprintf("%s: bad result: %v", p, err))
				return
			}
			if res.HarnessErr != "" {
				harness = append(harness, fmt.Sprintf("%s: %s", p, res.HarnessErr))
			}
			results = append(results, &res)
		}
	}
	for i, p := range pairs {
		if time.Since(start) > budget {
			budgetHit = true
			break
		}
		j := Job{Pair: p, Kind: "pair", C10: c10, Quick: tier != "thorough" && os.Getenv("VERIF_EC_CONT") != "full"}
		b, _ := json.Marshal(&j)
		wg.Add(1)
		pool.Submit(&kernel.Request{ID: i, Cfg: b}, collect(p))
		submitted++
	}
	wg.Wait()

	// aggregate
	tot := Result{}
	var findings []Finding
	var samples []interface{}
	distinct := 0
	lintOps := 0
	sort.Slice(results, func(i, j int) bool { return results[i].Pair.String() < results[j].Pair.String() })
	for _, r := range results {
		if r.HarnessErr != "" {
			continue
		}
		tot.Calls += r.Calls
		tot.CrashStates += r.CrashStates
		tot.CrashRecover += r.CrashRecover
		tot.FailRuns += r.FailRuns
		tot.Continuations += r.Continuations
		tot.ContStates += r.ContStates
		tot.LintCalls += r.LintCalls
		tot.Recoveries += r.Recoveries
		tot.RevertChecks += r.RevertChecks
		tot.VictimRuns += r.VictimRuns
		tot.C10Points += r.C10Points
		tot.C10Bad += r.C10Bad
		tot.OtherThread += r.OtherThread
		for _, oc := range r.OtherCalls {
			tot.OtherCalls = append(tot.OtherCalls, r.Pair.String()+": "+oc)
		}
		// distinct non-trivial cases: a crash point is non-trivial when a call precedes it (k>0: the directory differs
		// from the pre-state or a descriptor was opened); every injected failure is one; all are distinct by
		// (pre-state, operation, index, errno)
		if r.CrashStates > 0 {
			distinct += r.CrashStates - 1
		}
		distinct += r.FailRuns
		distinct += r.Continuations
		if r.LintCalls > 0 {
			lintOps++
		}
		findings = append(findings, r.Findings...)
	}
	okPairs := 0
	for _, r := range results {
		if r.HarnessErr == "" {
			okPairs++
			if len(samples) < 4 && (okPairs%37 == 1) {
				samples = append(samples, map[string]interface{}{
					"pre_state_history": r.Pair.History, "pre_state_not_closed": r.Pair.Dirty, "operation": r.Pair.Op,
					"counted_calls": r.Trace, "crash_states_judged": r.CrashStates, "injected_failures_run": r.FailRuns,
					"findings": len(r.Findings), "example_cases": exampleCases(r)})
			}
		}
	}

	// group by signature, verify the representative of each group 5 times
	groups := map[string]*group{}
	var order []string
	for _, f := range findings {
		g := groups[f.Signature]
		if g == nil {
			g = &group{sig: f.Signature, first: f}
			groups[f.Signature] = g
			order = append(order, f.Signature)
		}
		g.count++
		if len(g.pairs) < 12 {
			g.pairs = append(g.pairs, f.Pair.String())
		}
	}
	sort.Strings(order)
	type verif struct {
		same, other, clean int
		errs               []string
	}
	vres := map[string]*verif{}
	for _, sig := range order {
		vres[sig] = &verif{}
		g := groups[sig]
		for i := 0; i < 5; i++ {
			j := jobOf(g.first, c10)
			b, _ := json.Marshal(&j)
			wg.Add(1)
			sig := sig
			pool.Submit(&kernel.Request{ID: 1000000 + i, Cfg: b}, func(r *kernel.Response) {
				defer wg.Done()
				mu.Lock()
				defer mu.Unlock()
				v := vres[sig]
				var res Result
				if r.Err != "" || r.Died || len(r.Note) == 0 || json.Unmarshal([]byte(r.Note[0]), &res) != nil {
					v.errs = append(v.errs, "worker failed: "+r.Err+tailStr(r.Log, 300))
					return
				}
				if res.HarnessErr != "" {
					v.errs = append(v.errs, res.HarnessErr)
					return
				}
				switch {
				case len(res.Findings) == 0:
					v.clean++
				case res.Findings[0].Signature == sig:
					v.same++
				default:
					v.other++
				}
			})
		}
	}
	wg.Wait()
	pool.Close()

	nviol, nknown := 0, 0
	var violOut []map[string]interface{}
	var proposed []kernel.Finding
	knownHit := map[*kernel.Finding]int{}
	var knownOrder []*kernel.Finding
	for _, sig := range order {
		g, v := groups[sig], vres[sig]
		if v.same != 5 {
			harness = append(harness, fmt.Sprintf("finding %q on %s did not reproduce 5/5 (same=%d other=%d clean=%d errors=%v): nondeterministic, not reported as a violation", sig, g.first.Pair, v.same, v.other, v.clean, v.errs))
			continue
		}
		what := fmt.Sprintf("%s: %s; %s", opClass(g.first.Pair.Op), g.first.What, g.first.Detail)
		// the replay artefact is written for every finding of the run, known or not: one file per signature
		j := jobOf(g.first, c10)
		cfg, _ := json.Marshal(&j)
		rp := &kernel.Replay{Property: report, Engine: "E-C", Cfg: cfg, Path: append(append([]string(nil), g.first.Pair.History...), "=> "+g.first.Pair.Op),
			Violation: kernel.Violation{Oracle: g.first.Oracle, Signature: sig, Detail: what},
			Note:      fmt.Sprintf("%d cases of this run share the signature; pre-state/operation of the first ones: %s", g.count, strings.Join(g.pairs, " | "))}
		path := writeReplay(rp)
		if callSiteOracle[g.first.Oracle] {
			proposed = append(proposed, kernel.Finding{Property: report, Status: "known", Signature: sig, What: knownWhat(g.first), Replay: relReplay(path)})
		}
		if kf := knownFor(known, report, sig); kf != nil {
			if knownHit[kf] == 0 {
				knownOrder = append(knownOrder, kf)
			}
			knownHit[kf] += g.count
			continue
		}
		nviol++
		fmt.Printf("VIOLATION property=%s replay=%s\n  signature=%s (%d cases)\n  %s\n", report, path, sig, g.count, what)
		violOut = append(violOut, map[string]interface{}{"signature": sig, "cases": g.count, "replay": path, "what": what})
	}

	for _, kf := range knownOrder {
		nknown++
		fmt.Printf("KNOWN-FINDING: property=%s %s [%s; %d cases in this run]\n", report, kf.What, kf.Signature, knownHit[kf])
	}
	if p := os.Getenv("VERIF_EC_PROPOSE"); p != "" {
		b, _ := json.MarshalIndent(proposed, "", " ")
		os.WriteFile(p, append(b, '\n'), 0644)
	}

	// summary by oracle (one root cause usually shows at many ordinals and in many operations)
	type sum struct {
		sigs, cases int
		ops         map[string]bool
	}
	sums := map[string]*sum{}
	for _, sig := range order {
		g := groups[sig]
		if vres[sig].same != 5 {
			continue
		}
		key := g.first.Kind + ":" + g.first.Oracle
		if sums[key] == nil {
			sums[key] = &sum{ops: map[string]bool{}}
		}
		sums[key].sigs++
		sums[key].cases += g.count
		sums[key].ops[opClass(g.first.Pair.Op)] = true
	}
	var sumKeys []string
	for k := range sums {
		sumKeys = append(sumKeys, k)
	}
	sort.Strings(sumKeys)
	sumOut := map[string]interface{}{}
	for _, k := range sumKeys {
		var ops []string
		for o := range sums[k].ops {
			ops = append(ops, o)
		}
		sort.Strings(ops)
		fmt.Printf("SUMMARY %-50s signatures=%-4d cases=%-5d operations=%s\n", k, sums[k].sigs, sums[k].cases, strings.Join(ops, ","))
		sumOut[k] = map[string]interface{}{"signatures": sums[k].sigs, "cases": sums[k].cases, "operations": ops}
	}

	exhaustive := !budgetHit && len(harness) == 0 && okPairs == len(pairs)
	wall := time.Since(start).Seconds()
	c10cov := map[string]interface{}{"crash_points_of_writes_and_SetRevisionCounter": tot.C10Points, "counter_outside_old_new": tot.C10Bad,
		"rule": "at every boundary between two file-system calls of a write in RW mode, of a write in WO mode and of SetRevisionCounter (process death there) the counter read after reopen is the value before or the value after the operation (WO: unchanged) and never below the value before"}
	cov := map[string]interface{}{
		"evaluations":         tot.CrashStates + tot.FailRuns + tot.Continuations,
		"distinct_nontrivial": distinct,
		"rule": "enumeration, not sampling: for every (pre-state, operation) pair the victim process runs the real jiva code under the ptrace tracer; " +
			"every boundary between two counted file-system calls of the operation (plus before the first and after the last) is materialised as a directory copy and reopened with the real code; " +
			"every counted call is made to fail once with EIO and, if it can consume space, once with ENOSPC. A case is (pre-state history, operation, crash index | failed call ordinal + errno); " +
			"distinct_nontrivial counts the crash indexes k>=1 (at least one call of the operation has executed) plus all injected failures plus the continuation runs (distinct crash-state content x script); cases are distinct by construction. " +
			"Crash states with byte-identical directory content within one pair share one recovery (crash_states_recovered counts the recoveries actually executed).",
		"samples":                  samples,
		"exhaustive":               exhaustive,
		"pairs":                    okPairs,
		"pairs_planned":            len(pairs),
		"pairs_submitted":          submitted,
		"crash_points":             tot.CrashStates,
		"crash_states_recovered":   tot.CrashRecover,
		"injected_failures":        tot.FailRuns,
		"crash_continuations":      tot.Continuations,
		"crash_states_continued":   tot.ContStates,
		"continuation_scope":       contScope(contTier(tier)),
		"counted_calls":            tot.Calls,
		"lint_ops":                 lintOps,
		"lint_calls":               tot.LintCalls,
		"recoveries":               tot.Recoveries,
		"snapshot_revert_checks":   tot.RevertChecks,
		"victim_runs":              tot.VictimRuns,
		"other_thread_calls_seen":  tot.OtherThread,
		"other_thread_calls":       tot.OtherCalls,
		"determinism":              "each pair's reference run is traced twice and every snap-each / failing run is compared call by call with it; every finding is re-executed 5 times from scratch",
		"findings_before_grouping": len(findings),
		"violation_signatures":     violOut,
		"findings_by_oracle":       sumOut,
		"known_findings_matched":   nknown,
		"c10_crash_clause":         c10cov,
		"budget_s":                 budget.Seconds(),
		"budget_hit":               budgetHit,
		"harness_errs":             harness,
	}
	if tot.CrashStates+tot.FailRuns == 0 {
		cov["evaluations"] = 0
	}
	ev := &kernel.Evidence{PropertyID: "C08", Tier: tier, Seed: kernel.Seed(), Level: "fault_enumeration", Coverage: cov, WallS: wall, Violations: nviol,
		Assumptions: []string{
			"crash = death of the replica process (kill -9, OOM, container stop): completed system calls are in the kernel's cache and survive, open descriptors vanish; loss of un-flushed data at power failure is covered only by the durability lint on the call trace (directory fsync after every rename/link/unlink/create, O_SYNC or fsync of metadata before its rename), not by materialised states",
			"one fault per execution: a single crash point or a single failing call; ENOSPC only on calls that can consume space, EIO on all; read-side calls (open O_RDONLY, read, stat, FIEMAP) are not failed",
			"the operation's file-system calls are those of the victim's locked OS thread (runtime.LockOSThread); calls by other threads inside the window are not crash points of their own; they are listed in other_thread_calls (only the hole puncher's fallocate after Reload is expected). Hole punching is off in the victim (types.ShouldPunchHoles=false as in a freshly started replica) except that Reload switches it on; the Reload operation is taken to include the punches it queues (the victim waits for the queue to drain before the end marker)",
			"bytes of a write that was interrupted or reported as failed may be old or new per 4 KiB block; everything else must be exactly the state before or after",
			"retained snapshot = user-created, not marked removed and a member of the chain (before resp. after the operation); a snapshot that a revert dropped out of the chain is not promised; its image is checked by copying the reopened directory, Revert with the real code and a full read; snapshots are only removed where the system does it (neither the removed member nor the parent it is merged into is retained, or the user deletes a user snapshot whose parent is not retained)",
			"recovery is Server.Open (for Create: Server.Create then Open, as a starting replica process does); the reference model is harness/ea/model.go; sparse.FoldFile runs in-process in place of the sfold child",
			"time is scaled by the overlay shim (holeDrainer's 1 s poll costs 100 us); ext4 with O_DIRECT, FIEMAP and PUNCH_HOLE",
		}}
	if c10 {
		if tot.C10Points > 0 {
			pev := &kernel.Evidence{PropertyID: "C10", Tier: tier, Seed: kernel.Seed(), Level: "fault_enumeration", WallS: wall, Violations: nviol, Assumptions: ev.Assumptions,
				Coverage: map[string]interface{}{
					"evaluations": tot.C10Points, "distinct_nontrivial": tot.C10Points - okPairs,
					"rule":    c10cov["rule"].(string) + ". Enumerated: every (pre-state, write | WO write | SetRevisionCounter) pair of the E-C tier, every crash index 0..n; distinct_nontrivial = crash indexes k>=1 (distinct by (pre-state, operation, index)).",
					"samples": samples, "exhaustive": exhaustive, "pairs": okPairs, "crash_points": tot.C10Points, "counter_outside_old_new": tot.C10Bad,
					"clause": "crash clause of C10 only (engine E-C); to be merged into evidence/C10.json"}}
			dir := filepath.Join(kernel.OutDir(), "evidence")
			os.MkdirAll(dir, 0755)
			b, _ := json.MarshalIndent(pev, "", " ")
			os.WriteFile(filepath.Join(dir, "C10-crash.part.json"), append(b, '\n'), 0644)
		}
		fmt.Printf("C10crash: %d crash points of writes/SetRevisionCounter judged, %d with a counter outside {old,new}; pairs=%d wall=%.1fs exhaustive=%v\n", tot.C10Points, tot.C10Bad, okPairs, wall, exhaustive)
	} else {
		if cov["evaluations"].(int) > 0 {
			if err := kernel.WriteEvidence(ev); err != nil {
				fmt.Fprintln(os.Stderr, "evidence:", err)
			}
		}
		fmt.Printf("C08: pairs=%d/%d crash_points=%d (recovered %d distinct contents) injected_failures=%d continuations=%d (on %d crash states) lint_ops=%d victim_runs=%d findings=%d signatures=%d violations=%d known=%d exhaustive=%v wall=%.1fs\n",
			okPairs, len(pairs), tot.CrashStates, tot.CrashRecover, tot.FailRuns, tot.Continuations, tot.ContStates, lintOps, tot.VictimRuns, len(findings), len(order), nviol, nknown, exhaustive, wall)
	}
	if len(harness) > 0 {
		for i, hmsg := range harness {
			if i >= 20 {
				fmt.Fprintf(os.Stderr, "… %d more harness errors\n", len(harness)-20)
				break
			}
			fmt.Fprintln(os.Stderr, "HARNESS-ERROR:", hmsg)
		}
		return 2
	}
	if nviol > 0 {
		return 1
	}
	return 0
}

// writeReplay writes the artefact of one signature to replays/<property>/<hash of the signature>.json: the name does
// not depend on which pre-state happened to be the first to show it, so known_findings.json can refer to it.
func writeReplay(r *kernel.Replay) string {
	h := sha1.Sum([]byte(r.Violation.Signature))
	dir := filepath.Join(kernel.OutDir(), "replays", r.Property)
	os.MkdirAll(dir, 0755)
	p := filepath.Join(dir, fmt.Sprintf("%x.json", h[:6]))
	b, _ := json.MarshalIndent(r, "", " ")
	os.WriteFile(p, append(b, '\n'), 0644)
	return p
}

func relReplay(p string) string {
	if r, err := filepath.Rel(kernel.OutDir(), p); err == nil {
		return r
	}
	return p
}

// removeStaleReplays deletes the replay files an earlier E-C run wrote for this property, except those a known
// finding refers to (a run that does not reach that finding must not lose its artefact): afterwards the directory
// holds the artefacts of the current run.
func removeStaleReplays(prop string, known []kernel.Finding) {
	keep := map[string]bool{}
	for _, f := range known {
		if f.Replay != "" {
			keep[filepath.Base(f.Replay)] = true
		}
	}
	dir := filepath.Join(kernel.OutDir(), "replays", prop)
	ents, _ := os.ReadDir(dir)
	for _, e := range ents {
		if !strings.HasSuffix(e.Name(), ".json") || keep[e.Name()] {
			continue
		}
		if rp, err := kernel.ReadReplay(filepath.Join(dir, e.Name())); err == nil && rp.Engine == "E-C" {
			os.Remove(filepath.Join(dir, e.Name()))
		}
	}
}

// knownWhat words a by-the-letter finding for known_findings.json: operation, failing call, reopened state.
func knownWhat(f Finding) string {
	op := opClass(f.Pair.Op)
	parts := strings.Split(f.Signature, ":")
	call := parts[len(parts)-2]
	state := map[string]string{
		"Revert":               "volume.meta already names the new head on the reverted-to snapshot",
		"RemoveDiffDisk":       "the child is already re-parented in its .meta, the removed member is out of the chain (its files are unlinked or left as stale files)",
		"ReplaceDisk":          "the source is already out of the chain and the target name holds the source's file",
		"Resize":               "volume.meta already carries the new size and the chain files are already extended",
		"SetCheckpoint":        "volume.meta already carries the new checkpoint",
		"SetRebuilding(true)":  "volume.meta already carries rebuilding=true",
		"SetRebuilding(false)": "volume.meta already carries rebuilding=false",
		"PrepareRemoveDisk":    "the member's .meta already says removed=true",
		"Snapshot(user)":       "volume.meta already names the new head on the new snapshot",
		"Snapshot(auto)":       "volume.meta already names the new head on the new snapshot",
	}[op]
	if state == "" {
		state = "the operation's metadata update is already renamed into place"
	}
	switch f.Oracle {
	case "failure-reported-but-effect-in-place":
		return fmt.Sprintf("%s returns an error when %s fails (EIO/ENOSPC), but that call comes after the operation's commit point: %s. The directory reopens cleanly and shows the complete NEW state (chain, data, retained snapshots, counter all consistent), not the old one the error suggests; nothing is damaged. Not repairable by a small patch (the operation would have to undo a committed rename).", op, call, state)
	case "success-after-failed-flush":
		where := map[string]string{
			"Snapshot(user)":   "createDisk's deferred removal of the old head (rmDisk: two unlinks + SyncDir) only logs the error; at risk are the unlinks of the stale old head and its .meta, which the next open tolerates as leftovers",
			"Snapshot(auto)":   "createDisk's deferred removal of the old head (rmDisk: two unlinks + SyncDir) only logs the error; at risk are the unlinks of the stale old head and its .meta, which the next open tolerates as leftovers",
			"Reload":           "Server.Reload ignores the result of oldReplica.Close(), which rewrites volume.meta (tmp, rename, SyncDir); at risk is that last rewrite of volume.meta",
			"Create":           "Server.Create's deferred initUUID drops the result of writeVolumeMetaData (tmp, rename, SyncDir); at risk is the volume.meta that carries the new UUID",
			"Create(existing)": "Server.Create's deferred initUUID drops the result of writeVolumeMetaData (tmp, rename, SyncDir); at risk is the volume.meta that carries the new UUID",
		}[op]
		if where == "" {
			where = "the error of that flush is logged or dropped"
		}
		return fmt.Sprintf("%s returns success although its last directory flush %s fails with EIO: %s. The directory reopens cleanly with the complete new state; only those last directory updates are not known to be durable at power loss. Not repairable by a small patch without changing the operation's result contract.", op, call, where)
	}
	return f.What
}

// knownFor: exact signature match, or a known finding whose signature is a glob ('*' matches any run of characters),
// so that one root cause that shows at many call ordinals can be recorded once.
func knownFor(fs []kernel.Finding, prop, sig string) *kernel.Finding {
	if f := kernel.KnownFor(fs, prop, sig); f != nil {
		return f
	}
	for i := range fs {
		if fs[i].Status == "known" && fs[i].Property == prop && strings.Contains(fs[i].Signature, "*") && glob(fs[i].Signature, sig) {
			return &fs[i]
		}
	}
	return nil
}

func glob(pat, s string) bool {
	parts := strings.Split(pat, "*")
	if !strings.HasPrefix(s, parts[0]) {
		return false
	}
	s = s[len(parts[0]):]
	for i := 1; i < len(parts); i++ {
		p := parts[i]
		if i == len(parts)-1 {
			return strings.HasSuffix(s, p)
		}
		j := strings.Index(s, p)
		if j < 0 {
			return false
		}
		s = s[j+len(p):]
	}
	return s == ""
}

// exampleCases writes out two of the cases of a pair: one crash point and one injected failure.
func exampleCases(r *Result) []map[string]interface{} {
	var out []map[string]interface{}
	n := len(r.Trace)
	if n >= 2 && r.CrashStates > 0 {
		k := n / 2
		out = append(out, map[string]interface{}{"case": "crash", "crash_index": k, "process_dies_between": []string{fmt.Sprintf("#%d %s", k-1, r.Trace[k-1]), fmt.Sprintf("#%d %s", k, r.Trace[k])},
			"judged": "copy of the directory at that instant reopened with Server.Open: chain before|after, live bytes, retained snapshots by revert-on-copy, revision counter"})
	}
	if n >= 1 && r.FailRuns > 0 {
		k := n - 1
		out = append(out, map[string]interface{}{"case": "fail", "call": fmt.Sprintf("#%d %s", k, r.Trace[k]), "errno": "EIO",
			"judged": "operation result vs. directory after reopen: success => complete new state; failure => old state intact; never success over damage"})
	}
	return out
}

func contTier(tier string) string {
	if os.Getenv("VERIF_EC_CONT") == "full" {
		return "thorough"
	}
	return tier
}

func contScope(tier string) string {
	base := "every distinct (by directory content) crash state that reopens cleanly is used further: a child process opens it with the real code, runs a script to completion and closes; the directory is reopened and compared with the model advanced by the steps reported successful (chain, flags, every acknowledged byte of the history and of the script, retained chain-member user snapshots by revert-on-copy, revision counter = value at restart + acknowledged writes; a step that reports success where the model does not allow it (retry of an already committed operation) must have been a no-op; a retry must succeed within two attempts when the effect is absent). Scripts: S1-retry = the interrupted operation twice with its original arguments; S2-detour = Snapshot(auto,c1), aligned write, the interrupted operation with its original arguments, write; S3-revert = write, revert to the latest retained user snapshot of the chain. "
	if tier == "thorough" {
		return base + "Thorough: crash states of Snapshot(user/auto), RemoveDiffDisk, Revert, ReplaceDisk, Resize, Create; scripts S1, S2, S3."
	}
	return base + "Quick (restricted, nothing sampled): crash states of Snapshot(user/auto) and RemoveDiffDisk only; scripts S1 and S2 only."
}

func tailStr(s string, n int) string {
	if len(s) > n {
		return s[len(s)-n:]
	}
	return s
}

// ReplayFile re-executes exactly the case of a replay artefact, verbosely.
func ReplayFile(path string) int {
	rp, err := kernel.ReadReplay(path)
	if err != nil {
		fmt.Fprintln(os.Stderr, err)
		return 2
	}
	var job Job
	if err := json.Unmarshal(rp.Cfg, &job); err != nil {
		fmt.Fprintln(os.Stderr, "replay cfg:", err)
		return 2
	}
	if out, err := exec.Command(filepath.Join(kernel.VerifDir, "bin", "build-fstrace")).CombinedOutput(); err != nil {
		fmt.Fprintf(os.Stderr, "ec: building the tracer failed: %v\n%s", err, out)
		return 2
	}
	defer Cleanup()
	fmt.Printf("replay %s: pre-state history %v (not closed: %v), operation %s, case %s k=%d %s\n", rp.Property, job.History, job.Dirty, job.Op, job.Kind, job.K, job.Errno)
	res := RunJob(&job, true)
	for _, l := range res.Verbose {
		fmt.Println(l)
	}
	if res.HarnessErr != "" {
		fmt.Println("harness error:", res.HarnessErr)
		Cleanup()
		return 2
	}
	if len(res.Findings) == 0 {
		fmt.Println("replay: no violation")
		return 0
	}
	for _, f := range res.Findings {
		fmt.Printf("VIOLATION property=%s replay=%s\n  signature=%s\n  %s\n  %s\n", rp.Property, path, f.Signature, f.What, f.Detail)
	}
	Cleanup()
	return 1
}
