// ec: engine E-C driver.  ec check C08|C10crash | ec replay <file> | ec victim <dir> <blocks> <op> | ec worker | ec prep <dir> <blocks> <event>...
package main

import (
	"encoding/json"
	"fmt"
	"os"
	"runtime"

	"verif/harness/ec"
	"verif/harness/kernel"
)

func init() {
	// the victim's operation must run on one OS thread (the process's main thread) so that the tracer sees its
	// system calls in program order
	if len(os.Args) > 1 && os.Args[1] == "victim" {
		runtime.LockOSThread()
	}
}

func main() {
	if len(os.Args) < 2 {
		fmt.Fprintln(os.Stderr, "usage: ec check <C08|C10crash> | replay <file> | victim <dir> <blocks> <op> | prep <dir> <blocks> [dirty] <event>...")
		os.Exit(2)
	}
	switch os.Args[1] {
	case "victim":
		ec.VictimMain(os.Args[2:])
	case "cont":
		ec.ContMain(os.Args[2:])
	case "worker":
		kernel.ExitAfterResponse = func() bool { return ec.Poisoned }
		kernel.WorkerMain(ec.Exec)
		ec.Cleanup()
	case "check":
		if len(os.Args) < 3 {
			fmt.Fprintln(os.Stderr, "usage: ec check C08|C10crash")
			os.Exit(2)
		}
		os.Exit(ec.Check(os.Args[2]))
	case "replay":
		if len(os.Args) < 3 {
			fmt.Fprintln(os.Stderr, "usage: ec replay <file>")
			os.Exit(2)
		}
		os.Exit(ec.ReplayFile(os.Args[2]))
	case "job":
		// ec job '<json Job>' : run one job verbosely (debugging aid)
		var j ec.Job
		if err := json.Unmarshal([]byte(os.Args[2]), &j); err != nil {
			fmt.Fprintln(os.Stderr, err)
			os.Exit(2)
		}
		res := ec.RunJob(&j, true)
		ec.Cleanup()
		for _, l := range res.Verbose {
			fmt.Println(l)
		}
		res.Verbose = nil
		b, _ := json.MarshalIndent(res, "", " ")
		fmt.Println(string(b))
	case "prep":
		dirty := false
		ev := os.Args[4:]
		if len(ev) > 0 && ev[0] == "dirty" {
			dirty = true
			ev = ev[1:]
		}
		n := 0
		fmt.Sscan(os.Args[3], &n)
		p, err := ec.BuildPre(os.Args[2], n, ev, dirty)
		if err != nil {
			fmt.Fprintln(os.Stderr, err)
			os.Exit(2)
		}
		fmt.Println(p.Chain, p.Rev)
	default:
		fmt.Fprintln(os.Stderr, "unknown subcommand")
		os.Exit(2)
	}
}
