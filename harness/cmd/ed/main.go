// ed: engine E-D driver.  ed check C15|C10conc|C05mon | ed replay <file> | ed worker | ed racepass <id> | ed one <json job>
package main

import (
	"encoding/json"
	"fmt"
	"os"

	"verif/harness/ed"
)

func main() {
	code := run()
	ed.C10Cleanup()
	os.Exit(code)
}

func run() int {
	if len(os.Args) < 2 {
		fmt.Fprintln(os.Stderr, "usage: ed check <id> | replay <file> | worker | racepass <id> | one <job-json>")
		return 2
	}
	switch os.Args[1] {
	case "worker":
		ed.WorkerMain()
	case "one":
		ed.Quiet()
		var job ed.Job
		if err := json.Unmarshal([]byte(os.Args[2]), &job); err != nil {
			fmt.Fprintln(os.Stderr, err)
			return 2
		}
		jr := ed.RunJob(&job)
		if jr.Sample != nil {
			for _, l := range jr.Sample.Schedule {
				fmt.Println(l)
			}
			jr.Sample.Schedule = nil
		}
		jr.Trace = nil
		b, _ := json.MarshalIndent(jr, "", " ")
		fmt.Println(string(b))
	default:
		return ed.Main(os.Args[1:])
	}
	return 0
}
