// ed: engine E-D driver.  ed check C15|C10conc|C05mon | ed replay <file> | ed worker | ed racepass <id> | ed one <json job>
package main

import (
	"encoding/json"
	"fmt"
	"os"

	"verif/harness/ed"
)

func main() {
	if len(os.Args) < 2 {
		fmt.Fprintln(os.Stderr, "usage: ed check <id> | replay <file> | worker | racepass <id> | one <job-json>")
		os.Exit(2)
	}
	switch os.Args[1] {
	case "worker":
		ed.WorkerMain()
	case "one":
		ed.Quiet()
		var job ed.Job
		if err := json.Unmarshal([]byte(os.Args[2]), &job); err != nil {
			fmt.Fprintln(os.Stderr, err)
			os.Exit(2)
		}
		jr := ed.RunJob(&job)
		for _, l := range jr.Trace {
			_ = l
		}
		if jr.Sample != nil {
			for _, l := range jr.Sample.Schedule {
				fmt.Println(l)
			}
			jr.Sample.Schedule = nil
		}
		jr.Trace = nil
		b, _ := json.MarshalIndent(jr, "", " ")
		fmt.Println(string(b))
	default:
		os.Exit(ed.Main(os.Args[1:]))
	}
}
