package main

import (
	"bufio"
	"encoding/json"
	"fmt"
	"net"
	"os"
	"strconv"
	"syscall"
	"time"

	"verif/harness/eb"
)

// ssyncChild is what jiva's REAL sync agent re-executes as "ssync" in the runs that put the agent (process table, port
// allocator, exit-code bookkeeping of sync/agent) inside the explored system.  It honours the command line the agent
// builds (-host, -timeout, -port, -daemon <destfile> | <srcfile>) and the contract the agent and the replica client
// rely on: a receiver binds its port (exit 1 if it cannot), serves senders for as long as it lives and ends with exit 0
// when a sender tells it the transfer is over; a sender exits 0 only after the whole file has arrived.  The transfer
// itself (sparse-tools' ssync protocol, an external library) is stood in for by a local hole-preserving copy into the
// existing destination inode, over a one-line-per-message TCP exchange on 127.0.0.1:<port>.
// VERIF_SSYNC_FAULT (inherited from the harness at spawn time) makes a SENDER die after the receiver has created and
// sized the destination file: "exit1" = it exits non-zero, "kill" = it dies from a signal.  The receiver then stays
// alive, as a real one does (it only ends when a sender says so).
type ssyncMsg struct {
	Src   string `json:"src,omitempty"`
	Fault bool   `json:"fault,omitempty"`
	Close bool   `json:"close,omitempty"`
	Quit  bool   `json:"quit,omitempty"`
}

func ssyncChild() {
	var host, port, file string
	daemon := false
	timeout := 7
	a := os.Args[1:]
	for i := 0; i < len(a); i++ {
		switch a[i] {
		case "-host":
			i++
			host = a[i]
		case "-port":
			i++
			port = a[i]
		case "-timeout":
			i++
			timeout, _ = strconv.Atoi(a[i])
		case "-httpTimeout":
			i++
		case "-daemon":
			daemon = true
		default:
			file = a[i]
		}
	}
	_ = host // the nodes' addresses are not routable: every agent of this process listens on the loopback interface
	if daemon {
		ssyncReceiver(port, file)
	}
	ssyncSender(port, file, timeout)
}

func ssyncDbg(f string, a ...interface{}) {
	if d := os.Getenv("VERIF_DEBUG_DIR"); d != "" { // debugging aid
		if fh, err := os.OpenFile(d+"/ssync.log", os.O_CREATE|os.O_APPEND|os.O_WRONLY, 0644); err == nil {
			fmt.Fprintf(fh, "%s pid %d ppid %d: %s\n", time.Now().Format("15:04:05.000"), os.Getpid(), os.Getppid(), fmt.Sprintf(f, a...))
			fh.Close()
		}
	}
}

func ssyncReceiver(port, dest string) {
	l, err := net.Listen("tcp", "127.0.0.1:"+port)
	if err != nil {
		fmt.Fprintln(os.Stderr, "ssync receiver: bind:", err)
		ssyncDbg("receiver %s %s: bind failed: %v", port, dest, err)
		os.Exit(1)
	}
	// nothing outlives the harness by much
	go func() { time.Sleep(120 * time.Second); os.Exit(3) }()
	for {
		c, err := l.Accept()
		if err != nil {
			os.Exit(1)
		}
		rd := bufio.NewReader(c)
		for {
			line, err := rd.ReadBytes('\n')
			if err != nil {
				break // the sender is gone: keep serving (a stale receiver)
			}
			var m ssyncMsg
			if json.Unmarshal(line, &m) != nil {
				break
			}
			switch {
			case m.Quit:
				os.Exit(0)
			case m.Close:
				fmt.Fprintln(c, "bye")
				os.Exit(0)
			case m.Fault:
				// the destination is created and sized, then the sender dies
				if st, err := os.Stat(m.Src); err == nil {
					if f, err := os.OpenFile(dest, os.O_RDWR|os.O_CREATE, 0644); err == nil {
						f.Truncate(st.Size())
						f.Close()
					}
				}
				fmt.Fprintln(c, "sized")
			default:
				if err := eb.TransferFile(m.Src, dest); err != nil {
					fmt.Fprintln(c, "error "+err.Error())
				} else {
					fmt.Fprintln(c, "ok")
				}
			}
		}
		c.Close()
	}
}

func ssyncSender(port, src string, timeout int) {
	var c net.Conn
	var err error
	deadline := time.Now().Add(time.Duration(timeout) * time.Second)
	for {
		if c, err = net.Dial("tcp", "127.0.0.1:"+port); err == nil {
			break
		}
		if time.Now().After(deadline) {
			fmt.Fprintln(os.Stderr, "ssync sender: connect:", err)
			ssyncDbg("sender %s %s: connect failed: %v", port, src, err)
			os.Exit(1)
		}
		time.Sleep(5 * time.Millisecond)
	}
	fault := os.Getenv("VERIF_SSYNC_FAULT")
	b, _ := json.Marshal(ssyncMsg{Src: src, Fault: fault != ""})
	fmt.Fprintf(c, "%s\n", b)
	rd := bufio.NewReader(c)
	line, err := rd.ReadString('\n')
	if err != nil {
		ssyncDbg("sender %s %s: no reply: %v", port, src, err)
		os.Exit(1)
	}
	if line != "ok\n" {
		ssyncDbg("sender %s %s fault=%q: reply %q", port, src, fault, line)
	}
	switch {
	case line == "sized\n" && fault == "kill":
		syscall.Kill(os.Getpid(), syscall.SIGKILL)
		select {}
	case line == "sized\n":
		os.Exit(1)
	case line != "ok\n":
		fmt.Fprint(os.Stderr, "ssync sender: ", line)
		os.Exit(1)
	}
	b, _ = json.Marshal(ssyncMsg{Close: true})
	fmt.Fprintf(c, "%s\n", b)
	rd.ReadString('\n')
	os.Exit(0)
}
