// eb: engine E-B driver.  eb check <property> | eb worker | eb replay <file>
package main

import (
	"syscall"

	"fmt"
	"github.com/docker/docker/pkg/reexec"
	"github.com/openebs/sparse-tools/cli/sfold"
	"os"
	"strings"
	"time"

	"verif/harness/eb"
	"verif/harness/kernel"
)

type run struct {
	name   string
	cfg    eb.Cfg
	depth  int
	budget time.Duration
}

func confDepth(tier string) int {
	if tier == "thorough" {
		return 4
	}
	return 3
}

func confMax(tier string) int {
	if tier == "thorough" {
		return 2500
	}
	return 400
}

func minutes(f float64) time.Duration { return time.Duration(f * float64(time.Minute)) }

// membership roots (non-initial states): the volume is started on node 0, further replicas are added and promoted.
var (
	started = []string{"Reg:0", "Reg:1", "Start:0"}
	rw2     = append(append([]string{}, started...), "Add:1", "Sync:1", "Verify:1")
	rw3     = append(append([]string{}, rw2...), "Add:2", "Sync:2", "Verify:2")
	rw2wo   = append(append([]string{}, rw2...), "Add:2")
	rw1wo   = append(append([]string{}, started...), "Add:1")
)

func runsFor(prop, tier string) []run {
	th := tier == "thorough"
	pick := func(q, t int) int {
		if th {
			return t
		}
		return q
	}
	pickf := func(q, t float64) float64 {
		if th {
			return t
		}
		return q
	}
	io := []string{"W", "Sy", "Un"}
	member := []string{"Add", "Sync", "Verify", "Remove", "MonFail", "Restart"}
	switch prop {
	case "C02":
		alpha := append(append([]string{}, io...), member...)
		or := []string{"c02", "c05", "c18"}
		mk := func(rf int, init []string) eb.Cfg {
			return eb.Cfg{RF: rf, N: rf, Alphabet: alpha, Oracles: or, Drain: true, MaxWrites: 3, MaxAdds: 2, MaxRestarts: 2, InitOps: init}
		}
		full := eb.Cfg{RF: 3, N: 3, Alphabet: append([]string{"Reg", "Start"}, alpha...), Oracles: or, Drain: true, MaxWrites: 2, MaxAdds: 3, MaxRestarts: 1, MaxRegs: 3}
		r1 := eb.Cfg{RF: 1, N: 2, Alphabet: append([]string{"Reg", "Start"}, alpha...), Oracles: or, Drain: true, MaxWrites: 3, MaxAdds: 2, MaxRestarts: 2, MaxRegs: 2}
		r2 := eb.Cfg{RF: 2, N: 2, Alphabet: append([]string{"Reg", "Start"}, alpha...), Oracles: or, Drain: true, MaxWrites: 3, MaxAdds: 2, MaxRestarts: 2, MaxRegs: 2}
		return []run{
			{"rf3-from-3rw", mk(3, rw3), pick(4, 6), minutes(pickf(0.6, 4))},
			{"rf3-from-2rw+wo", mk(3, rw2wo), pick(4, 6), minutes(pickf(0.6, 4))},
			{"rf3-from-2rw", mk(3, rw2), pick(4, 6), minutes(pickf(0.5, 4))},
			{"rf3-from-1rw+wo", mk(3, rw1wo), pick(4, 6), minutes(pickf(0.4, 3))},
			{"rf3-from-initial", full, pick(7, 9), minutes(pickf(0.6, 4))},
			{"rf2-from-initial", r2, pick(7, 9), minutes(pickf(0.4, 3))},
			{"rf1-from-initial", r1, pick(6, 8), minutes(pickf(0.3, 2))},
			// every backend's data path is the real rpc.Client -> loopback TCP -> real rpc.Server -> node
			{"rf3-from-3rw-data-path-through-rpc", func() eb.Cfg {
				c := mk(3, rw3)
				c.Alphabet = append(append([]string{}, io...), "Remove", "MonFail")
				c.ViaRPC = true
				return c
			}(), pick(3, 4), minutes(pickf(0.5, 4))},
		}
	case "C03":
		alpha := append(append(append([]string{}, io...), member...), "ERR", "RW", "Snap")
		or := []string{"c03", "c18"}
		mk := func(rf, n int, init []string, w int) eb.Cfg {
			return eb.Cfg{RF: rf, N: n, Alphabet: alpha, Oracles: or, Drain: true, MaxWrites: w, MaxAdds: 2, MaxRestarts: 2, MaxSnaps: 1, InitOps: init}
		}
		ini := func(rf, n int) eb.Cfg {
			c := mk(rf, n, nil, 2)
			c.Alphabet = append([]string{"Reg", "Start"}, alpha...)
			c.MaxRegs = rf/2 + 2
			return c
		}
		return []run{
			{"rf3-from-3rw", mk(3, 3, rw3, 2), pick(4, 6), minutes(pickf(0.6, 4))},
			{"rf3-from-2rw", mk(3, 3, rw2, 2), pick(4, 6), minutes(pickf(0.5, 4))},
			{"rf3-from-initial", ini(3, 3), pick(7, 9), minutes(pickf(0.6, 4))},
			{"rf2-from-initial", ini(2, 2), pick(7, 9), minutes(pickf(0.4, 3))},
			{"rf1-from-initial", ini(1, 2), pick(6, 8), minutes(pickf(0.3, 2))},
			{"rf4-from-initial", ini(4, 4), pick(6, 8), minutes(pickf(0.4, 3))},
			{"rf5-from-initial", ini(5, 5), pick(6, 7), minutes(pickf(0.4, 3))},
			// a volume revert that fails on a subset of the replicas, then writes and flushes before the monitor wake-ups
			// have removed the failed replicas: the status must have been re-evaluated at the mode change itself
			{"rf3-revert-failing-on-a-subset-then-io", func() eb.Cfg {
				c := mk(3, 3, append(append([]string{}, rw3...), "W:0", "Snap:0"), 3)
				c.Alphabet = []string{"Revert", "W", "Sy", "MonWake"}
				c.Drain = false
				c.MaxSnaps = 2
				c.MaxFaults = 3
				return c
			}(), pick(3, 4), minutes(pickf(0.5, 4))},
			// replicas fail while the volume is idle: only the monitor path (real monitorPing goroutine on the real rpc
			// client, real Controller.monitoring) can notice - cut connections, refused pings - then writes and flushes
			{"rf3-idle-failures-real-monitor-and-rpc", func() eb.Cfg {
				c := mk(3, 3, rw3, 2)
				c.Alphabet = []string{"ConnDrop", "PingF", "PingOK", "W", "Sy", "Remove"}
				c.ViaRPC, c.RealMon = true, true
				c.MaxFaults = 3
				return c
			}(), pick(3, 4), minutes(pickf(0.8, 5))},
		}
	case "C04":
		alpha := []string{"W0", "R", "Add", "Reb", "Sync", "Verify", "VerifyF", "VerifyEarly", "Remove", "ERR", "MonFail", "Restart"}
		or := []string{"c04", "c07", "c10"}
		mk := func(init []string, drain bool) eb.Cfg {
			a := alpha
			if !drain {
				a = append(append([]string{}, alpha...), "MonWake")
			}
			return eb.Cfg{RF: 3, N: 3, Alphabet: a, Oracles: or, Drain: drain, MaxWrites: 2, MaxReads: 3, MaxAdds: 2, MaxRestarts: 1, MaxFaults: 3, InitOps: init}
		}
		return []run{
			{"rf3-from-3rw", mk(rw3, true), pick(4, 6), minutes(pickf(0.5, 4))},
			{"rf3-from-2rw+wo", mk(rw2wo, true), pick(5, 6), minutes(pickf(0.6, 4))},
			{"rf3-from-1rw+wo", mk(rw1wo, true), pick(5, 7), minutes(pickf(0.5, 4))},
			{"rf3-from-1rw", mk(started, true), pick(6, 8), minutes(pickf(0.5, 4))},
			{"rf3-from-2rw+wo-windows", mk(rw2wo, false), pick(4, 6), minutes(pickf(0.6, 4))},
			// every backend's data path is the real rpc.Client -> loopback TCP -> real rpc.Server -> node (a scripted failure
			// of a data call is an error reply of the server)
			{"rf3-from-3rw-data-path-through-rpc", func() eb.Cfg {
				c := mk(rw3, true)
				c.Alphabet = []string{"W0", "R", "Remove", "ERR", "MonFail", "Restart"}
				c.ViaRPC = true
				return c
			}(), pick(3, 5), minutes(pickf(0.5, 4))},
		}
	case "C05":
		alpha := []string{"W", "Sy", "Un", "R", "Snap", "ERR", "MonFail", "MonWake", "Remove", "Add", "Sync", "Verify", "Restart"}
		or := []string{"c02", "c05", "c04", "c18"}
		mk := func(rf, n int, init []string) eb.Cfg {
			return eb.Cfg{RF: rf, N: n, Alphabet: alpha, Oracles: or, Drain: false, MaxWrites: 2, MaxReads: 2, MaxSnaps: 1, MaxAdds: 2, MaxRestarts: 1, MaxFaults: 3, InitOps: init}
		}
		return []run{
			{"rf3-from-3rw", mk(3, 3, rw3), pick(4, 6), minutes(pickf(1, 6))},
			{"rf3-from-2rw+wo", mk(3, 3, rw2wo), pick(4, 6), minutes(pickf(0.8, 5))},
			{"rf3-from-2rw", mk(3, 3, rw2), pick(5, 7), minutes(pickf(0.7, 5))},
			{"rf3-from-3rw-data-path-through-rpc", func() eb.Cfg {
				c := mk(3, 3, rw3)
				c.Alphabet = []string{"W", "Sy", "Un", "R", "MonFail", "MonWake", "Remove"}
				c.ViaRPC = true
				return c
			}(), pick(3, 4), minutes(pickf(0.5, 4))},
			// the monitor path end to end: real monitorPing goroutines on real rpc clients, real Controller.monitoring;
			// connections cut while idle, refused pings, failing I/O
			{"rf3-real-monitor-and-rpc", func() eb.Cfg {
				c := mk(3, 3, rw3)
				c.Alphabet = []string{"ConnDrop", "PingF", "PingOK", "W", "R", "Remove"}
				c.ViaRPC, c.RealMon, c.Drain = true, true, true
				return c
			}(), pick(3, 4), minutes(pickf(0.8, 5))},
			{"rf2-from-2rw", mk(2, 2, rw2), pick(5, 7), minutes(pickf(0.5, 3))},
		}
	case "C09":
		alpha := []string{"Reg", "RegF", "RegL", "Down", "Up", "Start", "StartWrong", "StartAll", "Restart"}
		var rs []run
		for _, a := range []struct {
			name   string
			rf, n  int
			revs   []int64
			states []string
		}{
			{"rf3-revs-111", 3, 3, []int64{1, 1, 1}, nil},
			{"rf3-revs-115", 3, 3, []int64{1, 1, 5}, nil},
			{"rf3-revs-155", 3, 3, []int64{1, 5, 5}, nil},
			{"rf3-revs-159", 3, 3, []int64{1, 5, 9}, nil},
			{"rf3-revs-159-top-rebuilding", 3, 3, []int64{1, 5, 9}, []string{"", "", "rebuilding"}},
			{"rf3-revs-559-mid-rebuilding", 3, 3, []int64{5, 5, 9}, []string{"", "rebuilding", ""}},
			{"rf3-4ids-1599", 3, 4, []int64{1, 5, 9, 9}, nil},
			{"rf2-revs-15", 2, 2, []int64{1, 5}, nil},
			{"rf1-revs-15", 1, 2, []int64{1, 5}, nil},
			{"rf5-revs-11559", 5, 5, []int64{1, 1, 5, 5, 9}, nil},
		} {
			d := pick(5, 7)
			if a.rf >= 5 || a.n >= 4 {
				d = pick(5, 6)
			}
			_ = d
			rs = append(rs, run{a.name, eb.Cfg{RF: a.rf, N: a.n, Alphabet: alpha, Oracles: []string{"c09"}, Drain: true, MaxRegs: 5, MaxRestarts: 1, MaxFaults: 2, Revs: a.revs, States: a.states}, d, minutes(pickf(0.3, 2))})
		}
		// the same bootstrap through the way replicas really register: controller/client.Register -> controller/rest
		for _, a := range []struct {
			name   string
			revs   []int64
			states []string
		}{
			{"rf3-revs-159-top-rebuilding-through-rest", []int64{1, 5, 9}, []string{"", "", "rebuilding"}},
			{"rf3-revs-559-mid-rebuilding-through-rest", []int64{5, 5, 9}, []string{"", "rebuilding", ""}},
			{"rf3-revs-155-through-rest", []int64{1, 5, 5}, nil},
		} {
			rs = append(rs, run{a.name, eb.Cfg{RF: 3, N: 3, Alphabet: alpha, Oracles: []string{"c09"}, Drain: true, MaxRegs: 5, MaxRestarts: 1, MaxFaults: 2, Revs: a.revs, States: a.states, ViaREST: true}, pick(5, 7), minutes(pickf(0.3, 2))})
		}
		// the replicas' REAL registration loops (sync.Task.AddReplica on real replica servers: ask for the volume, register,
		// wait for the controller's action or the retry tick, start the volume or join through a rebuild), one task per
		// replica under step control, every interleaving of their top-level requests; the controller's signal travels
		// through the real SignalToAdd and the replica's REST start handler
		for _, a := range []struct {
			name string
			revs []int64
		}{
			{"rf3-real-registration-loops-revs-159", []int64{1, 5, 9}},
			{"rf3-real-registration-loops-revs-955", []int64{9, 5, 5}},
		} {
			rs = append(rs, run{a.name, eb.Cfg{RF: 3, N: 3, Alphabet: []string{"Boot", "StepB"}, Oracles: []string{"c09", "c18"}, Drain: true, Real: true, MaxRetries: 1, Revs: a.revs}, pick(14, 26), minutes(pickf(0.5, 4))})
		}
		// bootstrap again after the volume lost every replica while the controller kept running
		loss := eb.Cfg{RF: 3, N: 3, Alphabet: []string{"MonFail", "Restart", "Reg", "RegF", "Start", "StartWrong", "Down", "Up"}, Oracles: []string{"c09"}, Drain: true, MaxRegs: 6, MaxRestarts: 3, MaxFaults: 3, InitOps: rw2}
		rs = append(rs, run{"rf3-rebootstrap-after-total-loss", loss, pick(6, 8), minutes(pickf(0.5, 3))})
		loss2 := loss
		loss2.InitOps = append(append([]string{}, rw2...), "W:0", "MonFail:1", "Restart:1", "W:0")
		rs = append(rs, run{"rf3-rebootstrap-one-replica-behind", loss2, pick(6, 8), minutes(pickf(0.5, 3))})
		return rs
	case "C07":
		or := []string{"c02", "c04", "c07", "c10", "c18"}
		withData := append(append([]string{}, rw2...), "W:0", "W:0")
		mk := func(init, alpha []string, w, restarts, reads, adds int) eb.Cfg {
			return eb.Cfg{RF: 3, N: 3, Alphabet: alpha, Oracles: or, Drain: true, Real: true, MaxWrites: w, MaxReads: reads, MaxAdds: adds, MaxRestarts: restarts, MaxFaults: 2, InitOps: init}
		}
		// the third replica was part of the volume, fell behind (it misses the last write and an add-time snapshot)
		diverged := append(append([]string{}, rw3...), "W:0", "MonFail:2", "Restart:2", "W:0")
		return []run{
			{"rebuild-empty-joiner-writes-in-every-gap", mk(withData, []string{"RB", "Step", "W0", "R"}, 5, 0, 1, 3), pick(28, 30), minutes(pickf(1.1, 8))},
			{"rebuild-diverged-joiner-writes-in-every-gap", mk(diverged, []string{"RB", "Step", "W0"}, 4, 0, 0, 5), pick(28, 32), minutes(pickf(0.6, 8))},
			// the joiner is AHEAD of the source: writes in flight reached it and nobody else before it dropped out (they were
			// never acknowledged), so its revision counter is the higher one while the chains carry the same names
			{"rebuild-joiner-ahead-of-the-source", mk(append(append([]string{}, rw3...), "W:0", "MonFail:2", "Ahead:2", "Restart:2", "W:0"), func() []string {
				if th {
					return []string{"RB", "Step", "W0", "R"}
				}
				return []string{"RB", "Step"} // the quick tier walks the rebuild itself; writes in every gap are the thorough tier's
			}(), 4, 0, 1, 5), pick(30, 32), minutes(pickf(0.5, 4))},
			// the joiner is LEVEL with the source (it dropped out and came back with no write in between: equal revision
			// counters, equal chains): the task may skip the file copy, and what it promotes must still be identical
			{"rebuild-joiner-level-with-the-source", mk(append(append([]string{}, rw3...), "W:0", "W:0", "MonFail:2", "Restart:2"), func() []string {
				if th {
					return []string{"RB", "Step", "W0", "R"}
				}
				return []string{"RB", "Step"}
			}(), 4, 0, 1, 5), pick(30, 32), minutes(pickf(0.4, 4))},
			// ... and LEVEL BY COUNT ONLY: one unacknowledged write reached only the joiner before it dropped out, the volume
			// acknowledged one other write before it came back.  The counters are equal, the contents are not.  (On the
			// pinned tree the task skips the copy: known finding, see known_findings.json; the signatures of this run carry
			// the history's name so that the same oracles failing on any other history are still reported.)
			{"rebuild-joiner-level-by-count-different-by-content", func() eb.Cfg {
				c := mk(append(append([]string{}, rw3...), "W:0", "MonFail:2", "Ahead:2:1", "Restart:2", "W:0"), []string{"RB", "Step"}, 4, 0, 1, 5)
				c.SigTag = "joiner-with-equal-revision-counter-and-different-content"
				return c
			}(), pick(30, 32), minutes(pickf(0.4, 2))},
			{"rebuild-full-volume-scattered-overwrites", func() eb.Cfg {
				c := mk(append(append([]string{}, rw2...), "W:0", "W:0", "W:0", "W:0"), []string{"RB", "Step", "Wb"}, 6, 0, 0, 3)
				c.WBlocks = []int{0, 2}
				return c
			}(), pick(26, 30), minutes(pickf(1.2, 8))},
			{"overlapping-admissions-model-nodes", func() eb.Cfg {
				c := eb.Cfg{RF: 3, N: 4, Alphabet: []string{"AddB", "AddF", "Sync", "Verify", "VerifyF", "W0", "R", "MonFail", "Restart"}, Oracles: or, Drain: true, MaxWrites: 2, MaxReads: 2, MaxAdds: 4, MaxRestarts: 1, MaxFaults: 2, InitOps: append(append([]string{}, started...), "W:0")}
				return c
			}(), pick(6, 8), minutes(pickf(0.4, 3))},
			{"rebuild-killed-at-every-gate-then-retried", mk(withData, []string{"RB", "Step", "Kill", "MonFail", "W0"}, 3, 1, 0, 4), pick(30, 60), minutes(pickf(1.0, 10))},
			// an interrupted rebuild had already copied every snapshot; the source then unmaps a block held by one of them
			// (closed files change in place, no revision counter moves); the second rebuild must bring the copy up to date
			{"rebuild-retried-after-an-unmap-on-the-source", func() eb.Cfg {
				init := append(append([]string{}, withData...), "RB:2")
				for i := 0; i < 15; i++ {
					init = append(init, "Step")
				}
				init = append(init, "Kill")
				return mk(init, []string{"UnB", "W0", "RB", "Step"}, 3, 1, 0, 4)
			}(), pick(24, 26), minutes(pickf(0.5, 3))},
			{"rebuild-with-an-unmap-in-every-gap", func() eb.Cfg {
				c := mk(withData, []string{"RB", "Step", "UnB"}, 2, 0, 0, 3)
				c.UnmapAnytime = true
				return c
			}(), pick(24, 26), minutes(pickf(0.5, 3))},
			// the transfers are launched by jiva's REAL sync agent (process table, port allocator with a three-port range,
			// exit-code bookkeeping; the ssync child is the harness binary): a sender that exits non-zero or is killed
			// after the receiver sized the file, the replica process exiting after the failed rebuild, the retry meeting
			// the receiver that is still alive
			{"rebuild-through-the-real-sync-agent", func() eb.Cfg {
				c := mk(withData, []string{"RB", "Step", "XferFail", "XferKill", "AgentRestart", "Crash", "MonFail"}, 2, 2, 0, 4)
				c.RealAgent, c.AgentPorts = true, 3
				return c
			}(), pick(16, 50), minutes(pickf(0.7, 6))},
			// ... from the root "the first rebuild's sender was killed, its receiver is still alive, the replica process has
			// exited and been detached": the retry's port allocation meets the busy port when the cursor wraps
			{"rebuild-retried-while-a-receiver-of-the-failed-attempt-lives", func() eb.Cfg {
				init := append(append([]string{}, withData...), "RB:2")
				for i := 0; i < 11; i++ {
					init = append(init, "Step")
				}
				init = append(init, "XferKill", "Step", "Step", "Crash", "MonFail:2")
				c := mk(init, []string{"W0", "RB", "Step"}, 3, 2, 0, 5)
				c.RealAgent, c.AgentPorts = true, 3
				return c
			}(), pick(26, 28), minutes(pickf(0.7, 4))},
			{"rebuild-with-a-file-transfer-dying-half-way", mk(withData, []string{"RB", "Step", "XferFail"}, 2, 0, 0, 3), pick(30, 60), minutes(pickf(0.6, 6))},
		}
	case "C06ctl":
		// the volume-level revert (Controller.Revert: name -> disk file, every replica reverted, frontend restarted) on real
		// replicas, to EVERY snapshot on the chain, with snapshot names of which the older ones are prefixes of the newer
		// ones; afterwards the volume reads back exactly the image the snapshot captured, on every replica
		c := eb.Cfg{RF: 2, N: 2, Alphabet: []string{"W0", "Snap0", "RevertTo", "R"}, Oracles: []string{"c06", "c04", "c02", "c18"}, Drain: true, Real: true, PrefixNames: true,
			MaxWrites: 5, MaxSnaps: 3, MaxReads: 2, MaxReverts: 2, InitOps: append(append([]string{}, rw2...), "W:0", "Snap:0", "W:0")}
		return []run{{"rf2-real-replicas-revert-to-every-snapshot-prefix-names", c, pick(5, 7), minutes(pickf(0.8, 5))}}
	case "C16ctl":
		mk := func(rf int, init []string) eb.Cfg {
			return eb.Cfg{RF: rf, N: rf, Alphabet: []string{"Resize", "W0", "R", "MonFail", "MonWake", "ERR", "Remove", "Add", "Sync", "Verify"}, Oracles: []string{"c16", "c04", "c18"}, Drain: false,
				MaxWrites: 2, MaxReads: 1, MaxAdds: 2, MaxFaults: 2, InitOps: init}
		}
		return []run{
			{"rf3-from-3rw", mk(3, rw3), pick(3, 5), minutes(pickf(0.5, 4))},
			{"rf3-from-2rw+wo", mk(3, rw2wo), pick(3, 5), minutes(pickf(0.5, 4))},
			{"rf2-from-1rw+wo", mk(2, rw1wo), pick(4, 5), minutes(pickf(0.4, 3))},
			// the same on REAL replica nodes (real replica.Server behind the real replica/rest router): what a replica
			// answers to a repeated, an equal or a smaller size is the implementation's, not the model's
			{"rf2-real-nodes", func() eb.Cfg {
				c := mk(2, rw2)
				c.Real = true
				c.Alphabet = []string{"Resize", "W0", "R"}
				return c
			}(), pick(3, 4), minutes(pickf(0.5, 3))},
			// a grow arriving in every gap of a REAL rebuild (real replicas, real rebuild task): the replica that is rebuilding
			// refuses it and leaves service, or - whatever happens - a replica that ends up promoted reads the whole grown
			// volume exactly like the source
			{"rf3-grow-in-every-gap-of-a-real-rebuild", eb.Cfg{RF: 3, N: 3, Alphabet: []string{"RB", "Step", "Grow0"}, Oracles: []string{"c16", "c07", "c04", "c18"}, Drain: true, Real: true,
				MaxWrites: 2, MaxAdds: 3, InitOps: append(append([]string{}, rw2...), "W:0", "W:0")}, pick(28, 30), minutes(pickf(0.7, 4))},
		}
	case "C11rest":
		mk := func(init []string) eb.Cfg {
			return eb.Cfg{RF: 2, N: 2, Alphabet: []string{"W0", "Snap", "DelSnap", "MonFail", "MonWake", "ERR", "Remove", "RB", "Step"}, Oracles: []string{"c11", "c18"}, Drain: false, Real: true,
				MaxWrites: 2, MaxSnaps: 3, MaxAdds: 3, MaxFaults: 2, InitOps: init}
		}
		full := append(append([]string{}, rw2...), "W:0", "Snap:0", "W:0", "Snap:0")
		// two leave/re-add cycles leave automatic snapshots between the base and the checkpoint: real cleaner loop, tick by tick
		cyc := []string{"Reg:0", "Reg:1", "Start:0", "W:0", "Add:1", "Sync:1", "Verify:1", "W:0", "Remove:1", "Restart:1", "Add:1", "Sync:1", "Verify:1", "W:0",
			"Remove:1", "Restart:1", "Add:1", "Sync:1", "Verify:1", "W:0", "Cleaners"}
		clean := eb.Cfg{RF: 2, N: 2, Alphabet: []string{"Tick", "TickF", "TickK", "TickS", "W0", "DelSnap", "Snap"}, Oracles: []string{"c11", "c02", "c18"}, Drain: true, Real: true,
			MaxWrites: 5, MaxSnaps: 1, MaxFaults: 2, InitOps: cyc}
		// a user snapshot exists and the second replica is being rebuilt (WO): deleteSnapshot must be refused until the
		// verify promoted it and a checkpoint is recorded
		reb := mk(append(append([]string{}, started...), "W:0", "Snap:0", "W:0", "Add:1"))
		reb.Alphabet = []string{"W0", "Snap", "DelSnap", "Sync", "Verify", "MonFail", "MonWake", "ERR"}
		return []run{
			{"rf2-deletion-while-rebuilding", reb, pick(4, 5), minutes(pickf(0.4, 3))},
			{"rf2-from-2rw-two-user-snapshots", mk(full), pick(4, 5), minutes(pickf(0.8, 6))},
			{"rf2-from-2rw", mk(rw2), pick(4, 6), minutes(pickf(0.5, 5))},
			{"rf2-real-cleaner-loop-tick-by-tick", clean, pick(4, 5), minutes(pickf(0.8, 5))},
		}
	case "C19":
		src2 := []string{"Reg:0", "Start:0", "W:0", "Snap:0", "W:0", "Snap:0", "W:0"}
		src1 := []string{"Reg:0", "Start:0", "W:0", "W:0", "Snap:0"}
		mk := func(init, alpha []string, restarts, faults, w int) eb.Cfg {
			return eb.Cfg{RF: 1, N: 2, Alphabet: alpha, Oracles: []string{"c19"}, Drain: true, Real: true, Clone: true, MaxWrites: w, MaxRestarts: restarts, MaxFaults: faults, MaxSnaps: 2, InitOps: init}
		}
		polling := func(src []string) []string {
			return append(append([]string{}, src...), "BReg", "BStart", "StepX", "StepX", "StepX", "StepX", "StepX", "StepX", "StepX", "StepX")
		}
		return []run{
			{"clone-while-controller-polls", mk(polling(src2), []string{"CloneProc", "Step", "StepX"}, 0, 0, 3), pick(24, 30), minutes(pickf(0.8, 4))},
			{"clone-with-source-writes-and-outage", mk(polling(src1), []string{"CloneProc", "Step", "StepX", "W0", "SrcDown", "SrcUp"}, 0, 1, 3), pick(24, 32), minutes(pickf(1.0, 6))},
			{"clone-killed-and-restarted", mk(polling(src1), []string{"CloneProc", "Step", "StepX", "Kill"}, 1, 0, 2), pick(22, 40), minutes(pickf(0.6, 6))},
			// the cloned snapshot overwrites a block that the older snapshot holds as well
			{"clone-with-a-failing-extent-query", mk(polling([]string{"Reg:0", "Start:0", "W:0", "Snap:0", "W:0", "W:0", "W:0", "W:0", "Snap:0", "W:0"}), []string{"CloneProc", "Step", "StepX", "FiemapFail"}, 0, 1, 7), pick(24, 32), minutes(pickf(0.5, 4))},
			// one transfer of a snapshot file dies half way (the sender exits non-zero): the copy is retried from the start
			{"clone-with-a-file-transfer-dying-half-way", mk(polling(src2), []string{"CloneProc", "Step", "StepX", "XferFail"}, 0, 1, 3), pick(24, 34), minutes(pickf(0.5, 4))},
			{"clone-through-the-real-sync-agent", func() eb.Cfg {
				c := mk(polling(src2), []string{"CloneProc", "Step", "StepX", "XferFail", "XferKill", "AgentRestart"}, 0, 1, 3)
				c.RealAgent, c.AgentPorts = true, 3
				return c
			}(), pick(16, 40), minutes(pickf(0.7, 5))},
			// ... from the root "the clone has started and the source's sync agent is about to die with the next snapshot-file
			// sender": agent restarted with an empty process table, first status poll refused, the ids taken again by
			// unrelated transfers that end with exit code 0
			{"clone-while-the-source-sync-agent-restarts", func() eb.Cfg {
				c := mk(append(polling(src2), "CloneProc:1", "AgentRestart"), []string{"Step", "StepX"}, 0, 1, 3)
				c.RealAgent, c.AgentPorts = true, 3
				return c
			}(), pick(18, 30), minutes(pickf(0.6, 3))},
			{"clone-vs-start-all-interleavings", mk(src2, []string{"BReg", "BStart", "StepX", "CloneProc", "Step"}, 0, 0, 3), pick(34, 40), minutes(pickf(1.0, 10))},
		}
	case "C13":
		alpha := []string{"W0", "Snap", "Break", "Heal", "Remove", "MonFail", "MonWake", "Add", "Sync", "Verify", "ERR", "Restart"}
		or := []string{"c13", "c18"}
		mk := func(rf int, init []string) eb.Cfg {
			return eb.Cfg{RF: rf, N: rf, Alphabet: alpha, Oracles: or, Drain: false, MaxWrites: 2, MaxSnaps: 2, MaxAdds: 2, MaxRestarts: 1, MaxFaults: 3, InitOps: init}
		}
		// the add-time snapshot is a volume snapshot too: it fails on one replica in service
		addf := mk(3, rw2)
		addf.Alphabet = []string{"AddSnapF", "Add", "Sync", "Verify", "W0", "Snap", "MonWake", "Remove"}
		return []run{
			{"rf3-from-3rw", mk(3, rw3), pick(4, 6), minutes(pickf(1, 6))},
			{"rf3-from-2rw+wo", mk(3, rw2wo), pick(4, 6), minutes(pickf(0.8, 5))},
			{"rf2-from-2rw", mk(2, rw2), pick(5, 7), minutes(pickf(0.6, 4))},
			{"rf2-from-1rw+wo", mk(2, rw1wo), pick(5, 7), minutes(pickf(0.6, 4))},
			{"rf3-add-time-snapshot-fails", addf, pick(4, 6), minutes(pickf(0.5, 4))},
			// the volume is reverted to its newest volume snapshot with the revert call failing on every subset of replicas
			{"rf3-volume-revert", func() eb.Cfg {
				c := mk(3, append(append([]string{}, rw3...), "W:0", "Snap:0", "W:0"))
				c.Alphabet = []string{"Revert", "W0", "Snap", "R", "MonWake", "Remove", "Add", "Sync", "Verify"}
				c.Oracles = []string{"c13", "c18", "c04", "c02"}
				c.MaxWrites, c.MaxSnaps, c.MaxReads = 4, 3, 2
				return c
			}(), pick(4, 6), minutes(pickf(0.6, 5))},
			// real replicas (real replica/rest router, its per-state action map included) and the real rebuild task under gate
			// control: a volume snapshot requested in every gap of a rebuild - among them the window in which the controller
			// already counts the joiner as RW while the replica still answers as "rebuilding" and refuses the action
			{"rf3-snapshot-in-every-gap-of-a-real-rebuild", eb.Cfg{RF: 3, N: 3, Alphabet: []string{"RB", "Step", "Snap0"}, Oracles: []string{"c13", "c18", "c07", "c04"}, Drain: true, Real: true,
				MaxWrites: 2, MaxSnaps: 1, MaxAdds: 3, InitOps: append(append([]string{}, rw2...), "W:0", "W:0")}, pick(28, 30), minutes(pickf(0.7, 5))},
			{"rf2-volume-revert-through-rest", func() eb.Cfg {
				c := mk(2, append(append([]string{}, rw2...), "W:0", "Snap:0", "W:0"))
				c.Alphabet = []string{"Revert", "W0", "Snap", "R", "MonWake", "Remove", "Add", "Sync", "Verify", "ERR"}
				c.Oracles = []string{"c13", "c18", "c04", "c02"}
				c.MaxWrites, c.MaxSnaps, c.MaxReads = 4, 3, 2
				c.ViaREST = true
				return c
			}(), pick(4, 6), minutes(pickf(0.6, 5))},
		}
	case "C18":
		alpha := []string{"Reg", "Start", "StartWrong", "Add", "AddDup", "Sync", "Verify", "VerifyAny", "W", "R", "Snap", "Revert", "MonFail", "MonWake", "Remove", "RemoveUnknown", "ERR", "RW", "Restart"}
		or := []string{"c18"}
		mk := func(rf, n int, init []string) eb.Cfg {
			return eb.Cfg{RF: rf, N: n, Alphabet: alpha, Oracles: or, Drain: false, MaxWrites: 2, MaxReads: 1, MaxSnaps: 1, MaxAdds: 3, MaxRestarts: 2, MaxRegs: 3, MaxFaults: 2, InitOps: init}
		}
		return []run{
			{"rf3-from-3rw", mk(3, 4, rw3), pick(3, 5), minutes(pickf(0.8, 6))},
			{"rf3-from-2rw+wo", mk(3, 4, rw2wo), pick(3, 5), minutes(pickf(0.8, 6))},
			{"rf3-from-1rw", mk(3, 4, started), pick(4, 6), minutes(pickf(0.8, 6))},
			// every management event sent the way the CLI and the replicas send it: controller/client -> controller/rest
			{"rf3-from-2rw+wo-through-rest", func() eb.Cfg {
				c := mk(3, 4, rw2wo)
				c.ViaREST = true
				return c
			}(), pick(3, 4), minutes(pickf(0.6, 5))},
			// a replica was marked ERR by a fault the volume survived (REST set-mode here; a failed resize, snapshot or revert
			// does the same), its process has restarted, and the monitor has not reaped the old entry yet
			{"rf3-replica-marked-ERR-restarted-not-yet-reaped", func() eb.Cfg {
				c := mk(3, 4, append(append([]string{}, rw2...), "ERR:1", "Restart:1"))
				c.Alphabet = []string{"Add", "AddDup", "Sync", "Verify", "W", "MonWake", "Remove", "RW", "ERR"}
				return c
			}(), pick(4, 5), minutes(pickf(0.5, 4))},
			{"rf2-from-initial", mk(2, 3, nil), pick(6, 8), minutes(pickf(0.6, 4))},
			{"rf1-from-initial", mk(1, 2, nil), pick(6, 8), minutes(pickf(0.4, 3))},
			{"rf3-overlapping-adds", func() eb.Cfg {
				c := mk(3, 4, started)
				c.Alphabet = []string{"AddB", "AddF", "Sync", "Verify", "W", "MonFail", "MonWake", "Remove", "Restart"}
				c.MaxAdds = 4
				return c
			}(), pick(5, 7), minutes(pickf(0.6, 5))},
			{"rf2-two-adds-parked-in-create", func() eb.Cfg {
				c := mk(2, 3, append(append([]string{}, started...), "AddB:1", "AddB:2"))
				c.Alphabet = []string{"AddF", "Sync", "Verify", "W", "MonFail", "MonWake", "Remove", "AddB"}
				c.MaxAdds = 4
				return c
			}(), pick(5, 6), minutes(pickf(0.4, 3))},
			{"rf2-overlapping-adds", func() eb.Cfg {
				c := mk(2, 3, started)
				c.Alphabet = []string{"AddB", "AddF", "Sync", "Verify", "W", "MonFail", "MonWake", "Remove"}
				c.MaxAdds = 4
				return c
			}(), pick(5, 7), minutes(pickf(0.5, 4))},
		}
	}
	return nil
}

// sfoldChild is what the real sync agent re-executes as "sfold": the real sparse-tools command line, unless the
// harness asked (through the environment the child inherits) for a child that dies from a signal or exits non-zero
// before it has copied anything.
func sfoldChild() {
	switch os.Getenv("VERIF_SFOLD_FAULT") {
	case "kill":
		syscall.Kill(os.Getpid(), syscall.SIGKILL)
		select {}
	case "exit1":
		os.Exit(1)
	}
	sfold.Main()
}

func main() {
	reexec.Register("sfold", sfoldChild)
	reexec.Register("ssync", ssyncChild)
	if reexec.Init() {
		return
	}
	if len(os.Args) < 2 {
		fmt.Fprintln(os.Stderr, "usage: eb check <prop> | worker | replay <file>")
		os.Exit(2)
	}
	switch os.Args[1] {
	case "worker":
		kernel.ExitAfterResponse = func() bool { return eb.ExitAfter }
		kernel.WorkerMain(eb.Exec)
		eb.Cleanup()
	case "replay":
		rp, err := kernel.ReadReplay(os.Args[2])
		if err != nil {
			fmt.Fprintln(os.Stderr, err)
			os.Exit(2)
		}
		resp := eb.Exec(&kernel.Request{Cfg: rp.Cfg, Path: rp.Path, Final: true, Trace: true})
		eb.Cleanup()
		for _, n := range resp.Note {
			fmt.Println("  ", n)
		}
		if resp.Err != "" {
			fmt.Println("harness error:", resp.Err)
			os.Exit(2)
		}
		if len(resp.Violations) > 0 {
			for _, v := range resp.Violations {
				fmt.Printf("VIOLATION property=%s replay=%s\n  oracle=%s signature=%s\n  %s\n", rp.Property, os.Args[2], v.Oracle, v.Signature, v.Detail)
			}
			os.Exit(1)
		}
		fmt.Println("replay: no violation")
	case "check":
		if os.Args[2] == "C01range" {
			rc := eb.RangeCheck(false)
			eb.Cleanup()
			os.Exit(rc)
		}
		os.Exit(check(os.Args[2]))
	}
}

func check(prop string) int {
	evName := ""
	realProp := prop
	if prop == "C11rest" {
		realProp, evName = "C11", "C11-rest.part"
	}
	if prop == "C16ctl" {
		realProp, evName = "C16", "C16-ctl.part"
	}
	if prop == "C06ctl" {
		realProp, evName = "C06", "C06-ctl.part"
	}
	tier := kernel.Tier()
	runs := runsFor(prop, tier)
	if runs == nil {
		fmt.Fprintf(os.Stderr, "eb: no configuration for %s\n", prop)
		return 2
	}
	total := &kernel.BFSResult{Counters: map[string]int{}, Exhaustive: true}
	var per []map[string]interface{}
	start := time.Now()
	var last *kernel.BFS
	for _, r := range runs {
		if f := os.Getenv("VERIF_ONLY_RUN"); f != "" && !strings.Contains(r.name, f) { // debugging aid, never set by a registered command
			continue
		}
		b := &kernel.BFS{Property: realProp, EvidenceName: evName, Engine: "E-B/" + r.name, Cfg: r.cfg, MaxDepth: r.depth, Budget: r.budget, Workers: 16, WorkerArgs: []string{"worker"}, WorkerEnv: []string{"GOMAXPROCS=2"}}
		if !r.cfg.Real && os.Getenv("VERIF_NO_CONFORMANCE") == "" {
			rc := r.cfg
			rc.Real = true
			b.ConfCfg = rc
			b.ConfMaxDepth = confDepth(tier)
			b.ConfMax = confMax(tier)
		}
		res := b.Run()
		last = b
		if res.HarnessErr != "" {
			total.HarnessErr = r.name + ": " + res.HarnessErr
			break
		}
		total.States += res.States
		total.Transitions += res.Transitions
		total.DistinctObs += res.DistinctObs
		total.DeterminismOK += res.DeterminismOK
		total.ConfReplayed += res.ConfReplayed
		total.Violations = append(total.Violations, res.Violations...)
		total.Known = append(total.Known, res.Known...)
		total.Unstable = append(total.Unstable, res.Unstable...)
		if len(res.Samples) > 3 {
			res.Samples = res.Samples[len(res.Samples)-3:]
		}
		total.Samples = append(total.Samples, res.Samples...)
		for k, v := range res.Counters {
			total.Counters[k] += v
		}
		if !res.Exhaustive {
			total.Exhaustive = false
		}
		if res.DepthCompleted > total.DepthCompleted {
			total.DepthCompleted = res.DepthCompleted
		}
		per = append(per, map[string]interface{}{"run": r.name, "states": res.States, "transitions": res.Transitions, "depth_completed": res.DepthCompleted,
			"max_depth": r.depth, "exhaustive_to_max_depth": res.Exhaustive, "states_per_level": res.PerLevel, "rf": r.cfg.RF, "nodes": r.cfg.N, "alphabet": strings.Join(r.cfg.Alphabet, " "),
			"root": strings.Join(r.cfg.InitOps, " "), "oracles": r.cfg.Oracles, "drain_internal_events": r.cfg.Drain, "real_nodes": r.cfg.Real})
	}
	total.Wall = time.Since(start)
	last.Engine = "E-B"
	last.MaxDepth = total.DepthCompleted
	return last.Finish(total,
		"breadth-first search over controller events (registration, start, add, rebuild-sync, verify, writes/syncs/unmaps/reads/snapshots with EVERY subset of attached replicas failing the call, monitor failures, monitor wake-ups, removals, mode changes, node restarts) on a real controller.Controller with real *remote.Remote backends; a state is an event path replayed on a fresh controller; deduplicated by canonical key (controller dump + node views + monitor tokens + acknowledged-write model); non-trivial/distinct = new key",
		[]string{
			"replica nodes are the sequential model in eb/node.go (REST replies and data path), bound to the code by conformance runs against real replica.Server + replica/rest router nodes where the run says real_nodes",
			"the harness plays remote.monitorPing: a token on a backend's closeChan enables the internal event MonWake (nil on the monitor channel); a ping failure is the event MonFail; the real monitorPing/rpc.Client code is explored by engine E-D",
			"a failing replica call fails before it is applied (error, timeout and dropped connection all surface as an error from rpc.Client)",
			"map iteration order inside the controller is not enumerated; oracles and keys are order-insensitive",
			"quorum-type replicas are outside the alphabet",
		},
		map[string]interface{}{"runs": per})
}
