// ea: engine E-A driver.  ea check <property> | ea worker | ea replay <file>
package main

import (
	"encoding/json"
	"fmt"
	"os"
	"strings"
	"time"

	"verif/harness/ea"
	"verif/harness/kernel"
)

type run struct {
	name   string
	cfg    ea.Cfg
	depth  int
	budget time.Duration
}

var shapes3 = [][2]int{
	{0, 8}, {8, 8}, {16, 8}, {0, 16}, {8, 16}, {0, 24}, // aligned 1,2,3 blocks
	{0, 1}, {3, 2}, {7, 1}, {12, 3}, // inside one block: start, middle, end
	{4, 8}, {6, 4}, {4, 16}, {0, 12}, {12, 12}, // spans with unaligned head and/or tail
}
var alignedShapes3 = [][2]int{{0, 8}, {8, 8}, {16, 8}, {0, 16}, {8, 16}, {0, 24}}
var rshapes3 = [][2]int{{0, 8}, {8, 16}, {3, 2}, {4, 8}, {6, 12}, {0, 24}, {23, 1}}

func minutes(f float64) time.Duration { return time.Duration(f * float64(time.Minute)) }

func runsFor(prop, tier string) []run {
	th := tier == "thorough"
	pick := func(q, t int) int {
		if th {
			return t
		}
		return q
	}
	pickf := func(q, t float64) float64 {
		if th {
			return t
		}
		return q
	}
	switch prop {
	case "C01":
		alpha := []string{"W", "SnapU", "SnapA", "Rm", "Revert", "ReopenP", "ReopenN", "Reload", "ULMFF", "R"}
		base := ea.Cfg{Blocks: 3, Alphabet: alpha, WShapes: shapes3, RShapes: rshapes3, Oracles: []string{"read", "reopen"}, MaxSnaps: 4, SysRmOnly: true, AllReads: true}
		on := base
		on.Punch = true
		small := base
		small.Blocks = 1
		small.WShapes = [][2]int{{0, 8}, {0, 1}, {3, 2}, {7, 1}}
		small.RShapes = [][2]int{{0, 8}, {3, 2}}
		two := base
		two.Blocks = 2
		two.Punch = true
		two.WShapes = [][2]int{{0, 8}, {8, 8}, {0, 16}, {3, 2}, {4, 8}, {6, 4}, {0, 12}}
		two.RShapes = [][2]int{{0, 16}, {4, 8}}
		chain := base
		chain.InitOps = []string{"W:0:24", "SnapU", "W:4:8", "SnapA", "W:12:12", "SnapA", "W:0:8"}
		chain.MaxSnaps = 6
		chainP := chain
		chainP.Punch = true
		chainP.InitOps = []string{"W:0:16", "SnapA", "W:8:16", "SnapU", "W:4:8", "SnapA", "W:0:24", "SnapA", "W:12:4"}
		chainP.MaxSnaps = 7
		// written with reclamation off: shadowed duplicates (non-adjacent ones included) still exist when a reload or
		// reopen preloads the map with reclamation on
		dups := base
		dups.InitOps = []string{"W:0:24", "SnapA", "W:0:8", "W:16:8"}
		dups.MaxSnaps = 3
		dups.WShapes = [][2]int{{0, 8}, {8, 8}, {16, 8}, {4, 8}, {0, 24}}
		dups2 := dups
		dups2.InitOps = []string{"W:0:24", "SnapU", "W:0:24", "SnapA", "W:16:8", "W:0:8", "SnapA", "W:8:8"}
		dups2.MaxSnaps = 5
		// a volume whose size is not a multiple of the 4 KiB block: 1.5 blocks (12 sectors)
		odd := base
		odd.Blocks, odd.Tail = 1, 4
		odd.WShapes = [][2]int{{0, 8}, {8, 4}, {0, 12}, {6, 4}, {10, 2}, {3, 2}, {11, 1}}
		odd.RShapes = [][2]int{{0, 12}, {8, 4}, {6, 6}}
		oddP := odd
		oddP.Punch = true
		few := base
		few.WShapes = [][2]int{{0, 8}, {8, 16}, {0, 24}, {3, 2}, {7, 1}, {4, 8}, {6, 12}, {12, 12}, {20, 4}}
		fewP := few
		fewP.Punch = true
		// every read and write goes through the real rpc.Client -> TCP loopback -> rpc.Server -> the same replica.Server
		wire := fewP
		wire.ViaRPC = true
		wire.Alphabet = []string{"W", "SnapU", "SnapA", "Rm", "ReopenP", "Reload", "R"}
		// every one of the 300 (offset, length) write shapes of a 3-block volume as the next operation on chains that
		// already have data spread over several files (all 300 read shapes are checked after each)
		var all [][2]int
		for off := 0; off < 24; off++ {
			for n := 1; off+n <= 24; n++ {
				all = append(all, [2]int{off, n})
			}
		}
		every := chain
		every.Alphabet = []string{"W"}
		every.WShapes = all
		everyP := chainP
		everyP.Alphabet = []string{"W"}
		everyP.WShapes = all
		return []run{
			{"3blk-every-write-shape-on-3snap-chain-nopunch", every, pick(1, 2), minutes(pickf(0.4, 6))},
			{"3blk-every-write-shape-on-4snap-chain-punch", everyP, pick(1, 2), minutes(pickf(0.4, 6))},
			{"3blk-punch-through-rpc", wire, pick(3, 5), minutes(pickf(0.4, 4))},
			{"3blk-nopunch", few, pick(4, 6), minutes(pickf(0.45, 7))},
			{"3blk-punch", fewP, pick(4, 6), minutes(pickf(0.45, 7))},
			{"3blk-from-3snap-chain-nopunch", chain, pick(3, 5), minutes(pickf(0.45, 6))},
			{"3blk-from-4snap-chain-punch", chainP, pick(3, 5), minutes(pickf(0.45, 6))},
			{"3blk-from-unreclaimed-duplicates", dups, pick(3, 5), minutes(pickf(0.35, 3))},
			{"3blk-from-unreclaimed-duplicates-2", dups2, pick(3, 4), minutes(pickf(0.3, 3))},
			{"1blk", small, pick(4, 7), minutes(pickf(0.2, 2))},
			{"1.5blk-nopunch", odd, pick(3, 5), minutes(pickf(0.2, 2))},
			{"1.5blk-punch", oddP, pick(3, 5), minutes(pickf(0.2, 2))},
			{"2blk-punch", two, pick(4, 6), minutes(pickf(0.3, 4))},
		}
	case "C06":
		alpha := []string{"W", "SnapU", "SnapA", "Rm", "Mark", "ReopenP", "ReloadULM", "ULMW", "Revert"}
		c := ea.Cfg{Blocks: 3, Punch: true, Alphabet: alpha, WShapes: alignedShapes3, RShapes: [][2]int{{0, 24}}, Oracles: []string{"read", "snapdirect", "snaprevert"}, MaxSnaps: 3, SysRmOnly: true}
		c2 := c
		c2.WShapes = [][2]int{{0, 8}, {0, 16}, {8, 8}, {4, 8}, {3, 2}}
		c2.Blocks = 2
		// two user snapshots with automatic ones below, between and above: removals recompute the reclaim boundary
		c3 := c
		c3.InitOps = []string{"W:0:24", "SnapA", "W:0:8", "SnapU", "W:8:8", "SnapA", "W:16:8", "SnapA", "W:0:16", "SnapU", "W:8:16"}
		c3.MaxSnaps = 7
		// held-hole schedules: the hole-punching goroutine is slow, queued holes stay pending across later events
		c4 := c
		c4.Alphabet = []string{"Hold", "Release", "W", "SnapU", "SnapA", "Rm", "Reload", "ReloadULM", "Revert", "ReopenP", "Delete"}
		c4.WShapes = [][2]int{{0, 8}, {8, 8}, {0, 16}}
		c4.Blocks = 2
		c4.InitOps = []string{"W:0:16", "SnapU", "W:0:16", "SnapA"}
		c4.MaxSnaps = 5
		// the same operations sent the way the controller and the sync tasks send them: backend/remote.Remote and
		// replica/client.ReplicaClient -> replica/rest router -> the same server
		c5 := c2
		c5.ViaREST = true
		c5.Oracles = append(append([]string{}, c2.Oracles...), "restview")
		c5.Alphabet = []string{"W", "SnapU", "SnapA", "Rm", "Mark", "ReopenP", "Reload", "Revert"}
		// reverts back and forth between branches: a user snapshot outside the chain keeps its image and can be reverted to
		c6 := c2
		c6.InitOps = []string{"W:0:16", "SnapU", "W:0:8", "SnapU", "W:8:8", "SnapA", "W:4:8", "Revert:0"}
		c6.Alphabet = []string{"W", "SnapU", "SnapA", "Rm", "Revert", "RevertO", "RmO", "ReopenP", "ReloadULM"}
		c6.MaxSnaps = 5
		return []run{
			{"2blk-revert-between-branches", c6, pick(3, 5), minutes(pickf(0.7, 6))},
			{"2blk-mixed-punch-through-rest", c5, pick(4, 6), minutes(pickf(0.7, 6))},
			{"2blk-held-holes", c4, pick(5, 6), minutes(pickf(1.0, 8))},
			{"3blk-aligned-punch", c, pick(5, 7), minutes(pickf(1.7, 16))},
			{"3blk-from-two-user-snapshots", c3, pick(3, 4), minutes(pickf(0.9, 8))},
			{"2blk-mixed-punch", c2, pick(5, 7), minutes(pickf(0.8, 8))},
		}
	case "C10":
		c := ea.Cfg{Blocks: 1, Alphabet: []string{"W", "Mode:WO", "Mode:RW", "SetRev:7", "SetRev:3", "SetRev:12", "Close", "Open", "Reload", "SnapA", "ReopenP"},
			WShapes: [][2]int{{0, 8}, {3, 2}}, RShapes: [][2]int{{0, 8}}, Oracles: []string{"rev", "crashopen", "reopen", "read"}, MaxSnaps: 2}
		// what GET /v1/replicas/1 reports (through the real replica client and router) is the counter the replica holds,
		// open, dirty, closed or reopened
		cr := c
		cr.ViaREST = true
		cr.Alphabet = []string{"W", "Mode:WO", "Mode:RW", "SetRev:7", "SetRev:3", "Close", "Open", "Reload", "SnapA", "ReopenP"} // SetRev travels backend/remote -> replica/rest: the wire contract of the counter is part of the run
		cr.Oracles = []string{"rev", "restview", "reopen", "read"}
		return []run{{"1blk-counter-as-reported-over-rest", cr, pick(4, 6), minutes(pickf(0.6, 5))}, {"1blk-counter", c, pick(6, 8), minutes(pickf(2, 12))}}
	case "C16":
		ws := [][2]int{{0, 8}, {8, 8}, {4, 8}, {16, 8}, {12, 8}, {24, 8}, {20, 12}}
		c := ea.Cfg{Blocks: 2, Punch: true, Alphabet: []string{"W", "SnapU", "Grow", "Shrink", "ResizeGarbage", "ResizeEmpty", "ReopenP", "Revert", "Rm", "SnapA"},
			WShapes: ws, RShapes: [][2]int{{0, 16}, {12, 8}}, Oracles: []string{"read", "snapdirect", "snaprevert", "crashopen", "reopen", "chain"}, MaxSnaps: 3, MaxGrow: 2, SysRmOnly: true}
		c2 := c
		c2.Punch = false
		c3 := c
		c3.ViaREST = true
		return []run{{"2blk-grow-punch-through-rest", c3, pick(4, 6), minutes(pickf(0.7, 6))}, {"2blk-grow-punch", c, pick(5, 7), minutes(pickf(1.5, 8))}, {"2blk-grow-nopunch", c2, pick(5, 7), minutes(pickf(1.5, 8))}}
	case "C12":
		alpha := []string{"W", "SnapU", "SnapA", "SnapDup", "SnapDupOld", "Mark", "Rm", "RmHead", "RmLatest", "RmBase", "RmUnknown", "RmRawHead", "RmRawLatest", "RmRawUnknown",
			"RmWrongMode", "Revert", "RevertUnknown", "Grow", "Shrink", "ResizeGarbage", "Checkpoint", "CheckpointUnknown", "ReopenP", "Reload"}
		c := ea.Cfg{Blocks: 2, Alphabet: alpha, WShapes: [][2]int{{0, 8}, {4, 8}}, RShapes: [][2]int{{0, 16}}, Oracles: []string{"chain", "read", "snapdirect", "crashopen", "reopen"}, MaxSnaps: 4, MaxGrow: 1, MaxWrites: 3, SysRmOnly: true}
		c2 := c
		c2.InitOps = []string{"W:0:16", "SnapU", "W:0:8", "SnapA", "W:8:8", "SnapA"}
		c2.MaxSnaps = 5
		c2.MaxWrites = 5
		c3 := c
		c3.InitOps = []string{"W:0:16", "SnapA", "W:0:8", "SnapA", "W:8:8", "SnapU", "W:4:8", "SnapA", "W:0:8"}
		c3.MaxSnaps = 6
		c3.MaxWrites = 7
		// snapshots that a revert left outside the chain are targets too: revert to them, unlink them, mark them removed
		c5 := c
		c5.InitOps = []string{"W:0:16", "SnapU", "W:0:8", "SnapU", "W:8:8", "SnapA", "W:4:8", "Revert:0"}
		c5.Alphabet = []string{"W", "SnapU", "SnapA", "SnapDupO", "Rm", "Mark", "Revert", "RevertO", "RmO", "MarkO", "ReopenP", "Reload", "Checkpoint"}
		c5.Oracles = []string{"chain", "read", "snapdirect", "snaprevert", "crashopen", "reopen"}
		c5.MaxSnaps = 5
		c5.MaxWrites = 6
		// the configured chain-length limit (4 files): snapshots up to the limit, the refusal at it, and everything that
		// rebuilds the chain afterwards (reopen, reload, revert, removal making room again)
		c6 := c
		c6.MaxChain = 4
		c6.Alphabet = []string{"W", "SnapU", "SnapA", "Rm", "Revert", "ReopenP", "Reload", "Mark"}
		c6.MaxSnaps = 6
		c4 := c2
		c4.ViaREST = true
		return []run{{"2blk-chain-length-limit-4", c6, pick(5, 6), minutes(pickf(0.6, 5))}, {"2blk-orphan-targets", c5, pick(3, 5), minutes(pickf(0.7, 6))}, {"2blk-mgmt-from-chain3-through-rest", c4, pick(3, 5), minutes(pickf(0.7, 6))}, {"2blk-mgmt", c, pick(5, 6), minutes(pickf(1.4, 10))}, {"2blk-mgmt-from-chain3", c2, pick(4, 5), minutes(pickf(1.0, 10))}, {"2blk-mgmt-from-auto-chain4", c3, pick(3, 5), minutes(pickf(0.9, 8))}}
	case "C17":
		alpha := []string{"Close", "Open", "Mode:RW", "Mode:WO", "Mode:junk", "Rebuild:t", "Rebuild:f", "Reload", "W", "R", "Sync", "Unmap", "SnapA", "SetRev:9", "RmGate", "Mark", "Rm", "RevertUnknown", "SnapDup", "Shrink", "ResizeGarbage", "RmHead", "RmRawLatest", "RmUnknown"}
		c := ea.Cfg{Blocks: 2, Alphabet: alpha, WShapes: [][2]int{{0, 8}}, RShapes: [][2]int{{0, 16}}, Oracles: []string{"rev", "read"}, MaxSnaps: 3, MaxWrites: 4,
			InitOps: []string{"W:0:16", "SnapA", "W:0:8", "SnapA"}}
		return []run{{"state-machine", c, pick(5, 6), minutes(pickf(2, 10))}}
	case "C11":
		cand := ea.Cfg{Blocks: 1, Alphabet: []string{"SnapU", "SnapA", "Mark", "Checkpoint", "CheckpointUnknown"}, Oracles: []string{"candidates"}, MaxSnaps: pick(5, 6)}
		del := ea.Cfg{Blocks: 2, Punch: true, Alphabet: []string{"W", "SnapU", "SnapA", "Mark", "Checkpoint", "Clean", "RmHead", "RmLatest", "RmBase", "RmWrongMode"},
			WShapes: [][2]int{{0, 8}, {8, 8}, {0, 16}, {4, 8}}, RShapes: [][2]int{{0, 16}}, Oracles: []string{"candidates", "read", "snapdirect", "snaprevert", "chain"}, MaxSnaps: 5, MaxWrites: 5}
		d1 := del
		d1.InitOps = []string{"W:0:16", "SnapA", "W:8:8", "SnapA", "W:0:8", "SnapA", "Checkpoint:2"}
		d2 := del
		d2.InitOps = []string{"W:0:16", "SnapU", "W:8:8", "SnapA", "W:0:8", "SnapA", "W:4:8", "SnapU", "Checkpoint:3"}
		d3 := del
		d3.Punch = false
		d3.InitOps = []string{"W:0:8", "SnapA", "W:0:16", "SnapU", "W:8:8", "SnapA", "Mark:1", "W:0:8", "SnapA", "Checkpoint:3"}
		// a deletion is three calls (mark, coalesce, unlink) with the replica serving in between: other operations land
		// between the steps
		steps := ea.Cfg{Blocks: 2, Punch: true, Alphabet: []string{"Fold", "RmF", "Mark", "W", "Reload", "ReloadULM", "Revert", "ReopenP", "SnapA"},
			WShapes: [][2]int{{0, 8}, {8, 8}}, RShapes: [][2]int{{0, 16}}, Oracles: []string{"read", "snapdirect", "snaprevert", "chain"}, MaxSnaps: 5, MaxWrites: 6,
			InitOps: []string{"W:0:16", "SnapA", "W:0:8", "SnapA", "W:8:8", "SnapA"}}
		return []run{
			{"deletion-steps-interleaved", steps, pick(4, 6), minutes(pickf(0.7, 6))},
			{"candidate-filter-all-chains", cand, pick(7, 9), minutes(pickf(1.2, 8))},
			{"deletions-from-aaa", d1, pick(4, 5), minutes(pickf(1, 6))},
			{"deletions-from-uaau", d2, pick(4, 5), minutes(pickf(1, 6))},
			{"deletions-from-a-ur-aa-nopunch", d3, pick(3, 5), minutes(pickf(0.8, 6))},
		}
	}
	return nil
}

func main() {
	if len(os.Args) < 2 {
		fmt.Fprintln(os.Stderr, "usage: ea check <prop> | worker | replay <file>")
		os.Exit(2)
	}
	switch os.Args[1] {
	case "worker":
		kernel.ExitAfterResponse = func() bool { return ea.ExitAfter }
		kernel.WorkerMain(ea.Exec)
		ea.Cleanup()
	case "replay":
		rp, err := kernel.ReadReplay(os.Args[2])
		if err != nil {
			fmt.Fprintln(os.Stderr, err)
			os.Exit(2)
		}
		resp := ea.Exec(&kernel.Request{Cfg: rp.Cfg, Path: rp.Path, Final: true, Trace: true})
		ea.Cleanup()
		for _, n := range resp.Note {
			fmt.Println("  ", n)
		}
		if resp.Err != "" {
			fmt.Println("harness error:", resp.Err)
			os.Exit(2)
		}
		if len(resp.Violations) > 0 {
			for _, v := range resp.Violations {
				fmt.Printf("VIOLATION property=%s replay=%s\n  oracle=%s signature=%s\n  %s\n", rp.Property, os.Args[2], v.Oracle, v.Signature, v.Detail)
			}
			os.Exit(1)
		}
		fmt.Println("replay: no violation")
	case "check":
		prop := os.Args[2]
		os.Exit(check(prop))
	}
}

func check(prop string) int {
	tier := kernel.Tier()
	runs := runsFor(prop, tier)
	if runs == nil {
		fmt.Fprintf(os.Stderr, "ea: no configuration for %s\n", prop)
		return 2
	}
	total := &kernel.BFSResult{Counters: map[string]int{}, Exhaustive: true}
	var per []map[string]interface{}
	start := time.Now()
	var last *kernel.BFS
	for _, r := range runs {
		if f := os.Getenv("VERIF_ONLY_RUN"); f != "" && !strings.Contains(r.name, f) { // debugging aid, never set by a registered command
			continue
		}
		b := &kernel.BFS{Property: prop, Engine: "E-A/" + r.name, Cfg: r.cfg, MaxDepth: r.depth, Budget: r.budget, Workers: 16, WorkerArgs: []string{"worker"}, FlakyOK: true}
		res := b.Run()
		last = b
		if res.HarnessErr != "" {
			if total.HarnessErr == "" {
				total.HarnessErr = r.name + ": " + res.HarnessErr
			}
			total.Violations = append(total.Violations, res.Violations...)
			if strings.HasPrefix(res.HarnessErr, "nondeterministic replay") {
				continue // nothing is claimed any more; the remaining runs only look for a reproducible violation
			}
			break
		}
		total.States += res.States
		total.Transitions += res.Transitions
		total.DistinctObs += res.DistinctObs
		total.DeterminismOK += res.DeterminismOK
		total.Violations = append(total.Violations, res.Violations...)
		total.Known = append(total.Known, res.Known...)
		total.Unstable = append(total.Unstable, res.Unstable...)
		if len(res.Samples) > 3 {
			res.Samples = res.Samples[:3]
		}
		total.Samples = append(total.Samples, res.Samples...)
		for k, v := range res.Counters {
			total.Counters[k] += v
		}
		if !res.Exhaustive {
			total.Exhaustive = false
		}
		if res.DepthCompleted > total.DepthCompleted {
			total.DepthCompleted = res.DepthCompleted
		}
		per = append(per, map[string]interface{}{"run": r.name, "states": res.States, "transitions": res.Transitions, "depth_completed": res.DepthCompleted,
			"max_depth": r.depth, "exhaustive_to_max_depth": res.Exhaustive, "states_per_level": res.PerLevel, "blocks": r.cfg.Blocks, "punch": r.cfg.Punch, "alphabet": strings.Join(r.cfg.Alphabet, " "),
			"write_shapes_sectors": r.cfg.WShapes, "oracles": r.cfg.Oracles})
	}
	total.Wall = time.Since(start)
	last.Engine = "E-A"
	last.MaxDepth = total.DepthCompleted
	cfgs, _ := json.Marshal(per)
	_ = cfgs
	return last.Finish(total,
		"breadth-first search over operation sequences on a real on-disk replica.Server; a state is an event path, a successor is a fresh replica replaying path+event; states deduplicated by canonical key (model + block map + per-file extent layout/content + metadata); a state is non-trivial/distinct when its key is new",
		[]string{
			"the replica runs in-process on an ext4 scratch directory (O_DIRECT, FIEMAP, PUNCH_HOLE real); time.Sleep is scaled by 1/10000 through the overlay shim",
			"every hole queued by an event is punched before the next event (held-hole schedules are not explored here)",
			"coalesce is the same sparse.FoldFile call the sfold child process makes, run in-process",
			"bounded volume (1-3 blocks of 4 KiB), bounded depth and snapshot count as listed in runs; when exhaustive=false the level in depth_completed was the last one fully explored",
		},
		map[string]interface{}{"runs": per})
}
