package main

import (
	"encoding/json"
	"fmt"
	"os"
	"runtime/pprof"
	"time"

	"verif/harness/ea"
	"verif/harness/kernel"
)

func main() {
	cfg := ea.Cfg{Blocks: 3, Punch: true, Alphabet: []string{"W"}, WShapes: [][2]int{{0, 8}}, RShapes: [][2]int{{0, 24}}, Oracles: []string{"read", "snapdirect", "snaprevert"}}
	b, _ := json.Marshal(cfg)
	f, _ := os.Create("/tmp/eaprof.cpu")
	pprof.StartCPUProfile(f)
	t := time.Now()
	for i := 0; i < 300; i++ {
		ea.Exec(&kernel.Request{Cfg: b, Path: []string{"W:0:16", "SnapU", "W:0:8", "SnapA", "W:8:8"}})
	}
	pprof.StopCPUProfile()
	fmt.Println(time.Since(t) / 300)
	ea.Cleanup()
}
