// ee: engine E-E driver (REST request enumeration on the real routers).
//
//	ee check C14 | ee check C17rest | ee worker | ee replay <file> | ee alphabet [R|C] [reduced]
package main

import (
	"fmt"
	"os"
	"os/signal"
	"runtime/pprof"
	"strings"
	"syscall"
	"time"

	"verif/harness/ee"
	"verif/harness/kernel"
)

func classes(side string) []string {
	if side == "R" {
		return ee.ReplicaClasses
	}
	return ee.ControllerClasses
}

func envDur(name string, def time.Duration) time.Duration {
	if s := os.Getenv(name); s != "" {
		if d, err := time.ParseDuration(s); err == nil {
			return d
		}
	}
	return def
}

func main() {
	if len(os.Args) < 2 {
		fmt.Fprintln(os.Stderr, "usage: ee check C14|C17rest | worker | replay <file> | alphabet [R|C] [reduced]")
		os.Exit(2)
	}
	switch os.Args[1] {
	case "worker":
		kernel.ExitAfterResponse = func() bool { return ee.ExitAfter }
		// backstop for the in-worker memory bound: a runaway handler must not take the machine down
		syscall.Setrlimit(syscall.RLIMIT_AS, &syscall.Rlimit{Cur: 12 << 30, Max: 12 << 30})
		if pf := os.Getenv("VERIF_EE_CPUPROFILE"); pf != "" {
			if f, err := os.Create(fmt.Sprintf("%s.%d", pf, os.Getpid())); err == nil {
				pprof.StartCPUProfile(f)
				defer pprof.StopCPUProfile()
			}
		}
		kernel.WorkerMain(ee.Exec)
		ee.Cleanup()
	case "alphabet":
		side := "R"
		if len(os.Args) > 2 {
			side = os.Args[2]
		}
		for _, d := range ee.Alphabet(side, len(os.Args) > 3) {
			fmt.Println(d.String())
		}
	case "replay":
		if len(os.Args) < 3 {
			os.Exit(2)
		}
		os.Exit(ee.ReplayFile(os.Args[2]))
	case "check":
		if len(os.Args) < 3 {
			os.Exit(2)
		}
		os.Exit(check(os.Args[2]))
	default:
		os.Exit(2)
	}
}

func check(prop string) int {
	th := kernel.Tier() == "thorough"
	var p *ee.Plan
	switch prop {
	case "C14":
		// quick: every request once in every state class (+ repeat family), then the reduced alphabet of state-changing
		// requests from every state reached; thorough: depth 2 full, depth 3 reduced
		p = &ee.Plan{Property: "C14", Sides: []string{"R", "C"}, FullDepth: 1, Depth: 2, Repeat: 8, RepeatDepth: 1, Budget: envDur("VERIF_EE_BUDGET", 170*time.Second), Alphabet: ee.Alphabet, Classes: classes}
		if th {
			// thorough: depth 2 with the reduced alphabet from EVERY level-1 state, depth 3 (reduced) from representatives,
			// then the rest of the full alphabet at depth 2 for as long as the budget lasts
			p.FullDepth, p.Depth, p.RepeatDepth, p.ExpandAllDepth, p.ExtraFullLevel, p.Budget = 1, 3, 1, 1, 2, envDur("VERIF_EE_BUDGET", 20*time.Minute)
		}
	case "C17rest", "C17":
		p = &ee.Plan{Property: "C17", Sides: []string{"R"}, FullDepth: 1, Depth: 2, Repeat: 1, RepeatDepth: 0, ExpandAll: true, C17: true, Budget: envDur("VERIF_EE_BUDGET", 100*time.Second), Classes: classes,
			Alphabet:   ee.C17Alphabet,
			OnlyOracle: func(o string) bool { return strings.HasPrefix(o, "c17rest") }}
		if th {
			p.Depth, p.FullDepth, p.Budget = 3, 3, envDur("VERIF_EE_BUDGET", 10*time.Minute)
		}
	default:
		fmt.Fprintf(os.Stderr, "ee: no configuration for %s\n", prop)
		return 2
	}
	c := ee.NewCoordinator(p)
	sig := make(chan os.Signal, 1)
	signal.Notify(sig, syscall.SIGINT, syscall.SIGTERM)
	go func() {
		<-sig
		c.Close()
		os.Exit(130)
	}()
	code := c.Run()
	c.Close()
	return code
}
