module verif/harness

go 1.19

require (
	github.com/frostschutz/go-fibmap v0.0.0-20160825162329-b32c231bfe6a
	github.com/openebs/jiva v0.0.0
	github.com/openebs/sparse-tools v1.1.0
	github.com/sirupsen/logrus v1.7.0
)

require (
	github.com/docker/go-units v0.4.0 // indirect
	github.com/google/uuid v1.2.0 // indirect
	github.com/gorilla/handlers v1.4.2 // indirect
	github.com/natefinch/lumberjack v2.0.0+incompatible // indirect
	github.com/satori/go.uuid v1.2.0 // indirect
	golang.org/x/sys v0.0.0-20210124154548-22da62e12c0c // indirect
)

replace github.com/openebs/jiva => /repo

replace github.com/frostschutz/go-fibmap => github.com/rancher/go-fibmap v0.0.0-20160418233256-5fc9f8c1ed47
