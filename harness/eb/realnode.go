package eb

import (
	"fmt"
	"net/http"
	"net/http/httptest"
	"os"
	"path/filepath"
	"strings"
	"sync"

	"github.com/openebs/jiva/replica"
	"github.com/openebs/jiva/replica/rest"
	"github.com/openebs/jiva/util"

	"verif/harness/ea"
)

// RealNode is a real replica.Server on a scratch directory behind the real replica/rest router.  The data path
// calls Server.WriteAt/ReadAt/Sync/Unmap directly (what the RPC server calls).
type RealNode struct {
	idx     int
	dir     string
	srv     *replica.Server
	router  http.Handler
	isClone bool // started with --type clone: its clone status is driven by the clone process, not set to NA
}

var holesOnce sync.Once

func newRealNode(i int, scratch string, rev int64) Node {
	holesOnce.Do(func() {
		util.VerifNoSync = true
		go replica.CreateHoles()
	})
	n := &RealNode{idx: i, dir: filepath.Join(scratch, fmt.Sprintf("n%d", i))}
	if err := os.MkdirAll(n.dir, 0755); err != nil {
		panic(err)
	}
	n.boot()
	if err := n.srv.Create(VolSize); err != nil {
		panic("create real node: " + err.Error())
	}
	if rev > 1 {
		// give the replica its initial revision count through the real code
		if err := n.srv.Open(); err != nil {
			panic(err)
		}
		n.srv.SetReplicaMode("RW")
		if err := n.srv.SetRevisionCounter(rev); err != nil {
			panic(err)
		}
		n.srv.Close()
		n.boot()
	}
	return n
}

func (n *RealNode) boot() {
	n.srv = replica.NewServer(ip(n.idx)+":9502", n.dir, 512, "")
	n.router = rest.NewRouter(rest.NewServer(n.srv))
}

func (n *RealNode) Server() *replica.Server { return n.srv }
func (n *RealNode) Dir() string             { return n.dir }

func (n *RealNode) ServeHTTP(w http.ResponseWriter, r *http.Request) {
	rec := httptest.NewRecorder()
	n.router.ServeHTTP(rec, r)
	if r.Method == "POST" && r.URL.Query().Get("action") == "open" && rec.Code == 200 && n.srv.Replica() != nil && !n.isClone {
		// the tail of app.startReplica: once the replica is open a non-clone replica reports clone status NA
		if n.srv.Replica().GetCloneStatus() == "" {
			n.srv.Replica().SetCloneStatus("NA")
		}
	}
	for k, v := range rec.Header() {
		w.Header()[k] = v
	}
	w.WriteHeader(rec.Code)
	w.Write(rec.Body.Bytes())
}

func (n *RealNode) WriteAt(b []byte, off int64) (int, error) { return n.srv.WriteAt(b, off) }
func (n *RealNode) ReadAt(b []byte, off int64) (int, error)  { return n.srv.ReadAt(b, off) }
func (n *RealNode) Sync() (int, error)                       { return n.srv.Sync() }
func (n *RealNode) Unmap(o, l int64) (int, error) {
	// the controller harness issues Unmap(0,0): a zero-length discard
	return n.srv.Unmap(o, l)
}

// Restart: the replica process closes the replica and exits when its data connection is gone; a new process starts.
func (n *RealNode) Restart() {
	if n.srv.Replica() != nil {
		n.srv.Close()
	}
	n.boot()
}

// Crash: the replica process dies without closing anything; a new process starts on the same directory.
func (n *RealNode) Crash() { n.boot() }

func (n *RealNode) View() NodeView {
	st, info := n.srv.Status()
	v := NodeView{State: string(st), Mode: "CLOSED", Size: info.Size, Rebuilding: info.Rebuilding, Checkpoint: info.Checkpoint}
	rev, _ := n.srv.GetRevisionCounter()
	v.Rev = rev
	if r := n.srv.Replica(); r != nil {
		v.Mode = r.GetReplicaMode()
		ch, _ := r.Chain()
		if len(ch) > 0 {
			v.Chain = ch[1:]
		}
		buf := make([]byte, info.Size)
		if _, err := n.srv.ReadAt(buf, 0); err != nil {
			// an open replica that cannot read its own volume end to end (a chain file shorter than the volume, ...): the
			// image is not what any other replica holds, whatever bytes came back
			v.Data = "READ-ERROR " + err.Error() + "\n" + string(buf)
		} else {
			v.Data = string(buf)
		}
	} else {
		v.Data = string(make([]byte, info.Size))
	}
	return v
}

// SnapshotImage: copy the directory, revert the copy to the snapshot with the real code and read it.
func (n *RealNode) SnapshotImage(name string) (string, bool) {
	if _, err := os.Stat(filepath.Join(n.dir, name)); err != nil {
		return "", false
	}
	cp := n.dir + "-copy"
	defer os.RemoveAll(cp)
	if err := ea.CopyDir(n.dir, cp); err != nil {
		panic("CopyDir: " + err.Error())
	}
	s2 := replica.NewServer("127.0.0.1:9702", cp, 512, "")
	if err := s2.Open(); err != nil {
		return "open-failed:" + err.Error(), true
	}
	defer s2.Close()
	if err := s2.Revert(name, "2020-01-01T00:00:00Z"); err != nil {
		return "revert-failed:" + err.Error(), true
	}
	_, info := s2.Status()
	buf := make([]byte, info.Size)
	s2.ReadAt(buf, 0)
	return string(buf), true
}

// OpensAfterDeath: if the replica process died right now, could a new process open the directory?  A byte copy of the
// directory is opened with the real code (the running server is not touched).  Returns "" or what failed.
func (n *RealNode) OpensAfterDeath() string {
	if _, err := os.Stat(filepath.Join(n.dir, "volume.meta")); err != nil {
		return "" // never created
	}
	cp := n.dir + "-reopen"
	defer os.RemoveAll(cp)
	if err := ea.CopyDir(n.dir, cp); err != nil {
		panic("CopyDir: " + err.Error())
	}
	s2 := replica.NewServer("127.0.0.1:9703", cp, 512, "")
	if err := s2.Open(); err != nil {
		return "open: " + err.Error()
	}
	defer s2.Close()
	if _, err := s2.Replica().Chain(); err != nil {
		return "chain: " + err.Error()
	}
	return ""
}

func copySparse(src, dst string) error {
	tmpS, tmpD := src+".cpdir", dst+".cpdir"
	_ = tmpS
	_ = tmpD
	// reuse the hole-preserving directory copy on a one-file directory
	sd, dd := filepath.Dir(src), filepath.Dir(dst)
	stage := filepath.Join(sd, ".stage-"+filepath.Base(src))
	os.RemoveAll(stage)
	if err := os.MkdirAll(stage, 0755); err != nil {
		return err
	}
	defer os.RemoveAll(stage)
	if err := os.Link(src, filepath.Join(stage, filepath.Base(src))); err != nil {
		return err
	}
	out := filepath.Join(dd, ".stage-out-"+filepath.Base(dst))
	defer os.RemoveAll(out)
	if err := ea.CopyDir(stage, out); err != nil {
		return err
	}
	os.Remove(dst)
	return os.Rename(filepath.Join(out, filepath.Base(src)), dst)
}

// SyncFrom is the stand-in for the rebuild file copy (sync.syncFiles: every snapshot of the source, oldest first,
// data and metadata) followed by what reloadAndVerify does before asking the controller to verify: reload without
// preload, then UpdateLUNMap.
func (n *RealNode) SyncFrom(src Node) error {
	s := src.(*RealNode)
	sr := s.srv.Replica()
	if sr == nil {
		return fmt.Errorf("source not open")
	}
	ch, err := sr.Chain()
	if err != nil {
		return err
	}
	for i := len(ch) - 1; i >= 1; i-- {
		for _, suf := range []string{"", ".meta"} {
			if err := copySparse(filepath.Join(s.dir, ch[i]+suf), filepath.Join(n.dir, ch[i]+suf)); err != nil {
				return err
			}
		}
	}
	n.srv.SetPreload(false)
	err = n.srv.Reload()
	n.srv.SetPreload(true)
	if err != nil {
		return fmt.Errorf("reload: %v", err)
	}
	return n.srv.UpdateLUNMap()
}

func (n *RealNode) Destroy() {
	defer func() { recover() }()
	if n.srv.Replica() != nil {
		n.srv.Close()
	}
	os.RemoveAll(n.dir)
	os.RemoveAll(n.dir + "-copy")
}

var _ = strings.TrimSpace
