package eb

func newRealNode(i int, scratch string) Node { panic("real nodes: not built yet") }
