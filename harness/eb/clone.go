package eb

import (
	"fmt"
	"github.com/openebs/jiva/backend/dynamic"

	"github.com/openebs/jiva/app"
	"github.com/openebs/jiva/controller"
	crest "github.com/openebs/jiva/controller/rest"
	"github.com/openebs/jiva/types"
)

// Clone scenario (C19): volume A (controller cl.c, RF=1) lives on node 0; node 1 is started as a clone of one of
// A's snapshots and belongs to a second volume B (controller cl.cB, RF=1).  Two procedures run under step control:
// X = B's Start (which attaches the clone and polls its clone status while holding B's lock) and
// Y = the clone process's own start-up tail (app.startReplica re-stated: wait until opened, status inProgress,
// app.CloneReplica, status completed / error).

const ctlHostB = "10.0.0.101"

type factoryB struct{ cl *cluster }

func (f factoryB) Create(address string) (types.Backend, error) {
	b, err := factory{f.cl}.Create(address)
	if err == nil {
		f.cl.bes[len(f.cl.bes)-1].ownerB = true
	}
	return b, err
}
func (f factoryB) SignalToAdd(address, action string) error {
	f.cl.signalsB = append(f.cl.signalsB, address+":"+action)
	return nil
}
func (f factoryB) VerifyReplicaAlive(address string) bool { return true }

func (cl *cluster) setupClone() {
	cl.feB = &frontend{}
	cl.cB = controller.NewController(controller.WithName("clonevol"), controller.WithBackend(dynamic.New(map[string]types.BackendFactory{"tcp": factoryB{cl}})), controller.WithFrontend(cl.feB, ""), controller.WithRF(1))
	cl.ctlRouterB = crest.NewRouter(crest.NewServer(cl.cB))
	cl.nodes[1].(*RealNode).isClone = true
}

func (cl *cluster) cloneSnapName(k int) string { return fmt.Sprintf("u%d", k) }

// applyClone handles the clone scenario's events; returns false if ev is not one of them.
func (cl *cluster) applyClone(ev string, f []string) bool {
	switch f[0] {
	case "BReg":
		nv := cl.nodes[1].View()
		err := cl.guard(ev, func() error {
			return cl.cB.RegisterReplica(types.RegReplica{Address: ip(1), UUID: "uuid-clone", RevCount: nv.Rev, RepType: "Backend", RepState: "closed"})
		})
		cl.observe("%s -> %v signals=%v", ev, err != nil, cl.signalsB)
	case "BStart":
		t := &task{}
		_ = t
		cl.taskX = cl.startTaskOpt("bstart", 1, true, func() error { return cl.cB.Start(addr(1)) })
		cl.observe("%s -> %s", ev, cl.taskDesc())
	case "StepX":
		cl.stepTask(cl.taskX)
		cl.observe("%s -> %s", ev, cl.taskDesc())
		if cl.taskX.done && cl.trace && cl.taskX.err != nil {
			cl.notes = append(cl.notes, fmt.Sprintf("    B.Start error: %v", cl.taskX.err))
		}
	case "CloneProc":
		k := atoi(f[1])
		cl.cloneOf = k
		rn := cl.nodes[1].(*RealNode)
		snap := cl.cloneSnapName(k)
		cl.task = cl.startTask("clone", 1, func() error {
			for rn.srv.Replica() == nil {
				cl.gate("clone process: waiting to be opened by its controller")
			}
			// the verbatim status bracket of app.startReplica (generated from the repository's current text by tools/gen)
			cl.gate("clone process: about to run startReplica's clone bracket")
			return app.VerifCloneBracket(rn.srv, ip(1)+":9502", ctlHost, snap, "clone")
		})
		cl.observe("%s -> %s", ev, cl.taskDesc())
	case "SrcDown":
		cl.down[0] = true
		cl.nFaults++
	case "SrcUp":
		cl.down[0] = false
	default:
		return false
	}
	return true
}

// cloneOracle: the clone is RW in volume B only after its status is completed (or NA); whenever it reports completed,
// or is RW, its image is byte-identical to snapshot S of the source and its revision counter is the one recorded for S;
// a failed clone reports error and is not RW.
func (cl *cluster) cloneOracle() {
	if cl.cB == nil || !cl.wants("c19") {
		return
	}
	rn := cl.nodes[1].(*RealNode)
	vB := cl.cB.VerifView()
	rw := false
	for _, r := range vB.Replicas {
		if nodeOf(r.Address) == 1 && r.Mode == types.RW {
			rw = true
		}
	}
	status := ""
	if rn.srv.Replica() != nil {
		status = rn.srv.Replica().GetCloneStatus()
	}
	cl.cnt["clone_status_"+status]++
	if cl.trace {
		cl.notes = append(cl.notes, fmt.Sprintf("      [clone status %q, B replicas %v]", status, vB.Replicas))
	}
	if rw {
		cl.cnt["clone_rw_states"]++
		if rn.srv.Replica() != nil && status != "completed" && status != "NA" { // a crashed clone process serves nothing; its controller has not noticed yet
			cl.violate("clone", "clone-rw-before-completed", fmt.Sprintf("the clone is RW in the new volume while its clone status is %q (clone task: %s)", status, descTask(cl.task)))
			return
		}
	}
	if cl.task != nil && cl.task.kind == "clone" && cl.task.done && cl.task.err != nil && !cl.task.killed {
		if status != "error" && rn.srv.Replica() != nil {
			cl.violate("clone", "failed-clone-not-error", fmt.Sprintf("the clone failed (%v) but its status is %q", cl.task.err, status))
		}
		if rw {
			cl.violate("clone", "failed-clone-rw", "the clone failed but is RW in the new volume")
		}
	}
	if status == "completed" && cl.task != nil && cl.task.kind == "clone" {
		full := "volume-snap-" + cl.cloneSnapName(cl.cloneOf) + ".img"
		want, ok := cl.nodes[0].SnapshotImage(full)
		if !ok {
			return // the source lost the snapshot; nothing to compare with
		}
		nv := rn.View()
		cl.cnt["clone_images_compared"]++
		if nv.Data != want {
			cl.violate("clone", "clone-image-differs", fmt.Sprintf("clone status is completed but its image differs from source snapshot %s: %s", full, blockDiff(want, nv.Data)))
			return
		}
		if src := cl.nodes[0].(*RealNode).srv.Replica(); src != nil {
			if d, ok := src.ListDisks()[full]; ok && d.RevisionCounter != nv.Rev {
				cl.violate("clone", "clone-revision-differs", fmt.Sprintf("clone revision counter %d, the source recorded %d for %s", nv.Rev, d.RevisionCounter, full))
			}
		}
	}
}
