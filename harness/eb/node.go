// Package eb is engine E-B: the reachable state space of a real controller.Controller (real replicator, MultiWriterAt,
// rebuild/revert code, real *remote.Remote backends) under every assignment of failures to replica calls, with replica
// nodes that are either a small sequential model (fast; bound to the code by conformance runs) or real replica.Server
// instances behind the real replica/rest router.
package eb

import (
	"encoding/json"
	"fmt"
	"net/http"
	"strconv"
	"strings"

	units "github.com/docker/go-units"
)

const (
	Block   = 4096
	VolSize = 4 * Block
)

// NodeView is the abstract state of a replica node that oracles and state keys use.
type NodeView struct {
	State      string   // closed open dirty rebuilding
	Mode       string   // INIT RW WO CLOSED
	Rev        int64    // revision.counter
	Chain      []string // snapshot names newest first, WITHOUT the head
	Checkpoint string
	Rebuilding bool
	Size       int64
	Data       string // digest/encoding of the live volume content
}

// Node is what the transport and the harness data path talk to.
type Node interface {
	http.Handler
	WriteAt(b []byte, off int64) (int, error)
	ReadAt(b []byte, off int64) (int, error)
	Sync() (int, error)
	Unmap(off, l int64) (int, error)
	Restart() // process restart after a clean or unclean stop: ends up closed
	View() NodeView
	SnapshotImage(name string) (string, bool) // content of a snapshot, for point-in-time comparison
	SyncFrom(src Node) error                  // stand-in for the rebuild file copy: snapshots of src (not the head)
	Destroy()
}

// ---------------------------------------------------------------------------------------------------------------
// ModelNode: a boring sequential re-statement of what a replica answers to the calls a controller makes.

type ModelNode struct {
	Addr       string
	open       bool
	mode       string
	rev        int64
	metaRev    int64 // RevisionCounter stored in volume.meta (refreshed by snapshot creation only)
	headSeq    int
	chain      []string // newest first, without head
	images     map[string][]byte
	orphans    map[string]bool
	data       []byte
	checkpoint string
	rebuilding bool
	dirty      bool
	size       int64
	clone      string
	Actions    []string       // start signals received
	headBlk    map[int64]bool // blocks present in the head file (written since the last snapshot/revert)
}

func NewModelNode(addr string) *ModelNode {
	return &ModelNode{Addr: addr, mode: "CLOSED", rev: 1, metaRev: 1, data: make([]byte, VolSize), size: VolSize, images: map[string][]byte{}, orphans: map[string]bool{}, clone: "", headBlk: map[int64]bool{}}
}

func (n *ModelNode) state() string {
	switch {
	case !n.open:
		return "closed"
	case n.rebuilding:
		return "rebuilding"
	case n.dirty:
		return "dirty"
	}
	return "open"
}

var actionsByState = map[string]map[string]bool{
	"open": set("start", "resize", "close", "setrebuilding", "snapshot", "reload", "removedisk", "replacedisk", "revert", "prepareremovedisk",
		"setreplicamode", "setrevisioncounter", "updatecloneinfo", "setcheckpoint"),
	"closed": set("start", "open", "resize", "removedisk", "replacedisk", "revert", "updatecloneinfo", "prepareremovedisk"),
	"dirty": set("start", "resize", "setrebuilding", "close", "snapshot", "reload", "removedisk", "replacedisk", "revert", "setreplicamode",
		"prepareremovedisk", "updatecloneinfo", "setcheckpoint"),
	"rebuilding": set("setrebuilding", "close", "reload", "setreplicamode", "setrevisioncounter", "updatecloneinfo", "setcheckpoint"),
}

func set(s ...string) map[string]bool {
	m := map[string]bool{}
	for _, x := range s {
		m[x] = true
	}
	return m
}

func (n *ModelNode) headName() string { return fmt.Sprintf("volume-head-%03d.img", n.headSeq) }

func (n *ModelNode) info() map[string]interface{} {
	chain := []string{}
	mode := ""
	rev := n.metaRev
	clone := ""
	remain := 0
	if n.open {
		chain = append([]string{n.headName()}, n.chain...)
		mode = n.mode
		rev = n.rev
		clone = n.clone
		remain = 1024 - (len(n.chain) + 1)
	}
	// action links of the actions valid in the current state, as the real router's schema writes them
	actions := map[string]string{}
	host := strings.TrimPrefix(n.Addr, "tcp://")
	for a := range actionsByState[n.state()] {
		actions[a] = "http://" + host + "/v1/replicas/1?action=" + a
	}
	return map[string]interface{}{
		"id": "1", "type": "replica", "actions": actions,
		"state": n.state(), "size": strconv.FormatInt(n.size, 10), "sectorSize": 512, "chain": chain, "replicamode": mode,
		"revisioncounter": strconv.FormatInt(rev, 10), "remainsnapshots": remain, "clonestatus": clone, "checkpoint": n.checkpoint,
		"rebuilding": n.rebuilding, "dirty": n.dirty,
	}
}

func (n *ModelNode) ServeHTTP(w http.ResponseWriter, r *http.Request) {
	if r.URL.Path == "/ping" {
		if r.Method != "GET" { // the real router registers /ping for GET only
			w.WriteHeader(405)
			return
		}
		w.Write([]byte("pong"))
		return
	}
	if !strings.HasPrefix(r.URL.Path, "/v1/replicas/1") {
		w.WriteHeader(404)
		return
	}
	fail := func(code int, msg string) {
		w.WriteHeader(code)
		json.NewEncoder(w).Encode(map[string]interface{}{"type": "error", "status": code, "message": msg})
	}
	if r.Method == "GET" {
		json.NewEncoder(w).Encode(n.info())
		return
	}
	if r.Method != "POST" {
		w.WriteHeader(405)
		return
	}
	action := r.URL.Query().Get("action")
	if !actionsByState[n.state()][action] {
		w.WriteHeader(404)
		return
	}
	var body map[string]interface{}
	if r.Body != nil {
		json.NewDecoder(r.Body).Decode(&body)
	}
	str := func(k string) string { s, _ := body[k].(string); return s }
	var err error
	switch action {
	case "open":
		n.open = true
		n.mode = "INIT"
		if n.clone == "" {
			n.clone = "NA" // startReplica's tail: a non-clone replica reports NA as soon as it is open
		}
	case "close":
		n.closeClean()
	case "snapshot":
		err = n.snapshot(str("name"))
	case "setreplicamode":
		m := str("mode")
		if m != "RW" && m != "WO" {
			err = fmt.Errorf("invalid mode string %s", m)
		} else {
			n.mode = m
		}
	case "setrevisioncounter":
		if n.mode != "RW" {
			err = fmt.Errorf("setting revisioncounter during %v mode is invalid", n.mode)
		} else {
			n.rev, _ = strconv.ParseInt(str("counter"), 10, 64)
		}
	case "setrebuilding":
		b, _ := body["rebuilding"].(bool)
		st := n.state()
		if (b && st != "open" && st != "dirty") || (!b && st != "rebuilding") {
			err = fmt.Errorf("Can not set rebuilding=%v from state %s", b, st)
		} else {
			n.rebuilding = b
		}
	case "setcheckpoint":
		n.checkpoint = str("snapshotName")
	case "resize":
		var sz int64
		if s := str("size"); s != "" {
			sz, err = units.RAMInBytes(s)
		}
		if err == nil && n.open {
			if n.size > sz {
				err = fmt.Errorf("Previous size %d is greater than %d", n.size, sz)
			} else {
				n.grow(sz)
			}
		}
	case "revert":
		err = n.revert(str("name"))
	case "start":
		n.Actions = append(n.Actions, str("Action"))
	case "reload":
	default:
		fail(500, "model node: action "+action+" not modelled")
		return
	}
	if err != nil {
		fail(500, err.Error())
		return
	}
	json.NewEncoder(w).Encode(n.info())
}

func (n *ModelNode) grow(sz int64) {
	add := make([]byte, sz-n.size)
	n.data = append(n.data, add...)
	for k, img := range n.images {
		n.images[k] = append(img, add...)
	}
	n.size = sz
}

func (n *ModelNode) closeClean() {
	n.open = false
	n.mode = "CLOSED"
	n.dirty = false
}

func (n *ModelNode) snapshot(name string) error {
	full := "volume-snap-" + name + ".img"
	for _, c := range n.chain {
		if c == full {
			return fmt.Errorf("Snapshot %v already exists", full)
		}
	}
	if n.orphans[full] {
		return fmt.Errorf("Old file :%v already exists", full)
	}
	n.images[full] = append([]byte(nil), n.data...)
	n.chain = append([]string{full}, n.chain...)
	n.headSeq++
	n.dirty = true
	n.metaRev = n.rev
	n.headBlk = map[int64]bool{}
	return nil
}

func (n *ModelNode) revert(full string) error {
	img, ok := n.images[full]
	if !ok {
		return fmt.Errorf("stat %s: no such file or directory", full)
	}
	idx := -1
	for i, c := range n.chain {
		if c == full {
			idx = i
		}
	}
	if idx >= 0 {
		for _, c := range n.chain[:idx] {
			n.orphans[c] = true
		}
		n.chain = append([]string(nil), n.chain[idx:]...)
	}
	n.data = append([]byte(nil), img...)
	n.headSeq++
	n.dirty = true
	n.headBlk = map[int64]bool{}
	return nil
}

func (n *ModelNode) WriteAt(b []byte, off int64) (int, error) {
	if !n.open {
		return 0, fmt.Errorf("Volume no longer exist")
	}
	if off < 0 || off+int64(len(b)) > n.size {
		return 0, fmt.Errorf("model node: write [%d,%d) outside the volume (a real replica would index its block map out of range)", off, off+int64(len(b)))
	}
	copy(n.data[off:], b)
	for o := off / Block; o*Block < off+int64(len(b)); o++ {
		n.headBlk[o] = true
	}
	n.dirty = true
	if n.mode == "RW" {
		n.rev++
	} else if n.mode != "WO" {
		return len(b), fmt.Errorf("write happening on invalid rep state %v", n.mode)
	}
	return len(b), nil
}

func (n *ModelNode) ReadAt(b []byte, off int64) (int, error) {
	if !n.open {
		return 0, fmt.Errorf("Volume no longer exist")
	}
	if off < 0 || off+int64(len(b)) > n.size {
		return 0, fmt.Errorf("model node: read [%d,%d) outside the volume", off, off+int64(len(b)))
	}
	copy(b, n.data[off:])
	return len(b), nil
}

func (n *ModelNode) Sync() (int, error) {
	if !n.open {
		return -1, fmt.Errorf("Volume no longer exist")
	}
	n.dirty = true
	return 0, nil
}

func (n *ModelNode) Unmap(off, l int64) (int, error) {
	if !n.open {
		return -1, fmt.Errorf("Volume no longer exist")
	}
	n.dirty = true
	return 0, nil
}

// Restart: the replica process exits when its data connection dies (closing the replica first) and is started again.
func (n *ModelNode) Restart() {
	if n.open {
		n.closeClean()
	}
	n.Actions = nil
}

func (n *ModelNode) View() NodeView {
	return NodeView{State: n.state(), Mode: n.mode, Rev: n.rev, Chain: append([]string(nil), n.chain...), Checkpoint: n.checkpoint,
		Rebuilding: n.rebuilding, Size: n.size, Data: string(n.data)}
}

func (n *ModelNode) SnapshotImage(name string) (string, bool) {
	img, ok := n.images[name]
	return string(img), ok
}

// SyncFrom copies the source's snapshots (never the head) like the rebuild file sync does; the receiving replica keeps
// its own head (the writes it got while WO).
func (n *ModelNode) SyncFrom(src Node) error {
	s := src.(*ModelNode)
	n.chain = append([]string(nil), s.chain...)
	for _, c := range s.chain {
		n.images[c] = append([]byte(nil), s.images[c]...)
	}
	// the head of a WO replica holds every block written since it was attached (the add took a snapshot on it);
	// every other block now comes from the synced snapshots.
	base := make([]byte, n.size)
	if len(s.chain) > 0 {
		copy(base, s.images[s.chain[0]])
	}
	for b := range n.headBlk {
		copy(base[b*Block:(b+1)*Block], n.data[b*Block:(b+1)*Block])
	}
	n.data = base
	return nil
}

func (n *ModelNode) Destroy() {}

// SetRevision sets the node's revision counter (used by other engines to build replicas of different age).
func (n *ModelNode) SetRevision(r int64) { n.rev, n.metaRev = r, r }
