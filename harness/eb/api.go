package eb

import (
	"fmt"

	"github.com/openebs/jiva/controller"
	cclient "github.com/openebs/jiva/controller/client"
	crest "github.com/openebs/jiva/controller/rest"
	"github.com/openebs/jiva/types"
)

// ctlAPI is the seam through which the management events of E-B reach the controller: either the exported methods of
// *controller.Controller directly, or (Cfg.ViaREST) the way every other jiva process reaches them - the real
// controller/client.ControllerClient talking to the real controller/rest router, which the in-process transport serves
// at ctlHost.  The second form puts the request/response translation of both packages (field copying, id encoding,
// status codes) inside the explored system.
type ctlAPI struct {
	cl *cluster
	c  *controller.Controller
}

func (cl *cluster) api() ctlAPI { return ctlAPI{cl, cl.c} }

func (a ctlAPI) rest() *cclient.ControllerClient {
	if !a.cl.cfg.ViaREST {
		return nil
	}
	if a.cl.ctlRouter == nil {
		a.cl.ctlRouter = crest.NewRouter(crest.NewServer(a.c))
	}
	return cclient.NewControllerClient("http://" + ctlHost + ":9501")
}

func (a ctlAPI) RegisterReplica(r types.RegReplica) error {
	if rc := a.rest(); rc != nil {
		return rc.Register(r.Address, r.UUID, r.RevCount, r.RepType, r.UpTime, r.RepState)
	}
	return a.c.RegisterReplica(r)
}

func (a ctlAPI) Start(addrs ...string) error {
	if rc := a.rest(); rc != nil {
		return rc.Start(addrs...)
	}
	return a.c.Start(addrs...)
}

func (a ctlAPI) AddReplica(address string) error {
	if rc := a.rest(); rc != nil {
		_, err := rc.CreateReplica(address)
		return err
	}
	return a.c.AddReplica(address)
}

func (a ctlAPI) RemoveReplica(address string) error {
	if rc := a.rest(); rc != nil {
		_, err := rc.DeleteReplica(address)
		return err
	}
	return a.c.RemoveReplica(address)
}

func (a ctlAPI) SetReplicaMode(address string, m types.Mode) error {
	if rc := a.rest(); rc != nil {
		rep, err := rc.GetReplica(crest.EncodeID(address))
		if err != nil {
			return err
		}
		if rep.Links["self"] == "" {
			return fmt.Errorf("replica %s not found", address)
		}
		rep.Mode = string(m)
		_, err = rc.UpdateReplica(*rep)
		return err
	}
	return a.c.SetReplicaMode(address, m)
}

func (a ctlAPI) VerifyRebuildReplica(address string) error {
	if rc := a.rest(); rc != nil {
		return rc.VerifyRebuildReplica(crest.EncodeID(address))
	}
	return a.c.VerifyRebuildReplica(address)
}

func (a ctlAPI) Snapshot(name string) (string, error) {
	if rc := a.rest(); rc != nil {
		return rc.Snapshot(name)
	}
	return a.c.Snapshot(name)
}

func (a ctlAPI) Revert(name string) error {
	if rc := a.rest(); rc != nil {
		return rc.RevertSnapshot(name)
	}
	return a.c.Revert(name)
}
