package eb

import (
	"fmt"
	"os"
	"path/filepath"
	"time"

	"verif/harness/kernel"
)

// RangeCheck decides C01's last clause exhaustively on a real controller: for EVERY offset in [-2, N+2] sectors and
// EVERY length in [0, N+2] sectors (N = volume size in 512-byte sectors) a WriteAt / ReadAt must be rejected exactly
// when the range leaves [0, size), and a rejected call must not reach any replica nor change its data.
func RangeCheck(real bool) int {
	start := time.Now()
	cfg := &Cfg{RF: 1, N: 1, Oracles: []string{}, Drain: true, Real: real}
	scratch := filepath.Join(os.TempDir(), fmt.Sprintf("verif-eb-%d", os.Getpid()), "range")
	cl := newCluster(cfg, scratch)
	defer func() { cl.destroy(); os.RemoveAll(scratch) }()
	for _, ev := range []string{"Reg:0", "Start:0"} {
		cl.step(ev)
	}
	size := int64(VolSize)
	nsec := int(size / 512)
	evals, nontrivial, viol := 0, 0, 0
	var samples []string
	var first string
	for _, op := range []string{"write", "read"} {
		for o := -2; o <= nsec+2; o++ {
			for l := 0; l <= nsec+2; l++ {
				off, n := int64(o)*512, l*512
				buf := make([]byte, n)
				for i := range buf {
					buf[i] = byte(1 + (o+l+i)%200)
				}
				before := cl.nodes[0].View().Data
				calls := len(cl.calls)
				var got int
				var err error
				if op == "write" {
					got, err = cl.c.WriteAt(buf, off)
				} else {
					got, err = cl.c.ReadAt(buf, off)
				}
				evals++
				inRange := off >= 0 && off+int64(n) <= size
				if !inRange {
					nontrivial++
				}
				bad := ""
				switch {
				case !inRange && err == nil:
					bad = fmt.Sprintf("%s(off=%d,len=%d) outside [0,%d) was accepted (n=%d)", op, off, n, size, got)
				case !inRange && len(cl.calls) != calls:
					bad = fmt.Sprintf("%s(off=%d,len=%d) was rejected but reached a replica", op, off, n)
				case !inRange && cl.nodes[0].View().Data != before:
					bad = fmt.Sprintf("%s(off=%d,len=%d) was rejected but changed replica data", op, off, n)
				case inRange && err != nil:
					bad = fmt.Sprintf("%s(off=%d,len=%d) inside the volume was rejected: %v", op, off, n, err)
				case inRange && op == "write" && n > 0 && cl.nodes[0].View().Data[off:off+int64(n)] != string(buf):
					bad = fmt.Sprintf("write(off=%d,len=%d) was accepted but the replica does not hold the data", off, n)
				}
				if bad != "" {
					viol++
					if first == "" {
						first = bad
					}
				}
				if len(samples) < 6 && (o == -1 || o == nsec-1) && (l == 0 || l == 2) {
					samples = append(samples, fmt.Sprintf("%s off=%d len=%d -> n=%d err=%v", op, off, n, got, err != nil))
				}
			}
		}
	}
	ev := &kernel.Evidence{PropertyID: "C01", Tier: kernel.Tier(), Seed: kernel.Seed(), Level: "model_checking", Violations: viol, WallS: time.Since(start).Seconds(),
		Coverage: map[string]interface{}{"states": nontrivial, "transitions": evals, "traces_validated_against_impl": evals, "samples": samples, "exhaustive": true,
			"rule": "every (offset, length) pair with offset in [-2,N+2] and length in [0,N+2] sectors, for WriteAt and ReadAt on a real controller with one RW replica; states = pairs that leave the volume", "evaluations": evals, "distinct_nontrivial": nontrivial},
		Assumptions: []string{"one RW replica (model node), RF=1; the range check precedes any replica call, so membership does not matter"}}
	ev.PropertyID = "C01"
	b := *ev
	b.PropertyID = "C01-range.part"
	if err := kernel.WriteEvidence(&b); err != nil {
		fmt.Fprintln(os.Stderr, err)
		return 2
	}
	fmt.Printf("C01range: %d calls, %d outside the volume, %d violations, %.1fs\n", evals, nontrivial, viol, time.Since(start).Seconds())
	if viol > 0 {
		rp := kernel.WriteReplay(&kernel.Replay{Property: "C01", Engine: "E-B/range", Path: []string{first}, Violation: kernel.Violation{Oracle: "range-check", Signature: "range-check", Detail: first}})
		fmt.Printf("VIOLATION property=C01 replay=%s\n  %s\n", rp, first)
		return 1
	}
	return 0
}
