package eb

import (
	"bytes"
	"crypto/sha1"
	"encoding/json"
	"fmt"
	"net/http"
	"net/http/httptest"
	"os"
	"path/filepath"
	"runtime"
	"runtime/debug"
	"sort"
	"strconv"
	"strings"
	"time"

	"github.com/openebs/jiva/controller"
	crest "github.com/openebs/jiva/controller/rest"
	jsync "github.com/openebs/jiva/sync"
	"github.com/openebs/jiva/types"
	"github.com/openebs/jiva/verifshim/vtime"

	"verif/harness/kernel"
)

var ExitAfter bool
var pathSeq int

func atoi(s string) int { n, _ := strconv.Atoi(s); return n }

func maskNodes(mask int, n int) []int {
	var out []int
	for i := 0; i < n; i++ {
		if mask&(1<<i) != 0 {
			out = append(out, i)
		}
	}
	return out
}

func bits(m int) int {
	c := 0
	for ; m != 0; m &= m - 1 {
		c++
	}
	return c
}

// Exec is the worker body of engine E-B.
func Exec(req *kernel.Request) (resp *kernel.Response) {
	resp = &kernel.Response{}
	var cfg Cfg
	if err := json.Unmarshal(req.Cfg, &cfg); err != nil {
		resp.Err = "cfg: " + err.Error()
		return
	}
	pathSeq++
	scratch := filepath.Join(os.TempDir(), fmt.Sprintf("verif-eb-%d", os.Getpid()), fmt.Sprintf("p%d", pathSeq))
	blockChoice = map[int]int{}
	cl := newCluster(&cfg, scratch)
	cl.trace = req.Trace
	if cfg.Clone {
		cl.setupClone()
	}
	defer func() {
		if r := recover(); r != nil {
			resp.Err = fmt.Sprintf("harness panic: %v\n%s", r, debug.Stack())
			ExitAfter = true
		}
		cl.destroy()
		if cfg.Real {
			os.RemoveAll(scratch)
		}
	}()
	for _, ev := range cfg.InitOps {
		cl.step(ev)
		if len(cl.viol) > 0 {
			resp.Err = fmt.Sprintf("init op %s: %+v", ev, cl.viol[0])
			return
		}
	}
	for _, ev := range req.Path {
		cl.step(ev)
		if len(cl.viol) > 0 {
			break
		}
	}
	if len(cl.viol) == 0 {
		resp.Key = cl.key()
		resp.Enabled = cl.enabled()
		resp.KeyText = cl.lastKeyText
		resp.Conf = cl.conf()
		if req.Trace {
			cl.notes = append(cl.notes, "KEY:\n"+cl.lastKeyText)
		}
	}
	h := sha1.Sum([]byte(strings.Join(cl.obs, "\n")))
	resp.Obs = fmt.Sprintf("%x", h[:8])
	resp.Violations = cl.viol
	cl.cnt["max_goroutines"] = 0
	resp.Counters = cl.cnt
	if g := runtime.NumGoroutine(); g > 40 {
		resp.Note = append(resp.Note, fmt.Sprintf("goroutines=%d", g))
	}
	resp.Note = cl.notes
	return
}

// Cleanup removes the worker's scratch area.
func Cleanup() { os.RemoveAll(filepath.Join(os.TempDir(), fmt.Sprintf("verif-eb-%d", os.Getpid()))) }

// guard runs one controller call; a panic or logrus.Fatal inside becomes a violation.
func (cl *cluster) guard(what string, f func() error) (err error) {
	defer func() {
		if r := recover(); r != nil {
			if _, ok := r.(fatalExit); ok {
				logMu.Lock()
				l := logBuf.String()
				logMu.Unlock()
				cl.violate("fatal-exit", "fatal:"+strings.Split(what, ":")[0], "logrus.Fatal during "+what+"\n"+tailStr(l, 1500))
			} else {
				cl.violate("panic", "panic:"+strings.Split(what, ":")[0], fmt.Sprintf("%v\n%s", r, debug.Stack()))
			}
			ExitAfter = true
			err = fmt.Errorf("panicked")
		}
	}()
	return f()
}

func tailStr(s string, n int) string {
	if len(s) > n {
		return s[len(s)-n:]
	}
	return s
}

// step = one external event, then (when configured) the internal monitor wake-ups it enabled, then the oracles.
func (cl *cluster) step(ev string) {
	cl.stepBefore = cl.c.VerifView()
	cl.opFailed = map[int]bool{}
	k := strings.Split(ev, ":")[0]
	cl.opIO = k == "W" || k == "Sy" || k == "Un" || k == "R" || k == "Wb"
	pendingBefore := len(cl.internal())
	cl.apply(ev)
	if len(cl.viol) > 0 {
		return
	}
	if cl.cfg.ViaRPC {
		cl.awaitExits()
	}
	if cl.cfg.RealMon {
		cl.settleReal(ev)
		if len(cl.viol) > 0 {
			return
		}
	}
	if cl.cfg.Drain {
		for guardN := 0; guardN < 20; guardN++ {
			in := cl.internal()
			if len(in) == 0 {
				break
			}
			cl.apply(in[0])
			if len(cl.viol) > 0 {
				return
			}
		}
	}
	v := cl.c.VerifView()
	cl.refreshDetached(v)
	for i := range cl.nodes {
		cl.oracleVerify(cl.stepBefore, i, nil)
	}
	if cl.opIO && pendingBefore == 0 && len(cl.internal()) == 0 && (cl.wants("c04") || cl.wants("c05") || cl.wants("c02")) {
		// once the controller is quiescent again: exactly the replicas whose call failed are gone, the others are
		// still attached in the mode they had
		after := map[int]string{}
		for _, r := range v.Replicas {
			after[nodeOf(r.Address)] = string(r.Mode)
		}
		for _, r := range cl.stepBefore.Replicas {
			n := nodeOf(r.Address)
			if r.Mode == types.ERR {
				continue
			}
			if cl.opFailed[n] {
				if m, ok := after[n]; ok && m != string(types.ERR) {
					cl.violate("failed-replica-still-attached", "failed-replica-still-attached:"+k, fmt.Sprintf("%s: node %d failed its call but is still attached as %s; replicas after: %v", ev, n, m, v.Replicas))
				}
			} else if m, ok := after[n]; !ok || m != string(r.Mode) {
				cl.violate("healthy-replica-detached", "healthy-replica-detached:"+k, fmt.Sprintf("%s: node %d did not fail any call (failed: %v) but it was %s before and is %q afterwards; replicas after: %v", ev, n, keys(cl.opFailed), r.Mode, m, v.Replicas))
			}
		}
	}
	cl.stateOracles(v)
	cl.cloneOracle()
}

// reopenOracle: the directory of node n must open with the real code (checked on a byte copy).
func (cl *cluster) reopenOracle(ev string, n int, why string) {
	rn, ok := cl.nodes[n].(*RealNode)
	if !ok || !(cl.wants("c07") || cl.wants("c19") || cl.wants("c12")) {
		return
	}
	cl.cnt["reopen_after_failed_task_checks"]++
	if d := rn.OpensAfterDeath(); d != "" {
		cl.violate("reopen", "joiner-cannot-reopen", fmt.Sprintf("%s: node %d: %s, and a new replica process could not open its directory: %s", ev, n, why, d))
	}
}

// waitDetached: a fault that only the monitor path can notice (no I/O in flight) has hit node i's backend: the
// replica must leave the volume.  The generous deadline turns "never noticed" into a diagnosis.
func (cl *cluster) waitDetached(ev string, i int) {
	deadline := time.Now().Add(60 * time.Second)
	for {
		listed := true
		var reps []types.Replica
		if v, ok := cl.c.VerifViewIfFree(); ok {
			listed = false
			reps = v.Replicas
			for _, r := range v.Replicas {
				if nodeOf(r.Address) == i {
					listed = true
				}
			}
		}
		if !listed {
			return
		}
		if time.Now().After(deadline) {
			cl.violate("failure-unnoticed", "idle-failure-unnoticed:"+strings.Split(ev, ":")[0], fmt.Sprintf("%s: node %d is still listed 60 s after the fault although the real monitor goroutine and rpc client are running: the replica is never detached and the volume status never re-evaluated; replicas: %v", ev, i, reps))
			return
		}
		time.Sleep(100 * time.Microsecond)
	}
}

func (cl *cluster) terr(ev string, err error) {
	if cl.trace && err != nil {
		cl.notes = append(cl.notes, fmt.Sprintf("    %s error: %v", ev, err))
	}
}

// rest performs a replica-side REST action the way the rebuild task on the replica does.
func (cl *cluster) rest(node int, action, body string) error {
	req, _ := http.NewRequest("POST", "http://"+ip(node)+":9502/v1/replicas/1?action="+action, strings.NewReader(body))
	req.Header.Set("Content-Type", "application/json")
	resp, err := http.DefaultClient.Do(req)
	if err != nil {
		return err
	}
	defer resp.Body.Close()
	if resp.StatusCode != 200 {
		return fmt.Errorf("%s on node %d: status %d", action, node, resp.StatusCode)
	}
	return nil
}

func (cl *cluster) apply(ev string) {
	f := strings.Split(ev, ":")
	cl.cnt["ev_"+f[0]]++
	c := cl.c
	before := c.VerifView()
	ncalls := len(cl.calls)
	cl.internalBefore = cl.internal()
	cl.failIO = map[int]bool{}
	cl.failREST = map[string]bool{}
	switch f[0] {
	case "Reg", "RegF":
		i := atoi(f[1])
		cl.nRegs++
		cl.failSig = f[0] == "RegF"
		nv := cl.nodes[i].View()
		cl.regTruth[i] = nv.Rev
		st := "closed"
		if i < len(cl.cfg.States) && cl.cfg.States[i] != "" {
			st = cl.cfg.States[i]
		}
		err := cl.guard(ev, func() error {
			return cl.api().RegisterReplica(types.RegReplica{Address: ip(i), UUID: fmt.Sprintf("uuid-%d", i), RevCount: nv.Rev, RepType: "Backend", RepState: st})
		})
		cl.failSig = false
		cl.observe("%s -> %v", ev, err != nil)
	case "RegL":
		// a registration during which ONE liveness probe of the current leader gets lost (the leader is alive)
		i := atoi(f[1])
		if l := nodeOf("tcp://" + before.MaxRevReplica + ":9502"); l >= 0 {
			cl.lostProbes[l] = 1
		}
		cl.nRegs++
		cl.nFaults++
		nv := cl.nodes[i].View()
		cl.regTruth[i] = nv.Rev
		st := "closed"
		if i < len(cl.cfg.States) && cl.cfg.States[i] != "" {
			st = cl.cfg.States[i]
		}
		err := cl.guard(ev, func() error {
			return cl.api().RegisterReplica(types.RegReplica{Address: ip(i), UUID: fmt.Sprintf("uuid-%d", i), RevCount: nv.Rev, RepType: "Backend", RepState: st})
		})
		cl.lostProbes = map[int]int{}
		cl.observe("%s -> %v", ev, err != nil)
	case "Down":
		cl.down[atoi(f[1])] = true
	case "Up":
		cl.down[atoi(f[1])] = false
	case "Start", "StartWrong", "StartAllAsc", "StartAllDesc":
		i := atoi(f[1])
		addrs := []string{addr(i)}
		if strings.HasPrefix(f[0], "StartAll") {
			// the volume "start" action with a replica list: the signalled replica first, then every other node that is
			// up, in ascending or descending node order (Controller.Start takes companions that never registered, too)
			var others []int
			for k := range cl.nodes {
				if k != i && !cl.down[k] {
					others = append(others, k)
				}
			}
			if f[0] == "StartAllDesc" {
				sort.Sort(sort.Reverse(sort.IntSlice(others)))
			}
			for _, k := range others {
				addrs = append(addrs, addr(k))
			}
		}
		err := cl.guard(ev, func() error { return cl.api().Start(addrs...) })
		cl.observe("%s -> %v", ev, err != nil)
		cl.terr(ev, err)
		cl.settle()
		cl.oracleStart(before, i, err)
		// a replica that has acted on its signal does not act on it again
		if m, ok := cl.nodes[i].(*ModelNode); ok {
			m.Actions = nil
		}
	case "Add":
		i := atoi(f[1])
		cl.nAdds++
		err := cl.guard(ev, func() error { return cl.api().AddReplica(addr(i)) })
		cl.observe("%s -> %v", ev, err != nil)
		cl.terr(ev, err)
		if err == nil {
			if m, ok := cl.nodes[i].(*ModelNode); ok {
				m.Actions = nil
			}
		}
	case "AddSnapF":
		// AddReplica whose add-time snapshot fails on one replica that is in service (REST failure)
		i, fnode := atoi(f[1]), atoi(f[2])
		cl.nAdds++
		cl.nFaults++
		cl.failREST[fmt.Sprintf("%d/snapshot", fnode)] = true
		err := cl.guard(ev, func() error { return cl.api().AddReplica(addr(i)) })
		cl.observe("%s -> %v", ev, err != nil)
		cl.terr(ev, err)
		if err == nil {
			if m, ok := cl.nodes[i].(*ModelNode); ok {
				m.Actions = nil
			}
		}
	case "AddB":
		// first half of AddReplica: admission check under the lock, then parked inside factory.Create (unlocked)
		i := atoi(f[1])
		cl.nAdds++
		cl.adds[i] = cl.startTask("add", i, func() error { return cl.api().AddReplica(addr(i)) })
		cl.observe("%s -> done=%v err=%v", ev, cl.adds[i].done, cl.adds[i].err != nil)
	case "AddF":
		// second half: create the backend, re-take the lock, attach
		i := atoi(f[1])
		t := cl.adds[i]
		for k := 0; k < 3 && !t.done; k++ {
			cl.stepTask(t)
		}
		cl.observe("%s -> done=%v err=%v", ev, t.done, t.err != nil)
		cl.terr(ev, t.err)
		delete(cl.adds, i)
	case "Reb":
		// the joining replica marks itself rebuilding (first step of its rebuild); nothing has been copied yet
		i := atoi(f[1])
		cl.terr(ev, cl.rest(i, "setrebuilding", `{"rebuilding":true}`))
		cl.observe("%s", ev)
	case "Sync":
		i := atoi(f[1])
		b := cl.attachedBE(i)
		src := -1
		rw, _, _ := modesOf(before)
		if len(rw) > 0 {
			src = rw[0]
		}
		if b != nil && src >= 0 {
			// what sync.AddReplica does on the replica after CreateReplica: mark rebuilding, copy the source's snapshots
			err := cl.rest(i, "setrebuilding", `{"rebuilding":true}`)
			cl.terr(ev, err)
			if err := cl.nodes[i].SyncFrom(cl.nodes[src]); err != nil {
				panic("SyncFrom: " + err.Error())
			}
			cl.synced[b.seq] = true
		}
	case "VerifyF":
		// verify with one REST call to the joining replica failing (timeout, 5xx, replica killed at that point)
		i := atoi(f[1])
		cl.failREST[fmt.Sprintf("%d/%s", i, f[2])] = true
		cl.nFaults++
		err := cl.guard(ev, func() error { return cl.api().VerifyRebuildReplica(addr(i)) })
		cl.observe("%s -> %v", ev, err != nil)
		cl.terr(ev, err)
		cl.failREST = map[string]bool{}
		cl.settle()
		if err == nil {
			cl.terr(ev, cl.rest(i, "setrebuilding", `{"rebuilding":false}`))
		} else if cl.wants("c07") {
			after := cl.c.VerifView()
			for _, r := range after.Replicas {
				if nodeOf(r.Address) == i && r.Mode == types.RW {
					src := -1
					if rw, _, _ := modesOf(before); len(rw) > 0 {
						src = rw[0]
					}
					if src >= 0 && cl.nodes[src].View().Rev != cl.nodes[i].View().Rev {
						cl.violate("promotion", "promoted-by-failed-verify", fmt.Sprintf("%s failed (%v) but node %d is RW afterwards with revision counter %d (source %d)", ev, err, i, cl.nodes[i].View().Rev, cl.nodes[src].View().Rev))
					}
				}
			}
		}
	case "Verify", "VerifyEarly":
		i := atoi(f[1])
		err := cl.guard(ev, func() error { return cl.api().VerifyRebuildReplica(addr(i)) })
		cl.observe("%s -> %v", ev, err != nil)
		cl.terr(ev, err)
		cl.settle()
		if err == nil {
			cl.terr(ev, cl.rest(i, "setrebuilding", `{"rebuilding":false}`))
		}
	case "Wb":
		blockChoice[cl.nWrites+1] = atoi(f[1])
		cl.mutatingIO(ev, "W", 0, before, ncalls)
	case "W", "Sy", "Un":
		mask := atoi(f[1])
		for _, n := range maskNodes(mask, cl.cfg.N) {
			cl.failIO[n] = true
		}
		cl.nFaults += bits(mask)
		cl.mutatingIO(ev, f[0], mask, before, ncalls)
	case "R":
		mask := atoi(f[1])
		for _, n := range maskNodes(mask, cl.cfg.N) {
			cl.failIO[n] = true
		}
		cl.nFaults += bits(mask)
		cl.nReads++
		cl.read(ev, mask, before, ncalls)
	case "Snap":
		mask := atoi(f[1])
		for _, n := range maskNodes(mask, cl.cfg.N) {
			cl.failREST[fmt.Sprintf("%d/snapshot", n)] = true
		}
		cl.nFaults += bits(mask)
		cl.nSnaps++
		cl.snapshot(ev, mask, before)
	case "Revert":
		mask := atoi(f[1])
		for _, n := range maskNodes(mask, cl.cfg.N) {
			cl.failREST[fmt.Sprintf("%d/revert", n)] = true
		}
		cl.nFaults += bits(mask)
		cl.nReverts++
		cl.revert(ev, mask, before)
	case "RevertTo":
		cl.nReverts++
		cl.revertTo(ev, 0, before, atoi(f[1]))
	case "MonFail":
		b := cl.bes[atoi(f[1])]
		b.monitoring = false
		cl.nFaults++
		b.r.VerifMonitorChan() <- fmt.Errorf("ping failure (injected)")
		cl.observe("%s", ev)
	case "MonWake":
		b := cl.bes[atoi(f[1])]
		<-b.r.VerifCloseChan()
		b.monitoring = false
		b.r.VerifMonitorChan() <- nil
		cl.observe("%s", ev)
	case "Remove":
		i := atoi(f[1])
		err := cl.guard(ev, func() error { return cl.api().RemoveReplica(addr(i)) })
		cl.observe("%s -> %v", ev, err != nil)
	case "ERR", "RW":
		i := atoi(f[1])
		err := cl.guard(ev, func() error { return cl.api().SetReplicaMode(addr(i), types.Mode(f[0])) })
		cl.observe("%s -> %v", ev, err != nil)
	case "RB":
		i := atoi(f[1])
		rn, ok := cl.nodes[i].(*RealNode)
		if !ok {
			panic("RB needs real nodes")
		}
		cl.nAdds++
		cl.task = cl.startTask("rebuild", i, func() error {
			return jsync.NewTask("http://"+ctlHost+":9501").AddReplica(addr(i), rn.srv)
		})
		cl.observe("%s -> %s", ev, cl.taskDesc())
	case "Boot":
		cl.boot(ev, atoi(f[1]))
	case "StepB":
		cl.stepBoot(ev, atoi(f[1]), before)
	case "Step":
		cl.stepTask(cl.task)
		cl.observe("Step -> %s", cl.taskDesc())
		if cl.task.done && cl.trace && cl.task.err != nil {
			cl.notes = append(cl.notes, fmt.Sprintf("    task error: %v", cl.task.err))
		}
		if cl.task.panicked != "" {
			cl.violate("panic", "panic:task:"+cl.task.kind, "the replica-side task panicked: "+cl.task.panicked)
		}
		if cl.task.done && cl.task.err != nil && !cl.task.killed {
			// a rebuild / clone that failed ends the replica process (Fatalf): the next process must be able to open the
			// directory, or the replica can never try again
			cl.reopenOracle(ev, cl.task.node, "the "+cl.task.kind+" failed ("+cl.task.err.Error()+")")
		}
	case "FiemapFail":
		cl.failFiemap = true
		cl.nFaults++
		cl.observe("FiemapFail armed")
	case "XferKill":
		// the next snapshot-file transfer: the sender is killed by a signal after the receiver sized the file
		cl.killXfer = true
		cl.nFaults++
		cl.observe("XferKill armed")
	case "Ahead":
		// pre-history (InitOps only): two writes (Ahead:<i>:1 = one) that were in flight reached the real replica of node <i> and nobody else,
		// and were never acknowledged: its revision counter is now ahead of the others', its chain has the same names
		i := atoi(f[1])
		buf := bytes.Repeat([]byte{0xEE}, Block)
		srv := cl.nodes[i].(*RealNode).Server()
		opened := false
		if _, err := srv.WriteAt(buf, Block); err != nil { // out of service and closed: the writes landed before it closed
			if err := srv.Open(); err != nil {
				panic(fmt.Sprintf("harness: Ahead:%d: open: %v", i, err))
			}
			opened = true
			if _, err := srv.WriteAt(buf, Block); err != nil {
				panic(fmt.Sprintf("harness: Ahead:%d: %v", i, err))
			}
		}
		if len(f) < 3 || f[2] != "1" { // Ahead:<i>:1 = one write only
			if _, err := srv.WriteAt(buf, 2*Block); err != nil {
				panic(fmt.Sprintf("harness: Ahead:%d: %v", i, err))
			}
		}
		if opened {
			srv.Close()
		}
		cl.observe("%s", ev)
	case "AgentRestart":
		// the sync agent that runs the next snapshot-file sender dies with it and comes back (empty process table, ids
		// from 1 again); the status poll that follows is refused, the ones after that reach the new agent, which by then
		// has run unrelated transfers under the same ids
		cl.restartAgent = true
		cl.nFaults++
		cl.observe("AgentRestart armed")
	case "XferFail":
		// the next snapshot-file transfer of the running rebuild dies half way
		cl.failXfer = true
		cl.nFaults++
		cl.observe("XferFail armed")
	case "PingOK", "PingF":
		// monitorPing's ticker fires for the backend of node <i>: the real Ping travels over the rpc connection; PingF:
		// the replica answers it with an error
		i := atoi(f[1])
		b := cl.attachedBE(i)
		if f[0] == "PingF" {
			cl.failPing = map[int]bool{i: true}
			cl.nFaults++
			cl.opFailed[i] = true
		}
		b.tick <- vtime.Now()
		if f[0] == "PingF" {
			cl.waitDetached(ev, i)
		} else {
			// the answer has been consumed when a second tick is accepted (the goroutine is back in its select)
			select {
			case b.tick <- vtime.Now():
			case <-time.After(60 * time.Second):
				cl.violate("wedged", "monitor-ping-stuck", fmt.Sprintf("%s: the monitor goroutine of node %d did not come back from a ping that was answered", ev, i))
			}
		}
		cl.failPing = nil
		cl.observe("%s", ev)
	case "ConnDrop":
		// the data connection of node <i>'s backend dies while no I/O is in flight (replica process killed, network cut)
		i := atoi(f[1])
		b := cl.attachedBE(i)
		cl.nFaults++
		cl.opFailed[i] = true
		b.sconn.Close()
		b.cconn.Close()
		cl.waitDetached(ev, i)
		cl.observe("%s", ev)
	case "UnB":
		// UNMAP of one whole block that holds data, while no replica is rebuilding.  No user snapshot exists in the runs
		// that have this event, so the range is punched out of every file of the chain: the block reads zeros afterwards.
		b := atoi(f[1])
		cl.nUnmaps++
		var n int
		err := cl.guard(ev, func() error { var e error; n, e = c.Unmap(int64(b)*Block, Block); return e })
		cl.observe("%s -> n=%d err=%v", ev, n, err != nil)
		if err == nil {
			for id := 1; id <= cl.nWrites; id++ {
				if blockOf(id) == b {
					cl.undone[id] = true
				}
			}
		}
	case "Kill":
		// the joining replica's process dies at the gate its task is parked at and is started again
		n := cl.task.node
		cl.killTask(cl.task)
		if cl.task.kind == "clone" {
			// the clone's data connection dies with it: volume B's controller is told by its monitor
		}
		if rn, ok := cl.nodes[n].(*RealNode); ok {
			rn.Crash()
		}
		cl.nRestart++
		cl.observe("Kill -> %s", cl.taskDesc())
		cl.reopenOracle(ev, n, "its process was killed during the "+cl.task.kind)
	case "Crash":
		// the replica process whose rebuild failed exits (AutoConfigureReplica ends in Fatalf) and is started again
		n := cl.task.node
		cl.task.crashed = true
		if rn, ok := cl.nodes[n].(*RealNode); ok {
			rn.Crash()
		}
		cl.nRestart++
		cl.observe("Crash -> %s", cl.taskDesc())
		cl.reopenOracle(ev, n, "its process exited after the failed "+cl.task.kind)
	case "DelSnap":
		cl.deleteSnapshot(ev, f[1], before)
	case "Cleaners":
		// every attached replica runs its background snapshot cleaner
		for _, b := range before.Backends {
			cl.startCleaner(nodeOf(b.Address))
		}
	case "Tick", "TickF", "TickK", "TickS":
		i := atoi(f[1])
		cl.nTicks++
		cl.killFold = f[0] == "TickK"  // the sfold child of this iteration dies from a signal
		cl.failSpawn = f[0] == "TickS" // the sfold child of this iteration cannot be started at all
		if f[0] == "TickF" || f[0] == "TickK" || f[0] == "TickS" {
			cl.nFaults++
		}
		rn := cl.nodes[i].(*RealNode)
		imgs := map[string]string{}
		var chainBefore []string
		if rep := rn.srv.Replica(); rep != nil {
			chainBefore, _ = rep.Chain()
			for name, d := range rep.ListDisks() {
				if d.UserCreated && !d.Removed {
					imgs[name], _ = rn.SnapshotImage(name)
				}
			}
		}
		dataBefore := rn.View().Data
		cl.tick(i, f[0] == "TickF")
		cl.killFold, cl.failSpawn = false, false
		var chainAfter []string
		if rep := rn.srv.Replica(); rep != nil {
			chainAfter, _ = rep.Chain()
		}
		cl.observe("%s -> chain %d -> %d", ev, len(chainBefore), len(chainAfter))
		if cl.wants("c11") {
			cl.cnt["cleaner_ticks"]++
			if len(chainAfter) < len(chainBefore) {
				cl.cnt["cleaner_deletions"]++
			}
			if d := rn.View().Data; d != dataBefore {
				cl.violate("cleaner-changed-data", "cleaner-changed-live-data", fmt.Sprintf("%s: the background cleaner changed what node %d's live volume reads (chain %v -> %v): %s", ev, i, chainBefore, chainAfter, blockDiff(dataBefore, d)))
			}
			for name, img := range imgs {
				if now, ok := rn.SnapshotImage(name); !ok || now != img {
					cl.violate("cleaner-changed-data", "cleaner-changed-user-snapshot", fmt.Sprintf("%s: retained user snapshot %s on node %d changed or vanished (chain %v -> %v)", ev, name, i, chainBefore, chainAfter))
				}
			}
		}
	case "Resize":
		mask := atoi(f[2])
		for _, n := range maskNodes(mask, cl.cfg.N) {
			cl.failREST[fmt.Sprintf("%d/resize", n)] = true
		}
		cl.nFaults += bits(mask)
		cl.resize(ev, f[1], mask, before)
	case "Break":
		cl.stickyREST[f[1]+"/"+f[2]] = true
		cl.nFaults++
	case "Heal":
		delete(cl.stickyREST, f[1]+"/"+f[2])
	case "Restart":
		i := atoi(f[1])
		cl.nRestart++
		cl.nodes[i].Restart()
		cl.observe("%s", ev)
	default:
		if !cl.applyClone(ev, f) {
			panic("unknown event " + ev)
		}
	}
	cl.failIO = map[int]bool{}
	cl.failREST = map[string]bool{}
	cl.settle()
}

// blockOf: write number id goes to block (id-1) mod 4 unless the event named a block (Wb:<blk>).
var blockChoice = map[int]int{}

func blockOf(id int) int {
	if b, ok := blockChoice[id]; ok {
		return b
	}
	return (id - 1) % (VolSize / Block)
}

func (cl *cluster) writersBefore(v controller.VerifView) []int {
	var w []int
	for _, b := range v.Backends {
		if b.Mode != string(types.ERR) {
			w = append(w, nodeOf(b.Address))
		}
	}
	sort.Ints(w)
	return w
}

func (cl *cluster) calledNodes(from int, op string) []int {
	var out []int
	for _, c := range cl.calls[from:] {
		if c.op == op {
			out = append(out, c.node)
		}
	}
	sort.Ints(out)
	return out
}

func (cl *cluster) mutatingIO(ev, kind string, mask int, before controller.VerifView, ncalls int) {
	c := cl.c
	var n int
	var err error
	id := 0
	switch kind {
	case "W":
		cl.nWrites++
		id = cl.nWrites
		buf := make([]byte, Block)
		for i := range buf {
			buf[i] = byte(id)
		}
		err = cl.guard(ev, func() error { var e error; n, e = c.WriteAt(buf, int64(blockOf(id))*Block); return e })
	case "Sy":
		err = cl.guard(ev, func() error { var e error; n, e = c.Sync(); return e })
	case "Un":
		err = cl.guard(ev, func() error { var e error; n, e = c.Unmap(0, 0); return e })
	}
	op := map[string]string{"W": "W", "Sy": "S", "Un": "U"}[kind]
	applied := cl.calledNodes(ncalls, op)
	ack := err == nil && ((kind == "W" && n == Block) || (kind != "W" && n == 0))
	cl.observe("%s -> n=%d err=%v applied=%v", ev, n, err != nil, applied)
	if kind == "W" {
		cl.issued[id] = true
		if ack {
			cl.acked[id] = true
		}
	}
	writers := cl.writersBefore(before)
	rw, _, _ := modesOf(before)
	quorum := cl.cfg.RF/2 + 1
	touched := len(cl.calls) > ncalls
	cl.cnt["io_ops"]++
	if ack {
		cl.cnt["io_acked"]++
	}
	if cl.wants("c03") {
		if touched && len(rw) < quorum {
			cl.violate("io-accepted-below-quorum", "below-quorum:"+kind, fmt.Sprintf("%s reached replicas %v although only %d of RF=%d replicas were RW (quorum %d); replicas before: %v", ev, applied, len(rw), cl.cfg.RF, quorum, before.Replicas))
		}
		if !touched && len(rw) >= quorum && len(cl.internalBefore) == 0 && ack == false && err != nil && strings.Contains(err.Error(), "ReadOnly") {
			cl.violate("readonly-with-quorum", "readonly-with-quorum:"+kind, fmt.Sprintf("%s refused as read-only although %d of RF=%d replicas are RW; replicas before: %v", ev, len(rw), cl.cfg.RF, before.Replicas))
		}
	}
	if cl.wants("c02") {
		if ack && !(len(applied) > len(writers)/2) {
			cl.violate("acked-without-majority", fmt.Sprintf("acked-without-majority:%s:%dof%d", kind, len(applied), len(writers)), fmt.Sprintf("%s acknowledged (n=%d, err=%v) but applied by %v out of attached writers %v", ev, n, err, applied, writers))
		}
		if touched && !ack && len(applied) > len(writers)/2 && cl.wants("c05") {
			// a strict majority applied it and a RW replica is among them: must not surface as an error
			hasRW := false
			for _, a := range applied {
				for _, r := range rw {
					if a == r {
						hasRW = true
					}
				}
			}
			if hasRW {
				cl.violate("minority-failure-surfaced", fmt.Sprintf("minority-failure-surfaced:%s:%dof%d", kind, len(applied), len(writers)), fmt.Sprintf("%s failed (n=%d, err=%v) although %v of writers %v applied it", ev, n, err, applied, writers))
			}
		}
	}
	cl.pendingFailed = nil
	if touched {
		for _, w := range writers {
			if mask&(1<<w) != 0 {
				cl.pendingFailed = append(cl.pendingFailed, w)
			}
		}
	}
}

func (cl *cluster) wants(o string) bool { return cl.cfg.has(cl.cfg.Oracles, o) }

func (cl *cluster) expectBlock(b int) (must int, may map[int]bool) {
	may = map[int]bool{}
	for id := 1; id <= cl.nWrites; id++ {
		if blockOf(id) != b || cl.undone[id] {
			continue
		}
		if cl.acked[id] {
			must = id
			may = map[int]bool{}
		} else {
			may[id] = true
		}
	}
	return
}

func (cl *cluster) checkImage(data []byte, sinceWrite int, what string) string {
	for b := 0; b < VolSize/Block; b++ {
		must, may := cl.expectBlock(b)
		got := int(data[b*Block])
		uniform := true
		for _, x := range data[b*Block : (b+1)*Block] {
			if int(x) != got {
				uniform = false
			}
		}
		if !uniform {
			return fmt.Sprintf("%s: block %d is torn", what, b)
		}
		if must <= sinceWrite && got != must && !may[got] {
			// acknowledged before this replica was attached: it gets the block through the rebuild sync
			continue
		}
		if got != must && !may[got] {
			return fmt.Sprintf("%s: block %d holds write %d, expected acknowledged write %d (or an unacknowledged later one %v)", what, b, got, must, keys(may))
		}
	}
	return ""
}

func keys(m map[int]bool) []int {
	var k []int
	for x := range m {
		k = append(k, x)
	}
	sort.Ints(k)
	return k
}

func (cl *cluster) read(ev string, mask int, before controller.VerifView, ncalls int) {
	c := cl.c
	buf := make([]byte, VolSize)
	var n int
	err := cl.guard(ev, func() error { var e error; n, e = c.ReadAt(buf, 0); return e })
	served := -1
	for _, k := range cl.calls[ncalls:] {
		if k.op == "R" {
			served = k.node // the last reader that was actually called and did not fail by script
		}
	}
	cl.observe("%s -> n=%d err=%v served=%d", ev, n, err != nil, served)
	rw, _, _ := modesOf(before)
	if !cl.wants("c04") {
		return
	}
	cl.cnt["reads"]++
	if err == nil {
		if served < 0 {
			cl.violate("read-from-nowhere", "read-from-nowhere", fmt.Sprintf("%s succeeded but no replica served it", ev))
			return
		}
		isRW := false
		for _, r := range rw {
			if r == served {
				isRW = true
			}
		}
		nm := cl.nodes[served].View().Mode
		if !isRW || nm != "RW" {
			cl.violate("read-from-non-rw", "read-from-non-rw", fmt.Sprintf("%s was served by node %d whose mode is %s on the node, controller replicas before: %v", ev, served, nm, before.Replicas))
			return
		}
		if d := cl.checkImage(buf, 0, "read"); d != "" {
			cl.violate("read-stale", "read-stale", fmt.Sprintf("%s served by node %d: %s", ev, served, d))
		}
	} else {
		// a read may fail only if every RW reader failed
		ok := false
		for _, r := range rw {
			if mask&(1<<r) == 0 {
				ok = true
			}
		}
		if ok && len(cl.internalBefore) == 0 {
			cl.violate("read-failed-with-healthy-reader", "read-failed-with-healthy-reader", fmt.Sprintf("%s failed (%v) although RW replicas %v include one that did not fail (mask %b)", ev, err, rw, mask))
		}
	}
	cl.pendingFailed = nil
	for _, r := range rw {
		if mask&(1<<r) != 0 {
			for _, k := range cl.calls[ncalls:] {
				_ = k
			}
		}
	}
}

func (cl *cluster) snapshot(ev string, mask int, before controller.VerifView) {
	name := fmt.Sprintf("u%d", cl.nSnaps)
	if cl.cfg.PrefixNames {
		name = "u" + strings.Repeat("1", cl.nSnaps) // u1, u11, u111: every older name is a prefix of every newer one
	}
	var got string
	err := cl.guard(ev, func() error { var e error; got, e = cl.api().Snapshot(name); return e })
	cl.observe("%s -> %v", ev, err != nil)
	_ = got
	if err == nil {
		cl.goodSnaps = append(cl.goodSnaps, goodSnap{name, cl.nWrites})
	}
	if !cl.wants("c13") {
		return
	}
	rw, _, _ := modesOf(before)
	full := "volume-snap-" + name + ".img"
	var have []int
	for i, nd := range cl.nodes {
		v := nd.View()
		if len(v.Chain) > 0 && v.Chain[0] == full {
			have = append(have, i)
		}
	}
	if len(have) > 0 && len(rw) != cl.cfg.RF {
		cl.violate("snapshot-without-all-rw", "snapshot-without-all-rw", fmt.Sprintf("%s was taken on nodes %v although only %d of RF=%d replicas are RW (controller count %d); replicas: %v", ev, have, len(rw), cl.cfg.RF, before.RWReplicaCount, before.Replicas))
		return
	}
	if err == nil {
		// a replica that failed the snapshot is ERR-marked (and detached); every replica still in service must hold it
		cl.settle()
		after := cl.c.VerifView()
		arw, awo, _ := modesOf(after)
		for _, n := range append(arw, awo...) {
			ok := false
			for _, h := range have {
				if h == n {
					ok = true
				}
			}
			if !ok {
				cl.violate("snapshot-missing", "snapshot-missing", fmt.Sprintf("%s reported success but node %d, still in service, does not hold %s (held by %v)", ev, n, full, have))
				return
			}
		}
		if len(have) == 0 {
			cl.violate("snapshot-missing", "snapshot-nowhere", fmt.Sprintf("%s reported success but no node holds %s", ev, full))
			return
		}
		ref, _ := cl.nodes[have[0]].SnapshotImage(full)
		for _, i := range have[1:] {
			img, _ := cl.nodes[i].SnapshotImage(full)
			if img != ref {
				cl.violate("snapshot-not-point-in-time", "snapshot-differs", fmt.Sprintf("%s: snapshot %s differs between node %d and node %d", ev, full, have[0], i))
			}
		}
	}
}

// revert: the volume is reverted to the newest volume snapshot that was reported successful, with the revert call of
// the replicas in mask failing.  A replica whose revert failed leaves service; the others read back the snapshot.
func (cl *cluster) revert(ev string, mask int, before controller.VerifView) {
	cl.revertTo(ev, mask, before, len(cl.goodSnaps)-1)
}

// revertTo: the target is the k-th volume snapshot that was reported successful (the newest one for the event Revert).
func (cl *cluster) revertTo(ev string, mask int, before controller.VerifView, k int) {
	gs := cl.goodSnaps[k]
	full := "volume-snap-" + gs.name + ".img"
	rw, wo, _ := modesOf(before)
	headsBefore := map[int]string{}
	for i, nd := range cl.nodes {
		if v := nd.View(); len(v.Chain) > 0 {
			headsBefore[i] = fmt.Sprint(v.Chain) + "/" + v.Data
		}
	}
	err := cl.guard(ev, func() error { return cl.api().Revert(gs.name) })
	cl.settle()
	cl.observe("%s -> %v", ev, err != nil)
	after := cl.c.VerifView()
	arw, awo, _ := modesOf(after)
	var reverted []int
	for _, n := range rw {
		if mask&(1<<n) == 0 {
			reverted = append(reverted, n)
		}
	}
	if len(wo) > 0 {
		reverted = nil // refused while a replica is rebuilding
	}
	if err == nil && len(reverted) > 0 {
		for id := gs.at + 1; id <= cl.nWrites; id++ {
			cl.undone[id] = true
		}
		cl.goodSnaps = cl.goodSnaps[:k+1] // newer snapshots are off the chain now
	}
	if !(cl.wants("c13") || cl.wants("c05") || cl.wants("c06")) {
		return
	}
	if err == nil && len(reverted) == 0 {
		cl.violate("revert", "revert-success-without-effect", fmt.Sprintf("%s reported success but no replica could revert (RW before %v, WO before %v, failing mask %b)", ev, rw, wo, mask))
		return
	}
	if len(wo) > 0 || len(rw) == 0 {
		// refused: nothing may have changed on any replica
		for i, nd := range cl.nodes {
			v := nd.View()
			if h, ok := headsBefore[i]; ok && h != fmt.Sprint(v.Chain)+"/"+v.Data {
				cl.violate("revert", "refused-revert-changed-a-replica", fmt.Sprintf("%s was refused (%v) but node %d changed its chain or data: now %v", ev, err, i, v.Chain))
			}
		}
		return
	}
	for _, n := range append(arw, awo...) {
		if mask&(1<<n) != 0 {
			cl.violate("revert", "revert-failed-replica-in-service", fmt.Sprintf("%s: the revert call failed on node %d, yet it is still in service afterwards (replicas %v)", ev, n, after.Replicas))
			return
		}
	}
	if err != nil {
		return
	}
	for _, n := range arw {
		nv := cl.nodes[n].View()
		img, ok := cl.nodes[n].SnapshotImage(full)
		if !ok {
			cl.violate("revert", "reverted-replica-lacks-snapshot", fmt.Sprintf("%s: node %d is RW after the revert but does not hold %s", ev, n, full))
			continue
		}
		if nv.Data != img {
			cl.violate("revert", "revert-image-differs", fmt.Sprintf("%s reported success, node %d is RW, but its volume image differs from snapshot %s", ev, n, full))
		}
		if len(nv.Chain) == 0 || nv.Chain[0] != full {
			cl.violate("revert", "revert-chain", fmt.Sprintf("%s reported success, node %d is RW, but its newest snapshot is %v, not %s", ev, n, nv.Chain, full))
		}
	}
}

// deleteSnapshot sends the user's snapshot deletion through the real controller REST handler and checks its
// preconditions (C11): accepted only with all RF replicas RW, a checkpoint recorded, and not for the checkpoint itself;
// an accepted request marks the snapshot removed on every replica, a refused one marks nothing.
func (cl *cluster) deleteSnapshot(ev, which string, before controller.VerifView) {
	name := which
	if which == "cp" {
		name = strings.TrimSuffix(strings.TrimPrefix(before.Checkpoint, "volume-snap-"), ".img")
		if name == "" {
			name = "nocheckpoint"
		}
	}
	full := "volume-snap-" + name + ".img"
	removedOn := func() []int {
		var l []int
		for i, nd := range cl.nodes {
			if rn, ok := nd.(*RealNode); ok && rn.srv.Replica() != nil {
				if d, ok := rn.srv.Replica().ListDisks()[full]; ok && d.Removed {
					l = append(l, i)
				}
			}
		}
		return l
	}
	was := removedOn()
	if cl.ctlRouter == nil {
		cl.ctlRouter = crest.NewRouter(crest.NewServer(cl.c))
	}
	req, _ := http.NewRequest("DELETE", "http://"+ctlHost+":9501/v1/volumes/dm9s?action=deleteSnapshot", strings.NewReader(`{"name":"`+name+`"}`))
	req.Header.Set("Content-Type", "application/json")
	rec := httptest.NewRecorder()
	cl.guard(ev, func() error { cl.ctlRouter.ServeHTTP(rec, req); return nil })
	cl.settle()
	now := removedOn()
	accepted := rec.Code == 200
	cl.observe("%s -> %d marked=%v", ev, rec.Code, now)
	if !cl.wants("c11") {
		return
	}
	cl.cnt["delete_requests"]++
	cl.nDeletes++
	rw, _, _ := modesOf(before)
	if accepted {
		cl.cnt["delete_accepted"]++
	}
	if len(now) > len(was) || accepted {
		switch {
		case len(rw) != cl.cfg.RF:
			cl.violate("delete-precondition", "delete-without-all-rw", fmt.Sprintf("%s (%s) answered %d and marked %v although only %d of RF=%d replicas are RW", ev, name, rec.Code, now, len(rw), cl.cfg.RF))
		case before.Checkpoint == "":
			cl.violate("delete-precondition", "delete-without-checkpoint", fmt.Sprintf("%s (%s) answered %d and marked %v although the controller has no checkpoint", ev, name, rec.Code, now))
		case before.Checkpoint == full:
			cl.violate("delete-precondition", "delete-of-checkpoint", fmt.Sprintf("%s answered %d and marked %v: %s is the checkpoint", ev, rec.Code, now, full))
		}
	}
	if !accepted && len(now) > len(was) {
		cl.violate("delete-precondition", "refused-delete-marked", fmt.Sprintf("%s (%s) was refused (%d) but the snapshot is now marked removed on %v (before %v)", ev, name, rec.Code, now, was))
	}
}

// resize drives Controller.Resize (C16, controller clause): smaller / equal / garbage sizes and a wrong volume name
// are refused without touching any replica; a grow resizes every replica in service and then the frontend; a replica
// that fails the resize is marked failed.
func (cl *cluster) resize(ev, kind string, mask int, before controller.VerifView) {
	cur := before.Size
	name, size := "vol", ""
	switch kind {
	case "grow":
		size = fmt.Sprint(cur + Block)
	case "growfe":
		// a grow in which the replicas are resized but the frontend's resize fails: the request fails and is repeated later
		size = fmt.Sprint(cur + Block)
		cl.fe.failResize = true
	case "same":
		size = fmt.Sprint(cur)
	case "shrink":
		size = fmt.Sprint(cur - Block)
	case "garbage":
		size = "12q"
	case "empty":
		size = ""
	case "wrongname":
		name, size = "other", fmt.Sprint(cur+Block)
	}
	sizes := func() []int64 {
		var l []int64
		for _, nd := range cl.nodes {
			l = append(l, nd.View().Size)
		}
		return l
	}
	was := sizes()
	feBefore := cl.fe.resized
	err := cl.guard(ev, func() error { return cl.c.Resize(name, size) })
	cl.settle()
	now := sizes()
	after := cl.c.VerifView()
	cl.observe("%s -> %v sizes=%v", ev, err != nil, now)
	cl.nResizes++
	if kind == "grow" && err == nil && cl.cfg.Real && cl.task != nil && !cl.task.done && cl.task.kind == "rebuild" {
		// the volume grew while the replica whose rebuild task has started was not attached yet: what is observed
		// from here on belongs to that history (see violate)
		joined := false
		for _, b := range before.Backends {
			joined = joined || nodeOf(b.Address) == cl.task.node
		}
		if !joined {
			cl.histTag = "replica-that-joined-after-a-grow-it-missed"
		}
	}
	if !cl.wants("c16") {
		return
	}
	cl.cnt["resize_requests"]++
	cl.fe.failResize = false
	if kind == "grow" || kind == "growfe" {
		// a replica that did not fail its call stays in service in the mode it had
		for _, b := range before.Backends {
			n := nodeOf(b.Address)
			failed := false
			for _, x := range maskNodes(mask, cl.cfg.N) {
				failed = failed || x == n
			}
			if b.Mode == string(types.ERR) || failed || cl.nodes[n].View().Rebuilding {
				continue // (a replica in state rebuilding has no resize action: it refuses and is detached)
			}
			still := false
			for _, a := range after.Backends {
				still = still || (nodeOf(a.Address) == n && a.Mode == b.Mode)
			}
			if !still {
				cl.violate("resize", "healthy-replica-lost", fmt.Sprintf("%s: node %d (%s) did not fail any call but is not in service in that mode afterwards: %v", ev, n, b.Mode, after.Backends))
			}
		}
	}
	if kind == "growfe" {
		if err == nil {
			cl.violate("resize", "frontend-failure-swallowed", fmt.Sprintf("%s: the frontend's resize failed but the request reported success", ev))
		}
		if after.Size != cur {
			cl.violate("resize", "grow-recorded-without-frontend", fmt.Sprintf("%s: the frontend's resize failed but the controller size went %d -> %d", ev, cur, after.Size))
		}
		return
	}
	if kind != "grow" {
		if err == nil {
			cl.violate("resize", "invalid-resize-accepted:"+kind, fmt.Sprintf("%s (name %q, size %q, current %d) was accepted", ev, name, size, cur))
		}
		if fmt.Sprint(was) != fmt.Sprint(now) || after.Size != cur || cl.fe.resized != feBefore {
			cl.violate("resize", "refused-resize-changed-state:"+kind, fmt.Sprintf("%s was refused but sizes changed: replicas %v -> %v, controller %d -> %d", ev, was, now, cur, after.Size))
		}
		return
	}
	var inService []int
	for _, b := range before.Backends {
		if b.Mode != string(types.ERR) {
			inService = append(inService, nodeOf(b.Address))
		}
	}
	if err == nil {
		cl.cnt["resize_accepted"]++
		// every replica that is still in service afterwards (a replica that failed or refused the resize is ERR-marked)
		for _, b := range after.Backends {
			n := nodeOf(b.Address)
			if b.Mode != string(types.ERR) && now[n] != cur+Block {
				cl.violate("resize", "grow-missed-replica", fmt.Sprintf("%s succeeded but node %d, still %s, has size %d (want %d)", ev, n, b.Mode, now[n], cur+Block))
			}
		}
		if after.Size != cur+Block || cl.fe.resized == feBefore {
			cl.violate("resize", "grow-not-recorded", fmt.Sprintf("%s succeeded but controller size is %d and the frontend was resized %d time(s)", ev, after.Size, cl.fe.resized-feBefore))
		}
	} else if cl.fe.resized != feBefore {
		cl.violate("resize", "frontend-resized-on-failure", fmt.Sprintf("%s failed (%v) but the frontend was resized", ev, err))
	}
	for _, n := range maskNodes(mask, cl.cfg.N) {
		for _, b := range after.Backends {
			if nodeOf(b.Address) == n && b.Mode == string(types.RW) && len(cl.internal()) == 0 {
				for _, x := range inService {
					if x == n {
						cl.violate("resize", "failed-resize-replica-still-rw", fmt.Sprintf("%s: node %d failed the resize but is still RW", ev, n))
					}
				}
			}
		}
	}
}
