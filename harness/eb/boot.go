package eb

import (
	"fmt"
	"sort"
	"strings"

	"github.com/openebs/jiva/controller"
	inject "github.com/openebs/jiva/error-inject"
	"github.com/openebs/jiva/replica"
	jsync "github.com/openebs/jiva/sync"
)

// Bootstrap with the replicas' REAL registration loop (engine E-F, property C09): every replica process runs
// sync.Task.AddReplica - ask the controller for the volume, register while it has no replica, wait for the
// controller's action (or the 5 s retry tick), then start the volume or join it through a rebuild.  Each replica's loop
// is a task under step control (one runs at a time, from one top-level request to the next); the one blocking wait of
// the loop is a gate as well (tools/gen hooks it: inject.WaitAction): released, it takes the action the controller has
// sent to this replica, or - if none is pending - the retry tick fires and the replica registers again.
// The controller's signal travels the real way: remote.Factory.SignalToAdd posts ?action=start to the replica's real
// REST handler, which puts it on replica.ActionChannel; that channel is a package global shared by all replicas of one
// process, so the harness moves what arrived to the addressed replica's own queue at once.

func bootHooked() bool { return jsync.VerifWaitActionHooked }

func installBootHook() {
	inject.WaitActionHook = func(address string) (string, bool, bool) {
		cl := curr
		if cl == nil || cl.cur == nil || !cl.cur.running || cl.cur.kind != "boot" || cl.cur.goid != goid() {
			return "", false, false
		}
		t := cl.cur
		cl.gate("waiting for the controller's action")
		n := t.node
		if q := cl.actions[n]; len(q) > 0 {
			cl.actions[n] = q[1:]
			return q[0], false, true
		}
		cl.cnt["register_retry_ticks"]++
		cl.nRetries++
		return "", true, true
	}
}

// deliverSignal is called by the harness factory after the real SignalToAdd reached a real node.
func (cl *cluster) collectActions(n int) {
	for {
		select {
		case a := <-replica.ActionChannel:
			if cl.actions == nil {
				cl.actions = map[int][]string{}
			}
			cl.actions[n] = append(cl.actions[n], a)
			continue
		default:
		}
		return
	}
}

func (cl *cluster) bootDesc() string {
	var l []string
	for n, t := range cl.boots {
		e := ""
		if t.err != nil {
			e = " err"
		}
		l = append(l, fmt.Sprintf("n%d:done=%v%s at=%q pending=%v", n, t.done, e, t.last, cl.actions[n]))
	}
	sort.Strings(l)
	return strings.Join(l, "; ")
}

func (cl *cluster) boot(ev string, i int) {
	rn := cl.nodes[i].(*RealNode)
	if cl.boots == nil {
		cl.boots = map[int]*task{}
	}
	cl.boots[i] = cl.startTask("boot", i, func() error {
		return jsync.NewTask("http://"+ctlHost+":9501").AddReplica(addr(i), rn.srv)
	})
	cl.observe("%s -> %s", ev, cl.bootDesc())
}

func (cl *cluster) stepBoot(ev string, i int, before controller.VerifView) {
	t := cl.boots[i]
	cl.stepTask(t)
	cl.observe("%s -> %s", ev, cl.bootDesc())
	if t.done && cl.trace && t.err != nil {
		cl.notes = append(cl.notes, fmt.Sprintf("    registration loop of node %d ended: %v", i, t.err))
	}
	if t.panicked != "" {
		cl.violate("panic", "panic:task:boot", "the replica's registration loop panicked: "+t.panicked)
	}
	cl.oracleStart(before, i, nil)
}

// bootEnabled lists the Boot / StepB events.
func (cl *cluster) bootEnabled(t string, attached map[int]string) []string {
	var out []string
	if !cl.cfg.Real || !bootHooked() {
		return nil
	}
	for i := range cl.nodes {
		b := cl.boots[i]
		switch t {
		case "Boot":
			if _, att := attached[i]; !att && (b == nil || b.done) && !cl.down[i] && cl.nodes[i].View().State == "closed" && cl.cnt["ev_Boot"] < cl.cfg.N+1 {
				out = append(out, fmt.Sprintf("Boot:%d", i))
			}
		case "StepB":
			if b == nil || b.done {
				continue
			}
			if strings.HasPrefix(b.last, "waiting for the controller") && len(cl.actions[i]) == 0 && cl.nRetries >= cl.cfg.MaxRetries {
				continue // the retry tick: bounded per path
			}
			out = append(out, fmt.Sprintf("StepB:%d", i))
		}
	}
	return out
}
