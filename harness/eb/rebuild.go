package eb

import (
	"bytes"
	"encoding/json"
	"fmt"
	"github.com/openebs/jiva/sync/agent"
	"io"
	"net"
	"net/http"
	"net/http/httptest"
	"os"
	"path/filepath"
	"runtime"
	"strings"
	"sync"
	"sync/atomic"
	"syscall"
	"time"

	fibmap "github.com/frostschutz/go-fibmap"
	"github.com/openebs/jiva/app"
	"github.com/openebs/jiva/backend/remote"
	crest "github.com/openebs/jiva/controller/rest"
	inject "github.com/openebs/jiva/error-inject"
	rclient "github.com/openebs/jiva/replica/client"
	jsync "github.com/openebs/jiva/sync"
	"github.com/openebs/jiva/types"
	"github.com/openebs/jiva/verifshim/vtime"
	"github.com/openebs/sparse-tools/sparse"
)

// Engine E-F lives in this package: the E-B cluster with REAL nodes, the real controller/rest router, and the real
// replica-side tasks (sync.Task.AddReplica, app.CloneReplica) running in a goroutine whose every top-level HTTP
// request is a gate: the explorer decides what happens between any two steps of the task.

const ctlHost = "10.0.0.100"

// task is one replica-side procedure under step control.
type task struct {
	kind     string
	node     int
	release  chan struct{}
	report   chan string
	running  bool // the task goroutine owns the CPU (the harness goroutine waits)
	done     bool
	err      error
	gates    int
	last     string
	killed   bool
	crashed  bool // the process that ran the (failed) task has exited and been started again
	panicked string
	depth    int32
	goid     int64 // the goroutine that runs the task: only its own requests are gates
	gateAll  bool  // also gate GETs to replicas (the controller-side poll loop of a clone start)
}

type agentProc struct {
	id       int
	node     int
	destFile string
	srcFile  string
	port     int
	exit     int
}

var reqDepth int32

func installHooks() {
	installBootHook()
	inject.UpdateLUNMapHook = func() {
		if cl := curr; cl != nil && cl.cur != nil && cl.cur.running && cl.cur.goid == goid() {
			cl.gate("window inside UpdateLUNMap (map preloaded, server unlocked)")
		}
	}
	inject.PreloadHook = func() {
		// FiemapFail armed: one extent query of the newest snapshot file fails while the task's replica rebuilds its block map
		if cl := curr; cl != nil && cl.cur != nil && cl.cur.running && cl.cur.goid == goid() && cl.failFiemap {
			cl.failFiemap = false
			if rn, ok := cl.nodes[cl.cur.node].(*RealNode); ok && rn.srv.Replica() != nil {
				// the newest snapshot file: it shadows blocks that older files hold as well
				idx := rn.srv.Replica().VerifNumFiles() - 1
				if idx < 1 {
					idx = 1
				}
				if restore, ok := rn.srv.Replica().VerifFailFiemapOnce(idx); ok {
					cl.cnt["fiemap_failures_injected"]++
					cl.restoreFiemap = restore
				}
			}
		}
	}
	never := make(chan vtime.Time)
	vtime.TickerHook = func(d vtime.Duration) <-chan vtime.Time {
		if d == jsync.SnapshotDeletionInterval {
			// the background cleaner's 60 s ticker: driven by hand (Tick events) for cleaners the harness started,
			// never fired for the ones a rebuild task leaves behind
			if cl := curr; cl != nil && cl.pendingCleaner >= 0 {
				ch := make(chan vtime.Time)
				cl.cleanerTick[cl.pendingCleaner] = ch
				cl.pendingCleaner = -1
				return ch
			}
			return never
		}
		if d == remote.VerifPingInterval {
			// monitorPing's 2 s ticker of a backend with the real monitor (Cfg.RealMon): fired by hand (Tick events)
			if cl := curr; cl != nil && cl.pendingPing != nil {
				ch := make(chan vtime.Time)
				cl.pendingPing <- ch
				return ch
			}
			return never
		}
		return nil
	}
	jsync.SnapshotRetentionCount = 1 // clean as soon as there is one candidate (default 10 only delays the same code)
}

// gate parks the task goroutine until the explorer releases it.
func (cl *cluster) gate(desc string) {
	t := cl.cur
	t.gates++
	t.last = desc
	t.running = false
	t.report <- "gate:" + desc
	<-t.release
	if t.killed {
		// the process running the task has been killed: unwind the goroutine
		panic(taskKilled{})
	}
	t.running = true
}

type taskKilled struct{}

// goid returns the current goroutine's id (from the first line of its stack trace).
func goid() int64 {
	var buf [64]byte
	n := runtime.Stack(buf[:], false)
	var id int64
	fmt.Sscanf(string(buf[:n]), "goroutine %d ", &id)
	return id
}

func gated(req *http.Request) bool {
	if req.Method != "GET" {
		return true
	}
	if cl := curr; cl != nil && cl.cur != nil && cl.cur.gateAll {
		return true
	}
	// reads of the controller's view steer the task; polling GETs of replicas and agents do not need a gate
	return strings.HasPrefix(req.URL.Host, ctlHost)
}

// routeExtra serves the controller REST API and the sync-agent stand-in; returns nil if the host is a replica node.
func (cl *cluster) routeExtra(req *http.Request) (*http.Response, bool) {
	host := strings.Split(req.URL.Host, ":")[0]
	port := ""
	if p := strings.Split(req.URL.Host, ":"); len(p) > 1 {
		port = p[1]
	}
	if host == ctlHostB && cl.ctlRouterB != nil {
		rec := httptest.NewRecorder()
		cl.ctlRouterB.ServeHTTP(rec, req)
		return rec.Result(), true
	}
	if host == ctlHost {
		if cl.ctlRouter == nil {
			cl.ctlRouter = crest.NewRouter(crest.NewServer(cl.c))
		}
		if t := cl.cur; t != nil && t.kind == "boot" && req.URL.Path == "/v1/register" {
			// ground truth for the election oracle: what this replica really holds when it registers
			cl.regTruth[t.node] = cl.nodes[t.node].View().Rev
		}
		rec := httptest.NewRecorder()
		cl.ctlRouter.ServeHTTP(rec, req)
		return rec.Result(), true
	}
	if port == "9504" {
		n := nodeOf("tcp://" + host + ":9502")
		rec := httptest.NewRecorder()
		cl.serveAgent(n, rec, req)
		return rec.Result(), true
	}
	return nil, false
}

// serveAgent is the stand-in for jiva's sync-agent (a process launcher around ssync/sfold): it performs the requested
// file transfer with the same observable result (destination = source, data and holes) in-process.
func (cl *cluster) serveAgent(n int, w http.ResponseWriter, req *http.Request) {
	if n < 0 || n >= len(cl.nodes) || cl.down[n] {
		w.WriteHeader(502)
		return
	}
	write := func(p *agentProc) {
		self := fmt.Sprintf("http://%s:9504/v1/processes/%d", ip(p.node), p.id)
		json.NewEncoder(w).Encode(map[string]interface{}{"id": fmt.Sprint(p.id), "type": "process", "links": map[string]string{"self": self},
			"processType": "sync", "srcFile": p.srcFile, "destfile": p.destFile, "port": p.port, "exitCode": p.exit, "output": ""})
	}
	if req.Method == "GET" && strings.Contains(req.URL.Path, "/v1/processes/r") && cl.agentOutage[n] == 1 {
		// the first status poll after the agent died falls into the outage: it is refused.  While the caller digests
		// that, the new agent is given other work (small unrelated transfers, as a source that is itself being rebuilt
		// would run): they take the process ids from 1 up to the one being polled, and they all end with exit code 0.
		cl.agentOutage[n] = 2
		var id int
		fmt.Sscanf(strings.TrimPrefix(filepath.Base(req.URL.Path), "r"), "%d", &id)
		cl.unrelatedTransfers(n, id)
		w.WriteHeader(502)
		return
	}
	if req.Method == "GET" && strings.Contains(req.URL.Path, "/v1/processes/r") {
		cl.serveRealAgent(n, w, "GET", strings.Replace(req.URL.Path, "/v1/processes/r", "/v1/processes/", 1), nil)
		return
	}
	if req.Method == "GET" {
		var id int
		fmt.Sscanf(filepath.Base(req.URL.Path), "%d", &id)
		for _, p := range cl.procs {
			if p.id == id && p.node == n {
				write(p)
				return
			}
		}
		w.WriteHeader(404)
		return
	}
	var in struct {
		ProcessType string `json:"processType"`
		SrcFile     string `json:"srcFile"`
		DestFile    string `json:"destfile"`
		Host        string `json:"host"`
		Port        int    `json:"port"`
	}
	b, _ := io.ReadAll(req.Body)
	json.Unmarshal(b, &in)
	if in.ProcessType == "sync" && cl.cfg.RealAgent {
		// jiva's REAL sync agent launches the transfer (process table, port allocator, exit-code bookkeeping); the ssync
		// child is the harness binary re-executed (cmd/eb/ssync.go).  File names are made absolute (a production agent
		// runs in its replica's directory); the receiver's host is not routable: every agent listens on the loopback.
		body := map[string]interface{}{"processType": "sync", "port": in.Port}
		if in.SrcFile == "" {
			body["destfile"] = filepath.Join(cl.nodes[n].(*RealNode).dir, in.DestFile)
		} else {
			body["srcFile"] = filepath.Join(cl.nodes[n].(*RealNode).dir, in.SrcFile)
			body["host"] = "127.0.0.1"
			if (cl.failXfer || cl.killXfer || cl.restartAgent) && strings.HasSuffix(in.SrcFile, ".img") {
				fault := "exit1"
				if cl.killXfer || cl.restartAgent {
					fault = "kill"
				}
				if cl.restartAgent {
					// the whole sync agent of this node dies with the sender it started and comes back with an empty process
					// table (done below, once the launch has been answered)
					cl.restartAgent = false
					cl.restartingAgent = true
				}
				os.Setenv("VERIF_SSYNC_FAULT", fault) // inherited by the sender the agent starts for this request
				cl.failXfer, cl.killXfer = false, false
				cl.cnt["transfers_failed"]++
				cl.ssyncFaultArmed = true
			}
		}
		cl.cnt["real_agent_transfers"]++
		cl.serveRealAgent(n, w, "POST", "/v1/processes", body)
		if cl.restartingAgent {
			cl.restartingAgent = false
			delete(cl.agents, n) // the next request builds a new agent: process ids start at 1 again
			if cl.agentOutage == nil {
				cl.agentOutage = map[int]int{}
			}
			cl.agentOutage[n] = 1
			for k := range cl.senderPort { // the harness's notes about the old agent's senders go with it
				if strings.HasPrefix(k, fmt.Sprintf("%d/", n)) {
					delete(cl.senderPort, k)
				}
			}
			cl.cnt["sync_agent_restarts"]++
			cl.observe("the sync agent of node %d died with the sender it had started and was restarted", n)
		}
		return
	}
	p := &agentProc{id: len(cl.procs) + 1, node: n, destFile: in.DestFile, srcFile: in.SrcFile, port: in.Port, exit: -2}
	cl.procs = append(cl.procs, p)
	switch {
	case in.ProcessType == "sync" && in.SrcFile == "": // receiver
		p.port = 9700 + p.id
		p.exit = 0
	case in.ProcessType == "sync": // sender: find the receiver listening on host:port
		var rcv *agentProc
		for _, q := range cl.procs {
			if q.srcFile == "" && q.port == in.Port && ip(q.node) == in.Host {
				rcv = q
			}
		}
		if rcv == nil || cl.down[rcv.node] {
			p.exit = 1
			break
		}
		src := filepath.Join(cl.nodes[n].(*RealNode).dir, in.SrcFile)
		dst := filepath.Join(cl.nodes[rcv.node].(*RealNode).dir, rcv.destFile)
		if cl.failXfer && strings.HasSuffix(in.SrcFile, ".img") {
			// the ssync sender dies after the receiver created the destination: a file of the right size without the data
			cl.failXfer = false
			if st, err := os.Stat(src); err == nil {
				if f, err := os.OpenFile(dst, os.O_RDWR|os.O_CREATE, 0644); err == nil {
					f.Truncate(st.Size())
					f.Close()
				}
			}
			cl.observe("agent transfer of a snapshot file -> node %d died half way (injected)", rcv.node)
			cl.cnt["transfers_failed"]++
			p.exit = 1
			break
		}
		if err := transferFile(src, dst); err != nil {
			cl.observe("agent transfer %s -> node %d failed: %v", in.SrcFile, rcv.node, err)
			p.exit = 1
		} else {
			p.exit = 0
			cl.cnt["files_synced"]++
		}
	case in.ProcessType == "fold" && os.Getenv("VERIF_EB_STANDIN_FOLD") == "":
		// coalesce requests go to jiva's REAL sync agent (sync/agent: process table, reexec of the sfold child, exit
		// code bookkeeping); the child is this binary re-executed as "sfold" (the real sparse-tools command line).
		// File names are made absolute because a production agent runs with the replica directory as its working
		// directory and several nodes share this process.
		cl.procs = cl.procs[:len(cl.procs)-1]
		cl.serveRealAgent(n, w, req.Method, req.URL.Path, map[string]interface{}{"processType": "fold",
			"srcFile": filepath.Join(cl.nodes[n].(*RealNode).dir, in.SrcFile), "destfile": filepath.Join(cl.nodes[n].(*RealNode).dir, in.DestFile)})
		return
	case in.ProcessType == "fold" && cl.failFold:
		p.exit = 1 // sfold exits non-zero (disk full, I/O error)
	case in.ProcessType == "fold":
		src := filepath.Join(cl.nodes[n].(*RealNode).dir, in.SrcFile)
		dst := filepath.Join(cl.nodes[n].(*RealNode).dir, in.DestFile)
		if err := sparse.FoldFile(src, dst, foldStub{}); err != nil {
			p.exit = 1
		} else {
			p.exit = 0
		}
	default:
		p.exit = 1
	}
	write(p)
}

// serveRealAgent hands a request to the real sync-agent router of node n and rewrites the process id / self link so
// that the polling GETs of the replica client come back here ("r<id>").
func (cl *cluster) serveRealAgent(n int, w http.ResponseWriter, method, path string, body map[string]interface{}) {
	if cl.agents == nil {
		cl.agents = map[int]http.Handler{}
	}
	h := cl.agents[n]
	if h == nil {
		span := portsPerNode
		if cl.cfg.AgentPorts > 0 {
			span = cl.cfg.AgentPorts
		}
		base := portBase() + portsPerNode*n
		h = agent.NewRouter(agent.NewServer(base, base+span-1))
		cl.agents[n] = h
	}
	var rd io.Reader
	if body != nil {
		b, _ := json.Marshal(body)
		rd = bytes.NewReader(b)
	}
	fault := ""
	switch {
	case cl.killFold:
		fault = "kill"
	case cl.failFold:
		fault = "exit1"
	}
	if method == "POST" {
		os.Setenv("VERIF_SFOLD_FAULT", fault) // inherited by the child the agent starts for this request
		cl.cnt["real_agent_folds"]++
	}
	req := httptest.NewRequest(method, "http://"+ip(n)+":9504"+path, rd)
	if body != nil {
		req.Header.Set("Content-Type", "application/json")
	}
	rec := httptest.NewRecorder()
	var listening map[int]bool
	if method == "POST" && body["processType"] == "sync" && body["srcFile"] == nil {
		// a receiver whose sender has reported a complete transfer is on its way out: wait until it is gone (the agent's
		// bookkeeping of it runs on another goroutine), so that the ports handed out do not depend on a race; a receiver
		// whose sender died stays
		span := portsPerNode
		if cl.cfg.AgentPorts > 0 {
			span = cl.cfg.AgentPorts
		}
		base := portBase() + portsPerNode*n
		deadline := time.Now().Add(30 * time.Second)
		for port := range cl.finishing {
			if port < base || port >= base+span {
				continue
			}
			for time.Now().Before(deadline) {
				c, err := net.DialTimeout("tcp", fmt.Sprintf("127.0.0.1:%d", port), 100*time.Millisecond)
				if err != nil && !cl.agentHolds(h, n, port) {
					break
				}
				if err == nil {
					c.Close()
				}
				time.Sleep(200 * time.Microsecond)
			}
			delete(cl.finishing, port)
		}
		listening = map[int]bool{}
		for port := base; port < base+span && span <= 16; port++ {
			if c, err := net.DialTimeout("tcp", fmt.Sprintf("127.0.0.1:%d", port), 100*time.Millisecond); err == nil {
				c.Close()
				listening[port] = true
			}
		}
	}
	if method == "POST" && cl.failSpawn {
		// the agent cannot start the child at all (fork/exec fails: no file descriptor left): the soft limit is zero
		// exactly while the agent's launch goroutine tries, i.e. until it has logged its failure
		cl.failSpawn = false
		cl.cnt["child_spawn_failures_injected"]++
		var lim, zero syscall.Rlimit
		syscall.Getrlimit(syscall.RLIMIT_NOFILE, &lim)
		zero = lim
		zero.Cur = 0
		logMu.Lock()
		mark := logBuf.Len()
		logMu.Unlock()
		syscall.Setrlimit(syscall.RLIMIT_NOFILE, &zero)
		h.ServeHTTP(rec, req)
		deadline := time.Now().Add(20 * time.Second)
		for {
			logMu.Lock()
			l := logBuf.String()
			logMu.Unlock()
			if mark > len(l) {
				mark = 0
			}
			if strings.Contains(l[mark:], "Failed to launch") || time.Now().After(deadline) {
				break
			}
			time.Sleep(100 * time.Microsecond)
		}
		syscall.Setrlimit(syscall.RLIMIT_NOFILE, &lim)
		atomic.StoreInt32(&spawnFailPolls, 1)
	} else {
		h.ServeHTTP(rec, req)
	}
	if method == "GET" && atomic.LoadInt32(&spawnFailPolls) > 0 {
		atomic.AddInt32(&spawnFailPolls, 1) // the cleaner polls the process that never started
	}
	out := rec.Body.Bytes()
	var m map[string]interface{}
	if json.Unmarshal(out, &m) == nil && m["id"] != nil {
		if method == "POST" && body["processType"] == "sync" {
			if pf, ok := m["port"].(float64); ok && body["srcFile"] == nil {
				if listening[int(pf)] && (cl.wants("c07") || cl.wants("c19")) {
					cl.violate("agent", "port-of-a-live-receiver-handed-out", fmt.Sprintf("the sync agent of node %d handed out port %d for a new receiver although a receiver it started earlier (its sender died) is still listening there: the new receiver cannot bind and the next sender is served by the old one, into the old one's file", n, int(pf)))
				}
				cl.agentPorts = append(cl.agentPorts, int(pf)) // a receiver listens there (asked to quit at the end)
				// the agent starts the child on its own goroutine: the answer is held back until the receiver listens (or
				// has ended: it could not bind), so that what follows never races with a child that is still starting
				id := fmt.Sprint(m["id"])
				deadline := time.Now().Add(30 * time.Second)
				for time.Now().Before(deadline) {
					if c, err := net.DialTimeout("tcp", fmt.Sprintf("127.0.0.1:%d", int(pf)), 100*time.Millisecond); err == nil {
						c.Close()
						break
					}
					r2 := httptest.NewRecorder()
					h.ServeHTTP(r2, httptest.NewRequest("GET", "http://"+ip(n)+":9504/v1/processes/"+id, nil))
					var pm map[string]interface{}
					if json.Unmarshal(r2.Body.Bytes(), &pm) == nil {
						if ec, ok := pm["exitCode"].(float64); ok && ec != -2 {
							break
						}
					}
					time.Sleep(200 * time.Microsecond)
				}
			}
			if cl.ssyncFaultArmed {
				// the agent starts the child on its own goroutine: keep the fault in the environment until the process
				// entry shows that the child has run (its exit code is no longer -2), then clear it
				cl.ssyncFaultArmed = false
				id := fmt.Sprint(m["id"])
				deadline := time.Now().Add(30 * time.Second)
				for time.Now().Before(deadline) {
					r2 := httptest.NewRecorder()
					h.ServeHTTP(r2, httptest.NewRequest("GET", "http://"+ip(n)+":9504/v1/processes/"+id, nil))
					var pm map[string]interface{}
					if json.Unmarshal(r2.Body.Bytes(), &pm) == nil {
						if ec, ok := pm["exitCode"].(float64); ok && ec != -2 {
							break
						}
					}
					time.Sleep(200 * time.Microsecond)
				}
				os.Setenv("VERIF_SSYNC_FAULT", "")
			}
		}
		if method == "POST" && body["processType"] == "sync" && body["srcFile"] != nil {
			if cl.senderPort == nil {
				cl.senderPort = map[string]int{}
			}
			if pf, ok := body["port"].(int); ok {
				cl.senderPort[fmt.Sprintf("%d/%v", n, m["id"])] = pf
			}
		}
		if method == "GET" {
			if ec, ok := m["exitCode"].(float64); ok && ec == 0 {
				if port, ok := cl.senderPort[fmt.Sprintf("%d/%v", n, m["id"])]; ok {
					if cl.finishing == nil {
						cl.finishing = map[int]bool{}
					}
					cl.finishing[port] = true // the transfer is complete: its receiver has been told to end
				}
			}
		}
		id := fmt.Sprint(m["id"])
		m["id"] = "r" + id
		m["links"] = map[string]string{"self": fmt.Sprintf("http://%s:9504/v1/processes/r%s", ip(n), id)}
		out, _ = json.Marshal(m)
	}
	w.WriteHeader(rec.Code)
	w.Write(out)
}

// agentHolds: the agent of node n still lists a running process on port.
func (cl *cluster) agentHolds(h http.Handler, n, port int) bool {
	r := httptest.NewRecorder()
	h.ServeHTTP(r, httptest.NewRequest("GET", "http://"+ip(n)+":9504/v1/processes", nil))
	var l struct {
		Data []struct {
			Port     int    `json:"port"`
			ExitCode int    `json:"exitCode"`
			SrcFile  string `json:"srcFile"`
		} `json:"data"`
	}
	if json.Unmarshal(r.Body.Bytes(), &l) != nil {
		return false
	}
	for _, p := range l.Data {
		if p.Port == port && p.SrcFile == "" && p.ExitCode == -2 {
			return true
		}
	}
	return false
}

// portBase: the real sync agents of this worker process hand out real TCP ports on the loopback interface; every
// worker process takes its own block of 400 ports (a lock file held for the life of the process).
var portBaseOnce sync.Once
var portBaseVal int
var portLockFile *os.File // kept referenced: a collected *os.File closes its descriptor and drops the lock

// Every worker process that runs real sync agents takes a block of loopback ports of its own (an flock on a file in
// /tmp/verif-portlocks, held until the process ends): portsPerNode ports for each of up to five nodes, below the
// ephemeral range.  Several checks may run at once; a worker that finds every block taken waits for one.
const (
	portsPerNode = 20
	portBlock    = 5 * portsPerNode
	portFirst    = 10000
	portBlocks   = (32000 - portFirst) / portBlock
)

func portBase() int {
	portBaseOnce.Do(func() {
		os.MkdirAll("/tmp/verif-portlocks", 0777)
		for try := 0; try < 3000; try++ {
			for k := 0; k < portBlocks; k++ {
				f, err := os.OpenFile(fmt.Sprintf("/tmp/verif-portlocks/b%d.lock", k), os.O_CREATE|os.O_RDWR, 0666)
				if err != nil {
					continue
				}
				if syscall.Flock(int(f.Fd()), syscall.LOCK_EX|syscall.LOCK_NB) == nil {
					portBaseVal = portFirst + portBlock*k // the descriptor stays open: the lock is held until the process ends
					portLockFile = f
					return
				}
				f.Close()
			}
			time.Sleep(100 * time.Millisecond)
		}
		panic("harness: no free block of loopback ports for the real sync agents (/tmp/verif-portlocks)")
	})
	return portBaseVal
}

// stopReceivers asks every ssync receiver the real agents of this execution started to quit (a receiver whose sender
// died lives on, as in production).
func (cl *cluster) stopReceivers() {
	for _, p := range cl.agentPorts {
		// until nothing listens on the port any more: the next execution of this worker hands the same ports out again
		for i := 0; i < 2000; i++ {
			c, err := net.DialTimeout("tcp", fmt.Sprintf("127.0.0.1:%d", p), 200*time.Millisecond)
			if err != nil {
				break
			}
			fmt.Fprintln(c, `{"quit":true}`)
			c.Close()
			time.Sleep(500 * time.Microsecond)
		}
	}
	cl.agentPorts = nil
}

type foldStub struct{}

func (foldStub) UpdateFoldFileProgress(int, bool, error) {}

// transferFile makes dst equal to src the way ssync does: same size, same data where src has data, a hole where src
// has a hole; it writes into the existing destination inode (a replica may hold it open).
// TransferFile is the hole-preserving copy into the existing destination inode (for the ssync stand-in child).
func TransferFile(src, dst string) error { return transferFile(src, dst) }

func transferFile(src, dst string) error {
	if !strings.HasSuffix(src, ".img") {
		b, err := os.ReadFile(src)
		if err != nil {
			return err
		}
		f, err := os.OpenFile(dst, os.O_RDWR|os.O_CREATE|os.O_TRUNC, 0644)
		if err != nil {
			return err
		}
		defer f.Close()
		_, err = f.Write(b)
		return err
	}
	in, err := os.Open(src)
	if err != nil {
		return err
	}
	defer in.Close()
	st, _ := in.Stat()
	out, err := sparse.NewDirectFileIoProcessor(dst, os.O_RDWR, 0644, true)
	if err != nil {
		return err
	}
	defer out.Close()
	if err := out.Truncate(st.Size()); err != nil {
		return err
	}
	exts, errno := fibmap.Fiemap(in.Fd(), 0, uint64(st.Size()), 4096)
	if errno != 0 {
		return errno
	}
	punch := func(from, to int64) error {
		if to <= from {
			return nil
		}
		return syscall.Fallocate(int(out.Fd()), sparse.FALLOC_FL_KEEP_SIZE|sparse.FALLOC_FL_PUNCH_HOLE, from, to-from)
	}
	pos := int64(0)
	for _, e := range exts {
		if err := punch(pos, int64(e.Logical)); err != nil {
			return err
		}
		buf := sparse.AllocateAligned(int(e.Length))
		if _, err := in.ReadAt(buf, int64(e.Logical)); err != nil && err != io.EOF {
			return err
		}
		if _, err := out.WriteAt(buf, int64(e.Logical)); err != nil {
			return err
		}
		pos = int64(e.Logical + e.Length)
	}
	return punch(pos, st.Size())
}

// startTask launches a replica-side procedure and runs it to its first gate.
func (cl *cluster) startTask(kind string, node int, body func() error) *task {
	return cl.startTaskOpt(kind, node, false, body)
}

func (cl *cluster) startTaskOpt(kind string, node int, gateAll bool, body func() error) *task {
	t := &task{kind: kind, node: node, release: make(chan struct{}), report: make(chan string, 1), running: true, gateAll: gateAll}
	cl.cur = t
	go func() {
		t.goid = goid()
		defer func() {
			if r := recover(); r != nil {
				if _, ok := r.(taskKilled); ok {
					t.report <- "killed"
					return
				}
				if fe, ok := r.(fatalExit); ok {
					t.err = fmt.Errorf("process exit: %s", fe.msg)
					t.report <- "done"
					return
				}
				t.err = fmt.Errorf("panic: %v", r)
				t.panicked = fmt.Sprint(r)
				t.report <- "done"
			}
		}()
		t.err = body()
		if d := os.Getenv("VERIF_DEBUG_DIR"); d != "" && t.err != nil { // debugging aid
			if f, e := os.OpenFile(filepath.Join(d, "task-errors.log"), os.O_CREATE|os.O_APPEND|os.O_WRONLY, 0644); e == nil {
				logMu.Lock()
				l := logBuf.String()
				logMu.Unlock()
				fmt.Fprintf(f, "pid %d %s node %d: %v\n%s\n----\n", os.Getpid(), kind, node, t.err, tailStr(l, 1500))
				f.Close()
			}
		}
		t.report <- "done"
	}()
	cl.awaitTask(t)
	return t
}

func (cl *cluster) awaitTask(t *task) {
	select {
	case r := <-t.report:
		t.running = false
		if r == "done" || r == "killed" {
			t.done = true
		}
	case <-time.After(30 * time.Second):
		cl.violate("wedged", "task-wedged", fmt.Sprintf("%s task of node %d neither reached a gate nor finished within 30 s (last gate: %s)", t.kind, t.node, t.last))
		t.done = true
	}
	cl.cur = nil
	cl.settle()
}

func (cl *cluster) stepTask(t *task) {
	if t == nil || t.done {
		return
	}
	t.running = true
	cl.cur = t
	t.release <- struct{}{}
	cl.awaitTask(t)
}

// killTask: the replica process that runs the task dies (its goroutine unwinds at the gate it is parked at).
func (cl *cluster) killTask(t *task) {
	if t == nil || t.done {
		return
	}
	t.killed = true
	cl.cur = t
	t.release <- struct{}{}
	cl.awaitTask(t)
}

func (cl *cluster) taskDesc() string { return descTask(cl.task) + " | " + descTask(cl.taskX) }

func descTask(t *task) string {
	if t == nil {
		return "none"
	}
	e := ""
	if t.err != nil {
		e = "err"
	}
	return fmt.Sprintf("%s:n%d gates=%d done=%v %s killed=%v at=%q", t.kind, t.node, t.gates, t.done, e, t.killed, t.last)
}

var _ = atomic.AddInt32
var _ = app.CloneReplica
var _ = types.RW

// startCleaner starts the real background snapshot cleaner of a replica (what sync.AddReplica leaves running after a
// replica was attached); its ticker is the harness's.
func (cl *cluster) startCleaner(node int) {
	rn := cl.nodes[node].(*RealNode)
	rc, err := rclient.NewReplicaClient(addr(node))
	if err != nil {
		panic(err)
	}
	cl.pendingCleaner = node
	go jsync.NewTask("http://"+ctlHost+":9501").InternalSnapshotCleaner(rn.srv, rc)
	for cl.pendingCleaner >= 0 || cleanersBusy() > 0 {
		runtime.Gosched()
		time.Sleep(20 * time.Microsecond)
	}
}

// cleanersBusy counts cleaner goroutines that are not parked on their ticker.
func cleanersBusy() int {
	buf := stackBuf
	n := runtime.Stack(buf, true)
	for n == len(buf) {
		stackBuf = make([]byte, 2*len(stackBuf))
		buf = stackBuf
		n = runtime.Stack(buf, true)
	}
	busy := 0
	for _, g := range strings.Split(string(buf[:n]), "\n\n") {
		if !strings.Contains(g, "sync.(*Task).InternalSnapshotCleaner") {
			continue
		}
		head := g[:strings.Index(g+"\n", "\n")]
		if strings.Contains(head, "[chan receive") && strings.Contains(strings.SplitN(g, "\n", 3)[1], "InternalSnapshotCleaner") {
			continue // parked in `for range ticker.C`
		}
		busy++
	}
	return busy
}

// tick fires one period of a replica's cleaner and waits until that iteration is over.
func (cl *cluster) tick(node int, foldFails bool) {
	ch := cl.cleanerTick[node]
	if ch == nil {
		return
	}
	cl.failFold = foldFails
	ch <- time.Now()
	deadline := time.Now().Add(30 * time.Second)
	for cleanersBusy() > 0 {
		if atomic.LoadInt32(&spawnFailPolls) > 6 {
			// the child never started and the agent keeps reporting "still running": the cleaner polls on (on the pinned
			// tree for ever - a stuck cleaner deletes nothing).  Five polls later the agent stops answering (as if it had
			// been restarted): the poll fails, the cleaner gives this iteration up and goes back to its ticker.
			atomic.StoreInt32(&spawnFailPolls, 0)
			atomic.StoreInt32(&refuseAgentPolls, 1)
			cl.cnt["cleaners_stuck_polling"]++
		}
		if time.Now().After(deadline) {
			cl.violate("wedged", "cleaner-wedged", "the snapshot cleaner did not finish its iteration within 30 s")
			break
		}
		runtime.Gosched()
		time.Sleep(50 * time.Microsecond)
	}
	cl.failFold = false
	atomic.StoreInt32(&refuseAgentPolls, 0)
}

// spawnFailPolls: 0 = no injected spawn failure is being polled; else 1 + number of polls of the process that never
// started.  refuseAgentPolls: the sync agents refuse connections.  Both are touched by the cleaner's goroutine (through
// the transport) while the harness goroutine waits in tick(): atomics, no cluster map.
var spawnFailPolls, refuseAgentPolls int32

// unrelatedTransfers runs, on the (new) real sync agent of node n, complete transfers of a small scratch file until
// the agent's process table holds ids 1..upTo, every one of them ended with exit code 0.
func (cl *cluster) unrelatedTransfers(n, upTo int) {
	call := func(method, path string, body map[string]interface{}) map[string]interface{} {
		var rd io.Reader
		if body != nil {
			b, _ := json.Marshal(body)
			rd = bytes.NewReader(b)
		}
		req := httptest.NewRequest(method, "http://"+ip(n)+":9504"+path, rd)
		if body != nil {
			req.Header.Set("Content-Type", "application/json")
		}
		rec := httptest.NewRecorder()
		if cl.agents[n] == nil {
			span := portsPerNode
			if cl.cfg.AgentPorts > 0 {
				span = cl.cfg.AgentPorts
			}
			base := portBase() + portsPerNode*n
			if cl.agents == nil {
				cl.agents = map[int]http.Handler{}
			}
			cl.agents[n] = agent.NewRouter(agent.NewServer(base, base+span-1))
		}
		cl.agents[n].ServeHTTP(rec, req)
		var m map[string]interface{}
		json.Unmarshal(rec.Body.Bytes(), &m)
		return m
	}
	wait := func(id string) float64 {
		deadline := time.Now().Add(30 * time.Second)
		for time.Now().Before(deadline) {
			if m := call("GET", "/v1/processes/"+id, nil); m != nil {
				if ec, ok := m["exitCode"].(float64); ok && ec != -2 {
					return ec
				}
			}
			time.Sleep(200 * time.Microsecond)
		}
		return -2
	}
	os.Setenv("VERIF_SSYNC_FAULT", "")
	dir := filepath.Join(cl.nodes[n].(*RealNode).dir, "..", fmt.Sprintf("unrelated-%d", n))
	os.MkdirAll(dir, 0755)
	defer os.RemoveAll(dir)
	last := 0
	for k := 0; last < upTo && k < 8; k++ {
		src, dst := filepath.Join(dir, fmt.Sprintf("src%d", k)), filepath.Join(dir, fmt.Sprintf("dst%d", k))
		os.WriteFile(src, bytes.Repeat([]byte{byte(k + 1)}, 4096), 0644)
		r := call("POST", "/v1/processes", map[string]interface{}{"processType": "sync", "destfile": dst})
		port, _ := r["port"].(float64)
		rid := fmt.Sprint(r["id"])
		// the receiver must listen before its sender is started
		for deadline := time.Now().Add(30 * time.Second); time.Now().Before(deadline); time.Sleep(200 * time.Microsecond) {
			if c, err := net.DialTimeout("tcp", fmt.Sprintf("127.0.0.1:%d", int(port)), 100*time.Millisecond); err == nil {
				c.Close()
				break
			}
		}
		sd := call("POST", "/v1/processes", map[string]interface{}{"processType": "sync", "srcFile": src, "host": "127.0.0.1", "port": int(port)})
		sid := fmt.Sprint(sd["id"])
		if wait(sid) != 0 || wait(rid) != 0 {
			cl.observe("an unrelated transfer on the restarted agent of node %d did not complete", n)
			return
		}
		fmt.Sscanf(sid, "%d", &last)
		cl.cnt["unrelated_transfers_on_a_restarted_agent"]++
	}
}
