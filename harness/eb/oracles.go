package eb

import (
	"crypto/sha1"
	"fmt"
	"sort"
	"strings"

	"github.com/openebs/jiva/controller"
	"github.com/openebs/jiva/types"
)

// fields added to cluster for oracle bookkeeping
type oracleState struct{}

func (cl *cluster) quorum() int { return cl.cfg.RF/2 + 1 }

// stateOracles are evaluated after every step (external event + drained internal events).
func (cl *cluster) stateOracles(v controller.VerifView) {
	quiescent := len(cl.internal()) == 0
	rw, wo, _ := modesOf(v)
	if quiescent {
		cl.cnt["quiescent_states_checked"]++
	}
	if cl.wants("c18") && quiescent {
		bad := func(sig, d string) {
			cl.violate("bookkeeping", sig, fmt.Sprintf("%s\n replicas=%v backends=%s writers=%v readers=%v rwcount=%d readonly=%v", d, v.Replicas, beStr(v), v.Writers, v.Readers, v.RWReplicaCount, v.ReadOnly))
		}
		seen := map[string]bool{}
		for _, r := range v.Replicas {
			if seen[r.Address] {
				bad("duplicate-address", "address "+r.Address+" appears twice")
			}
			seen[r.Address] = true
		}
		if len(v.Replicas) > cl.cfg.RF {
			bad("more-than-rf", fmt.Sprintf("%d data replicas, RF=%d", len(v.Replicas), cl.cfg.RF))
		}
		if len(wo) > 1 {
			bad("two-wo", fmt.Sprintf("%d replicas are rebuilding (WO) at once", len(wo)))
		}
		if v.RWReplicaCount != len(rw) {
			bad("rwcount", fmt.Sprintf("reported RW count %d, RW entries %d", v.RWReplicaCount, len(rw)))
		}
		rs := map[string]string{}
		for _, r := range v.Replicas {
			rs[r.Address] = string(r.Mode)
		}
		bs := map[string]string{}
		for _, b := range v.Backends {
			bs[b.Address] = b.Mode
		}
		if fmt.Sprint(rs) != fmt.Sprint(bs) {
			bad("list-vs-backends", "replica list and backend map disagree")
		}
		var wantW, wantR []string
		for _, b := range v.Backends {
			if b.Mode != string(types.ERR) {
				wantW = append(wantW, b.Address)
			}
			if b.Mode == string(types.RW) {
				wantR = append(wantR, b.Address)
			}
		}
		gw, gr := append([]string(nil), v.Writers...), append([]string(nil), v.Readers...)
		sort.Strings(gw)
		sort.Strings(gr)
		if len(v.Backends) > 0 && (fmt.Sprint(gw) != fmt.Sprint(wantW) || v.NWriters != len(wantW)) {
			bad("writer-index", fmt.Sprintf("writers %v (n=%d), non-ERR backends %v", gw, v.NWriters, wantW))
		}
		if len(v.Backends) > 0 && (fmt.Sprint(gr) != fmt.Sprint(wantR) || v.NReaders != len(wantR)) {
			bad("reader-index", fmt.Sprintf("readers %v (n=%d), RW backends %v", gr, v.NReaders, wantR))
		}
	}
	if (cl.wants("c05") || cl.wants("c18") || cl.wants("c13")) && quiescent {
		// ERR is a transient mark: once every monitor wake-up has been delivered a failed replica is detached
		for _, r := range v.Replicas {
			if r.Mode == types.ERR {
				cl.violate("failed-replica-not-detached", "err-replica-lingers", fmt.Sprintf("replica %s is still listed in mode ERR although no monitor wake-up is pending; replicas=%v", r.Address, v.Replicas))
			}
		}
	}
	if cl.wants("c03") && quiescent {
		if (len(rw) >= cl.quorum()) == v.ReadOnly {
			cl.violate("readonly-flag", fmt.Sprintf("readonly-flag:%v", v.ReadOnly), fmt.Sprintf("ReadOnly=%v with %d RW replicas of RF=%d (quorum %d); replicas=%v", v.ReadOnly, len(rw), cl.cfg.RF, cl.quorum(), v.Replicas))
		}
	}
	if (cl.wants("c02") || cl.wants("c05")) && quiescent {
		for _, n := range cl.pendingFailed {
			for _, b := range v.Backends {
				if nodeOf(b.Address) == n && b.Mode != string(types.ERR) {
					if be := cl.attachedBE(n); be != nil && cl.failedBE[be.seq] {
						cl.violate("failed-replica-still-attached", "failed-replica-still-attached", fmt.Sprintf("node %d failed the operation but is still attached as %s", n, b.Mode))
					}
				}
			}
		}
		cl.pendingFailed = nil
	}
	if cl.wants("c02") || cl.wants("c04") || cl.wants("c07") {
		for _, b := range v.Backends {
			n := nodeOf(b.Address)
			be := cl.attachedBE(n)
			if be == nil {
				continue
			}
			nv := cl.nodes[n].View()
			if nv.State == "closed" {
				continue // its process died or restarted; the controller has not noticed yet and it serves nothing
			}
			switch b.Mode {
			case string(types.RW):
				if d := cl.checkImage([]byte(nv.Data), 0, fmt.Sprintf("RW replica node %d", n)); d != "" {
					cl.violate("replica-lacks-acked-write", "rw-replica-lacks-acked-write", d)
				}
			case string(types.WO):
				if d := cl.checkImage([]byte(nv.Data), cl.attachAt[be.seq], fmt.Sprintf("WO replica node %d (attached after write %d)", n, cl.attachAt[be.seq])); d != "" {
					cl.violate("replica-lacks-acked-write", "wo-replica-lacks-acked-write", d)
				}
			}
		}
	}
	if (cl.wants("c13") || cl.wants("c05")) && quiescent && len(rw) > 1 {
		// a volume snapshot (user or add-time) is on every replica in service or on none (C05: a replica that failed the call is detached): RW replicas list the same chain
		c0 := cl.nodes[rw[0]].View().Chain
		for _, n := range rw[1:] {
			if cn := cl.nodes[n].View().Chain; fmt.Sprint(cn) != fmt.Sprint(c0) {
				cl.violate("snapshot", "rw-replicas-differ-in-chain", fmt.Sprintf("RW replicas list different snapshot chains: node %d %v, node %d %v", rw[0], c0, n, cn))
			}
		}
	}
	if cl.wants("c13") && quiescent {
		if v.Checkpoint != "" {
			if len(rw) != cl.cfg.RF {
				cl.violate("checkpoint", "checkpoint-without-all-rw", fmt.Sprintf("controller checkpoint %s with %d RW of RF=%d; replicas=%v", v.Checkpoint, len(rw), cl.cfg.RF, v.Replicas))
			}
			for _, n := range rw {
				nv := cl.nodes[n].View()
				if v.Checkpoint != cl.prevCheckpoint {
					// newly recorded: all replicas must agree on it as their latest snapshot
					if len(nv.Chain) == 0 || nv.Chain[0] != v.Checkpoint {
						cl.violate("checkpoint", "checkpoint-not-latest", fmt.Sprintf("controller recorded checkpoint %s but node %d's latest snapshot is %v", v.Checkpoint, n, nv.Chain))
					}
				}
				found := false
				for _, s := range nv.Chain {
					if s == v.Checkpoint {
						found = true
					}
				}
				if !found {
					cl.violate("checkpoint", "checkpoint-not-in-chain", fmt.Sprintf("controller checkpoint %s is not in node %d's chain %v", v.Checkpoint, n, nv.Chain))
				}
				if nv.Checkpoint != v.Checkpoint {
					cl.violate("checkpoint", "checkpoint-not-persisted", fmt.Sprintf("controller checkpoint %s but node %d persisted %q", v.Checkpoint, n, nv.Checkpoint))
				}
			}
		}
	}
	if quiescent {
		cl.prevCheckpoint = v.Checkpoint
	}
	if cl.wants("c10") && quiescent && len(rw) > 1 {
		r0 := cl.nodes[rw[0]].View().Rev
		for _, n := range rw[1:] {
			if r := cl.nodes[n].View().Rev; r != r0 {
				cl.violate("revision-counter", "rw-replicas-differ-in-revision", fmt.Sprintf("RW replicas report different revision counters: node %d=%d node %d=%d", rw[0], r0, n, r))
			}
		}
	}
}

func beStr(v controller.VerifView) string {
	var l []string
	for _, b := range v.Backends {
		l = append(l, b.Address+":"+b.Mode)
	}
	return "[" + strings.Join(l, " ") + "]"
}

// oracleElection runs inside SignalToAdd(target,"start"): a majority must have registered and the target must hold
// the highest revision count among registered, reachable, non-rebuilding replicas.
func (cl *cluster) oracleElection(v controller.VerifView, s signal) {
	if !cl.wants("c09") {
		return
	}
	cl.cnt["start_signals"]++
	if len(v.Registered) < cl.quorum() {
		cl.violate("election", "signal-before-majority", fmt.Sprintf("start signalled to %s with %d registered, RF=%d", s.target, len(v.Registered), cl.cfg.RF))
	}
	// ground truth: replicas that have registered since they last left the volume (a failed start signal voids the
	// target's registration in the controller, which the truth follows)
	if !(v.StartSignalled && v.MaxRevReplica == s.target) {
		n := 0
		for node := range cl.regTruth {
			if _, ok := v.Registered[ip(node)]; ok {
				n++
			}
		}
		if n < cl.quorum() {
			cl.violate("election", "signal-before-majority-of-live-registrations", fmt.Sprintf("start signalled to %s although only %d replica(s) have registered since they last left the volume (quorum %d); the controller counts %d entries: %s", s.target, n, cl.quorum(), len(v.Registered), regStr(v)))
		}
	}
	t, ok := v.Registered[s.target]
	if !ok {
		cl.violate("election", "signal-to-unregistered", fmt.Sprintf("start signalled to %s which is not registered: %v", s.target, v.Registered))
		return
	}
	// ground truth for the state a node registered with: what the harness sent, not what the controller recorded
	truthState := func(a string) string {
		if n := nodeOf("tcp://" + a + ":9502"); n >= 0 && n < len(cl.cfg.States) && cl.cfg.States[n] != "" {
			return cl.cfg.States[n]
		}
		return "closed"
	}
	if t.RepState == "rebuilding" || truthState(s.target) == "rebuilding" {
		cl.violate("election", "elected-rebuilding", fmt.Sprintf("start signalled to %s which registered in state rebuilding (the controller recorded state %q)", s.target, t.RepState))
	}
	if v.StartSignalled && v.MaxRevReplica == s.target {
		// a repeated signal to the leader that was already elected (it re-registers every 5 s): not a new pick
		cl.cnt["start_resignals"]++
		return
	}
	// ground truth: a replica that registered, is reachable and was not legitimately dropped counts even if the
	// controller has dropped its registration (e.g. after a single lost liveness probe)
	for node, rev := range cl.regTruth {
		st := ""
		if node < len(cl.cfg.States) {
			st = cl.cfg.States[node]
		}
		if _, still := v.Registered[ip(node)]; !still && rev > t.RevCount && st != "rebuilding" && !cl.down[node] && ip(node) != s.target {
			cl.violate("election", "live-registration-dropped", fmt.Sprintf("start signalled to %s (revision %d) although node %d registered with revision %d, is reachable and was dropped from the controller's registrations; registered: %s", s.target, t.RevCount, node, rev, regStr(v)))
		}
	}
	// ground truth for the revision counts as well: what each registered replica really holds (a registration that
	// carries a wrong count must not win the election)
	if tn := nodeOf("tcp://" + s.target + ":9502"); tn >= 0 {
		if tTrue, ok := cl.regTruth[tn]; ok {
			for a := range v.Registered {
				n := nodeOf("tcp://" + a + ":9502")
				if rev, ok := cl.regTruth[n]; ok && n != tn && rev > tTrue && truthState(a) != "rebuilding" && !cl.down[n] {
					cl.violate("election", "elected-not-max-by-truth", fmt.Sprintf("start signalled to %s, which holds revision %d, although %s is registered, reachable, not rebuilding and holds revision %d; the controller recorded: %s", s.target, tTrue, a, rev, regStr(v)))
				}
			}
		}
	}
	for a, r := range v.Registered {
		n := nodeOf("tcp://" + a + ":9502")
		if r.RevCount > t.RevCount && r.RepState != "rebuilding" && truthState(a) != "rebuilding" && n >= 0 && !cl.down[n] {
			cl.violate("election", "elected-not-max", fmt.Sprintf("start signalled to %s (revision %d) although %s is registered, reachable, not rebuilding and has revision %d; registered: %s", s.target, t.RevCount, a, r.RevCount, regStr(v)))
		}
	}
}

func regStr(v controller.VerifView) string {
	var l []string
	for a, r := range v.Registered {
		l = append(l, fmt.Sprintf("%s:rev%d:%s", a, r.RevCount, r.RepState))
	}
	sort.Strings(l)
	return strings.Join(l, " ")
}

// lastFailedSignal: the target of the most recent start signal if that signal failed (its registration was voided).
func (cl *cluster) lastFailedSignal() string {
	for i := len(cl.signals) - 2; i >= 0; i-- {
		if cl.signals[i].action == "start" {
			if !cl.signals[i].ok {
				return cl.signals[i].target
			}
			return ""
		}
	}
	return ""
}

func (cl *cluster) lastStartSignal() *signal {
	for i := len(cl.signals) - 1; i >= 0; i-- {
		if cl.signals[i].action == "start" {
			return &cl.signals[i]
		}
	}
	return nil
}

func (cl *cluster) oracleStart(before controller.VerifView, i int, err error) {
	if !cl.wants("c09") {
		return
	}
	after := cl.c.VerifView()
	started := len(before.Replicas) == 0 && len(after.Replicas) > 0
	if started {
		cl.cnt["volume_starts"]++
		s := cl.lastStartSignal()
		if s == nil || !s.ok || s.target != ip(i) {
			cl.violate("election", "start-by-unsignalled", fmt.Sprintf("Start from node %d accepted although the last start signal was %+v", i, s))
		}
		// replicas whose revision count is found lower at start-up are not used for reads
		var max int64
		for _, r := range after.Replicas {
			if rev := cl.nodes[nodeOf(r.Address)].View().Rev; rev > max {
				max = rev
			}
		}
		for _, r := range after.Replicas {
			if rev := cl.nodes[nodeOf(r.Address)].View().Rev; rev < max && r.Mode == types.RW {
				cl.violate("election", "lower-revision-replica-readable", fmt.Sprintf("after Start node %d (revision counter %d) is RW although a started replica has revision counter %d", nodeOf(r.Address), rev, max))
			}
		}
	}
}

func chainAbove(chain []string, cp string) []string {
	for i, s := range chain {
		if s == cp {
			return chain[:i+1]
		}
	}
	return chain
}

func (cl *cluster) oracleVerify(before controller.VerifView, i int, err error) {
	if !(cl.wants("c07") || cl.wants("c04") || cl.wants("c10")) {
		return
	}
	var was types.Mode
	for _, r := range before.Replicas {
		if nodeOf(r.Address) == i {
			was = r.Mode
		}
	}
	after := cl.c.VerifView()
	var now types.Mode
	for _, r := range after.Replicas {
		if nodeOf(r.Address) == i {
			now = r.Mode
		}
	}
	if was != types.WO || now != types.RW {
		return
	}
	cl.cnt["promotions"]++
	rw, _, _ := modesOf(before)
	if len(rw) == 0 {
		cl.violate("promotion", "promoted-without-source", fmt.Sprintf("node %d promoted to RW with no RW replica to compare with", i))
		return
	}
	src := cl.nodes[rw[0]].View()
	dst := cl.nodes[i].View()
	a, b := chainAbove(src.Chain, dst.Checkpoint), chainAbove(dst.Chain, dst.Checkpoint)
	if fmt.Sprint(a) != fmt.Sprint(b) {
		cl.violate("promotion", "promoted-with-chain-mismatch", fmt.Sprintf("node %d promoted although its chain %v differs from the source's %v (checkpoint %q)", i, dst.Chain, src.Chain, dst.Checkpoint))
	}
	if dst.Rev != src.Rev {
		cl.violate("promotion", "promoted-with-different-revision", fmt.Sprintf("node %d promoted with revision counter %d, source has %d", i, dst.Rev, src.Rev))
	}
	realTask := cl.task != nil && cl.task.kind == "rebuild" && cl.task.node == i
	if be := cl.attachedBE(i); be != nil && (cl.synced[be.seq] || realTask) && dst.Data != src.Data {
		cl.violate("promotion", "promoted-with-different-data", fmt.Sprintf("node %d promoted after a completed sync but its image differs from node %d's: %s", i, rw[0], blockDiff(src.Data, dst.Data)))
	}
	if realTask && cl.wants("c07") {
		// every snapshot from the sync point upward is byte-identical on both replicas
		for _, name := range a {
			x, okx := cl.nodes[rw[0]].SnapshotImage(name)
			y, oky := cl.nodes[i].SnapshotImage(name)
			cl.cnt["snapshot_images_compared"]++
			if !okx || !oky || x != y {
				cl.violate("promotion", "promoted-with-different-snapshot", fmt.Sprintf("node %d promoted but snapshot %s differs from node %d's (present %v/%v): %s", i, name, rw[0], okx, oky, blockDiff(x, y)))
				break
			}
		}
	}
}

// key: canonical state (sorted, addresses are stable identities).
func (cl *cluster) key() string {
	v := cl.c.VerifView()
	var b strings.Builder
	// snapshot names taken at add time are random UUIDs: rename by first appearance (node order, newest first)
	ren := map[string]string{}
	rn := func(s string) string {
		if s == "" {
			return ""
		}
		if x, ok := ren[s]; ok {
			return x
		}
		ren[s] = fmt.Sprintf("S%d", len(ren))
		return ren[s]
	}
	rnl := func(l []string) []string {
		var o []string
		for _, s := range l {
			o = append(o, rn(s))
		}
		return o
	}
	for _, n := range cl.nodes {
		ch := n.View().Chain
		for i := len(ch) - 1; i >= 0; i-- {
			rn(ch[i])
		}
	}
	fmt.Fprintf(&b, "C ro=%v rwc=%d cp=%s max=%s sig=%v fe=%v next=%d size=%d\n", v.ReadOnly, v.RWReplicaCount, rn(v.Checkpoint), v.MaxRevReplica, v.StartSignalled, v.FrontendUp, v.Next, v.Size)
	fmt.Fprintf(&b, "C replicas=%v backends=%s w=%v r=%v reg=%s\n", v.Replicas, beStr(v), v.Writers, v.Readers, regStr(v))
	for i, n := range cl.nodes {
		nv := n.View()
		act := ""
		if m, ok := n.(*ModelNode); ok {
			act = strings.Join(m.Actions, ",")
		}
		h := sha1.Sum([]byte(nv.Data))
		fmt.Fprintf(&b, "N%d st=%s mode=%s rev=%d chain=%v cp=%s reb=%v size=%d data=%x down=%v act=%s\n", i, nv.State, nv.Mode, nv.Rev, rnl(nv.Chain), rn(nv.Checkpoint), nv.Rebuilding, nv.Size, h[:6], cl.down[i], act)
	}
	var bl []string
	for _, x := range cl.bes {
		if x.monitoring || !x.detached {
			bl = append(bl, fmt.Sprintf("n%d mon=%v tok=%d det=%v sync=%v at=%d", x.node, x.monitoring, len(x.r.VerifCloseChan()), x.detached, cl.synced[x.seq], cl.attachAt[x.seq]))
		}
	}
	sort.Strings(bl)
	var pa []string
	for i, t := range cl.adds {
		pa = append(pa, fmt.Sprintf("n%d:done=%v", i, t.done))
	}
	sort.Strings(pa)
	if len(cl.boots) > 0 {
		fmt.Fprintf(&b, "BOOT %s retries=%d\n", cl.bootDesc(), cl.nRetries)
	}
	if len(cl.cleanerStuck) > 0 {
		fmt.Fprintf(&b, "STUCK %v\n", cl.cleanerStuck)
	}
	fmt.Fprintf(&b, "B %v sticky=%v task=%s adds=%v xferfail=%v%v%v%v/%d fiemapfail=%v/%d\n", bl, cl.stickyREST, cl.taskDesc(), pa, cl.failXfer, cl.killXfer, cl.restartAgent, cl.agentOutage, cl.cnt["transfers_failed"], cl.failFiemap, cl.cnt["fiemap_failures_injected"])
	var ack []string
	for id := 1; id <= cl.nWrites; id++ {
		ack = append(ack, fmt.Sprintf("%v@%d", cl.acked[id] && !cl.undone[id], blockOf(id)))
	}
	if cl.cB != nil {
		vB := cl.cB.VerifView()
		st := ""
		if r := cl.nodes[1].(*RealNode).srv.Replica(); r != nil {
			st = r.GetCloneStatus()
		}
		fmt.Fprintf(&b, "CB replicas=%v ro=%v fe=%v signals=%v clonestatus=%s cloneof=%d\n", vB.Replicas, vB.ReadOnly, vB.FrontendUp, cl.signalsB, st, cl.cloneOf)
	}
	fmt.Fprintf(&b, "M writes=%v snaps=%d adds=%d restarts=%d regs=%d reads=%d faults=%d lastsig=%+v\n", ack, cl.nSnaps, cl.nAdds, cl.nRestart, cl.nRegs, cl.nReads, cl.nFaults*100+cl.nResizes*10+cl.nTicks+cl.nReverts*10000+len(cl.goodSnaps)*100000+cl.nUnmaps*1000000, cl.lastStartSignal())
	h := sha1.Sum([]byte(b.String()))
	cl.lastKeyText = b.String()
	return fmt.Sprintf("%x", h[:12])
}

func subsets(nodes []int) []int {
	var out []int
	for m := 0; m < 1<<len(nodes); m++ {
		mask := 0
		for j, n := range nodes {
			if m&(1<<j) != 0 {
				mask |= 1 << n
			}
		}
		out = append(out, mask)
	}
	sort.Ints(out)
	return out
}

func (cl *cluster) enabled() []string {
	v := cl.c.VerifView()
	c := cl.cfg
	attached := map[int]string{}
	for _, r := range v.Replicas {
		attached[nodeOf(r.Address)] = string(r.Mode)
	}
	var writers, readers, nonErr []int
	for _, b := range v.Backends {
		n := nodeOf(b.Address)
		if b.Mode != string(types.ERR) {
			writers = append(writers, n)
			nonErr = append(nonErr, n)
		}
		if b.Mode == string(types.RW) {
			readers = append(readers, n)
		}
	}
	sort.Ints(writers)
	sort.Ints(readers)
	faultsLeft := func(mask int) bool { return c.MaxFaults == 0 || cl.nFaults+bits(mask) <= c.MaxFaults }
	var out []string
	for _, t := range c.Alphabet {
		switch t {
		case "Reg", "RegF":
			if len(v.Replicas) > 0 || (c.MaxRegs > 0 && cl.nRegs >= c.MaxRegs) {
				continue
			}
			for i := range cl.nodes {
				// Quorum intersection (an acknowledged write is on a majority, a bootstrap needs a majority) only holds
				// within a replica set of RF identities: where data oracles are on, only the volume's own RF replicas
				// take part in a bootstrap; further identities join through add (C09's election oracle has no such limit).
				if i >= c.RF && (cl.wants("c02") || cl.wants("c04") || cl.wants("c05")) {
					continue
				}
				if cl.nodes[i].View().State == "closed" {
					out = append(out, fmt.Sprintf("%s:%d", t, i))
				}
			}
		case "RegL":
			if len(v.Replicas) > 0 || (c.MaxRegs > 0 && cl.nRegs >= c.MaxRegs) || !v.StartSignalled || !faultsLeft(1) {
				continue
			}
			for i := range cl.nodes {
				if ip(i) != v.MaxRevReplica && cl.nodes[i].View().State == "closed" {
					out = append(out, fmt.Sprintf("RegL:%d", i))
				}
			}
		case "Down":
			for i := range cl.nodes {
				if !cl.down[i] && len(v.Replicas) == 0 {
					out = append(out, fmt.Sprintf("Down:%d", i))
				}
			}
		case "Up":
			for i := range cl.nodes {
				if cl.down[i] {
					out = append(out, fmt.Sprintf("Up:%d", i))
				}
			}
		case "Start", "StartWrong":
			if len(v.Replicas) > 0 {
				continue
			}
			for i, n := range cl.nodes {
				m, ok := n.(*ModelNode)
				pending := ok && len(m.Actions) > 0 && m.Actions[len(m.Actions)-1] == "start"
				if t == "Start" && pending && !cl.down[i] {
					out = append(out, fmt.Sprintf("Start:%d", i))
				}
				if t == "StartWrong" && !pending && ip(i) != v.MaxRevReplica {
					out = append(out, fmt.Sprintf("StartWrong:%d", i))
				}
			}
		case "StartAll":
			if len(v.Replicas) > 0 {
				continue
			}
			for i, n := range cl.nodes {
				m, ok := n.(*ModelNode)
				pending := ok && len(m.Actions) > 0 && m.Actions[len(m.Actions)-1] == "start"
				others := 0
				for k := range cl.nodes {
					if k != i && !cl.down[k] {
						others++
					}
				}
				if pending && !cl.down[i] && others > 0 {
					out = append(out, fmt.Sprintf("StartAllAsc:%d", i))
					if others > 1 {
						out = append(out, fmt.Sprintf("StartAllDesc:%d", i))
					}
				}
			}
		case "Add":
			if len(v.Replicas) == 0 || (c.MaxAdds > 0 && cl.nAdds >= c.MaxAdds) {
				continue
			}
			for i := range cl.nodes {
				if _, ok := attached[i]; !ok && !cl.down[i] {
					out = append(out, fmt.Sprintf("Add:%d", i))
				}
			}
		case "AddSnapF":
			if len(v.Replicas) == 0 || (c.MaxAdds > 0 && cl.nAdds >= c.MaxAdds) || !faultsLeft(1) {
				continue
			}
			for i := range cl.nodes {
				if _, ok := attached[i]; ok || cl.down[i] {
					continue
				}
				for _, fn := range nonErr {
					out = append(out, fmt.Sprintf("AddSnapF:%d:%d", i, fn))
				}
			}
		case "AddB":
			if len(v.Replicas) == 0 || (c.MaxAdds > 0 && cl.nAdds >= c.MaxAdds) {
				continue
			}
			for i := range cl.nodes {
				if _, busy := cl.adds[i]; busy || cl.down[i] {
					continue
				}
				if _, ok := attached[i]; !ok {
					out = append(out, fmt.Sprintf("AddB:%d", i))
				}
			}
		case "AddF":
			for i, t := range cl.adds {
				if !t.done || true {
					out = append(out, fmt.Sprintf("AddF:%d", i))
				}
			}
		case "AddDup":
			for i := range attached {
				if c.MaxAdds == 0 || cl.nAdds < c.MaxAdds {
					out = append(out, fmt.Sprintf("Add:%d", i))
				}
			}
		case "Reb":
			for i, m := range attached {
				if be := cl.attachedBE(i); m == "WO" && be != nil && !cl.synced[be.seq] && !cl.nodes[i].View().Rebuilding {
					out = append(out, fmt.Sprintf("Reb:%d", i))
				}
			}
		case "Sync":
			for i, m := range attached {
				if be := cl.attachedBE(i); m == "WO" && be != nil && !cl.synced[be.seq] && len(readers) > 0 {
					out = append(out, fmt.Sprintf("Sync:%d", i))
				}
			}
		case "Verify":
			for i, m := range attached {
				if be := cl.attachedBE(i); m == "WO" && be != nil && cl.synced[be.seq] {
					out = append(out, fmt.Sprintf("Verify:%d", i))
				}
			}
		case "VerifyF":
			for i, m := range attached {
				if be := cl.attachedBE(i); m == "WO" && be != nil && cl.synced[be.seq] && faultsLeft(1) {
					for _, a := range []string{"setrevisioncounter", "setreplicamode", "GET"} {
						out = append(out, fmt.Sprintf("VerifyF:%d:%s", i, a))
					}
				}
			}
		case "VerifyEarly":
			for i, m := range attached {
				if be := cl.attachedBE(i); m == "WO" && be != nil && !cl.synced[be.seq] {
					out = append(out, fmt.Sprintf("VerifyEarly:%d", i))
				}
			}
		case "VerifyAny":
			for i := range cl.nodes {
				out = append(out, fmt.Sprintf("VerifyEarly:%d", i))
			}
		case "Wb":
			if (c.MaxWrites > 0 && cl.nWrites >= c.MaxWrites) || len(v.Backends) == 0 {
				continue
			}
			for _, b := range c.WBlocks {
				out = append(out, fmt.Sprintf("Wb:%d", b))
			}
		case "W0", "Sy0":
			if (t == "W0" && c.MaxWrites > 0 && cl.nWrites >= c.MaxWrites) || len(v.Backends) == 0 {
				continue
			}
			out = append(out, strings.TrimSuffix(t, "0")+":0")
		case "RB":
			if cl.task != nil && !cl.task.done {
				continue
			}
			if len(v.Replicas) == 0 || (c.MaxAdds > 0 && cl.nAdds >= c.MaxAdds) {
				continue
			}
			for i := range cl.nodes {
				if _, ok := attached[i]; !ok && !cl.down[i] && cl.nodes[i].View().State == "closed" {
					out = append(out, fmt.Sprintf("RB:%d", i))
				}
			}
		case "Boot", "StepB":
			out = append(out, cl.bootEnabled(t, attached)...)
		case "Step":
			if cl.task != nil && !cl.task.done {
				out = append(out, "Step")
			}
		case "StepX":
			if cl.taskX != nil && !cl.taskX.done {
				out = append(out, "StepX")
			}
		case "BStart":
			if cl.cB != nil && cl.taskX == nil && len(cl.signalsB) > 0 {
				out = append(out, "BStart")
			}
		case "BReg":
			if cl.cB != nil && len(cl.signalsB) == 0 {
				out = append(out, "BReg")
			}
		case "CloneProc":
			if cl.cB != nil && (cl.task == nil || (cl.task.done && cl.task.killed)) {
				for k := 1; k <= cl.nSnaps; k++ {
					if cl.cloneOf == 0 || cl.cloneOf == k {
						out = append(out, fmt.Sprintf("CloneProc:%d", k))
					}
				}
			}
		case "SrcDown":
			if !cl.down[0] && faultsLeft(1) {
				out = append(out, "SrcDown")
			}
		case "SrcUp":
			if cl.down[0] {
				out = append(out, "SrcUp")
			}
		case "FiemapFail":
			if cl.task != nil && !cl.task.done && !cl.failFiemap && faultsLeft(1) && cl.cnt["fiemap_failures_injected"] == 0 && cl.cnt["ev_FiemapFail"] == 0 {
				out = append(out, "FiemapFail")
			}
		case "XferKill":
			if c.RealAgent && cl.task != nil && !cl.task.done && !cl.failXfer && !cl.killXfer && faultsLeft(1) && cl.cnt["transfers_failed"] == 0 {
				out = append(out, "XferKill")
			}
		case "AgentRestart":
			if c.RealAgent && cl.task != nil && !cl.task.done && !cl.failXfer && !cl.killXfer && !cl.restartAgent && faultsLeft(1) && cl.cnt["transfers_failed"] == 0 {
				out = append(out, "AgentRestart")
			}
		case "XferFail":
			if cl.task != nil && !cl.task.done && (cl.task.kind == "rebuild" || cl.task.kind == "clone") && !cl.failXfer && faultsLeft(1) && cl.cnt["transfers_failed"] == 0 {
				out = append(out, "XferFail")
			}
		case "PingOK", "PingF", "ConnDrop":
			if !c.RealMon {
				continue
			}
			for i := range attached {
				if b := cl.attachedBE(i); b != nil && b.realMon && (t == "PingOK" || faultsLeft(1)) {
					if t == "PingOK" && cl.cnt["ev_PingOK"] >= 2 {
						continue
					}
					out = append(out, fmt.Sprintf("%s:%d", t, i))
				}
			}
		case "UnB":
			if !c.Real || cl.nUnmaps >= 1 || len(readers) == 0 || (!c.UnmapAnytime && ((cl.task != nil && !cl.task.done) || len(readers) != len(writers))) {
				continue
			}
			seen := map[int]bool{}
			for id := 1; id <= cl.nWrites; id++ {
				if b := blockOf(id); cl.acked[id] && !cl.undone[id] && !seen[b] {
					seen[b] = true
					out = append(out, fmt.Sprintf("UnB:%d", b))
				}
			}
		case "Crash":
			if cl.task != nil && cl.task.done && cl.task.err != nil && !cl.task.killed && !cl.task.crashed && cl.task.kind == "rebuild" {
				out = append(out, "Crash")
			}
		case "Kill":
			if cl.task != nil && !cl.task.done && (c.MaxRestarts == 0 || cl.nRestart < c.MaxRestarts) {
				out = append(out, "Kill")
			}
		case "Resize":
			if len(v.Backends) == 0 || cl.nResizes >= 2 {
				continue
			}
			for _, k := range []string{"same", "shrink", "garbage", "empty", "wrongname", "growfe"} {
				out = append(out, "Resize:"+k+":0")
			}
			for _, m := range subsets(nonErr) {
				if faultsLeft(m) {
					out = append(out, fmt.Sprintf("Resize:grow:%d", m))
				}
			}
		case "Grow0": // a grow by one block with no injected failure
			if len(v.Backends) == 0 || cl.nResizes >= 1 {
				continue
			}
			out = append(out, "Resize:grow:0")
		case "Tick", "TickF", "TickK", "TickS":
			if cl.nTicks >= 3 || (t != "Tick" && !faultsLeft(1)) {
				continue
			}
			if t == "TickS" && cl.cnt["child_spawn_failures_injected"] > 0 {
				continue
			}
			var ns []int
			for n := range cl.cleanerTick {
				ns = append(ns, n)
			}
			sort.Ints(ns)
			for _, n := range ns {
				if _, ok := attached[n]; ok && !cl.cleanerStuck[n] {
					out = append(out, fmt.Sprintf("%s:%d", t, n))
				}
			}
		case "DelSnap":
			if len(v.Backends) == 0 || (c.MaxFaults > 0 && cl.nDeletes >= 3) {
				continue
			}
			seen := map[string]bool{}
			for _, b := range v.Backends {
				for _, s := range cl.nodes[nodeOf(b.Address)].View().Chain {
					n := strings.TrimSuffix(strings.TrimPrefix(s, "volume-snap-"), ".img")
					if strings.HasPrefix(n, "u") && len(n) <= 3 && !seen[n] {
						seen[n] = true
						out = append(out, "DelSnap:"+n)
					}
				}
			}
			out = append(out, "DelSnap:cp", "DelSnap:nosuch")
		case "Break":
			for i := range attached {
				if !cl.stickyREST[fmt.Sprintf("%d/setcheckpoint", i)] && faultsLeft(1) {
					out = append(out, fmt.Sprintf("Break:%d:setcheckpoint", i))
				}
			}
		case "Heal":
			for k := range cl.stickyREST {
				out = append(out, "Heal:"+strings.Replace(k, "/", ":", 1))
			}
		case "W", "Sy", "Un":
			if t == "W" && c.MaxWrites > 0 && cl.nWrites >= c.MaxWrites {
				continue
			}
			if len(v.Backends) == 0 {
				continue
			}
			for _, m := range subsets(writers) {
				if faultsLeft(m) && (m == 0 || !v.ReadOnly) {
					out = append(out, fmt.Sprintf("%s:%d", t, m))
				}
			}
		case "R":
			if (c.MaxReads > 0 && cl.nReads >= c.MaxReads) || len(v.Backends) == 0 {
				continue
			}
			for _, m := range subsets(readers) {
				if faultsLeft(m) {
					out = append(out, fmt.Sprintf("R:%d", m))
				}
			}
		case "Snap":
			if (c.MaxSnaps > 0 && cl.nSnaps >= c.MaxSnaps) || len(v.Backends) == 0 {
				continue
			}
			for _, m := range subsets(nonErr) {
				if faultsLeft(m) {
					out = append(out, fmt.Sprintf("Snap:%d", m))
				}
			}
		case "Snap0": // a volume snapshot with no injected failure
			if (c.MaxSnaps > 0 && cl.nSnaps >= c.MaxSnaps) || len(v.Backends) == 0 {
				continue
			}
			out = append(out, "Snap:0")
		case "Revert":
			max := c.MaxReverts
			if max == 0 {
				max = 1
			}
			if cl.nReverts >= max || len(cl.goodSnaps) == 0 || len(v.Backends) == 0 {
				continue
			}
			for _, m := range subsets(readers) {
				if faultsLeft(m) {
					out = append(out, fmt.Sprintf("Revert:%d", m))
				}
			}
		case "RevertTo": // to any volume snapshot that was reported successful and is still on the chain, no injected failure
			max := c.MaxReverts
			if max == 0 {
				max = 1
			}
			if cl.nReverts >= max || len(v.Backends) == 0 {
				continue
			}
			for k := range cl.goodSnaps {
				out = append(out, fmt.Sprintf("RevertTo:%d", k))
			}
		case "MonFail":
			for _, b := range cl.bes {
				if b.monitoring && !b.detached && faultsLeft(1) {
					out = append(out, fmt.Sprintf("MonFail:%d", b.seq))
				}
			}
		case "MonWake":
			if !c.Drain {
				out = append(out, cl.internal()...)
			}
		case "Remove":
			for i := range attached {
				out = append(out, fmt.Sprintf("Remove:%d", i))
			}
		case "RemoveUnknown":
			for i := range cl.nodes {
				if _, ok := attached[i]; !ok {
					out = append(out, fmt.Sprintf("Remove:%d", i))
					break
				}
			}
		case "ERR", "RW":
			for i := range attached {
				out = append(out, fmt.Sprintf("%s:%d", t, i))
			}
		case "Restart":
			if c.MaxRestarts > 0 && cl.nRestart >= c.MaxRestarts {
				continue
			}
			for i, n := range cl.nodes {
				if cl.task != nil && !cl.task.done && cl.task.node == i {
					continue
				}
				if _, ok := attached[i]; !ok && n.View().State != "closed" {
					out = append(out, fmt.Sprintf("Restart:%d", i))
				}
			}
		default:
			out = append(out, t)
		}
	}
	sort.Strings(out)
	return out
}

// conf renders what a model-node run and a real-node run of the same path must agree on: every observation made
// along the path, the controller's state, and per node the REST-visible state.
func (cl *cluster) conf() string {
	v := cl.c.VerifView()
	ren := map[string]string{}
	rn := func(s string) string {
		if s == "" {
			return ""
		}
		if x, ok := ren[s]; ok {
			return x
		}
		ren[s] = fmt.Sprintf("S%d", len(ren))
		return ren[s]
	}
	var b strings.Builder
	b.WriteString(strings.Join(cl.obs, "\n") + "\n")
	for _, n := range cl.nodes {
		nv := n.View()
		if nv.State == "closed" {
			continue
		}
		for i := len(nv.Chain) - 1; i >= 0; i-- {
			rn(nv.Chain[i])
		}
	}
	fmt.Fprintf(&b, "C ro=%v rwc=%d cp=%s fe=%v replicas=%v backends=%s\n", v.ReadOnly, v.RWReplicaCount, rn(v.Checkpoint), v.FrontendUp, v.Replicas, beStr(v))
	for i, n := range cl.nodes {
		nv := n.View()
		fmt.Fprintf(&b, "N%d st=%s rev=%d reb=%v size=%d", i, nv.State, nv.Rev, nv.Rebuilding, nv.Size)
		if nv.State != "closed" {
			var ch []string
			for _, c := range nv.Chain {
				ch = append(ch, rn(c))
			}
			h := sha1.Sum([]byte(nv.Data))
			fmt.Fprintf(&b, " mode=%s chain=%v cp=%s data=%x", nv.Mode, ch, rn(nv.Checkpoint), h[:6])
		}
		b.WriteString("\n")
	}
	return b.String()
}

func blockDiff(a, b string) string {
	var d []string
	for blk := 0; blk*Block < len(a) && blk*Block < len(b); blk++ {
		if a[blk*Block:(blk+1)*Block] != b[blk*Block:(blk+1)*Block] {
			d = append(d, fmt.Sprintf("block %d: source holds write %d, rebuilt replica write %d", blk, a[blk*Block], b[blk*Block]))
		}
	}
	if len(a) != len(b) {
		d = append(d, fmt.Sprintf("sizes %d/%d", len(a), len(b)))
	}
	return strings.Join(d, "; ")
}
