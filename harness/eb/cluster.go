package eb

import (
	"bytes"
	"fmt"
	"github.com/openebs/jiva/backend/dynamic"
	"io"
	"net"
	"net/http"
	"net/http/httptest"
	"os"
	"runtime"
	"sort"
	"strings"
	"sync"
	"sync/atomic"
	"syscall"
	"time"

	"github.com/openebs/jiva/backend/remote"
	"github.com/openebs/jiva/controller"
	"github.com/openebs/jiva/rpc"
	"github.com/openebs/jiva/types"
	"github.com/openebs/jiva/verifshim/vtime"
	"github.com/sirupsen/logrus"

	"verif/harness/kernel"
)

// Cfg selects replication factor, alphabet, budgets and oracles of one E-B search.
type Cfg struct {
	RF           int      `json:"rf"`
	N            int      `json:"n"` // node identities
	Alphabet     []string `json:"alphabet"`
	Oracles      []string `json:"oracles"`
	Drain        bool     `json:"drain"` // internal monitor wake-ups are drained before the next external event
	MaxWrites    int      `json:"max_writes"`
	MaxSnaps     int      `json:"max_snaps"`
	MaxAdds      int      `json:"max_adds"`
	MaxRestarts  int      `json:"max_restarts"`
	MaxRegs      int      `json:"max_regs"`
	MaxReads     int      `json:"max_reads"`
	MaxFaults    int      `json:"max_faults"` // total number of failing replica-calls + monitor failures per path (0 = unbounded)
	Real         bool     `json:"real"`
	Clone        bool     `json:"clone"`  // second volume whose only replica is a clone of a snapshot of the first
	Revs         []int64  `json:"revs"`   // initial revision counters of the nodes (C09)
	States       []string `json:"states"` // initial registration states ("closed" | "rebuilding" | "dirty")
	InitOps      []string `json:"init_ops"`
	WBlocks      []int    `json:"wblocks"`                 // blocks the Wb event may write
	ViaREST      bool     `json:"via_rest,omitempty"`      // management events go through controller/client -> controller/rest (api.go)
	MaxReverts   int      `json:"max_reverts,omitempty"`   // volume reverts per path (0 = 1)
	ViaRPC       bool     `json:"via_rpc,omitempty"`       // every backend's data path is the real rpc.Client -> loopback TCP -> rpc.Server -> node
	RealAgent    bool     `json:"real_agent,omitempty"`    // file transfers are launched by jiva\'s real sync agent (process table, port allocator, exit codes); the ssync child is the harness binary
	PrefixNames  bool     `json:"prefix_names,omitempty"`  // volume snapshots are named u1, u11, u111, ...: every older name is a prefix of every newer one
	SigTag       string   `json:"sig_tag,omitempty"`       // appended to every violation signature of the run: names the pre-history, so that a known finding of this history does not hide the same oracle failing elsewhere
	AgentPorts   int      `json:"agent_ports,omitempty"`   // size of each real agent\'s port range (default 100)
	MaxRetries   int      `json:"max_retries,omitempty"`   // retry ticks of the registration loops per path (Boot/StepB)
	RealMon      bool     `json:"real_mon,omitempty"`      // with ViaRPC: the real monitorPing goroutine watches every backend; the harness fires its ticker (PingOK/PingF) and cuts connections (ConnDrop)
	UnmapAnytime bool     `json:"unmap_anytime,omitempty"` // UnB is also enabled while a replica is rebuilding
}

func (c *Cfg) has(l []string, s string) bool {
	for _, x := range l {
		if x == s {
			return true
		}
	}
	return false
}

func ip(i int) string   { return fmt.Sprintf("10.0.0.%d", i+1) }
func addr(i int) string { return "tcp://" + ip(i) + ":9502" }
func nodeOf(a string) int {
	a = strings.TrimPrefix(a, "tcp://")
	a = strings.Split(a, ":")[0]
	var n int
	fmt.Sscanf(a, "10.0.0.%d", &n)
	return n - 1
}

type call struct {
	be   int // backend sequence number
	node int
	op   string
}

// be is one *remote.Remote the harness factory created; the harness plays its monitorPing goroutine.
type be struct {
	seq        int
	node       int
	r          *remote.Remote
	monitoring bool // monitorPing has not yet sent on monitorChan
	detached   bool // seen absent from the controller after some event
	ownerB     bool // belongs to the second volume's controller
	exited     bool // ViaRPC: the replica process behind this backend has exited (the rpc server's Fatal after an EIO)
	exitSeen   bool
	realMon    bool // watched by the real monitorPing goroutine (Cfg.RealMon)
	tick       chan vtime.Time
	cconn      net.Conn
	sconn      net.Conn
}

type goodSnap struct {
	name string
	at   int // number of writes issued when it was taken
}

type frontend struct {
	up         bool
	resized    int
	failResize bool // the next frontend Resize fails
}

func (f *frontend) Startup(string, string, string, int64, int64, types.IOs) error {
	f.up = true
	return nil
}
func (f *frontend) Shutdown() error { f.up = false; return nil }
func (f *frontend) State() types.State {
	if f.up {
		return types.StateUp
	}
	return types.StateDown
}
func (f *frontend) Stats() types.Stats { return types.Stats{} }
func (f *frontend) Resize(uint64) error {
	if f.failResize {
		f.failResize = false
		return fmt.Errorf("Volume is not up (injected frontend failure)")
	}
	f.resized++
	return nil
}

type signal struct {
	target, action string
	regCount       int
	ok             bool
}

type cluster struct {
	cfg   *Cfg
	c     *controller.Controller
	fe    *frontend
	nodes []Node
	down  []bool // node unreachable over REST (liveness probe fails)
	bes   []*be
	calls []call // data-path calls that reached a node (applied or refused by the node)

	// fault script for the operation in flight
	failIO     map[int]bool    // node -> data call fails before being applied
	failREST   map[string]bool // "node/action" -> REST call fails (connection error)
	failSig    bool            // next SignalToAdd fails
	stickyREST map[string]bool // "node/action" fails until healed

	signals []signal
	viol    []kernel.Violation
	obs     []string
	cnt     map[string]int
	trace   bool
	notes   []string

	// model of what was acknowledged
	nWrites         int
	acked           map[int]bool // write id -> acknowledged
	issued          map[int]bool
	nSnaps          int
	nAdds           int
	nRestart        int
	nRegs           int
	nReads          int
	nFaults         int
	nDeletes        int
	nResizes        int
	nTicks          int
	nReverts        int
	nUnmaps         int
	conns           []net.Conn       // rpc connections of this execution (ViaRPC)
	boots           map[int]*task    // node -> its registration loop (sync.Task.AddReplica) under step control
	actions         map[int][]string // node -> actions the controller has sent to it and its loop has not taken yet
	nRetries        int
	pendingPing     chan chan vtime.Time // set while a backend\'s real monitorPing goroutine is being started
	failPing        map[int]bool         // node -> its next ping answer is an error (RealMon)
	undone          map[int]bool         // write id -> undone by a volume revert to a snapshot taken before it
	goodSnaps       []goodSnap           // volume snapshots that were reported successful
	failFold        bool
	killFold        bool // the next coalesce: the sync agent's sfold child dies from a signal
	killXfer        bool // the next snapshot-file transfer: the sender dies from a signal after the receiver sized the file (real agent only)
	ssyncFaultArmed bool
	histTag         string // names the pre-history this execution has gone through; appended to violation signatures
	restartAgent    bool   // armed: the source's sync agent dies with the next snapshot-file sender and is restarted
	restartingAgent bool
	agentOutage     map[int]int    // per node: 1 = the next status poll falls into the outage, 2 = the new agent answers
	agentPorts      []int          // ports of the receivers the real agents started in this execution
	senderPort      map[string]int // "node/process id" of a sender -> the receiver port it talks to
	finishing       map[int]bool   // ports whose transfer completed: the receiver there is ending
	failSpawn       bool           // the next coalesce: the sync agent cannot start the sfold child at all
	spawnFailed     map[int]int    // node -> 1 + polls of the process that never started
	cleanerStuck    map[int]bool
	agents          map[int]http.Handler // node -> router of jiva's REAL sync agent (used for coalesce requests)
	failFiemap      bool                 // the next block-map rebuild of the task's replica: one extent query (FIEMAP) of the base file fails
	restoreFiemap   func()
	failXfer        bool // the next snapshot-file transfer of the sync agent dies half way (the sender exits non-zero)
	pendingCleaner  int
	cleanerTick     map[int]chan time.Time
	attachAt        map[int]int // be seq -> number of writes issued when it was attached
	synced          map[int]bool
	failedBE        map[int]bool  // be seq -> failed a call by script
	lostProbes      map[int]int   // node -> number of upcoming liveness probes of that node that get lost although it is alive
	regTruth        map[int]int64 // node -> revision it registered with, since it last left the volume (ground truth for C09)
	opFailed        map[int]bool  // node -> its call failed by script during the current I/O event
	opIO            bool          // the current event is a data-path operation

	pendingFailed  []int    // nodes that failed the last I/O: must be detached once the controller is quiescent
	internalBefore []string // internal events that were pending when the current external event started
	lastKeyText    string
	task           *task                  // replica-side task (rebuild, clone)
	adds           map[int]*task          // AddReplica calls split at factory.Create (node -> task)
	taskX          *task                  // controller-side call under step control (the clone volume's Start)
	cur            *task                  // the task that owns the CPU right now
	cB             *controller.Controller // second volume (clone scenario)
	feB            *frontend
	ctlRouterB     http.Handler
	signalsB       []string
	cloneOf        int
	stepBefore     controller.VerifView
	procs          []*agentProc
	ctlRouter      http.Handler
	prevCheckpoint string
}

var (
	setupOnce sync.Once
	curr      *cluster
	logBuf    bytes.Buffer
	logMu     sync.Mutex
)

type lockedWriter struct{}

func (lockedWriter) Write(p []byte) (int, error) {
	logMu.Lock()
	defer logMu.Unlock()
	if logBuf.Len() > 1<<16 {
		logBuf.Reset()
	}
	return logBuf.Write(p)
}

type fatalExit struct{ msg string }

func setup() {
	setupOnce.Do(func() {
		logrus.SetOutput(lockedWriter{})
		logrus.SetLevel(logrus.ErrorLevel)
		logrus.StandardLogger().ExitFunc = func(int) {
			// the real rpc server ends the replica PROCESS after it has answered a request that failed with EIO: for a
			// server goroutine of a ViaRPC backend that is the end of that goroutine and of its connection
			exitMu.Lock()
			b := pendingExit[goid()]
			delete(pendingExit, goid())
			exitMu.Unlock()
			if b != nil {
				b.exited = true
				b.sconn.Close()
				runtime.Goexit()
			}
			panic(fatalExit{"logrus.Fatal"})
		}
		http.DefaultTransport = transport{}
		installHooks()
	})
}

// transport routes every jiva HTTP client to the in-process nodes.
type transport struct{}

func (transport) RoundTrip(req *http.Request) (*http.Response, error) {
	if atomic.LoadInt32(&refuseAgentPolls) == 1 && strings.HasSuffix(req.URL.Host, ":9504") {
		return nil, fmt.Errorf("dial tcp %s: connection refused (the sync agent is gone)", req.URL.Host)
	}
	cl := curr
	if t := cl.cur; t != nil && t.running && t.kind != "add" && t.goid == goid() { // a split add has exactly one gate: inside factory.Create
		// per-task nesting depth: only the task's own top-level requests are gates (handlers it reaches make nested ones)
		top := atomic.AddInt32(&t.depth, 1) == 1
		defer atomic.AddInt32(&t.depth, -1)
		if top && gated(req) {
			cl.gate(req.Method + " " + gateName(req))
		}
	}
	if resp, ok := cl.routeExtra(req); ok {
		return resp, nil
	}
	host := strings.Split(req.URL.Host, ":")[0]
	var n int
	if _, err := fmt.Sscanf(host, "10.0.0.%d", &n); err != nil || n < 1 || n > len(cl.nodes) {
		return nil, fmt.Errorf("dial tcp %s: connection refused", req.URL.Host)
	}
	n--
	action := req.URL.Query().Get("action")
	if req.Method == "GET" {
		action = "GET"
	}
	if cl.down[n] || cl.failREST[fmt.Sprintf("%d/%s", n, action)] || cl.stickyREST[fmt.Sprintf("%d/%s", n, action)] {
		return nil, fmt.Errorf("dial tcp %s: connection refused (injected)", req.URL.Host)
	}
	rec := httptest.NewRecorder()
	cl.nodes[n].ServeHTTP(rec, req)
	return rec.Result(), nil
}

// nodeIOs is the data path of one backend: the scripted outcome first, then the node.
type nodeIOs struct {
	cl *cluster
	b  *be
}

var ioMu sync.Mutex // MultiWriterAt fans out on goroutines: serialize the harness side of every data call

func (x nodeIOs) pre(op string) error {
	cl := x.cl
	if x.b.detached {
		cl.violate("detached-replica-called", "detached-call:"+op, fmt.Sprintf("backend #%d of node %d received %s after it had been removed from the controller", x.b.seq, x.b.node, op))
	}
	if cl.failIO[x.b.node] {
		cl.failedBE[x.b.seq] = true
		cl.opFailed[x.b.node] = true
		if cl.cfg.ViaRPC {
			// behind the real rpc server the failure is what a replica's disk produces when it is full: the error class
			// travels through the server's reply construction
			return &os.PathError{Op: "write", Path: fmt.Sprintf("/node%d/volume-head.img", x.b.node), Err: syscall.ENOSPC}
		}
		return fmt.Errorf("injected I/O failure on node %d", x.b.node)
	}
	cl.calls = append(cl.calls, call{x.b.seq, x.b.node, op})
	return nil
}
func (x nodeIOs) WriteAt(b []byte, off int64) (int, error) {
	ioMu.Lock()
	defer ioMu.Unlock()
	if err := x.pre("W"); err != nil {
		return 0, err
	}
	n, err := x.cl.nodes[x.b.node].WriteAt(b, off)
	x.failed(err)
	return n, err
}

// failed records that the node itself (not the script) failed the call: its process is gone or it refused.
func (x nodeIOs) failed(err error) {
	if err != nil {
		x.cl.opFailed[x.b.node] = true
	}
}
func (x nodeIOs) ReadAt(b []byte, off int64) (int, error) {
	ioMu.Lock()
	defer ioMu.Unlock()
	if err := x.pre("R"); err != nil {
		if x.cl.cfg.ViaRPC && len(b) >= 2 {
			// behind the real rpc server a failing read is what a replica produces when a later extent of the range
			// cannot be read: the first half is filled in, then the error (count > 0 together with an error)
			half := len(b) / 2
			x.cl.nodes[x.b.node].ReadAt(b[:half], off)
			return half, &os.PathError{Op: "read", Path: fmt.Sprintf("/node%d/volume-snap.img", x.b.node), Err: syscall.EIO}
		}
		return 0, err
	}
	n, err := x.cl.nodes[x.b.node].ReadAt(b, off)
	x.failed(err)
	return n, err
}
func (x nodeIOs) Sync() (int, error) {
	ioMu.Lock()
	defer ioMu.Unlock()
	if err := x.pre("S"); err != nil {
		return -1, err
	}
	n, err := x.cl.nodes[x.b.node].Sync()
	x.failed(err)
	return n, err
}
func (x nodeIOs) Unmap(o, l int64) (int, error) {
	ioMu.Lock()
	defer ioMu.Unlock()
	if err := x.pre("U"); err != nil {
		return -1, err
	}
	n, err := x.cl.nodes[x.b.node].Unmap(o, l)
	x.failed(err)
	return n, err
}
func (x nodeIOs) Close() error { return nil }

// factory is the harness BackendFactory: real *remote.Remote values, admission like Factory.Create, no sockets.
type factory struct{ cl *cluster }

func (f factory) Create(address string) (types.Backend, error) {
	cl := f.cl
	n := nodeOf(address)
	if t := cl.cur; t != nil && t.running && t.kind == "add" && t.goid == goid() {
		// AddReplica has passed its admission check and released the controller lock: anything can happen here
		cl.gate("inside BackendFactory.Create (controller unlocked)")
	}
	if n < 0 || n >= len(cl.nodes) {
		return nil, fmt.Errorf("dial tcp %s: no route to host", address)
	}
	b := &be{seq: len(cl.bes), node: n}
	var r *remote.Remote
	if cl.cfg.ViaRPC {
		// the data path of production: real rpc.Client -> loopback TCP -> real rpc.Server -> the node's data calls
		cc, sc, err := tcpPair()
		if err != nil {
			return nil, err
		}
		cl.conns = append(cl.conns, cc, sc)
		srv := rpc.NewServer(sc, rpcData{nodeIOs{cl, b}})
		go srv.Handle()
		r = remote.NewForVerifRPC(address, ip(n)+":9502", cc)
		cl.cnt["rpc_backends"]++
		b.cconn, b.sconn = cc, sc
	} else {
		r = remote.NewForVerif(address, ip(n)+":9502", nodeIOs{cl, b})
	}
	if err := r.VerifAttach(); err != nil {
		return nil, err
	}
	b.r = r
	b.monitoring = true
	if cl.cfg.RealMon {
		// the REAL monitorPing goroutine watches this backend (its ticker belongs to the harness: Tick events); the
		// harness does not play the monitor for it
		cl.pendingPing = make(chan chan vtime.Time, 1)
		r.VerifStartMonitor()
		b.tick = <-cl.pendingPing
		cl.pendingPing = nil
		b.monitoring = false
		b.realMon = true
	}
	cl.bes = append(cl.bes, b)
	cl.attachAt[b.seq] = cl.nWrites
	return r, nil
}

// awaitExits: a replica process that exited has closed its connection; the rpc client notices on its own goroutine and
// leaves a token on the backend's closeChan.  Wait for it (a condition, not a delay), so that what the next event sees
// does not depend on a race.
func (cl *cluster) awaitExits() {
	for _, b := range cl.bes {
		exitMu.Lock()
		ex := b.exited && !b.exitSeen
		exitMu.Unlock()
		if !ex {
			continue
		}
		b.exitSeen = true
		deadline := time.Now().Add(60 * time.Second)
		for len(b.r.VerifCloseChan()) == 0 && time.Now().Before(deadline) {
			if b.realMon {
				break // the real monitor goroutine takes the token itself
			}
			time.Sleep(100 * time.Microsecond)
		}
	}
}

// rpcData makes a node's data calls the data processor of the real rpc server.
type rpcData struct{ nodeIOs }

// pendingExit: server goroutine -> backend whose data call has just failed with EIO (the server will log Fatal).
var pendingExit = map[int64]*be{}
var exitMu sync.Mutex

func (d rpcData) ReadAt(b []byte, off int64) (int, error) {
	n, err := d.nodeIOs.ReadAt(b, off)
	if pe, ok := err.(*os.PathError); ok && pe.Err == syscall.EIO {
		exitMu.Lock()
		pendingExit[goid()] = d.b
		exitMu.Unlock()
	}
	return n, err
}

func (d rpcData) PingResponse() error {
	if d.cl.failPing[d.b.node] {
		return fmt.Errorf("ping refused (injected)")
	}
	return nil
}

func tcpPair() (net.Conn, net.Conn, error) {
	l, err := net.Listen("tcp", "127.0.0.1:0")
	if err != nil {
		return nil, nil, err
	}
	defer l.Close()
	acc := make(chan net.Conn, 1)
	go func() { c, _ := l.Accept(); acc <- c }()
	cc, err := net.Dial("tcp", l.Addr().String())
	if err != nil {
		return nil, nil, err
	}
	return cc, <-acc, nil
}

func (f factory) SignalToAdd(address, action string) error {
	cl := f.cl
	v := cl.c.VerifView()
	s := signal{target: address, action: action, regCount: len(v.Registered)}
	n := nodeOf("tcp://" + address + ":9502")
	if cl.failSig || n < 0 || n >= len(cl.nodes) || cl.down[n] {
		cl.failSig = false
		cl.signals = append(cl.signals, s)
		cl.observe("signal %s %s -> failed", address, action)
		if action == "start" {
			cl.oracleElection(v, s)
			// the controller voids the registration of a replica it could not signal; the ground truth follows
			if n >= 0 && n < len(cl.nodes) {
				delete(cl.regTruth, n)
			}
		}
		return fmt.Errorf("signal to %s failed (injected)", address)
	}
	s.ok = true
	cl.signals = append(cl.signals, s)
	cl.observe("signal %s %s", address, action)
	if action == "start" {
		cl.oracleElection(v, s)
	}
	// the REAL remote.Factory.SignalToAdd posts the action to the replica (whose registration loop acts on it): the model
	// node's "start" handler records it.  Real nodes keep the stand-in (nothing consumes their action channel here).
	_, isModel := cl.nodes[n].(*ModelNode)
	if isModel || (cl.cfg.has(cl.cfg.Alphabet, "Boot") && bootHooked()) {
		defer func() {
			if !isModel {
				cl.collectActions(n)
			}
		}()
		if err := realFactory.SignalToAdd(address, action); err != nil {
			cl.observe("signal %s %s -> refused by the replica: %v", address, action, err != nil)
			cl.signals[len(cl.signals)-1].ok = false
			if action == "start" {
				delete(cl.regTruth, n)
			}
			return err
		}
	}
	return nil
}

var realFactory = &remote.Factory{}

func (f factory) VerifyReplicaAlive(address string) bool {
	n := nodeOf("tcp://" + address + ":9502")
	if n < 0 || n >= len(f.cl.nodes) {
		return false
	}
	if f.cl.lostProbes[n] > 0 {
		// a single liveness probe of a replica that is alive got lost (the controller probes three times)
		f.cl.lostProbes[n]--
		f.cl.cnt["lost_probes"]++
		return false
	}
	// the REAL probe: GET /ping through the in-process transport (an unreachable node refuses the connection)
	alive := realFactory.VerifyReplicaAlive(address)
	if f.cl.down[n] {
		// really unreachable: the controller may drop its registration, the ground truth follows
		delete(f.cl.regTruth, n)
	}
	return alive
}

func (cl *cluster) violate(oracle, sig, detail string) {
	if cl.cfg.SigTag != "" {
		sig += "@" + cl.cfg.SigTag
	}
	if cl.histTag != "" {
		sig += "@" + cl.histTag
	}
	for _, v := range cl.viol {
		if v.Oracle == oracle && v.Signature == sig {
			return
		}
	}
	cl.viol = append(cl.viol, kernel.Violation{Oracle: oracle, Signature: sig, Detail: detail})
}

func (cl *cluster) observe(f string, a ...interface{}) {
	s := fmt.Sprintf(f, a...)
	cl.obs = append(cl.obs, s)
	if cl.trace {
		cl.notes = append(cl.notes, s)
	}
}

func newCluster(cfg *Cfg, scratch string) *cluster {
	setup()
	if cfg.N == 0 {
		cfg.N = cfg.RF + 1
	}
	os.Setenv("REPLICATION_FACTOR", fmt.Sprint(cfg.RF))
	cl := &cluster{cfg: cfg, fe: &frontend{}, cnt: map[string]int{}, acked: map[int]bool{}, issued: map[int]bool{}, attachAt: map[int]int{}, synced: map[int]bool{}, failedBE: map[int]bool{}, adds: map[int]*task{}, pendingCleaner: -1, cleanerTick: map[int]chan time.Time{}, regTruth: map[int]int64{}, lostProbes: map[int]int{}, opFailed: map[int]bool{}, undone: map[int]bool{}, cleanerStuck: map[int]bool{},
		failIO: map[int]bool{}, failREST: map[string]bool{}, stickyREST: map[string]bool{}}
	cl.down = make([]bool, cfg.N)
	for i := 0; i < cfg.N; i++ {
		var nd Node
		if cfg.Real {
			var rev int64
			if i < len(cfg.Revs) {
				rev = cfg.Revs[i]
			}
			nd = newRealNode(i, scratch, rev)
		} else {
			m := NewModelNode(addr(i))
			if i < len(cfg.Revs) && cfg.Revs[i] > 0 {
				m.rev, m.metaRev = cfg.Revs[i], cfg.Revs[i]
			}
			nd = m
		}
		cl.nodes = append(cl.nodes, nd)
	}
	curr = cl
	cl.c = controller.NewController(controller.WithName("vol"), controller.WithBackend(dynamic.New(map[string]types.BackendFactory{"tcp": factory{cl}})), controller.WithFrontend(cl.fe, ""), controller.WithRF(cfg.RF))
	return cl
}

func gateName(req *http.Request) string {
	h := strings.Split(req.URL.Host, ":")
	who := "replica" + strings.TrimPrefix(h[0], "10.0.0.")
	if h[0] == ctlHost || h[0] == ctlHostB {
		who = "controller" + strings.TrimPrefix(h[0], "10.0.0.10")
	} else if len(h) > 1 && h[1] == "9504" {
		who = "agent" + strings.TrimPrefix(h[0], "10.0.0.")
	}
	p := req.URL.Path
	if i := strings.Index(p, "/replicas/"); i >= 0 && strings.HasPrefix(who, "controller") {
		p = p[:i] + "/replicas/<id>"
	}
	if a := req.URL.Query().Get("action"); a != "" {
		p += "?action=" + a
	}
	return who + " " + p
}

func (cl *cluster) destroy() {
	cl.stopReceivers()
	for _, c := range cl.conns {
		c.Close()
	}
	cl.conns = nil
	cl.killTask(cl.task)
	cl.killTask(cl.taskX)
	for _, t := range cl.adds {
		// let a parked add run to its end (it holds no lock while parked)
		for i := 0; i < 3 && !t.done; i++ {
			cl.stepTask(t)
		}
	}
	for _, t := range cl.boots {
		cl.killTask(t)
	}
	for _, n := range cl.nodes {
		n.Destroy()
	}
	// release parked monitoring goroutines of this controller
	for _, b := range cl.bes {
		if b.monitoring {
			select {
			case b.r.VerifMonitorChan() <- nil:
			default:
			}
		}
	}
	cl.settle()
}

var stackBuf = make([]byte, 1<<18)

// monitorsBusy counts Controller.monitoring goroutines that are not parked on their monitor channel.
func monitorsBusy() int {
	buf := stackBuf
	n := runtime.Stack(buf, true)
	for n == len(buf) { // truncated: grow, never undercount
		stackBuf = make([]byte, 2*len(stackBuf))
		buf = stackBuf
		n = runtime.Stack(buf, true)
	}
	busy := 0
	for _, g := range strings.Split(string(buf[:n]), "\n\n") {
		// every goroutine the controller started: its frames or its "created by" line name the package.  A goroutine
		// that has not run yet only shows the compiler's go-wrapper frame (…addReplicaNoLock.gowrap1) - count it too.
		if !strings.Contains(g, "github.com/openebs/jiva/controller.") {
			continue
		}
		if strings.Contains(g, "verif/harness/") { // the harness goroutine calling into the controller
			continue
		}
		head := g[:strings.Index(g+"\n", "\n")]
		if strings.Contains(g, "controller.(*Controller).monitoring(") && strings.Contains(head, "[chan receive") {
			continue // parked on its monitor channel
		}
		busy++
	}
	return busy
}

// settle waits until every goroutine an event woke has finished: the controller lock is free and every monitoring
// goroutine is parked.  The generous deadline only turns a wedged controller into a diagnosis.
func (cl *cluster) settle() {
	if cl.cfg.RealMon {
		cl.settleReal("the last event")
		return
	}
	// the deadline is a diagnosis for a controller that never becomes quiescent, not a timing oracle: it is generous
	// and the polling backs off (every poll stops the world for the goroutine dump; on an oversubscribed machine a
	// tight loop can keep the very goroutines it waits for from running - seen once under a load of 60 on 16 cores)
	deadline := time.Now().Add(90 * time.Second)
	for i := 0; ; i++ {
		if monitorsBusy() == 0 && cl.c.VerifCanonicalOrderIfFree() {
			return
		}
		if time.Now().After(deadline) {
			buf := make([]byte, 1<<16)
			n := runtime.Stack(buf, true)
			cl.violate("wedged", "controller-wedged", "controller did not become quiescent within 90 s\n"+string(buf[:n]))
			return
		}
		runtime.Gosched()
		switch {
		case i < 200:
			time.Sleep(20 * time.Microsecond)
		case i < 2000:
			time.Sleep(200 * time.Microsecond)
		default:
			time.Sleep(2 * time.Millisecond)
		}
	}
}

// settleReal (Cfg.RealMon): the real monitor goroutines run free.  Every chain they start begins with a replica marked
// ERR (or with a cut connection, which ConnDrop waits for itself) and ends with that replica's removal: wait until no
// listed replica is in mode ERR, then until the controller's goroutines are parked.  The deadline only turns a replica
// that is never removed into a diagnosis.
func (cl *cluster) settleReal(what string) {
	deadline := time.Now().Add(60 * time.Second)
	for {
		pending := "(controller lock held)"
		if v, ok := cl.c.VerifViewIfFree(); ok {
			pending = ""
			for _, r := range v.Replicas {
				if r.Mode == types.ERR {
					pending = r.Address
				}
			}
		}
		if pending == "" && monitorsBusy() == 0 && cl.c.VerifCanonicalOrderIfFree() {
			return
		}
		if time.Now().After(deadline) {
			cl.violate("err-replica-lingers", "err-replica-lingers", fmt.Sprintf("after %s replica %s is still listed in mode ERR after 60 s with the real monitor goroutines running: nothing removes it", what, pending))
			return
		}
		time.Sleep(200 * time.Microsecond)
	}
}

// internal lists the enabled internal events: a monitor wake-up for every backend whose closeChan holds a token.
func (cl *cluster) internal() []string {
	var out []string
	for _, b := range cl.bes {
		if b.monitoring && len(b.r.VerifCloseChan()) > 0 {
			out = append(out, fmt.Sprintf("MonWake:%d", b.seq))
		}
	}
	return out
}

func (cl *cluster) attachedBE(node int) *be {
	v := cl.c.VerifView()
	for _, vb := range v.Backends {
		for _, b := range cl.bes {
			if b.r == vb.Backend && b.node == node {
				return b
			}
		}
	}
	return nil
}

func (cl *cluster) refreshDetached(v controller.VerifView) {
	live := map[types.Backend]bool{}
	for _, vb := range v.Backends {
		live[vb.Backend] = true
	}
	for _, b := range cl.bes {
		if !live[b.r] && !b.ownerB {
			if !b.detached {
				delete(cl.regTruth, b.node) // it was part of the volume and left: its old registration no longer counts
			}
			b.detached = true
		}
	}
}

func modesOf(v controller.VerifView) (rw, wo, er []int) {
	for _, r := range v.Replicas {
		switch r.Mode {
		case types.RW:
			rw = append(rw, nodeOf(r.Address))
		case types.WO:
			wo = append(wo, nodeOf(r.Address))
		case types.ERR:
			er = append(er, nodeOf(r.Address))
		}
	}
	sort.Ints(rw)
	sort.Ints(wo)
	sort.Ints(er)
	return
}

var _ = io.EOF
