package eb

// Exports for engine E-E (REST request enumeration): E-E drives the real controller/rest router around an E-B
// cluster (real controller.Controller, real *remote.Remote backends, model replica nodes behind the in-process
// transport).  Nothing here changes E-B's behaviour.

import (
	"github.com/openebs/jiva/controller"

	"verif/harness/kernel"
)

// Cluster is an E-B cluster handle for other engines.
type Cluster struct{ cl *cluster }

// NewCluster builds a fresh cluster (model nodes unless cfg.Real) and makes it the target of the process-wide
// in-process HTTP transport.
func NewCluster(cfg *Cfg, scratch string) *Cluster { return &Cluster{newCluster(cfg, scratch)} }

// Step applies one E-B event (plus drained internal events when cfg.Drain) and E-B's state oracles.
func (c *Cluster) Step(ev string) { c.cl.step(ev) }

// Controller is the real controller under test.
func (c *Cluster) Controller() *controller.Controller { return c.cl.c }

// Settle waits until the controller is quiescent (lock free, every monitoring goroutine parked); a controller that
// does not get there within 20 s is recorded as violation "wedged".
func (c *Cluster) Settle() { c.cl.settle() }

// DrainInternal delivers every enabled internal event (monitor wake-ups) until none is left; returns how many.
func (c *Cluster) DrainInternal() int {
	n := 0
	for guard := 0; guard < 50; guard++ {
		in := c.cl.internal()
		if len(in) == 0 {
			break
		}
		c.cl.apply(in[0])
		n++
		if len(c.cl.viol) > 0 {
			break
		}
	}
	return n
}

// Key is E-B's canonical state key and its text.
func (c *Cluster) Key() (string, string) { k := c.cl.key(); return k, c.cl.lastKeyText }

// Violations returns (and clears) what E-B's embedded oracles recorded.
func (c *Cluster) Violations() []kernel.Violation {
	v := c.cl.viol
	c.cl.viol = nil
	return v
}

// Destroy releases parked goroutines of this cluster.
func (c *Cluster) Destroy() { c.cl.destroy() }

// View is the controller's private state.
func (c *Cluster) View() controller.VerifView { return c.cl.c.VerifView() }

// NodeView is the abstract state of node i.
func (c *Cluster) NodeView(i int) NodeView { return c.cl.nodes[i].View() }

// Nodes is the number of node identities.
func (c *Cluster) Nodes() int { return len(c.cl.nodes) }

// Addr / IP of node i as the controller knows it.
func Addr(i int) string { return addr(i) }
func IP(i int) string   { return ip(i) }

// LogTail returns the tail of the captured logrus output.
func LogTail(n int) string {
	logMu.Lock()
	defer logMu.Unlock()
	return tailStr(logBuf.String(), n)
}
