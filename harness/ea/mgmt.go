package ea

import (
	"fmt"
	"strconv"

	"github.com/openebs/jiva/types"
)

// applyMgmt handles state-machine and invalid-argument events.  For an event that must be refused the canonical key
// is compared before and after: a refused or failed operation must leave everything as it was.
func (x *inst) applyMgmt(ev string, f []string) {
	m := x.m
	switch f[0] {
	case "Mode":
		err := x.guard(ev, func() error { return x.api().SetReplicaMode(f[1]) })
		x.observe("%s -> %v", ev, err != nil)
		valid := m.Open && (f[1] == "RW" || f[1] == "WO")
		if valid && err != nil {
			x.violate("setmode-failed", "setmode-failed", err.Error())
		} else if !valid && err == nil {
			x.violate("invalid-accepted", "setmode-accepted:"+f[1], fmt.Sprintf("SetReplicaMode(%q) accepted with open=%v", f[1], m.Open))
		} else if valid {
			m.Mode = f[1]
		}
	case "Close":
		err := x.guard(ev, func() error { return x.api().Close() })
		x.observe("%s -> %v", ev, err != nil)
		if x.cfg.ViaREST && !m.Open {
			// the REST layer has no close action for a closed replica (the engine call is idempotent)
			if err == nil {
				x.violate("invalid-accepted", "close-on-closed-accepted", "the close action was accepted on a closed replica")
			}
			return
		}
		if err != nil {
			x.violate("close-failed", "close-failed", err.Error())
			return
		}
		if m.Open {
			m.Open = false
			m.Mode = "CLOSED"
			m.Dirty = false
		}
	case "Delete":
		// Server.Delete closes the replica and removes its files; terminal event of a path (the held-hole runs use it:
		// it closes the chain files)
		err := x.guard(ev, func() error { return x.srv.Delete() })
		x.observe("%s -> %v", ev, err != nil)
		if err != nil {
			x.violate("delete-failed", "delete-failed", err.Error())
			return
		}
		m.Open = false
		m.Mode = "CLOSED"
		m.Deleted = true
	case "Open":
		err := x.guard(ev, func() error { return x.api().Open() })
		x.observe("%s -> %v", ev, err != nil)
		if m.Open {
			if err == nil {
				x.violate("invalid-accepted", "open-twice", "Open succeeded on an open replica")
			}
			return
		}
		if err != nil {
			x.violate("open-failed", "open-failed", err.Error())
			return
		}
		m.Open = true
		m.Mode = "INIT"
	case "Rebuild":
		want := f[1] == "t"
		err := x.guard(ev, func() error { return x.api().SetRebuilding(want) })
		x.observe("%s -> %v", ev, err != nil)
		valid := m.Open && ((want && !m.Rebuilding) || (!want && m.Rebuilding))
		if valid && err != nil {
			x.violate("setrebuilding-failed", "setrebuilding-failed", err.Error())
		} else if !valid && err == nil {
			x.violate("invalid-accepted", "setrebuilding-accepted", fmt.Sprintf("SetRebuilding(%v) accepted with open=%v rebuilding=%v", want, m.Open, m.Rebuilding))
		} else if valid {
			m.Rebuilding = want
		}
	case "SetRev":
		n := int64(atoi(f[1]))
		err := x.guard(ev, func() error { return x.api().SetRevisionCounter(n) })
		x.observe("%s -> %v", ev, err != nil)
		valid := m.Open && m.Mode == "RW"
		if x.cfg.ViaREST && m.Dirty && !m.Rebuilding {
			valid = false // the REST action map does not offer setrevisioncounter in state dirty: 404, nothing changes
		}
		if valid && err != nil {
			x.violate("setrev-failed", "setrev-failed", err.Error())
		} else if !valid && err == nil {
			x.violate("invalid-accepted", "setrev-accepted:"+m.Mode, fmt.Sprintf("SetRevisionCounter accepted with open=%v mode=%s", m.Open, m.Mode))
		} else if valid {
			m.Rev = n
		}
	case "Checkpoint":
		i := atoi(f[1])
		name := disk(m.Chain[i].Name)
		err := x.guard(ev, func() error { return x.api().SetCheckpoint(name) })
		x.observe("%s -> %v", ev, err != nil)
		if m.Open && err != nil {
			x.violate("setcheckpoint-failed", "setcheckpoint-failed", err.Error())
		} else if m.Open {
			m.Checkpoint = m.Chain[i].Name
		}
	case "Shrink", "ResizeGarbage", "ResizeEmpty":
		arg := map[string]string{"Shrink": strconv.Itoa(len(m.Live)*Sector - Block), "ResizeGarbage": "12q", "ResizeEmpty": ""}[f[0]]
		x.mustRefuse(ev, func() error { return x.api().Resize(arg) }, true)
	case "RmHead", "RmLatest", "RmBase":
		var name string
		ch := x.chainNames()
		switch f[0] {
		case "RmHead":
			name = ch[0]
		case "RmLatest":
			name = ch[1]
		case "RmBase":
			name = ch[len(ch)-1]
		}
		x.mustRefuse(ev, func() error {
			ops, err := x.api().PrepareRemoveDisk(name)
			if err == nil && len(ops) > 0 {
				return nil
			}
			if err == nil {
				return fmt.Errorf("no operations returned")
			}
			return err
		}, true)
	case "RmRawHead", "RmRawLatest":
		ch := x.chainNames()
		name := ch[0]
		if f[0] == "RmRawLatest" {
			name = ch[1]
		}
		x.mustRefuse(ev, func() error { return x.api().RemoveDiffDisk(name) }, true)
	case "RmUnknown":
		x.mustRefuse(ev, func() error {
			ops, err := x.api().PrepareRemoveDisk("nosuch")
			if err == nil && len(ops) > 0 {
				return nil
			}
			return fmt.Errorf("refused/no-op: %v", err)
		}, true)
	case "RmRawUnknown":
		x.mustRefuse(ev, func() error { return x.api().RemoveDiffDisk("volume-snap-nosuch.img") }, false)
	case "RmWrongMode":
		// removal in WO mode must be refused
		ch := x.chainNames()
		x.guard(ev, func() error { return x.api().SetReplicaMode("WO") })
		x.mustRefuse(ev, func() error {
			ops, err := x.api().PrepareRemoveDisk(ch[2])
			if err == nil && len(ops) > 0 {
				return nil
			}
			if err == nil {
				return fmt.Errorf("no-op")
			}
			return err
		}, true)
		x.mustRefuse(ev, func() error { return x.api().RemoveDiffDisk(ch[2]) }, true)
		x.guard(ev, func() error { return x.api().SetReplicaMode(m.Mode) })
	case "RmGate":
		// removal and revision-counter updates must be refused unless the replica is RW
		ch := x.chainNames()
		x.mustRefuse(ev, func() error {
			ops, err := x.api().PrepareRemoveDisk(ch[2])
			if err == nil && len(ops) > 0 {
				return nil
			}
			if err == nil {
				return fmt.Errorf("no-op")
			}
			return err
		}, true)
		if len(x.viol) == 0 {
			x.mustRefuse(ev, func() error { return x.api().RemoveDiffDisk(ch[2]) }, true)
		}
		if len(x.viol) == 0 {
			x.mustRefuse(ev, func() error { return x.api().ReplaceDisk(ch[2], ch[1]) }, true)
		}
	case "Sync", "Unmap":
		var err error
		if f[0] == "Sync" {
			err = x.guard(ev, func() error { _, e := x.dio().Sync(); return e })
		} else {
			err = x.guard(ev, func() error { _, e := x.dio().Unmap(0, Block); return e })
		}
		x.observe("%s -> %v", ev, err != nil)
		if !m.Open && err == nil {
			x.violate("io-on-closed", "io-on-closed:"+f[0], f[0]+" succeeded on a closed replica")
		} else if m.Open && err != nil {
			x.violate("io-failed", "io-failed:"+f[0], err.Error())
		} else if m.Open && f[0] == "Unmap" {
			// Unmap punches block 0 out of every file above the newest user snapshot: not part of any alphabet that reads data
			m.Dirty = true
		} else if m.Open {
			m.Dirty = true
		}
	case "SnapDup":
		name := m.Chain[len(m.Chain)-1].Name
		x.mustRefuse(ev, func() error { return x.api().Snapshot(name, true, created) }, true)
	case "SnapDupO":
		// the name of a snapshot that an earlier revert left outside the chain: its files are still in the directory
		x.mustRefuse(ev, func() error { return x.api().Snapshot(f[1], true, created) }, true)
	case "SnapDupOld":
		name := m.Chain[0].Name
		x.mustRefuse(ev, func() error { return x.api().Snapshot(name, false, created) }, true)
	case "RevertUnknown":
		x.mustRefuse(ev, func() error { return x.api().Revert("volume-snap-nosuch.img", created) }, true)
	case "CheckpointUnknown":
		// accepted by the replica as an opaque string; only recorded
		err := x.guard(ev, func() error { return x.api().SetCheckpoint("volume-snap-nosuch.img") })
		x.observe("%s -> %v", ev, err != nil)
		if err == nil && m.Open {
			m.Checkpoint = "nosuch"
		}
	default:
		panic("unknown event " + ev)
	}
}

// mustRefuse runs an operation that has to be refused (needErr) or at least has to be a no-op, and checks that the
// canonical state did not change.
func (x *inst) mustRefuse(ev string, op func() error, needErr bool) {
	before := x.key()
	err := x.guard(ev, op)
	x.observe("%s -> refused=%v", ev, err != nil)
	if len(x.viol) > 0 {
		return
	}
	if needErr && err == nil {
		x.violate("invalid-accepted", "accepted:"+ev, ev+" was accepted")
		return
	}
	after := x.key()
	if before != after {
		x.violate("refused-op-changed-state", "changed:"+ev, fmt.Sprintf("%s was refused (%v) but the replica state changed:\n before %s\n after  %s", ev, err, x.keyText(before), x.keyText(after)))
	}
}

var _ = types.RW
