package ea

// Exports for the other engines (E-C reuses the model, the pattern helpers, the hole-preserving directory copy and
// the naming convention).  Nothing here changes E-A's behaviour.

// CopyDir copies a replica directory preserving the extent layout (holes stay holes).
func CopyDir(src, dst string) error { return copyDir(src, dst) }

// Disk is the on-disk name of model snapshot name.
func Disk(name string) string { return disk(name) }

// FoldStub is a no-op sparse.FoldFileOperations.
type FoldStub struct{}

func (FoldStub) UpdateFoldFileProgress(int, bool, error) {}

// Created is the fixed creation time stamp used for every snapshot.
const Created = created

// Clone returns a deep copy of the model.
func (m *Model) Clone() *Model {
	c := *m
	c.Live = append([]uint8(nil), m.Live...)
	cp := func(l []*Snap) []*Snap {
		var out []*Snap
		for _, s := range l {
			t := *s
			t.Img = append([]uint8(nil), s.Img...)
			out = append(out, &t)
		}
		return out
	}
	c.Chain = cp(m.Chain)
	c.Orphans = cp(m.Orphans)
	return &c
}

// DiffTags renders got (bytes) against img (per-sector tags) for messages.
func DiffTags(got []byte, img []uint8, off int, maxTag uint8) string {
	return diffTags(got, img, off, maxTag)
}
