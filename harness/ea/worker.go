package ea

import (
	"crypto/sha1"
	"encoding/json"
	"fmt"
	"io"
	"net/http"
	"os"
	"path/filepath"
	"runtime"
	"runtime/debug"
	"sort"
	"strconv"
	"strings"
	"sync"

	inject "github.com/openebs/jiva/error-inject"
	"github.com/openebs/jiva/replica"
	"github.com/openebs/jiva/types"
	"github.com/openebs/jiva/util"
	"github.com/openebs/sparse-tools/sparse"
	"github.com/sirupsen/logrus"

	"verif/harness/kernel"
)

// Cfg selects volume size, alphabet, budgets and oracles of one E-A search.
type Cfg struct {
	Blocks    int      `json:"blocks"`
	Tail      int      `json:"tail_sectors"` // extra 512-byte sectors after the last whole block (a volume size that is not a 4 KiB multiple)
	Punch     bool     `json:"punch"`
	Alphabet  []string `json:"alphabet"` // event templates
	WShapes   [][2]int `json:"wshapes"`  // (offset,len) in sectors
	RShapes   [][2]int `json:"rshapes"`
	Oracles   []string `json:"oracles"`
	MaxWrites int      `json:"max_writes"`
	MaxSnaps  int      `json:"max_snaps"`
	MaxGrow   int      `json:"max_grow"`
	SysRmOnly bool     `json:"sys_rm_only"`         // Rm only where the system itself would delete (target and its parent not user-retained)
	AllReads  bool     `json:"all_reads"`           // final oracle reads every (offset,len) pair
	InitOps   []string `json:"init_ops"`            // executed before the path (not part of it)
	MaxChain  int      `json:"max_chain,omitempty"` // types.MaxChainLength for this run (0 = the default of 1024)
	ViaRPC    bool     `json:"via_rpc,omitempty"`   // reads and writes go through the real rpc.Client -> TCP loopback -> rpc.Server -> the same server
	ViaREST   bool     `json:"via_rest,omitempty"`  // management events go through the real clients and the replica/rest router (restapi.go)
}

func (c *Cfg) has(list []string, s string) bool {
	for _, x := range list {
		if x == s {
			return true
		}
	}
	return false
}

type fatalExit struct{ msg string }

// holeFatal is set when the CreateHoles goroutine ended in logrus.Fatalf (process death in production).
var holeFatal string

func lastLog() string {
	logBuf.mu.Lock()
	defer logBuf.mu.Unlock()
	b := logBuf.b
	if len(b) > 600 {
		b = b[len(b)-600:]
	}
	return string(b)
}

var (
	once      sync.Once
	scratch   string
	pathSeq   int
	deepSeen  = map[string]bool{}
	logBuf    *ring
	ExitAfter bool
)

type ring struct {
	mu sync.Mutex
	b  []byte
}

func (r *ring) Write(p []byte) (int, error) {
	r.mu.Lock()
	r.b = append(r.b, p...)
	if len(r.b) > 8192 {
		r.b = r.b[len(r.b)-8192:]
	}
	r.mu.Unlock()
	return len(p), nil
}

func setup() {
	once.Do(func() {
		base := os.Getenv("VERIF_SCRATCH")
		if base == "" {
			base = os.TempDir()
		}
		scratch = filepath.Join(base, fmt.Sprintf("verif-ea-%d", os.Getpid()))
		os.RemoveAll(scratch)
		if err := os.MkdirAll(scratch, 0755); err != nil {
			panic(err)
		}
		logBuf = &ring{}
		logrus.SetOutput(logBuf)
		logrus.SetLevel(logrus.WarnLevel)
		logrus.StandardLogger().ExitFunc = func(code int) {
			if st := string(debug.Stack()); strings.Contains(st, "replica.CreateHoles") {
				// the hole-punching goroutine called logrus.Fatalf: the replica process would die here.  Record it,
				// start a fresh puncher and end this goroutine (returning would spin in its retry loop).
				holeFatal = "logrus.Fatal in replica.CreateHoles: " + lastLog()
				go replica.CreateHoles()
				runtime.Goexit()
			}
			panic(fatalExit{"logrus.Fatal: process would exit here"})
		}
		util.VerifNoSync = true // durability is engine C's subject, not this one's
		go replica.CreateHoles()
	})
}

// Cleanup removes the worker's scratch directory.
func Cleanup() {
	if scratch != "" {
		os.RemoveAll(scratch)
	}
}

type inst struct {
	cfg        *Cfg
	dir        string
	srv        *replica.Server
	m          *Model
	obs        []string
	viol       []kernel.Violation
	cnt        map[string]int
	trace      bool
	notes      []string
	inDeep     bool
	hold       *replica.VerifHold // non-nil while the hole-punching goroutine is stalled (held-hole schedules)
	sinceHold  string
	hazard     string // set when the path ran into a history class that is a recorded known finding
	rest       *restAPI
	restRouter http.Handler
	rpc        *rpcPath
}

func (x *inst) violate(oracle, sig, detail string) {
	if x.hazard != "" {
		// the history contains a recorded hazard (known_findings.json): the signature names the history class, not the
		// I/O shape at which the damage happens to show
		sig = oracle + ":" + x.hazard
	}
	x.viol = append(x.viol, kernel.Violation{Oracle: oracle, Signature: sig, Detail: detail})
}

func (x *inst) observe(f string, a ...interface{}) {
	if x.inDeep { // deep oracles run once per distinct state per worker: their observations are not part of the digest
		return
	}
	s := fmt.Sprintf(f, a...)
	x.obs = append(x.obs, s)
	if x.trace {
		x.notes = append(x.notes, s)
	}
}

const created = "2020-01-01T00:00:00Z"

// Exec is the worker body.
func Exec(req *kernel.Request) (resp *kernel.Response) {
	setup()
	resp = &kernel.Response{}
	var cfg Cfg
	if err := json.Unmarshal(req.Cfg, &cfg); err != nil {
		resp.Err = "cfg: " + err.Error()
		return
	}
	pathSeq++
	x := &inst{cfg: &cfg, dir: filepath.Join(scratch, fmt.Sprintf("p%d", pathSeq)), cnt: map[string]int{}, trace: req.Trace}
	defer func() {
		if r := recover(); r != nil {
			// a panic outside a guarded jiva call is a harness failure
			resp.Err = fmt.Sprintf("harness panic: %v\n%s", r, debug.Stack())
			ExitAfter = true
		}
		os.RemoveAll(x.dir)
		os.RemoveAll(x.dir + "-copy")
	}()
	if err := x.bootFromTemplate(&cfg); err != nil {
		resp.Err = "boot: " + err.Error()
		return
	}
	for i, ev := range req.Path {
		x.apply(ev)
		if len(x.viol) > 0 {
			if i != len(req.Path)-1 {
				// a prefix violates: this path should not have been generated
				x.observe("violation before end at %d", i)
			}
			break
		}
	}
	if len(x.viol) == 0 {
		resp.Key = x.key()
		resp.Enabled = x.enabled()
		x.oracles(resp.Key, req.Final)
	}
	x.shutdown()
	h := sha1.Sum([]byte(strings.Join(x.obs, "\n")))
	resp.Obs = fmt.Sprintf("%x", h[:8])
	resp.Violations = x.viol
	if rpcCalls > 0 {
		x.cnt["rpc_calls"] += rpcCalls
		rpcCalls = 0
	}
	if restReqs > 0 {
		x.cnt["rest_requests"] += restReqs
		restReqs = 0
	}
	resp.Counters = x.cnt
	resp.Note = x.notes
	return
}

func (x *inst) boot() error {
	types.ShouldPunchHoles = x.cfg.Punch
	types.MaxChainLength = x.cfg.MaxChain
	types.DrainOps = types.DrainDone
	x.srv = replica.NewServer("127.0.0.1:9502", x.dir, 512, "")
	if err := os.MkdirAll(x.dir, 0755); err != nil {
		return err
	}
	if err := x.srv.Create(int64(x.cfg.Blocks)*Block + int64(x.cfg.Tail)*Sector); err != nil {
		return fmt.Errorf("create: %v", err)
	}
	if err := x.srv.Open(); err != nil {
		return fmt.Errorf("open: %v", err)
	}
	if err := x.srv.SetReplicaMode("RW"); err != nil {
		return err
	}
	x.m = NewModel(x.cfg.Blocks*SPB + x.cfg.Tail)
	x.m.Open = true
	x.m.Mode = "RW"
	return nil
}

// A template is the closed replica directory (and the model) reached by Create + the configuration's InitOps, built
// once per worker with the real code.  Every path starts from a hole-preserving copy of it that is opened with the
// real code (preload on): the root of a search is therefore "the replica reopened after its init history".
type template struct {
	dir string
	m   *Model
}

var templates = map[string]*template{}

func (x *inst) bootFromTemplate(cfg *Cfg) error {
	kb, _ := json.Marshal(struct {
		B, T int
		P    bool
		I    []string
	}{cfg.Blocks, cfg.Tail, cfg.Punch, cfg.InitOps})
	h := sha1.Sum(kb)
	key := fmt.Sprintf("%x", h[:8])
	t := templates[key]
	if t == nil {
		tx := &inst{cfg: cfg, dir: filepath.Join(scratch, "tmpl-"+key), cnt: map[string]int{}}
		os.RemoveAll(tx.dir)
		if err := tx.boot(); err != nil {
			return err
		}
		for _, ev := range cfg.InitOps {
			tx.apply(ev)
			if len(tx.viol) > 0 {
				return fmt.Errorf("init op %s failed: %+v", ev, tx.viol[0])
			}
		}
		if err := tx.srv.Close(); err != nil {
			return fmt.Errorf("closing the template: %v", err)
		}
		t = &template{dir: tx.dir, m: tx.m.Clone()}
		templates[key] = t
	}
	types.ShouldPunchHoles = cfg.Punch
	types.MaxChainLength = cfg.MaxChain
	types.DrainOps = types.DrainDone
	if err := copyDir(t.dir, x.dir); err != nil {
		return fmt.Errorf("copy template: %v", err)
	}
	x.srv = replica.NewServer("127.0.0.1:9502", x.dir, 512, "")
	if err := x.srv.Open(); err != nil {
		return fmt.Errorf("open: %v", err)
	}
	if err := x.srv.SetReplicaMode("RW"); err != nil {
		return err
	}
	x.m = t.m.Clone()
	x.m.Open = true
	x.m.Mode = "RW"
	x.m.Dirty = false
	replica.VerifFlushHoles()
	return nil
}

func (x *inst) shutdown() {
	defer func() { recover() }()
	x.closeRPC()
	if x.srv != nil && x.srv.Replica() != nil {
		x.guard("shutdown", func() error { return x.srv.Close() })
	}
	if x.hold != nil {
		if !x.hold.Over() {
			replica.VerifDiscardHoles() // nothing of this path may reach the next one
		}
		x.hold = nil
	}
	holeFatal = ""
}

// afterEvent: default schedule = every hole queued by the event is punched before the next event; while the puncher
// is held nothing is flushed.  A drain request (Close, RemoveDiffDisk, ReplaceDisk) ends a hold by itself.
func (x *inst) afterEvent(ev string) {
	if x.hold != nil && x.hold.Over() {
		x.hold = nil
		x.observe("hold ended by a drain request")
	}
	if x.hold == nil {
		replica.VerifFlushHoles()
	}
	if k := strings.Split(ev, ":")[0]; k != "Hold" && k != "Release" && k != "W" && k != "R" && !strings.Contains(x.sinceHold, k) {
		x.sinceHold += k + "+"
	}
	if holeFatal != "" {
		// signature: the kinds of events the stalled puncher was overtaken by (one of them closed the files)
		x.violate("hole-puncher-fatal", "hole-puncher-fatal:"+strings.TrimSuffix(x.sinceHold, "+"), "after "+ev+": "+holeFatal)
		holeFatal = ""
		ExitAfter = true
	}
}

// guard runs one jiva call; a panic or a logrus.Fatal inside it becomes a violation instead of killing the worker.
func (x *inst) guard(what string, f func() error) (err error) {
	defer func() {
		if r := recover(); r != nil {
			if fe, ok := r.(fatalExit); ok {
				x.violate("fatal-exit", "fatal:"+what, fe.msg+"\n"+string(logBuf.b))
			} else {
				x.violate("panic", "panic:"+what, fmt.Sprintf("%v\n%s", r, debug.Stack()))
			}
			ExitAfter = true // locks may be held; this process is poisoned
			err = fmt.Errorf("panicked")
		}
	}()
	return f()
}

func atoi(s string) int { n, _ := strconv.Atoi(s); return n }

func (x *inst) chainNames() []string { // head first, as Replica.Chain()
	r := x.srv.Replica()
	if r == nil {
		return nil
	}
	c, err := r.Chain()
	if err != nil {
		return []string{"ERR:" + err.Error()}
	}
	return c
}

func disk(name string) string { return "volume-snap-" + name + ".img" }

type foldStub struct{}

func (foldStub) UpdateFoldFileProgress(int, bool, error) {}

// apply executes one event against the real replica and the model and compares what the call itself reports.
func (x *inst) apply(ev string) {
	f := strings.Split(ev, ":")
	m := x.m
	x.cnt["ev_"+f[0]]++
	switch f[0] {
	case "Reload", "ReloadULM", "ULMW", "Revert", "ReopenP":
		// a preload (with reclamation on) between the coalesce and the unlink of a deletion
		if types.ShouldPunchHoles || f[0] != "ReopenP" {
			for _, s := range m.Chain {
				if s.Folded {
					s.Deduped = true
				}
			}
		}
	case "RmF":
		if m.Chain[atoi(f[1])].Deduped {
			x.hazard = "preload-between-coalesce-and-unlink"
		}
	}
	switch f[0] {
	case "W":
		off, n := atoi(f[1]), atoi(f[2])
		buf := make([]byte, n*Sector)
		tag := m.NW + 1
		Fill(buf, tag, int64(off)*Sector)
		var c int
		err := x.guard(ev, func() error { var e error; c, e = x.dio().WriteAt(buf, int64(off)*Sector); return e })
		should := m.Open && (m.Mode == "RW" || m.Mode == "WO")
		ack := err == nil // a single-block unaligned write reports the 4096 bytes of its read-modify-write; the RPC server ignores the count
		x.observe("%s -> %d %v", ev, c, err != nil)
		if should && !ack {
			x.violate("write-refused", "write-refused:"+shapeClass(off, n), fmt.Sprintf("%s returned (%d,%v) in mode %s", ev, c, err, m.Mode))
			return
		}
		if !should && ack {
			x.violate("write-acked-in-wrong-state", "write-acked:"+m.Mode+fmt.Sprint(m.Open), fmt.Sprintf("%s acknowledged with open=%v mode=%s", ev, m.Open, m.Mode))
			return
		}
		if ack {
			m.Write(off, n)
			if m.Mode == "RW" {
				m.Rev++
			}
			m.Dirty = true
		} else if m.Open {
			// refused write (INIT mode): jiva writes the data before it checks the mode (DESIGN §7, lenient reading):
			// the model follows the implementation here and records the observation.
			m.Write(off, n)
			x.cnt["refused_write_applied_data"]++
		}
	case "R":
		off, n := atoi(f[1]), atoi(f[2])
		x.readCheck(off, n, "event")
	case "SnapU", "SnapA":
		user := f[0] == "SnapU"
		name := fmt.Sprintf("s%d", m.NSnap+1)
		if x.cfg.MaxChain > 0 && m.Open && len(m.Chain) >= x.cfg.MaxChain-2 {
			// the chain is at its configured limit (every file counts: snapshots, the new snapshot, the head and the
			// unused slot 0): the request is refused and changes nothing - and what was accepted before still reopens
			x.mustRefuse(ev, func() error { return x.api().Snapshot(name, user, created) }, true)
			return
		}
		err := x.guard(ev, func() error { return x.api().Snapshot(name, user, created) })
		x.observe("%s -> %v", ev, err != nil)
		if !m.Open {
			if err == nil {
				x.violate("op-on-closed", "snapshot-on-closed", "snapshot succeeded on a closed replica")
			}
			return
		}
		if err != nil {
			x.violate("snapshot-failed", "snapshot-failed", fmt.Sprintf("%s: %v", ev, err))
			return
		}
		m.Snapshot(user)
		m.Dirty = true
	case "Mark":
		i := atoi(f[1])
		s := m.Chain[i]
		_, err := x.prepare(ev, disk(s.Name))
		x.observe("%s -> %v", ev, err != nil)
		if err != nil {
			x.violate("mark-failed", "mark-failed", fmt.Sprintf("%s (%s): %v", ev, s.Name, err))
			return
		}
		s.Removed = true
	case "Rm", "Clean":
		i := atoi(f[1])
		s := m.Chain[i]
		ops, err := x.prepare(ev, disk(s.Name))
		if err != nil {
			x.violate("remove-failed", "prepare-remove-failed", fmt.Sprintf("%s (%s): %v", ev, s.Name, err))
			return
		}
		s.Removed = true
		for _, op := range ops {
			switch op.Action {
			case replica.OpCoalesce:
				err = x.guard(ev, func() error {
					return sparse.FoldFile(filepath.Join(x.dir, op.Source), filepath.Join(x.dir, op.Target), foldStub{})
				})
			case replica.OpRemove:
				err = x.guard(ev, func() error { return x.api().RemoveDiffDisk(op.Source) })
			}
			if err != nil {
				x.violate("remove-failed", "remove-failed:"+op.Action, fmt.Sprintf("%s (%s) op %+v: %v", ev, s.Name, op, err))
				return
			}
		}
		x.observe("%s ok %d ops", ev, len(ops))
		m.Remove(i)
	case "Fold":
		// second step of a deletion (what the cleaner / the delete task run through the sync agent after
		// PrepareRemoveDisk): coalesce the marked snapshot into its parent.  The replica keeps serving in between.
		i := atoi(f[1])
		s := m.Chain[i]
		ops, err := x.prepare(ev, disk(s.Name))
		if err != nil {
			x.violate("remove-failed", "prepare-remove-failed", fmt.Sprintf("%s (%s): %v", ev, s.Name, err))
			return
		}
		for _, op := range ops {
			if op.Action == replica.OpCoalesce {
				if err := x.guard(ev, func() error {
					return sparse.FoldFile(filepath.Join(x.dir, op.Source), filepath.Join(x.dir, op.Target), foldStub{})
				}); err != nil {
					x.violate("remove-failed", "remove-failed:"+op.Action, fmt.Sprintf("%s (%s) op %+v: %v", ev, s.Name, op, err))
					return
				}
			}
		}
		s.Folded = true
		x.observe("%s ok", ev)
	case "RmF":
		// third step: unlink the coalesced snapshot
		i := atoi(f[1])
		s := m.Chain[i]
		err := x.guard(ev, func() error { return x.api().RemoveDiffDisk(disk(s.Name)) })
		x.observe("%s -> %v", ev, err != nil)
		if err != nil {
			x.violate("remove-failed", "remove-failed:remove", fmt.Sprintf("%s (%s): %v", ev, s.Name, err))
			return
		}
		m.Remove(i)
	case "Revert":
		i := atoi(f[1])
		s := m.Chain[i]
		err := x.guard(ev, func() error { return x.api().Revert(disk(s.Name), created) })
		x.observe("%s -> %v", ev, err != nil)
		if err != nil {
			x.violate("revert-failed", "revert-failed", fmt.Sprintf("%s (%s): %v", ev, s.Name, err))
			return
		}
		m.Revert(i)
		m.Dirty = true
	case "RevertO":
		// revert to a snapshot that an earlier revert left outside the chain (its files and parent links are still there)
		_, o := m.orphan(f[1])
		err := x.guard(ev, func() error { return x.api().Revert(disk(o.Name), created) })
		x.observe("%s -> %v", ev, err != nil)
		if err != nil {
			x.violate("revert-failed", "revert-to-orphan-failed", fmt.Sprintf("%s (%s): %v", ev, o.Name, err))
			return
		}
		m.RevertOrphan(o.Name)
		m.Dirty = true
	case "RmO":
		// unlink a snapshot outside the chain that nothing depends on: the chain and every other snapshot stay as they are
		_, o := m.orphan(f[1])
		err := x.guard(ev, func() error { return x.api().RemoveDiffDisk(disk(o.Name)) })
		x.observe("%s -> %v", ev, err != nil)
		if err == nil {
			m.RemoveOrphan(o.Name)
		}
	case "MarkO":
		_, o := m.orphan(f[1])
		var ops []replica.PrepareRemoveAction
		err := x.guard(ev, func() error { var e error; ops, e = x.api().PrepareRemoveDisk(disk(o.Name)); return e })
		x.observe("%s -> %v ops=%d", ev, err != nil, len(ops))
		if err == nil && len(ops) > 0 {
			o.Removed = true
		}
	case "ReopenP", "ReopenN":
		x.reopen(f[0] == "ReopenP", ev)
	case "Reload":
		err := x.guard(ev, func() error { return x.api().Reload() })
		x.observe("%s -> %v", ev, err != nil)
		if err != nil {
			x.violate("reload-failed", "reload-failed", err.Error())
		}
	case "ReloadULM":
		// the tail of a rebuild: reload without preload, then merge the preloaded map into the live one
		err := x.guard(ev, func() error {
			x.srv.SetPreload(false)
			e := x.api().Reload()
			x.srv.SetPreload(true)
			if e != nil {
				return e
			}
			return x.srv.UpdateLUNMap()
		})
		x.observe("%s -> %v", ev, err != nil)
		if err != nil {
			x.violate("reload-failed", "reloadulm-failed", err.Error())
		}
	case "ULMFF":
		// rebuild epilogue in which ONE extent query (FIEMAP) of chain file <i> fails while the block map is rebuilt:
		// UpdateLUNMap may refuse, but when it reports success every byte must still read back
		i := atoi(f[1])
		var restore func()
		armed := false
		err := x.guard(ev, func() error {
			x.srv.SetPreload(false)
			e := x.api().Reload()
			x.srv.SetPreload(true)
			if e != nil {
				return fmt.Errorf("reload: %v", e)
			}
			restore, armed = x.srv.Replica().VerifFailFiemapOnce(i)
			e = x.srv.UpdateLUNMap()
			replica.VerifFlushHoles()
			restore()
			if e != nil {
				return nil // refusing is the correct answer to a failed extent query
			}
			x.cnt["ulmff_reported_success"]++
			return nil
		})
		x.observe("%s -> %v armed=%v", ev, err != nil, armed)
		if err != nil {
			x.violate("reload-failed", "ulmff-failed", err.Error())
		}
	case "ULMW":
		// rebuild epilogue with a foreground write landing in UpdateLUNMap's unlocked window (after the extents were
		// scanned, before the merge re-takes the server lock)
		off, n := atoi(f[1]), atoi(f[2])
		buf := make([]byte, n*Sector)
		tag := m.NW + 1
		Fill(buf, tag, int64(off)*Sector)
		var werr error
		fired := false
		inject.UpdateLUNMapHook = func() {
			fired = true
			_, werr = x.dio().WriteAt(buf, int64(off)*Sector)
		}
		err := x.guard(ev, func() error {
			x.srv.SetPreload(false)
			e := x.api().Reload()
			x.srv.SetPreload(true)
			if e != nil {
				return e
			}
			return x.srv.UpdateLUNMap()
		})
		inject.UpdateLUNMapHook = nil
		x.observe("%s -> %v write=%v fired=%v", ev, err != nil, werr != nil, fired)
		if err != nil || werr != nil || !fired {
			x.violate("reload-failed", "ulmw-failed", fmt.Sprintf("%v / write in the window: %v (fired=%v)", err, werr, fired))
			return
		}
		m.Write(off, n)
		if m.Mode == "RW" {
			m.Rev++
		}
		m.Dirty = true
	case "Hold":
		// from now on the hole-punching goroutine is slow: queued holes stay queued across the following events
		x.hold = replica.VerifHoldHoles()
		x.sinceHold = ""
		x.observe("Hold")
	case "Release":
		if x.hold != nil {
			n := len(replica.VerifQueuedHoles())
			x.hold.Release()
			x.hold = nil
			x.observe("Release %d", n)
		}
	case "Grow":
		nb := len(m.Live)/SPB + atoi(f[1])
		err := x.guard(ev, func() error { return x.api().Resize(strconv.Itoa(nb * Block)) })
		x.observe("%s -> %v", ev, err != nil)
		if err != nil {
			x.violate("grow-failed", "grow-failed", err.Error())
			return
		}
		m.Grow(nb * SPB)
	default:
		x.applyMgmt(ev, f)
	}
	x.afterEvent(ev)
}

func (x *inst) prepare(ev, name string) (ops []replica.PrepareRemoveAction, err error) {
	err = x.guard(ev, func() error { var e error; ops, e = x.api().PrepareRemoveDisk(name); return e })
	return
}

func (x *inst) reopen(preload bool, ev string) {
	err := x.guard(ev, func() error {
		if e := x.api().Close(); e != nil {
			return fmt.Errorf("close: %v", e)
		}
		x.srv.SetPreload(preload)
		if e := x.api().Open(); e != nil {
			return fmt.Errorf("open: %v", e)
		}
		x.srv.SetPreload(true)
		return x.api().SetReplicaMode(x.modeForReopen())
	})
	x.observe("%s -> %v", ev, err != nil)
	if err != nil {
		x.violate("reopen-failed", "reopen-failed", err.Error())
		return
	}
	x.m.Mode = x.modeForReopen()
	x.m.Dirty = false
}

func (x *inst) modeForReopen() string {
	if x.m.Mode == "WO" {
		return "WO"
	}
	return "RW"
}

func shapeClass(off, n int) string {
	a := "aligned"
	if off%SPB != 0 || (off+n)%SPB != 0 {
		a = "unaligned"
	}
	return fmt.Sprintf("%s/%dblk", a, (off+n-1)/SPB-off/SPB+1)
}

// readCheck reads [off,off+n) sectors of the live volume through the server and compares with the model.
func (x *inst) readCheck(off, n int, why string) bool {
	buf := make([]byte, n*Sector)
	var c int
	err := x.guard("read", func() error { var e error; c, e = x.dio().ReadAt(buf, int64(off)*Sector); return e })
	x.cnt["reads"]++
	if !x.m.Open {
		if err == nil {
			x.violate("io-on-closed", "read-on-closed", "read succeeded on a closed replica")
			return false
		}
		return true
	}
	if err != nil || c != len(buf) {
		x.violate("read-failed", "read-failed:"+shapeClass(off, n), fmt.Sprintf("read(%d,%d) -> (%d,%v)", off, n, c, err))
		return false
	}
	want := ExpectBytes(x.m.Live, off, n)
	if string(want) != string(buf) {
		x.violate("read-mismatch", "read-mismatch:"+shapeClass(off, n), fmt.Sprintf("[%s] read(off=%d,len=%d sectors): %s", why, off, n, diffTags(buf, x.m.Live, off, x.m.NW)))
		return false
	}
	return true
}

func diffTags(got []byte, img []uint8, off int, maxTag uint8) string {
	var g, w []string
	for i := 0; i*Sector < len(got); i++ {
		g = append(g, fmt.Sprint(TagOf(got[i*Sector:(i+1)*Sector], int64(off+i)*Sector, maxTag)))
		w = append(w, fmt.Sprint(img[off+i]))
	}
	return "per-sector write tags got=[" + strings.Join(g, " ") + "] want=[" + strings.Join(w, " ") + "]"
}

func sortedCopy(s []string) []string { c := append([]string(nil), s...); sort.Strings(c); return c }

var _ = io.EOF
