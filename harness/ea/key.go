package ea

import (
	"crypto/sha1"
	"fmt"
	"os"
	"path/filepath"
	"regexp"
	"sort"
	"strings"

	fibmap "github.com/frostschutz/go-fibmap"
	"github.com/openebs/jiva/replica"
	"github.com/openebs/jiva/types"
)

// canonical key: model (tags renamed by first occurrence, names by creation rank) + in-memory map + per-file extent
// layout and content + directory listing.  The future behaviour of a replica is a function of its files (content,
// extent layout, metadata) and these in-memory fields; two paths with equal keys differ only in snapshot names and
// write tags, which the code never inspects.  The revision counter value is part of the key only in runs whose
// subject is the counter (oracle "rev"); elsewhere it is left out (it is only ever copied and incremented).

type renamer struct {
	tags  map[uint8]int
	names map[string]string
}

func (r *renamer) tag(t uint8) string {
	if t == 0 {
		return "."
	}
	if t == 255 {
		return "?"
	}
	n, ok := r.tags[t]
	if !ok {
		n = len(r.tags)
		r.tags[t] = n
	}
	return string(rune('a' + n))
}

func (r *renamer) img(img []uint8) string {
	var b strings.Builder
	for _, t := range img {
		b.WriteString(r.tag(t))
	}
	return b.String()
}

var snapRe = regexp.MustCompile(`volume-snap-(s\d+)\.img`)
var headRe = regexp.MustCompile(`volume-head-\d+\.img`)

func (r *renamer) name(n string) string {
	n = headRe.ReplaceAllString(n, "HEAD")
	return snapRe.ReplaceAllStringFunc(n, func(s string) string {
		k := snapRe.FindStringSubmatch(s)[1]
		if v, ok := r.names[k]; ok {
			return "S" + v
		}
		return s
	})
}

// fileDesc returns, per 4 KiB block, whether it is allocated and the tags of its sectors.
func (x *inst) fileDesc(path string, r *renamer) string {
	f, err := os.Open(path)
	if err != nil {
		return "ERR"
	}
	defer f.Close()
	st, _ := f.Stat()
	size := st.Size()
	nblk := int((size + Block - 1) / Block)
	alloc := make([]bool, nblk)
	exts, errno := fibmap.Fiemap(f.Fd(), 0, uint64(size), 4096)
	if errno != 0 {
		return "FIEMAPERR"
	}
	for _, e := range exts {
		for b := e.Logical / Block; b < (e.Logical+e.Length+Block-1)/Block && int(b) < nblk; b++ {
			alloc[b] = true
		}
	}
	var sb strings.Builder
	buf := make([]byte, Block)
	for b := 0; b < nblk; b++ {
		if !alloc[b] {
			sb.WriteString("-")
			continue
		}
		n, _ := f.ReadAt(buf, int64(b)*Block)
		sb.WriteString("[")
		for s := 0; s < n/Sector; s++ {
			sb.WriteString(r.tag(TagOf(buf[s*Sector:(s+1)*Sector], int64(b)*Block+int64(s)*Sector, x.m.NW)))
		}
		sb.WriteString("]")
	}
	return sb.String()
}

var keyTexts = map[string]string{}

func (x *inst) keyText(k string) string { return keyTexts[k] }

func (x *inst) key() string {
	m := x.m
	r := &renamer{tags: map[uint8]int{}, names: map[string]string{}}
	// names: rank by creation number among snapshots that still exist anywhere
	var all []int
	seen := map[int]bool{}
	addName := func(n string) {
		var k int
		if _, err := fmt.Sscanf(n, "s%d", &k); err == nil && !seen[k] {
			seen[k] = true
			all = append(all, k)
		}
	}
	for _, s := range m.Chain {
		addName(s.Name)
	}
	for _, s := range m.Orphans {
		addName(s.Name)
	}
	ents, _ := os.ReadDir(x.dir)
	for _, e := range ents {
		if mm := snapRe.FindStringSubmatch(e.Name()); mm != nil {
			addName(mm[1])
		}
	}
	sort.Ints(all)
	for i, k := range all {
		r.names[fmt.Sprintf("s%d", k)] = fmt.Sprint(i)
	}

	var b strings.Builder
	fmt.Fprintf(&b, "M hazard=%s live=%s open=%v mode=%s reb=%v dirty=%v cp=%s punch=%v del=%v\n", x.hazard, r.img(m.Live), m.Open, m.Mode, m.Rebuilding, m.Dirty, r.name(diskIf(m.Checkpoint)), types.ShouldPunchHoles, m.Deleted)
	if x.wants("rev") {
		// the counter's value is part of the state where the counter is the subject (its stored representation has a
		// length; seed C10-c): merged only when equal
		fmt.Fprintf(&b, "V rev=%d\n", m.Rev)
	}
	for _, s := range m.Chain {
		fmt.Fprintf(&b, "C %s u=%v r=%v f=%v/%v img=%s\n", r.name(disk(s.Name)), s.User, s.Removed, s.Folded, s.Deduped, r.img(s.Img))
	}
	var orph []string
	for _, s := range m.Orphans {
		orph = append(orph, fmt.Sprintf("O %s p=%s u=%v r=%v img=%s", r.name(disk(s.Name)), r.name(diskIf(s.Parent)), s.User, s.Removed, r.img(s.Img)))
	}
	sort.Strings(orph)
	b.WriteString(strings.Join(orph, "\n") + "\n")
	if rep := x.srv.Replica(); rep != nil {
		st := rep.VerifState()
		fmt.Fprintf(&b, "R loc=%v snapindx=%d ucs=%v mode=%s dirty=%v reb=%v size=%d cp=%s\n", st.Location, st.SnapIndx, st.UserCreatedSnap, st.Mode, st.Info.Dirty, st.Info.Rebuilding, st.Info.Size, r.name(st.Info.Checkpoint))
		var act []string
		for _, a := range st.Active {
			act = append(act, r.name(a))
		}
		fmt.Fprintf(&b, "R active=%v\n", act)
		var ds []string
		for k, d := range st.Disks {
			ds = append(ds, fmt.Sprintf("%s>%s u=%v r=%v", r.name(k), r.name(d.Parent), d.UserCreated, d.Removed))
		}
		sort.Strings(ds)
		fmt.Fprintf(&b, "R disks=%v\n", ds)
		var cs []string
		for p, l := range st.Children {
			var rl []string
			for _, c := range l {
				rl = append(rl, r.name(c))
			}
			sort.Strings(rl)
			cs = append(cs, r.name(p)+"<"+strings.Join(rl, ","))
		}
		sort.Strings(cs)
		fmt.Fprintf(&b, "R children=%v\n", cs)
	} else {
		b.WriteString("R closed\n")
	}
	if x.hold != nil {
		// pending holes, in queue order (the order decides nothing the code can observe, but keeping it is merely finer)
		b.WriteString("H held")
		for _, h := range replica.VerifQueuedHoles() {
			fmt.Fprintf(&b, " %s/%v@%d+%d", r.name(h.File), h.Closed, h.Off, h.Len)
		}
		b.WriteString("\n")
	}
	var files []string
	for _, e := range ents {
		n := e.Name()
		d := r.name(n)
		if strings.HasSuffix(n, ".img") {
			d += " " + x.fileDesc(filepath.Join(x.dir, n), r)
		} else if strings.HasSuffix(n, ".meta") && n != "volume.meta" {
			d += " " + x.metaDesc(filepath.Join(x.dir, n), r)
		}
		files = append(files, d)
	}
	sort.Strings(files)
	b.WriteString("F " + strings.Join(files, "\nF ") + "\n")
	txt := b.String()
	h := sha1.Sum([]byte(txt))
	k := fmt.Sprintf("%x", h[:12])
	if len(keyTexts) > 64 {
		keyTexts = map[string]string{}
	}
	keyTexts[k] = txt
	return k
}

func diskIf(n string) string {
	if n == "" {
		return ""
	}
	return disk(n)
}

var revRe = regexp.MustCompile(`"RevisionCounter":\d+`)
var createdRe = regexp.MustCompile(`"Created":"[^"]*"`)

func (x *inst) metaDesc(p string, r *renamer) string {
	b, err := os.ReadFile(p)
	if err != nil {
		return "ERR"
	}
	s := revRe.ReplaceAllString(strings.TrimSpace(string(b)), `"RevisionCounter":N`)
	s = createdRe.ReplaceAllString(s, "")
	return r.name(s)
}
