package ea

import (
	"encoding/json"
	"fmt"
	"os"
	"path/filepath"
	"strings"

	fibmap "github.com/frostschutz/go-fibmap"
	"github.com/openebs/jiva/replica"
	jsync "github.com/openebs/jiva/sync"
	"github.com/openebs/jiva/types"
	"github.com/openebs/sparse-tools/sparse"
)

func count(path []string, pfx ...string) int { return 0 }

// promised reports whether the content of model snapshot s is promised: retained user snapshots always; others only
// while reclamation has never been on in this process state.
func (x *inst) promised(s *Snap) bool {
	if s.Retained() {
		return true
	}
	return !x.cfg.Punch && !types.ShouldPunchHoles
}

// enabled lists the events of the configured alphabet that make sense in the reached state.
func (x *inst) enabled() []string {
	m := x.m
	c := x.cfg
	var out []string
	nw := int(m.NW)
	if m.Deleted {
		if x.hold != nil {
			return []string{"Release"}
		}
		return nil
	}
	for _, t := range c.Alphabet {
		switch t {
		case "W":
			if c.MaxWrites > 0 && nw >= c.MaxWrites {
				continue
			}
			for _, s := range c.WShapes {
				if s[0]+s[1] <= len(m.Live) {
					out = append(out, fmt.Sprintf("W:%d:%d", s[0], s[1]))
				}
			}
		case "ULMW":
			if !m.Open || (c.MaxWrites > 0 && nw >= c.MaxWrites) || (m.Mode != "RW" && m.Mode != "WO") {
				continue
			}
			for _, s := range c.WShapes {
				if s[0]+s[1] <= len(m.Live) {
					out = append(out, fmt.Sprintf("ULMW:%d:%d", s[0], s[1]))
				}
			}
		case "R":
			if !m.Open {
				continue
			}
			for _, s := range c.RShapes {
				if s[0]+s[1] <= len(m.Live) {
					out = append(out, fmt.Sprintf("R:%d:%d", s[0], s[1]))
				}
			}
		case "SnapU", "SnapA":
			if c.MaxSnaps > 0 && m.NSnap >= c.MaxSnaps {
				continue
			}
			out = append(out, t)
		case "Mark":
			if !m.Open || m.Mode != "RW" {
				continue
			}
			for i := 1; i < len(m.Chain)-1; i++ {
				if !m.Chain[i].Removed {
					out = append(out, fmt.Sprintf("Mark:%d", i))
				}
			}
		case "Rm":
			if !m.Open || m.Mode != "RW" {
				continue
			}
			for i := 1; i < len(m.Chain)-1; i++ {
				if c.SysRmOnly && (m.Chain[i].Retained() || m.Chain[i-1].Retained()) {
					continue
				}
				out = append(out, fmt.Sprintf("Rm:%d", i))
			}
		case "Fold":
			if !m.Open || m.Mode != "RW" {
				continue
			}
			for i := 1; i < len(m.Chain)-1; i++ {
				if s := m.Chain[i]; s.Removed && !s.Folded && !m.Chain[i-1].Retained() {
					out = append(out, fmt.Sprintf("Fold:%d", i))
				}
			}
		case "RmF":
			if !m.Open || m.Mode != "RW" {
				continue
			}
			for i := 1; i < len(m.Chain)-1; i++ {
				if m.Chain[i].Folded {
					out = append(out, fmt.Sprintf("RmF:%d", i))
				}
			}
		case "Revert":
			if !m.Open {
				continue
			}
			for i := range m.Chain {
				if x.promised(m.Chain[i]) {
					out = append(out, fmt.Sprintf("Revert:%d", i))
				}
			}
		case "RevertO":
			if !m.Open {
				continue
			}
			for _, o := range m.Orphans {
				if x.promised(o) {
					out = append(out, "RevertO:"+o.Name)
				}
			}
		case "SnapDupO":
			if !m.Open || m.Mode != "RW" {
				continue
			}
			for _, o := range m.Orphans {
				out = append(out, "SnapDupO:"+o.Name)
			}
		case "RmO":
			if !m.Open || m.Mode != "RW" {
				continue
			}
			for _, o := range m.Orphans {
				if m.leaf(o.Name) {
					out = append(out, "RmO:"+o.Name)
				}
			}
		case "MarkO":
			if !m.Open || m.Mode != "RW" {
				continue
			}
			for _, o := range m.Orphans {
				if !o.Removed {
					out = append(out, "MarkO:"+o.Name)
				}
			}
		case "Clean":
			if !m.Open || m.Mode != "RW" || m.Checkpoint == "" {
				continue
			}
			for _, i := range x.candidates() {
				if i > 0 {
					out = append(out, fmt.Sprintf("Clean:%d", i))
				}
			}
		case "RmGate":
			if m.Open && m.Mode != "RW" && len(m.Chain) >= 2 {
				out = append(out, t)
			}
		case "Sync":
			out = append(out, t)
		case "Unmap":
			if !m.Open { // on an open replica unmap discards data (contents undefined afterwards): outside the read model
				out = append(out, t)
			}
		case "Grow":
			if !m.Open || (c.MaxGrow > 0 && len(m.Live)/SPB >= c.Blocks+c.MaxGrow) {
				continue
			}
			out = append(out, "Grow:1")
		case "Checkpoint":
			if !m.Open {
				continue
			}
			for i := range m.Chain {
				out = append(out, fmt.Sprintf("Checkpoint:%d", i))
			}
		case "RmHead", "RmUnknown", "RmRawHead", "RmRawUnknown", "RevertUnknown", "Shrink", "ResizeGarbage", "ResizeEmpty":
			if m.Open && (m.Mode == "RW" || strings.HasPrefix(t, "Re") || t == "Shrink") {
				out = append(out, t)
			}
		case "RmLatest", "RmRawLatest", "RmBase", "SnapDup", "SnapDupOld":
			if m.Open && m.Mode == "RW" && len(m.Chain) >= 1 {
				out = append(out, t)
			}
		case "RmWrongMode":
			if m.Open && m.Mode == "RW" && len(m.Chain) >= 3 {
				out = append(out, t)
			}
		case "ULMFF":
			if !m.Open {
				continue
			}
			for i := 1; i <= len(m.Chain); i++ { // chain files below the head
				out = append(out, fmt.Sprintf("ULMFF:%d", i))
			}
		case "ReopenP", "ReopenN", "Reload", "ReloadULM":
			if m.Open {
				out = append(out, t)
			}
		case "Hold":
			if x.hold == nil && types.ShouldPunchHoles {
				out = append(out, t)
			}
		case "Release":
			if x.hold != nil {
				out = append(out, t)
			}
		case "Delete":
			if m.Open {
				out = append(out, t)
			}
		case "Close":
			out = append(out, t)
		case "Open":
			out = append(out, t)
		default:
			// literal event (Mode:RW, Rebuild:t, SetRev:7, …)
			out = append(out, t)
		}
	}
	return out
}

func (x *inst) wants(o string) bool { return x.cfg.has(x.cfg.Oracles, o) }

// oracles evaluates the configured oracles on the reached state.  It runs after the key was taken: its reads fill the
// lazily built block map, but successors are always recomputed from scratch, so these side effects are never seen.
func (x *inst) oracles(key string, final bool) {
	m := x.m
	if m.Deleted {
		return
	}
	deep := final || !deepSeen[key]
	if len(deepSeen) > 200000 {
		deepSeen = map[string]bool{}
	}
	deepSeen[key] = true
	if x.wants("restview") {
		x.restView()
		if len(x.viol) > 0 {
			return
		}
	}
	if x.wants("rev") && m.Open {
		var got int64
		x.guard("rev", func() error { got = x.srv.Replica().GetRevisionCounter(); return nil })
		x.cnt["rev_checks"]++
		if got != m.Rev {
			x.violate("revision-counter", "rev-mismatch", fmt.Sprintf("revision counter %d, model %d", got, m.Rev))
			return
		}
	}
	if x.wants("candidates") && m.Open {
		if !x.candidateOracle() {
			return
		}
	}
	if x.wants("chain") && m.Open {
		if !x.chainOracle() {
			return
		}
	}
	if x.wants("snapdirect") && m.Open {
		if !x.snapDirect() {
			return
		}
	}
	if x.wants("read") && m.Open {
		n := len(m.Live)
		if x.cfg.AllReads && deep { // every (offset,length) pair, once per distinct state per worker
			for off := 0; off < n; off++ {
				for l := 1; off+l <= n; l++ {
					if !x.readCheck(off, l, "all-pairs") {
						return
					}
				}
			}
		} else {
			for _, s := range x.cfg.RShapes {
				if s[0]+s[1] <= n && !x.readCheck(s[0], s[1], "shape") {
					return
				}
			}
			if !x.readCheck(0, n, "full") {
				return
			}
		}
	}
	x.inDeep = true
	if deep && x.wants("snaprevert") {
		if !x.snapRevert() {
			return
		}
	}
	if deep && x.wants("crashopen") && m.Open {
		if !x.crashOpenOracle() {
			return
		}
	}
	if deep && x.wants("reopen") && m.Open {
		x.reopenOracle()
	}
}

// crashOpenOracle: the process dies right now (the directory is copied as it is, nothing is closed) and the copy is
// opened by the real code: every operation of the path had returned, so the copy must show the same chain, attributes,
// size, data (and revision counter) as the live replica / the model - no effect may live in memory only.
func (x *inst) crashOpenOracle() bool {
	x.cnt["crashopen_checks"]++
	cp := x.dir + "-copy"
	os.RemoveAll(cp)
	if err := copyDir(x.dir, cp); err != nil {
		panic("copyDir: " + err.Error())
	}
	defer os.RemoveAll(cp)
	live := x.chainNames()
	attrsLive := x.srv.Replica().ListDisks()
	srv2 := replica.NewServer("127.0.0.1:9602", cp, 512, "")
	var chain []string
	var got []byte
	var size, rev int64
	var attrs map[string]types.DiskInfo
	err := x.guard("open-copy-after-death", func() error {
		if e := srv2.Open(); e != nil {
			return fmt.Errorf("open: %v", e)
		}
		defer srv2.Close()
		r := srv2.Replica()
		var e error
		if chain, e = r.Chain(); e != nil {
			return fmt.Errorf("chain: %v", e)
		}
		size = r.Info().Size
		rev = r.GetRevisionCounter()
		attrs = r.ListDisks()
		got = make([]byte, size)
		if size > 0 {
			if _, e := srv2.ReadAt(got, 0); e != nil {
				return fmt.Errorf("read: %v", e)
			}
		}
		return nil
	})
	if len(x.viol) > 0 {
		return false
	}
	if err != nil {
		x.violate("death-reopen-failed", "death-reopen-failed", fmt.Sprintf("the directory as it is after the path cannot be opened: %v", err))
		return false
	}
	if fmt.Sprint(chain) != fmt.Sprint(live) {
		x.violate("death-changed-chain", "death-chain", fmt.Sprintf("chain of the live replica %v, after process death and reopen %v", live, chain))
		return false
	}
	if size != int64(len(x.m.Live))*Sector {
		x.violate("size-lost", "size-after-death", fmt.Sprintf("size after process death and reopen %d, model %d", size, len(x.m.Live)*Sector))
		return false
	}
	for _, n := range live[1:] {
		a, b := attrsLive[n], attrs[n]
		if a.Parent != b.Parent || a.Removed != b.Removed || a.UserCreated != b.UserCreated {
			x.violate("death-changed-attributes", "death-attributes", fmt.Sprintf("%s: live parent=%s removed=%v usercreated=%v, after process death and reopen parent=%s removed=%v usercreated=%v",
				n, a.Parent, a.Removed, a.UserCreated, b.Parent, b.Removed, b.UserCreated))
			return false
		}
	}
	if want := ExpectBytes(x.m.Live, 0, len(x.m.Live)); string(want) != string(got) {
		x.violate("read-mismatch", "read-mismatch-after-death", "data after process death and reopen: "+diffTags(got, x.m.Live, 0, x.m.NW))
		return false
	}
	if x.wants("rev") && rev != x.m.Rev {
		x.violate("revision-counter", "rev-mismatch-after-death", fmt.Sprintf("revision counter after process death and reopen %d, model %d", rev, x.m.Rev))
		return false
	}
	return true
}

type diskMeta struct {
	Name, Parent         string
	Removed, UserCreated bool
}

// chainOracle: the chain is a single acyclic head→base path whose members have data+meta files and whose names and
// attributes are the model's.
func (x *inst) chainOracle() bool {
	m := x.m
	ch := x.chainNames()
	x.cnt["chain_checks"]++
	bad := func(sig, d string) bool {
		x.violate("chain-malformed", sig, d+"\n chain="+fmt.Sprint(ch))
		return false
	}
	if len(ch) != len(m.Chain)+1 {
		return bad("chain-length", fmt.Sprintf("chain has %d members, model %d", len(ch), len(m.Chain)+1))
	}
	seen := map[string]bool{}
	for i, n := range ch {
		if strings.HasPrefix(n, "ERR:") {
			return bad("chain-error", n)
		}
		if seen[n] {
			return bad("chain-cycle", "member twice: "+n)
		}
		seen[n] = true
		for _, suf := range []string{"", ".meta"} {
			if st, err := os.Stat(filepath.Join(x.dir, n+suf)); err != nil || st.IsDir() {
				return bad("chain-file-missing", "missing file "+n+suf)
			}
		}
		var dm diskMeta
		b, _ := os.ReadFile(filepath.Join(x.dir, n+".meta"))
		if err := json.Unmarshal(b, &dm); err != nil {
			return bad("chain-meta-unreadable", n+".meta: "+err.Error())
		}
		wantParent := ""
		if i+1 < len(ch) {
			wantParent = ch[i+1]
		}
		if dm.Parent != wantParent {
			return bad("chain-meta-parent", fmt.Sprintf("%s.meta parent %q, chain says %q", n, dm.Parent, wantParent))
		}
		if i > 0 {
			ms := m.Chain[len(m.Chain)-i]
			if n != disk(ms.Name) {
				return bad("chain-order", fmt.Sprintf("chain[%d]=%s, model %s", i, n, disk(ms.Name)))
			}
			if dm.UserCreated != ms.User || dm.Removed != ms.Removed {
				return bad("chain-attrs", fmt.Sprintf("%s: usercreated=%v removed=%v on disk, model %v %v", n, dm.UserCreated, dm.Removed, ms.User, ms.Removed))
			}
		}
	}
	// the public views agree
	disks := x.srv.Replica().ListDisks()
	for _, n := range ch {
		if _, ok := disks[n]; !ok {
			return bad("chain-listdisks", "ListDisks lacks "+n)
		}
	}
	return true
}

// blockOwner reads the newest copy of block b at or below chain file index top (files base..head) straight from the
// files: an independent re-statement of what a snapshot contains.
func (x *inst) directImage(files []string, top int) ([]byte, error) {
	size := int64(len(x.m.Live)) * Sector
	img := make([]byte, size)
	done := make([]bool, size/Block)
	for j := top; j >= 0; j-- {
		f, err := os.Open(filepath.Join(x.dir, files[j]))
		if err != nil {
			return nil, err
		}
		exts, errno := fibmap.Fiemap(f.Fd(), 0, uint64(size), 4096)
		if errno != 0 {
			f.Close()
			return nil, errno
		}
		for _, e := range exts {
			for b := e.Logical / Block; b < (e.Logical+e.Length+Block-1)/Block && int64(b) < size/Block; b++ {
				if !done[b] {
					done[b] = true
					if _, err := f.ReadAt(img[b*Block:(b+1)*Block], int64(b)*Block); err != nil {
						f.Close()
						return nil, err
					}
				}
			}
		}
		f.Close()
	}
	return img, nil
}

func (x *inst) snapDirect() bool {
	m := x.m
	ch := x.chainNames() // head first
	if len(ch) != len(m.Chain)+1 {
		return true // chain oracle reports it where enabled
	}
	files := make([]string, len(ch))
	for i, n := range ch {
		files[len(ch)-1-i] = n
	}
	for i, s := range m.Chain {
		if !x.promised(s) {
			continue
		}
		x.cnt["snap_direct_checks"]++
		img, err := x.directImage(files, i)
		if err != nil {
			x.violate("snapshot-unreadable", "snapdirect-error", err.Error())
			return false
		}
		want := ExpectBytes(s.Img, 0, len(s.Img))
		if string(img) != string(want) {
			kind := "auto"
			if s.Retained() {
				kind = "user"
			}
			x.violate("snapshot-changed", "snapshot-changed:"+kind, fmt.Sprintf("snapshot %s (%s, chain index %d of %d) no longer holds the image taken: %s", s.Name, kind, i, len(m.Chain), diffTags(img, s.Img, 0, m.NW)))
			return false
		}
	}
	return true
}

// copyDir copies the replica directory preserving the extent layout (holes stay holes).
func copyDir(src, dst string) error {
	os.RemoveAll(dst)
	if err := os.MkdirAll(dst, 0755); err != nil {
		return err
	}
	ents, err := os.ReadDir(src)
	if err != nil {
		return err
	}
	for _, e := range ents {
		sp, dp := filepath.Join(src, e.Name()), filepath.Join(dst, e.Name())
		st, err := os.Stat(sp)
		if err != nil {
			return err
		}
		if !strings.HasSuffix(e.Name(), ".img") {
			b, err := os.ReadFile(sp)
			if err != nil {
				return err
			}
			if err := os.WriteFile(dp, b, 0644); err != nil {
				return err
			}
			continue
		}
		in, err := os.Open(sp)
		if err != nil {
			return err
		}
		out, err := sparse.NewDirectFileIoProcessor(dp, os.O_RDWR, 0644, true)
		if err != nil {
			in.Close()
			return err
		}
		out.Truncate(st.Size())
		exts, errno := fibmap.Fiemap(in.Fd(), 0, uint64(st.Size()), 4096)
		if errno != 0 {
			return errno
		}
		for _, ex := range exts {
			buf := sparse.AllocateAligned(int(ex.Length))
			if _, err := in.ReadAt(buf, int64(ex.Logical)); err != nil {
				return err
			}
			if _, err := out.WriteAt(buf, int64(ex.Logical)); err != nil {
				return err
			}
		}
		in.Close()
		out.Close()
	}
	return nil
}

// snapRevert: byte-copy the directory, open the copy with the real code, revert it to S and read the volume.
func (x *inst) snapRevert() bool {
	m := x.m
	if m.Open {
		// metadata on disk must be current: nothing to flush, every management op persists synchronously
	}
	cands := append([]*Snap{}, m.Chain...)
	for _, o := range m.Orphans {
		// a retained user snapshot outside the chain is still promised: reverting to it reads its image
		if x.cfg.has(x.cfg.Alphabet, "RevertO") {
			cands = append(cands, o)
		}
	}
	for i, s := range cands {
		if !x.promised(s) {
			continue
		}
		x.cnt["snap_revert_checks"]++
		cp := x.dir + "-copy"
		if err := copyDir(x.dir, cp); err != nil {
			panic("copyDir: " + err.Error())
		}
		srv2 := replica.NewServer("127.0.0.1:9602", cp, 512, "")
		var got []byte
		err := x.guard("revert-on-copy", func() error {
			if e := srv2.Open(); e != nil {
				return fmt.Errorf("open copy: %v", e)
			}
			if e := srv2.Revert(disk(s.Name), created); e != nil {
				srv2.Close()
				return fmt.Errorf("revert copy: %v", e)
			}
			got = make([]byte, len(s.Img)*Sector)
			if _, e := srv2.ReadAt(got, 0); e != nil {
				srv2.Close()
				return fmt.Errorf("read copy: %v", e)
			}
			return srv2.Close()
		})
		os.RemoveAll(cp)
		if len(x.viol) > 0 {
			return false
		}
		if err != nil {
			x.violate("revert-failed", "revert-on-copy-failed", fmt.Sprintf("snapshot %s: %v", s.Name, err))
			return false
		}
		want := ExpectBytes(s.Img, 0, len(s.Img))
		if string(got) != string(want) {
			kind := "auto"
			if s.Retained() {
				kind = "user"
			}
			x.violate("revert-mismatch", "revert-mismatch:"+kind, fmt.Sprintf("reverting a copy to snapshot %s (%s, chain index %d of %d) reads: %s", s.Name, kind, i, len(m.Chain), diffTags(got, s.Img, 0, m.NW)))
			return false
		}
	}
	return true
}

// reopenOracle: close → open reproduces chain, attributes, data and counter.
func (x *inst) reopenOracle() {
	before := x.chainNames()
	attrsBefore := x.srv.Replica().ListDisks()
	x.reopen(true, "oracle-reopen")
	if len(x.viol) > 0 {
		return
	}
	x.cnt["reopen_checks"]++
	after := x.chainNames()
	if fmt.Sprint(before) != fmt.Sprint(after) {
		x.violate("reopen-changed-chain", "reopen-chain", fmt.Sprintf("chain before %v after %v", before, after))
		return
	}
	if x.wants("chain") && !x.chainOracle() {
		return
	}
	// per-snapshot attributes as the API reports them (a revision count of <= 1 is refreshed on open by design)
	attrsAfter := x.srv.Replica().ListDisks()
	for _, n := range before {
		a, b := attrsBefore[n], attrsAfter[n]
		if a.Parent != b.Parent || a.Removed != b.Removed || a.UserCreated != b.UserCreated || (a.RevisionCounter > 1 && a.RevisionCounter != b.RevisionCounter) {
			x.violate("reopen-changed-attributes", "reopen-attributes", fmt.Sprintf("%s: before reopen parent=%s removed=%v usercreated=%v revisioncount=%d, after reopen parent=%s removed=%v usercreated=%v revisioncount=%d",
				n, a.Parent, a.Removed, a.UserCreated, a.RevisionCounter, b.Parent, b.Removed, b.UserCreated, b.RevisionCounter))
			return
		}
	}
	if !x.readCheck(0, len(x.m.Live), "after-reopen") {
		return
	}
	if x.wants("rev") {
		got := x.srv.Replica().GetRevisionCounter()
		if got != x.m.Rev {
			x.violate("revision-counter", "rev-mismatch-after-reopen", fmt.Sprintf("revision counter after reopen %d, model %d", got, x.m.Rev))
			return
		}
	}
	if sz := x.srv.Replica().Info().Size; sz != int64(len(x.m.Live))*Sector {
		x.violate("size-lost", "size-after-reopen", fmt.Sprintf("size after reopen %d, model %d", sz, len(x.m.Live)*Sector))
	}
}

// candidates asks the real cleaner filter which snapshots it would delete, given the replica's checkpoint; returns model
// chain indexes (0 = base), -1 for names that are not chain members.
func (x *inst) candidates() []int {
	var names []string
	x.guard("candidates", func() error {
		var e error
		names, e = jsync.GetDeleteCandidateChain(x.srv.Replica(), x.srv.Replica().Info().Checkpoint)
		return e
	})
	var out []int
	for _, n := range names {
		idx := -1
		for i, s := range x.m.Chain {
			if disk(s.Name) == n {
				idx = i
			}
		}
		out = append(out, idx)
	}
	return out
}

// candidateOracle: the cleaner never selects head, latest, base, the checkpoint or anything newer, a retained user
// snapshot, or a snapshot whose merge target (parent) is a retained user snapshot.
func (x *inst) candidateOracle() bool {
	m := x.m
	x.cnt["candidate_checks"]++
	cp := -1
	for i, s := range m.Chain {
		if s.Name == m.Checkpoint {
			cp = i
		}
	}
	c := x.candidates()
	x.cnt["candidates_returned"] += len(c)
	bad := func(sig, d string) bool {
		x.violate("cleaner-candidate", sig, fmt.Sprintf("%s; candidates(model chain indexes, 0=base)=%v checkpoint index=%d chain=%s", d, c, cp, x.chainDesc()))
		return false
	}
	for _, i := range c {
		switch {
		case i < 0:
			return bad("candidate-not-in-chain", "a candidate is not a chain snapshot (head or unknown)")
		case cp < 0:
			return bad("candidate-without-checkpoint", "candidates returned although the checkpoint is not a chain member")
		case i == 0:
			return bad("candidate-base", "base snapshot selected")
		case i == len(m.Chain)-1:
			return bad("candidate-latest", "latest snapshot selected")
		case i >= cp:
			return bad("candidate-checkpoint-or-newer", "checkpoint or a newer snapshot selected")
		case m.Chain[i].Retained():
			return bad("candidate-retained-user", "retained user snapshot selected")
		case m.Chain[i-1].Retained():
			return bad("candidate-merges-into-retained-user", "snapshot whose merge target is a retained user snapshot selected")
		}
	}
	return true
}

func (x *inst) chainDesc() string {
	var l []string
	for _, s := range x.m.Chain {
		k := "a"
		if s.User {
			k = "u"
		}
		if s.Removed {
			k += "r"
		}
		l = append(l, k)
	}
	return "[" + strings.Join(l, " ") + "]"
}
