package ea

import (
	"fmt"
	"net"
	"net/http"
	"net/http/httptest"
	"time"

	"github.com/openebs/jiva/backend/remote"
	"github.com/openebs/jiva/replica"
	rclient "github.com/openebs/jiva/replica/client"
	"github.com/openebs/jiva/replica/rest"
	"github.com/openebs/jiva/rpc"
	"github.com/openebs/jiva/types"
)

// mgmtAPI is the seam between the management events of E-A and the replica.  Direct form: the exported methods of
// *replica.Server.  REST form (Cfg.ViaREST): the way the rest of jiva reaches them - the real replica/rest router in
// front of the same server, driven by the two real client packages (backend/remote.Remote for what the controller
// sends, replica/client.ReplicaClient for what the sync tasks and the controller's revert send).  The REST form puts
// the handlers' state/action table and both request translations inside the explored system.
type mgmtAPI interface {
	Snapshot(name string, userCreated bool, created string) error
	Revert(name, created string) error
	RemoveDiffDisk(name string) error
	PrepareRemoveDisk(name string) ([]replica.PrepareRemoveAction, error)
	ReplaceDisk(target, source string) error
	Reload() error
	Close() error
	Open() error
	Resize(size string) error
	SetReplicaMode(mode string) error
	SetCheckpoint(name string) error
	SetRebuilding(b bool) error
	SetRevisionCounter(n int64) error
}

// dataAPI is the data path seam: direct calls on *replica.Server, or (Cfg.ViaRPC) the real rpc.Client talking over a
// loopback TCP connection to the real rpc.Server whose data processor is the same replica.Server - the way the
// controller's backend reaches a replica.  The rpc goroutines run free; every call is synchronous for the harness.
type dataAPI interface {
	WriteAt(buf []byte, off int64) (int, error)
	ReadAt(buf []byte, off int64) (int, error)
	Sync() (int, error)
	Unmap(off, length int64) (int, error)
}

type rpcPath struct {
	srv    *replica.Server
	client *rpc.Client
	cconn  net.Conn
	sconn  net.Conn
	done   chan struct{}
}

var rpcCalls int

func (x *inst) dio() dataAPI {
	if !x.cfg.ViaRPC {
		return x.srv
	}
	if x.rpc == nil || x.rpc.srv != x.srv {
		x.closeRPC()
		l, err := net.Listen("tcp", "127.0.0.1:0")
		if err != nil {
			panic("rpc listen: " + err.Error())
		}
		acc := make(chan net.Conn, 1)
		go func() { c, _ := l.Accept(); acc <- c }()
		cc, err := net.Dial("tcp", l.Addr().String())
		if err != nil {
			panic("rpc dial: " + err.Error())
		}
		sc := <-acc
		l.Close()
		p := &rpcPath{srv: x.srv, cconn: cc, sconn: sc, done: make(chan struct{})}
		server := rpc.NewServer(sc, x.srv)
		go func() { server.Handle(); close(p.done) }()
		p.client = rpc.NewClient(cc, make(chan struct{}, 16))
		x.rpc = p
	}
	rpcCalls++
	return x.rpc.client
}

func (x *inst) closeRPC() {
	if x.rpc == nil {
		return
	}
	x.rpc.cconn.Close()
	x.rpc.sconn.Close()
	select {
	case <-x.rpc.done:
	case <-time.After(5 * time.Second):
	}
	x.rpc = nil
}

const restHost = "127.0.0.1:9502"

var curRouter http.Handler
var restReqs int // requests served by the router during the current execution

type eaTransport struct{}

func (eaTransport) RoundTrip(req *http.Request) (*http.Response, error) {
	if curRouter == nil || req.URL.Host != restHost {
		return nil, fmt.Errorf("dial tcp %s: connection refused", req.URL.Host)
	}
	restReqs++
	rec := httptest.NewRecorder()
	curRouter.ServeHTTP(rec, req)
	return rec.Result(), nil
}

type restAPI struct {
	srv *replica.Server
	rem *remote.Remote
	rc  *rclient.ReplicaClient
}

func (x *inst) api() mgmtAPI {
	if !x.cfg.ViaREST {
		return x.srv
	}
	if x.rest == nil || x.rest.srv != x.srv {
		http.DefaultTransport = eaTransport{}
		rc, err := rclient.NewReplicaClient("tcp://" + restHost)
		if err != nil {
			panic(err)
		}
		x.rest = &restAPI{srv: x.srv, rem: remote.NewForVerif("tcp://"+restHost, restHost, nil), rc: rc}
		x.restRouter = rest.NewRouter(rest.NewServer(x.srv))
	}
	curRouter = x.restRouter
	return x.rest
}

func (a *restAPI) Snapshot(name string, userCreated bool, created string) error {
	return a.rem.Snapshot(name, userCreated, created)
}
func (a *restAPI) Revert(name, created string) error    { return a.rc.Revert(name, created) }
func (a *restAPI) RemoveDiffDisk(name string) error     { return a.rc.RemoveDisk(name) }
func (a *restAPI) ReplaceDisk(target, src string) error { return a.rc.ReplaceDisk(target, src) }
func (a *restAPI) PrepareRemoveDisk(name string) ([]replica.PrepareRemoveAction, error) {
	out, err := a.rc.PrepareRemoveDisk(name)
	return out.Operations, err
}
func (a *restAPI) Reload() error                    { _, err := a.rc.ReloadReplica(); return err }
func (a *restAPI) Close() error                     { return a.rc.Close() }
func (a *restAPI) Open() error                      { return a.rc.OpenReplica() }
func (a *restAPI) Resize(size string) error         { return a.rem.Resize("", size) }
func (a *restAPI) SetReplicaMode(mode string) error { return a.rem.SetReplicaMode(types.Mode(mode)) }
func (a *restAPI) SetCheckpoint(name string) error  { return a.rem.SetCheckpoint(name) }
func (a *restAPI) SetRebuilding(b bool) error       { return a.rem.SetRebuilding(b) }
func (a *restAPI) SetRevisionCounter(n int64) error { return a.rem.SetRevisionCounter(n) }

// restView (oracle "restview", REST runs): what GET /v1/replicas/1 reports - read through the real ReplicaClient - must
// be what the replica holds: the revision counter (also while the replica is closed: the persisted value), the chain
// while it is open, the size.
func (x *inst) restView() {
	if !x.cfg.ViaREST || x.m.Deleted {
		return
	}
	x.api()
	r, err := x.rest.rc.GetReplica()
	if err != nil {
		x.violate("rest-view", "rest-get-failed", "GET /v1/replicas/1 failed: "+err.Error())
		return
	}
	x.cnt["rest_view_checks"]++
	m := x.m
	if x.wants("rev") && r.RevisionCounter != fmt.Sprint(m.Rev) {
		x.violate("rest-view", "rest-revision-counter", fmt.Sprintf("GET /v1/replicas/1 reports revision counter %q, the replica holds %d (open=%v)", r.RevisionCounter, m.Rev, m.Open))
	}
	if want := fmt.Sprint((len(m.Live)) * Sector); r.Size != want {
		x.violate("rest-view", "rest-size", fmt.Sprintf("GET /v1/replicas/1 reports size %q, the volume has %s bytes", r.Size, want))
	}
	if m.Open {
		if got, want := fmt.Sprint(r.Chain), fmt.Sprint(x.chainNames()); got != want {
			x.violate("rest-view", "rest-chain", fmt.Sprintf("GET /v1/replicas/1 reports chain %s, the replica has %s", got, want))
		}
	}
}
