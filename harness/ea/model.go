// Package ea is engine E-A: every operation sequence, up to a depth, on a real on-disk replica.Server, compared
// step by step with a boring in-memory reference model of the volume and its snapshots.
package ea

import (
	"fmt"
)

const (
	Sector = 512
	Block  = 4096
	SPB    = Block / Sector // sectors per block
)

// Pat is the byte written by write number tag at absolute byte offset off.  Never zero, depends on the tag, the
// sector and the position inside the sector, so misplaced, stale or missing data is visible.
func Pat(tag uint8, off int64) byte {
	return byte(1 + (int64(tag)*61+(off/Sector)*17+(off%Sector)*5)%251)
}

func Fill(buf []byte, tag uint8, off int64) {
	for i := range buf {
		buf[i] = Pat(tag, off+int64(i))
	}
}

// TagOf decodes the tag of one sector's content; 0 = zeros, 255 = not any known pattern.
func TagOf(sec []byte, off int64, maxTag uint8) uint8 {
	zero := true
	for _, b := range sec {
		if b != 0 {
			zero = false
			break
		}
	}
	if zero {
		return 0
	}
	for t := uint8(1); t <= maxTag; t++ {
		if sec[0] != Pat(t, off) {
			continue
		}
		ok := true
		for i := range sec {
			if sec[i] != Pat(t, off+int64(i)) {
				ok = false
				break
			}
		}
		if ok {
			return t
		}
	}
	return 255
}

// Snap is one snapshot in the reference model.
type Snap struct {
	Name    string
	User    bool
	Removed bool
	Folded  bool    // the coalesce step of its deletion has run (its blocks were copied into the parent); not yet unlinked
	Deduped bool    // ... and a preload with reclamation on has run since (it treats the parent's fresh copies as duplicates)
	Img     []uint8 // per-sector tag of the volume image captured
	Parent  string  // model parent name ("" for base)
}

// Model is the reference: what the volume and each snapshot must read.
type Model struct {
	Live       []uint8
	Chain      []*Snap // base … latest
	Orphans    []*Snap // left behind by reverts (still on disk, not in the chain)
	Rev        int64
	Open       bool
	Mode       string // INIT RW WO CLOSED
	NSnap      int
	NW         uint8
	Rebuilding bool
	Checkpoint string
	Dirty      bool
	Deleted    bool   // Server.Delete was called: terminal (only a pending Release remains)
	CloneOf    string // E-C: this is a clone replica whose snapshot files were copied and which has not been rewired yet: name of the snapshot it is a clone of
}

func NewModel(sectors int) *Model {
	return &Model{Live: make([]uint8, sectors), Rev: 1, Mode: "INIT"}
}

func (m *Model) Sectors() int { return len(m.Live) }

func (m *Model) Write(off, n int) uint8 {
	m.NW++
	for i := off; i < off+n; i++ {
		m.Live[i] = m.NW
	}
	return m.NW
}

func (m *Model) Snapshot(user bool) *Snap {
	m.NSnap++
	s := &Snap{Name: fmt.Sprintf("s%d", m.NSnap), User: user, Img: append([]uint8(nil), m.Live...)}
	if len(m.Chain) > 0 {
		s.Parent = m.Chain[len(m.Chain)-1].Name
	}
	m.Chain = append(m.Chain, s)
	return s
}

// Remove merges chain member i (0 = base) into its parent and unlinks it: the parent keeps its name and from now on
// holds the removed member's image.
func (m *Model) Remove(i int) {
	d := m.Chain[i]
	p := m.Chain[i-1]
	p.Img = d.Img
	for _, o := range m.Orphans {
		if o.Parent == d.Name {
			o.Parent = p.Name
		}
	}
	if i+1 < len(m.Chain) {
		m.Chain[i+1].Parent = p.Name
	}
	m.Chain = append(m.Chain[:i], m.Chain[i+1:]...)
}

func (m *Model) Revert(i int) {
	for _, s := range m.Chain[i+1:] {
		m.Orphans = append(m.Orphans, s)
	}
	m.Chain = m.Chain[:i+1]
	m.Live = append([]uint8(nil), m.Chain[i].Img...)
}

// orphan returns the orphan named name.
func (m *Model) orphan(name string) (int, *Snap) {
	for i, o := range m.Orphans {
		if o.Name == name {
			return i, o
		}
	}
	return -1, nil
}

// leaf reports whether no snapshot (chain or orphan) has name as its parent.
func (m *Model) leaf(name string) bool {
	for _, s := range m.Chain {
		if s.Parent == name {
			return false
		}
	}
	for _, s := range m.Orphans {
		if s.Parent == name {
			return false
		}
	}
	return true
}

// RevertOrphan: the volume is reverted to a snapshot an earlier revert left outside the chain.  The new chain is the
// parent path of that snapshot; every other snapshot is an orphan.
func (m *Model) RevertOrphan(name string) {
	all := map[string]*Snap{}
	for _, s := range m.Chain {
		all[s.Name] = s
	}
	for _, s := range m.Orphans {
		all[s.Name] = s
	}
	var path []*Snap
	for cur := all[name]; cur != nil; cur = all[cur.Parent] {
		path = append([]*Snap{cur}, path...)
		if cur.Parent == "" {
			break
		}
	}
	in := map[string]bool{}
	for _, s := range path {
		in[s.Name] = true
	}
	var orph []*Snap
	for _, s := range append(append([]*Snap{}, m.Chain...), m.Orphans...) {
		if !in[s.Name] {
			orph = append(orph, s)
		}
	}
	m.Chain, m.Orphans = path, orph
	m.Live = append([]uint8(nil), all[name].Img...)
}

func (m *Model) RemoveOrphan(name string) {
	if i, _ := m.orphan(name); i >= 0 {
		m.Orphans = append(m.Orphans[:i], m.Orphans[i+1:]...)
	}
}

func (m *Model) Grow(sectors int) {
	add := make([]uint8, sectors-len(m.Live))
	m.Live = append(m.Live, add...)
	for _, s := range m.Chain {
		s.Img = append(s.Img, add...)
	}
	for _, s := range m.Orphans {
		s.Img = append(s.Img, add...)
	}
}

// Retained reports whether the content of a snapshot is promised to the user.
func (s *Snap) Retained() bool { return s.User && !s.Removed }

func ExpectBytes(img []uint8, off, n int) []byte {
	out := make([]byte, n*Sector)
	for i := 0; i < n; i++ {
		t := img[off+i]
		if t != 0 {
			Fill(out[i*Sector:(i+1)*Sector], t, int64(off+i)*Sector)
		}
	}
	return out
}
