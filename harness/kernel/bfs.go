package kernel

import (
	"encoding/json"
	"fmt"
	"os"
	"path/filepath"
	"sort"
	"strings"
	"sync"
	"time"
)

// BFS describes one explicit-state search: states are event paths, successors are computed by replaying the path plus
// one event on a fresh real instance in a worker process, states are deduplicated by the canonical key the worker
// returns, violating states are not expanded (so reported histories are minimal).
type BFS struct {
	Property        string
	Engine          string
	Cfg             interface{}
	MaxDepth        int
	Budget          time.Duration
	Workers         int
	WorkerArgs      []string
	WorkerEnv       []string
	Roots           [][]string
	DiedIsViolation bool // engines that look for process death (C14) set this
	FlakyOK         bool // report a violation that came back in at least one of five replays (engines whose executions are sequential real code)
	Timeout         time.Duration
	MaxReport       int
	Quiet           bool
	EvidenceName    string // file name stem under evidence/ (default: Property); parts of a composite check use <id>-<part>.part
	// ConfCfg, when set, is a second configuration (the same search over the bound implementation instead of the model
	// stand-in): the shortest path to every distinct state of depth <= ConfMaxDepth is replayed with it after the search
	// and must give the same Conf observations; its oracle violations are reported like any other.
	ConfCfg      interface{}
	ConfMaxDepth int
	ConfMax      int
	// Prune lets the engine drop successor events on the coordinator side (per-path budgets).
	Prune func(path []string, ev string) bool
}

type FoundViolation struct {
	Path      []string  `json:"path"`
	Violation Violation `json:"violation"`
	Replay    string    `json:"replay"`
	Known     bool      `json:"known"`
}

type BFSResult struct {
	States         int
	Transitions    int
	DepthCompleted int
	Exhaustive     bool
	PerLevel       []int
	Violations     []FoundViolation
	Known          []FoundViolation
	Unstable       []FoundViolation
	Samples        [][]string
	Counters       map[string]int
	DistinctObs    int
	DeterminismOK  int
	ConfReplayed   int
	Wall           time.Duration
	HarnessErr     string
}

func (b *BFS) Run() *BFSResult {
	start := time.Now()
	res := &BFSResult{Counters: map[string]int{}, Exhaustive: true}
	cfg, _ := json.Marshal(b.Cfg)
	if b.MaxReport == 0 {
		b.MaxReport = 5
	}
	pool := &Pool{Args: b.WorkerArgs, Env: b.WorkerEnv, N: b.Workers, Timeout: b.Timeout}
	pool.Start()
	defer pool.Close()
	findings := LoadFindings()

	run := func(reqs []*Request) []*Response {
		out := make([]*Response, len(reqs))
		var wg sync.WaitGroup
		for i, r := range reqs {
			i, r := i, r
			r.ID = i
			wg.Add(1)
			pool.Submit(r, func(resp *Response) { out[i] = resp; wg.Done() })
		}
		wg.Wait()
		return out
	}

	seen := map[string]bool{}
	var confPaths [][]string
	var confWant []string
	obs := map[string]bool{}
	sigSeen := map[string]bool{}
	frontier := b.Roots
	if len(frontier) == 0 {
		frontier = [][]string{{}}
	}
	baseDepth := len(frontier[0])
	deadline := start.Add(b.Budget)
	for level := 0; level <= b.MaxDepth && len(frontier) > 0; level++ {
		final := level == b.MaxDepth
		// dispatch in chunks so the budget can stop us inside a level
		var resps []*Response
		var done [][]string
		chunk := 64 * pool.N
		stopped := false
		for off := 0; off < len(frontier); off += chunk {
			if b.Budget > 0 && time.Now().After(deadline) {
				stopped = true
				break
			}
			end := off + chunk
			if end > len(frontier) {
				end = len(frontier)
			}
			reqs := make([]*Request, 0, end-off)
			for _, p := range frontier[off:end] {
				reqs = append(reqs, &Request{Cfg: cfg, Path: p, Final: final})
			}
			rs := run(reqs)
			resps = append(resps, rs...)
			done = append(done, frontier[off:end]...)
			// determinism self-check: replay the first few executions of every level a second time
			if off == 0 && res.HarnessErr == "" {
				n := pool.N
				if n > len(reqs) {
					n = len(reqs)
				}
				again := make([]*Request, n)
				for i := 0; i < n; i++ {
					again[i] = &Request{Cfg: cfg, Path: reqs[i].Path, Final: final}
				}
				rs2 := run(again)
				for i := 0; i < n; i++ {
					if rs[i].Err == "" && rs2[i].Err == "" && (rs[i].Key != rs2[i].Key || rs[i].Obs != rs2[i].Obs) {
						tr := run([]*Request{{Cfg: cfg, Path: reqs[i].Path, Final: final, Trace: true}, {Cfg: cfg, Path: reqs[i].Path, Final: final, Trace: true}})
						res.HarnessErr = fmt.Sprintf("nondeterministic replay of %v:\n  key1=%s\n  key2=%s\n  obs1=%s obs2=%s\n--- keytext 1\n%s\n--- keytext 2\n%s\n--- trace A\n%s\n--- trace B\n%s", reqs[i].Path, rs[i].Key, rs2[i].Key, rs[i].Obs, rs2[i].Obs, rs[i].KeyText, rs2[i].KeyText,
							strings.Join(tr[0].Note, "\n"), strings.Join(tr[1].Note, "\n"))
						if !b.FlakyOK {
							return res
						}
						// sequential real code on a private directory: the replica itself answered differently the second
						// time.  Nothing is claimed from this search any more (Finish exits 2), but it goes on, because a
						// change that makes the code depend on the file system's layout usually also has a failing path
						// that fails every time, and that one is worth finding and reporting.
						fmt.Fprintf(os.Stderr, "NONDETERMINISTIC REPLAY at %v; the search continues only to look for a reproducible violation\n", reqs[i].Path)
						break
					}
					res.DeterminismOK++
				}
			}
		}
		var next [][]string
		newStates := 0
		for i, r := range resps {
			path := done[i]
			res.Transitions++
			if r.Err != "" && !r.Died {
				res.HarnessErr = fmt.Sprintf("worker error on %v: %s\n%s", path, r.Err, r.Log)
				return res
			}
			if r.Died {
				if !b.DiedIsViolation {
					res.HarnessErr = fmt.Sprintf("worker died on %v: %s\n%s", path, r.Err, tail(r.Log, 4000))
					return res
				}
				r.Violations = append(r.Violations, Violation{Oracle: "process-death", Signature: "died:" + lastOf(path), Detail: r.Err + "\n" + tail(r.Log, 3000)})
			}
			for k, v := range r.Counters {
				res.Counters[k] += v
			}
			obs[r.Obs] = true
			if len(r.Violations) > 0 {
				for _, v := range r.Violations {
					key := v.Oracle + "|" + v.Signature
					if sigSeen[key] {
						res.Counters["violating_paths_same_signature"]++
						continue
					}
					sigSeen[key] = true
					fv := FoundViolation{Path: path, Violation: v}
					if kf := KnownFor(findings, b.Property, v.Signature); kf != nil {
						fv.Known = true
						res.Known = append(res.Known, fv)
						fmt.Printf("KNOWN-FINDING: property=%s %s [signature %s; path %s]\n", b.Property, kf.What, v.Signature, strings.Join(path, " "))
						continue
					}
					if len(res.Violations) >= b.MaxReport {
						res.Counters["violations_not_reported_over_cap"]++
						continue
					}
					// believe it only if it fails 5 times out of 5
					again := make([]*Request, 5)
					for j := range again {
						again[j] = &Request{Cfg: cfg, Path: path, Final: final}
					}
					stable := true
					repro := 0
					for _, r2 := range run(again) {
						ok := false
						for _, v2 := range r2.Violations {
							if v2.Oracle == v.Oracle && v2.Signature == v.Signature {
								ok = true
							}
						}
						if r2.Died && b.DiedIsViolation && v.Oracle == "process-death" {
							ok = true
						}
						if !ok {
							stable = false
						} else {
							repro++
						}
					}
					if !stable && b.FlakyOK && repro > 0 {
						// the execution is sequential real code on a private directory: what differs between replays is an
						// answer of the kernel or file system (extent layout, write-back) the harness does not choose.  The
						// oracle compares the real code with the model in each execution on its own, so a failure seen on
						// this path twice or more is a failure of the code, reported with how often it came back.
						v.Detail = fmt.Sprintf("[reproduced in %d of 5 replays of the same path: the failure depends on an answer of the kernel or file system]\n%s", repro, v.Detail)
						fv.Violation = v
						stable = true
					}
					if !stable {
						res.Unstable = append(res.Unstable, fv)
						fmt.Fprintf(os.Stderr, "UNSTABLE (not reported): %s %s on %v\n", v.Oracle, v.Signature, path)
						continue
					}
					fv.Replay = WriteReplay(&Replay{Property: b.Property, Engine: b.Engine, Cfg: cfg, Path: path, Violation: v})
					res.Violations = append(res.Violations, fv)
					fmt.Printf("VIOLATION property=%s replay=%s\n", b.Property, fv.Replay)
					if !b.Quiet {
						fmt.Printf("  oracle=%s signature=%s\n  path=%s\n  %s\n", v.Oracle, v.Signature, strings.Join(path, " "), firstLines(v.Detail, 12))
					}
				}
				continue // violating states are not expanded
			}
			if r.Key == "" || seen[r.Key] {
				continue
			}
			seen[r.Key] = true
			newStates++
			if b.ConfCfg != nil && len(path)-baseDepth <= b.ConfMaxDepth && (b.ConfMax == 0 || len(confPaths) < b.ConfMax) {
				confPaths = append(confPaths, path)
				confWant = append(confWant, r.Conf)
			}
			if len(res.Samples) < 6 && len(path) >= baseDepth+2 || (final && len(res.Samples) < 8) {
				res.Samples = append(res.Samples, path)
			}
			if !final {
				for _, e := range r.Enabled {
					if b.Prune != nil && b.Prune(path, e) {
						continue
					}
					np := make([]string, len(path)+1)
					copy(np, path)
					np[len(path)] = e
					next = append(next, np)
				}
			}
		}
		res.States += newStates
		res.PerLevel = append(res.PerLevel, newStates)
		if !b.Quiet {
			fmt.Fprintf(os.Stderr, "[%s %s] level %d: executed %d, new states %d, total states %d, next frontier %d, %.1fs\n",
				b.Property, b.Engine, level, len(resps), newStates, res.States, len(next), time.Since(start).Seconds())
		}
		if stopped {
			res.Exhaustive = false
			res.DepthCompleted = level - 1
			break
		}
		res.DepthCompleted = level
		frontier = next
	}
	if b.ConfCfg != nil && len(confPaths) > 0 {
		ccfg, _ := json.Marshal(b.ConfCfg)
		for off := 0; off < len(confPaths); off += 64 * pool.N {
			if b.Budget > 0 && time.Now().After(deadline.Add(b.Budget/2)) {
				break
			}
			end := off + 64*pool.N
			if end > len(confPaths) {
				end = len(confPaths)
			}
			reqs := make([]*Request, 0, end-off)
			for _, p := range confPaths[off:end] {
				reqs = append(reqs, &Request{Cfg: ccfg, Path: p})
			}
			for i, r := range run(reqs) {
				path := confPaths[off+i]
				if r.Err != "" || r.Died {
					if d := os.Getenv("VERIF_DEBUG_DIR"); d != "" { // debugging aid: the whole stderr of the dead worker
						os.WriteFile(filepath.Join(d, "dead-worker.log"), []byte(r.Log), 0644)
					}
					res.HarnessErr = fmt.Sprintf("conformance replay of %v failed: %s %s", path, r.Err, tail(r.Log, 2000))
					return res
				}
				res.ConfReplayed++
				for _, v := range r.Violations {
					key := v.Oracle + "|" + v.Signature
					if sigSeen[key] {
						continue
					}
					sigSeen[key] = true
					if kf := KnownFor(findings, b.Property, v.Signature); kf != nil {
						fmt.Printf("KNOWN-FINDING: property=%s %s [signature %s; real-node path %s]\n", b.Property, kf.What, v.Signature, strings.Join(path, " "))
						res.Known = append(res.Known, FoundViolation{Path: path, Violation: v, Known: true})
						continue
					}
					fv := FoundViolation{Path: path, Violation: v}
					fv.Replay = WriteReplay(&Replay{Property: b.Property, Engine: b.Engine + "/real", Cfg: ccfg, Path: path, Violation: v})
					res.Violations = append(res.Violations, fv)
					fmt.Printf("VIOLATION property=%s replay=%s\n  (bound-implementation replay) oracle=%s signature=%s\n  path=%s\n  %s\n", b.Property, fv.Replay, v.Oracle, v.Signature, strings.Join(path, " "), firstLines(v.Detail, 12))
				}
				if len(r.Violations) == 0 && r.Conf != confWant[off+i] {
					res.HarnessErr = fmt.Sprintf("MODEL/IMPLEMENTATION DIVERGENCE on path %v\n--- model stand-in observed\n%s\n--- implementation observed\n%s", path, confWant[off+i], r.Conf)
					return res
				}
			}
		}
	}
	res.DistinctObs = len(obs)
	res.Wall = time.Since(start)
	return res
}

func tail(s string, n int) string {
	if len(s) > n {
		return s[len(s)-n:]
	}
	return s
}
func lastOf(p []string) string {
	if len(p) == 0 {
		return ""
	}
	return p[len(p)-1]
}
func firstLines(s string, n int) string {
	l := strings.Split(s, "\n")
	if len(l) > n {
		l = append(l[:n], "…")
	}
	return strings.Join(l, "\n  ")
}

// Finish writes the evidence file for a BFS-decided property and returns the process exit code.
func (b *BFS) Finish(res *BFSResult, rule string, assumptions []string, extra map[string]interface{}) int {
	if res.HarnessErr != "" && len(res.Violations) == 0 {
		fmt.Fprintf(os.Stderr, "HARNESS ERROR (check is broken, nothing is claimed): %s\n", res.HarnessErr)
		return 2
	}
	if res.HarnessErr != "" {
		// violations were replayed and reported before the search stopped: they stand, the coverage claim does not
		fmt.Fprintf(os.Stderr, "HARNESS ERROR after %d reported violation(s); the search stopped there: %s\n", len(res.Violations), res.HarnessErr)
		res.Exhaustive = false
	}
	cov := map[string]interface{}{
		"states":                        res.States,
		"transitions":                   res.Transitions,
		"traces_validated_against_impl": res.Transitions,
		"model_traces_replayed_on_bound_implementation": res.ConfReplayed,
		"samples":                       res.Samples,
		"exhaustive":                    res.Exhaustive,
		"depth_completed":               res.DepthCompleted,
		"max_depth":                     b.MaxDepth,
		"states_per_level":              res.PerLevel,
		"distinct_observation_digests":  res.DistinctObs,
		"determinism_replays_identical": res.DeterminismOK,
		"evaluations":                   res.Transitions,
		"distinct_nontrivial":           res.States,
		"rule":                          rule,
		"counters":                      res.Counters,
		"known_findings_hit":            len(res.Known),
		"unstable_not_reported":         len(res.Unstable),
	}
	for k, v := range extra {
		cov[k] = v
	}
	if len(res.Samples) == 0 {
		cov["samples"] = [][]string{{}}
	}
	ev := &Evidence{PropertyID: b.Property, Tier: Tier(), Seed: Seed(), Level: "model_checking", Coverage: cov,
		Assumptions: assumptions, WallS: res.Wall.Seconds(), Violations: len(res.Violations)}
	if b.EvidenceName != "" {
		ev.PropertyID = b.EvidenceName
	}
	err := WriteEvidence(ev)
	ev.PropertyID = b.Property
	if b.EvidenceName != "" {
		// the file is named after the part, its content names the property
		fixEvidenceID(b.EvidenceName, b.Property)
	}
	if err != nil {
		fmt.Fprintf(os.Stderr, "evidence: %v\n", err)
		return 2
	}
	ks := SortedKeys(res.Counters)
	sort.Strings(ks)
	fmt.Printf("%s[%s]: states=%d transitions=%d depth=%d/%d exhaustive=%v violations=%d known=%d wall=%.1fs\n",
		b.Property, b.Engine, res.States, res.Transitions, res.DepthCompleted, b.MaxDepth, res.Exhaustive, len(res.Violations), len(res.Known), res.Wall.Seconds())
	if len(res.Violations) > 0 {
		return 1
	}
	return 0
}

func fixEvidenceID(name, prop string) {
	p := filepath.Join(OutDir(), "evidence", name+".json")
	raw, err := os.ReadFile(p)
	if err != nil {
		return
	}
	var m map[string]interface{}
	if json.Unmarshal(raw, &m) != nil {
		return
	}
	m["property_id"] = prop
	out, _ := json.MarshalIndent(m, "", " ")
	os.WriteFile(p, append(out, '\n'), 0644)
}
