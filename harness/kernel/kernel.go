// Package kernel holds what every engine shares: the level-synchronous BFS-with-replay coordinator that shards
// transitions over worker processes, the worker loop, violation/replay/known-finding handling and the evidence writer.
package kernel

import (
	"bufio"
	"crypto/sha1"
	"encoding/json"
	"fmt"
	"io"
	"os"
	"os/exec"
	"path/filepath"
	"sort"
	"strconv"
	"strings"
	"sync"
	"syscall"
	"time"
)

const VerifDir = "/verif"

// Violation is one oracle failure observed at the end of a path.
type Violation struct {
	Oracle    string `json:"oracle"`
	Signature string `json:"signature"` // identifies the specific failing thing (known-findings key)
	Detail    string `json:"detail"`
}

// Request asks a worker to build a fresh instance, replay Path and evaluate the oracles.
type Request struct {
	ID    int             `json:"id"`
	Cfg   json.RawMessage `json:"cfg"`
	Path  []string        `json:"path"`
	Final bool            `json:"final"` // last level: the expensive oracles run on every path
	Trace bool            `json:"trace"` // replay mode: verbose observations
}

// Response is what the worker observed.
type Response struct {
	ID         int            `json:"id"`
	Key        string         `json:"key"`     // canonical key of the state reached
	Obs        string         `json:"obs"`     // digest of every observation made along the path (determinism check)
	Enabled    []string       `json:"enabled"` // events enabled in the reached state
	Violations []Violation    `json:"violations,omitempty"`
	Counters   map[string]int `json:"counters,omitempty"`
	Note       []string       `json:"note,omitempty"`
	Err        string         `json:"err,omitempty"` // harness failure (not a property violation)
	Died       bool           `json:"died,omitempty"`
	Log        string         `json:"log,omitempty"`
	KeyText    string         `json:"keytext,omitempty"`
	Conf       string         `json:"conf,omitempty"` // conformance observations: must be equal when the same path is run against the bound implementation
}

// ExecFunc is the engine-specific worker body.
type ExecFunc func(req *Request) *Response

// ExitAfterResponse, when it returns true after a response was written, ends the worker process (a panic inside the
// code under test may have left locks held; the pool starts a fresh worker).
var ExitAfterResponse func() bool

// WorkerMain is the loop of a worker process: one JSON request per line on stdin, one response per line on stdout.
func WorkerMain(exec ExecFunc) {
	in := bufio.NewReaderSize(os.Stdin, 1<<20)
	// the code under test prints to stdout in places (fmt.Println in error paths): keep the protocol on a private
	// duplicate of the descriptor and point fd 1 at stderr
	proto := os.Stdout
	if fd, err := syscall.Dup(1); err == nil {
		proto = os.NewFile(uintptr(fd), "protocol")
		syscall.Dup2(2, 1)
	}
	out := bufio.NewWriter(proto)
	for {
		line, err := in.ReadBytes('\n')
		if len(line) > 0 {
			var req Request
			if e := json.Unmarshal(line, &req); e != nil {
				fmt.Fprintf(os.Stderr, "worker: bad request: %v\n", e)
				os.Exit(3)
			}
			resp := exec(&req)
			resp.ID = req.ID
			b, _ := json.Marshal(resp)
			out.Write(b)
			out.WriteByte('\n')
			out.Flush()
			if ExitAfterResponse != nil && ExitAfterResponse() {
				return
			}
		}
		if err != nil {
			return
		}
	}
}

type worker struct {
	cleanExit bool
	cmd       *exec.Cmd
	in        io.WriteCloser
	out       *bufio.Reader
	errb      *tailBuf
	alive     bool
}

type tailBuf struct {
	mu sync.Mutex
	b  []byte
}

func (t *tailBuf) Write(p []byte) (int, error) {
	t.mu.Lock()
	t.b = append(t.b, p...)
	if len(t.b) > 16384 {
		t.b = t.b[len(t.b)-16384:]
	}
	t.mu.Unlock()
	return len(p), nil
}
func (t *tailBuf) String() string { t.mu.Lock(); defer t.mu.Unlock(); return string(t.b) }

// Pool runs requests on worker sub-processes (argv = self + workerArgs).
type Pool struct {
	Args    []string
	Env     []string
	N       int
	Timeout time.Duration
	reqs    chan poolItem
	wg      sync.WaitGroup
}

type poolItem struct {
	req  *Request
	done func(*Response)
}

func (p *Pool) spawn() (*worker, error) {
	self, err := os.Executable()
	if err != nil {
		return nil, err
	}
	cmd := exec.Command(self, p.Args...)
	cmd.Env = append(os.Environ(), p.Env...)
	in, _ := cmd.StdinPipe()
	out, _ := cmd.StdoutPipe()
	tb := &tailBuf{}
	cmd.Stderr = tb
	if err := cmd.Start(); err != nil {
		return nil, err
	}
	return &worker{cmd: cmd, in: in, out: bufio.NewReaderSize(out, 1<<20), errb: tb, alive: true}, nil
}

func (w *worker) kill() {
	if w.alive {
		w.in.Close()
		// a worker that ended itself on purpose exits with status 0 before it reads another request
		done := make(chan error, 1)
		go func() { done <- w.cmd.Wait() }()
		select {
		case err := <-done:
			w.cleanExit = err == nil
		case <-time.After(200 * time.Millisecond):
			w.cmd.Process.Kill()
			<-done
		}
		w.alive = false
	}
}

func (p *Pool) Start() {
	if p.N <= 0 {
		p.N = 16
	}
	if p.Timeout == 0 {
		p.Timeout = 300 * time.Second
	}
	p.reqs = make(chan poolItem, 4*p.N)
	for i := 0; i < p.N; i++ {
		p.wg.Add(1)
		go func() {
			defer p.wg.Done()
			var w *worker
			defer func() {
				if w != nil {
					w.kill()
				}
			}()
			for it := range p.reqs {
				if w == nil || !w.alive {
					var err error
					w, err = p.spawn()
					if err != nil {
						it.done(&Response{ID: it.req.ID, Err: "spawn: " + err.Error()})
						continue
					}
				}
				resp := p.call(w, it.req)
				if resp.Died && resp.Err == "" && w.cleanExit {
					// the worker had ended itself after its previous response (poisoned instance): start a fresh one
					w, _ = p.spawn()
					if w != nil {
						resp = p.call(w, it.req)
					}
				}
				it.done(resp)
			}
		}()
	}
}

func (p *Pool) call(w *worker, req *Request) *Response {
	b, _ := json.Marshal(req)
	b = append(b, '\n')
	type res struct {
		line []byte
		err  error
	}
	ch := make(chan res, 1)
	go func() {
		if _, err := w.in.Write(b); err != nil {
			ch <- res{nil, err}
			return
		}
		line, err := w.out.ReadBytes('\n')
		ch <- res{line, err}
	}()
	select {
	case r := <-ch:
		if r.err != nil || len(r.line) == 0 {
			w.kill()
			return &Response{ID: req.ID, Died: true, Log: w.errb.String()}
		}
		var resp Response
		if err := json.Unmarshal(r.line, &resp); err != nil {
			w.kill()
			return &Response{ID: req.ID, Err: "bad response: " + err.Error() + ": " + string(r.line)}
		}
		return &resp
	case <-time.After(p.Timeout):
		// ask for a goroutine dump before killing
		w.cmd.Process.Signal(sigQuit)
		time.Sleep(300 * time.Millisecond)
		w.kill()
		return &Response{ID: req.ID, Died: true, Err: "timeout", Log: w.errb.String()}
	}
}

func (p *Pool) Submit(req *Request, done func(*Response)) { p.reqs <- poolItem{req, done} }
func (p *Pool) Close()                                    { close(p.reqs); p.wg.Wait() }

// ---------------------------------------------------------------------------------------------------------------

// Finding is one line of /verif/known_findings.json.
type Finding struct {
	Property  string `json:"property"`
	Status    string `json:"status"` // known | fixed
	Signature string `json:"signature,omitempty"`
	Commit    string `json:"commit,omitempty"`
	What      string `json:"what"`
	Replay    string `json:"replay,omitempty"`
}

// LoadFindings reads /verif/known_findings.json ($VERIF_FINDINGS names another file: used only to try a candidate
// list without editing the real one).
func LoadFindings() []Finding {
	var fs []Finding
	path := filepath.Join(VerifDir, "known_findings.json")
	if p := os.Getenv("VERIF_FINDINGS"); p != "" {
		path = p
	}
	b, err := os.ReadFile(path)
	if err != nil {
		return nil
	}
	if err := json.Unmarshal(b, &fs); err != nil {
		fmt.Fprintf(os.Stderr, "known_findings.json: %v\n", err)
		os.Exit(2)
	}
	return fs
}

// KnownFor returns the known (not fixed) finding matching property+signature, if any.
func KnownFor(fs []Finding, prop, sig string) *Finding {
	for i := range fs {
		if fs[i].Status == "known" && fs[i].Property == prop && fs[i].Signature == sig {
			return &fs[i]
		}
	}
	return nil
}

// ---------------------------------------------------------------------------------------------------------------

// Evidence mirrors EVIDENCE.schema.json.
type Evidence struct {
	PropertyID  string                 `json:"property_id"`
	Tier        string                 `json:"tier"`
	Seed        int                    `json:"seed"`
	Level       string                 `json:"level"`
	Coverage    map[string]interface{} `json:"coverage"`
	Assumptions []string               `json:"assumptions"`
	WallS       float64                `json:"wall_s"`
	Violations  int                    `json:"violations"`
}

// OutDir is /verif, or $VERIF_OUT when a check is run against a scratch checkout (VERIF_REPO): evidence and replay
// files of such runs must not overwrite the ones that describe /repo.
func OutDir() string {
	if d := os.Getenv("VERIF_OUT"); d != "" {
		return d
	}
	return VerifDir
}

func WriteEvidence(e *Evidence) error {
	dir := filepath.Join(OutDir(), "evidence")
	os.MkdirAll(dir, 0755)
	b, _ := json.MarshalIndent(e, "", " ")
	return os.WriteFile(filepath.Join(dir, e.PropertyID+".json"), append(b, '\n'), 0644)
}

func Tier() string {
	t := os.Getenv("VERIF_TIER")
	if t != "thorough" {
		t = "quick"
	}
	return t
}

func Seed() int {
	n, _ := strconv.Atoi(os.Getenv("VERIF_SEED"))
	return n
}

// Replay artefact.
type Replay struct {
	Property  string          `json:"property"`
	Engine    string          `json:"engine"`
	Cfg       json.RawMessage `json:"cfg"`
	Path      []string        `json:"path"`
	Violation Violation       `json:"violation"`
	Note      string          `json:"note,omitempty"`
}

func WriteReplay(r *Replay) string {
	h := sha1.Sum([]byte(r.Engine + "|" + string(r.Cfg) + "|" + strings.Join(r.Path, ",") + "|" + r.Violation.Oracle))
	dir := filepath.Join(OutDir(), "replays", r.Property)
	os.MkdirAll(dir, 0755)
	p := filepath.Join(dir, fmt.Sprintf("%x.json", h[:6]))
	b, _ := json.MarshalIndent(r, "", " ")
	os.WriteFile(p, append(b, '\n'), 0644)
	return p
}

func ReadReplay(path string) (*Replay, error) {
	b, err := os.ReadFile(path)
	if err != nil {
		return nil, err
	}
	var r Replay
	return &r, json.Unmarshal(b, &r)
}

func SortedKeys(m map[string]int) []string {
	ks := make([]string, 0, len(m))
	for k := range m {
		ks = append(ks, k)
	}
	sort.Strings(ks)
	return ks
}
