package kernel

import "syscall"

var sigQuit = syscall.SIGQUIT
