package ed

import (
	"bufio"
	"encoding/json"
	"fmt"
	"io"
	"os"
	"sort"
	"strings"
	"syscall"
	"time"

	"github.com/openebs/jiva/verifshim/vs"
	"github.com/sirupsen/logrus"
)

// Job is what a worker process is asked to do.
type Job struct {
	ID       int         `json:"id"`
	Harness  string      `json:"harness"` // C15 | C10conc | C05mon
	C15      *C15Cfg     `json:"c15,omitempty"`
	C10      *C10Cfg     `json:"c10,omitempty"`
	C05      *C05Cfg     `json:"c05,omitempty"`
	C05Full  *C05FullCfg `json:"c05full,omitempty"`
	C18      *C18Cfg     `json:"c18,omitempty"`
	C03      *C03Cfg     `json:"c03,omitempty"`
	C14      *C14Cfg     `json:"c14,omitempty"`
	C09      *C09Cfg     `json:"c09,omitempty"`
	C01      *C01Cfg     `json:"c01,omitempty"`
	C14Ctl   *C14CtlCfg  `json:"c14ctl,omitempty"`
	CodecSig string      `json:"codec_sig,omitempty"` // harness "codec": the violation signature to re-check
	Mode     string      `json:"mode"`                // explore | split | replay
	B        Bounds      `json:"bounds"`
	Prefix   []int       `json:"prefix,omitempty"`
	Choices  []int       `json:"choices,omitempty"` // replay: the exact answers at every choice point
	Trace    bool        `json:"trace,omitempty"`
	Deadline int64       `json:"deadline_unix_ms,omitempty"` // stop exploring (answer complete:false) after this instant
}

type FoundViol struct {
	Viol    Viol  `json:"viol"`
	Choices []int `json:"choices"`
}

type GrayInfo struct {
	Count   int64  `json:"count"`
	Example []int  `json:"example_choices"`
	Note    string `json:"note"`
}

type JobResult struct {
	ID           int                  `json:"id"`
	Executions   int64                `json:"executions"`
	Points       int64                `json:"points"`
	ChoicePoints int64                `json:"choice_points"`
	MaxPoints    int                  `json:"max_points"`
	Obs          map[string]int64     `json:"obs"`
	Viol         []FoundViol          `json:"viol,omitempty"`
	ViolCount    map[string]int64     `json:"viol_count,omitempty"`
	Gray         map[string]*GrayInfo `json:"gray,omitempty"`
	Leaves       [][]int              `json:"leaves,omitempty"`
	Complete     bool                 `json:"complete"`
	Err          string               `json:"err,omitempty"`
	Trace        []vs.Event           `json:"trace,omitempty"`
	Stacks       string               `json:"stacks,omitempty"`
	Sample       *Sample              `json:"sample,omitempty"`
	WallMS       int64                `json:"wall_ms"`
	Extra        map[string]int64     `json:"extra,omitempty"`
	Bye          bool                 `json:"bye,omitempty"` // the worker process ends after this answer (it recycles itself)
}

// Sample is one written-out execution for the evidence file.
type Sample struct {
	Config   string   `json:"config"`
	Choices  []int    `json:"choices"`
	Schedule []string `json:"schedule"`
	Obs      string   `json:"final_observation"`
}

type countingChooser struct {
	inner vs.Chooser
	usedT int
}

func (c *countingChooser) Choose(opts []vs.Option) int {
	k := c.inner.Choose(opts)
	if k > 0 && k < len(opts) && opts[k].Kind == 't' {
		c.usedT++
	}
	return k
}

// runOnce performs one execution of the job's harness under the given chooser.
func runOnce(job *Job, ch vs.Chooser, trace bool) (*vs.Result, *Outcome) {
	cc := &countingChooser{inner: ch}
	var out *Outcome
	var res *vs.Result
	switch job.Harness {
	case "C15":
		st, body := RunC15(*job.C15, func() bool { return cc.usedT > 0 })
		vc := vs.Config{Chooser: cc, Horizon: 4000, Trace: trace, StepHook: st.stepHook}
		if job.C15.Server {
			vc.TimeLimit = 8 * time.Second // the server's 5 s ping-supervision ticker never stops; one tick is explored, the supervision time-out (2 x ping time-out without a ping) is not
			vc.Horizon = 8000
		}
		res = vs.Run(vc, func() { out = body() })
	case "C10conc":
		out, res = runC10(job.C10, cc, trace)
	case "C05mon":
		out, res = runC05(job.C05, cc, trace)
	case "C05full":
		out, res = runC05Full(job.C05Full, cc, trace)
	case "C18atom", "C13conc", "C04conc", "C02conc", "C10prom", "C05conc", "C16grow":
		out, res = runC18(job.C18, cc, trace)
	case "C03conc":
		out, res = c03Run(job.C03, cc, trace)
	case "C14conc", "C17open":
		out, res = c14Run(job.C14, cc, trace)
	case "C14ctl", "C18rest":
		out, res = c14CtlRun(job.C14Ctl, cc, trace)
	case "C09conc":
		out, res = c09Run(job.C09, cc, trace)
	case "C01conc", "C06conc", "C12conc", "C17conc", "C16conc", "C08conc":
		out, res = c01Run(job.C01, cc, trace)
	default:
		return &vs.Result{Fatal: "unknown harness " + job.Harness}, nil
	}
	if out == nil {
		out = &Outcome{Obs: "aborted"}
	}
	tag := "-"
	if job.C15 != nil {
		tag = job.C15.Fault
		if tag == "" {
			tag = "nofault"
		}
	}
	for _, p := range res.Panics {
		first := p.Value
		out.Violations = append(out.Violations, Viol{Oracle: "panic", Sig: "panic:" + tag + ":" + p.Name, Detail: fmt.Sprintf("thread %s panicked: %s\n%s", p.Name, first, p.Stack)})
		out.Obs = "panic in " + p.Name
	}
	if res.HorizonHit {
		out.Violations = append(out.Violations, Viol{Oracle: "horizon", Sig: "horizon:" + tag + ":-", Detail: fmt.Sprintf("execution exceeded the horizon of scheduling points (livelock?); blocked: %+v", res.Blocked)})
		out.Obs = "horizon"
	}
	if res.Deadlock {
		out.Violations = append(out.Violations, Viol{Oracle: "deadlock", Sig: "deadlock:" + tag + ":-", Detail: fmt.Sprintf("no enabled thread and no timer; blocked: %+v", res.Blocked)})
		out.Obs = "deadlock"
	}
	return res, out
}

func scheduleOf(tr []vs.Event) []string {
	var out []string
	for _, e := range tr {
		if e.Kind == "note" {
			out = append(out, fmt.Sprintf("      [t=%v] %s", time.Duration(e.Now), e.Note))
		} else {
			out = append(out, fmt.Sprintf("%4d  %-8s %-24s %s", e.Step, e.Name, e.Kind, e.Loc))
		}
	}
	return out
}

func (job *Job) cfgString() string {
	switch {
	case job.C15 != nil:
		return job.C15.String()
	case job.C10 != nil:
		return job.C10.String()
	case job.C05 != nil:
		return job.C05.String()
	case job.C18 != nil:
		return job.C18.String()
	case job.C03 != nil:
		return job.C03.String()
	case job.C14 != nil:
		return job.C14.String()
	case job.C14Ctl != nil:
		return job.C14Ctl.String()
	case job.C09 != nil:
		return job.C09.String()
	case job.C01 != nil:
		return job.C01.String()
	case job.Harness == "codec":
		return "codec product space (Wire.Write -> Wire.Read), part producing " + job.CodecSig
	}
	return job.Harness
}

// RunJob explores the subtree of the job (or splits it, or replays one execution).
func RunJob(job *Job) *JobResult {
	t0 := time.Now()
	jr := &JobResult{ID: job.ID, Obs: map[string]int64{}, ViolCount: map[string]int64{}, Gray: map[string]*GrayInfo{}, Complete: true}
	defer func() { jr.WallMS = time.Since(t0).Milliseconds() }()
	if job.Harness == "codec" {
		// a codec violation is re-checked by re-running the part of the codec enumeration that produces it
		cr := checkCodec(job.CodecSig)
		jr.Executions = cr.RoundTrips + cr.Truncations + cr.BadMagic + cr.BackToBack
		for _, v := range cr.Violations {
			jr.ViolCount[v.Sig]++
			if jr.ViolCount[v.Sig] == 1 {
				jr.Viol = append(jr.Viol, FoundViol{Viol: v})
			}
		}
		jr.Obs[fmt.Sprintf("codec: %d cases, %d violation kinds", jr.Executions, len(jr.ViolCount))]++
		jr.Sample = &Sample{Config: "codec " + job.CodecSig, Obs: fmt.Sprintf("%d codec cases re-run, violations: %v", jr.Executions, jr.ViolCount)}
		return jr
	}
	if job.Mode == "replay" {
		rp := &Replayer{List: job.Choices}
		res, out := runOnce(job, rp, true)
		jr.Executions, jr.Points, jr.ChoicePoints = 1, int64(res.Points), int64(res.ChoicePoints)
		jr.Trace, jr.Stacks, jr.Err = res.Trace, res.Stacks, res.Fatal
		jr.Obs[out.Obs]++
		for _, v := range out.Violations {
			jr.Viol = append(jr.Viol, FoundViol{Viol: v, Choices: job.Choices})
			jr.ViolCount[v.Sig]++
		}
		for _, g := range out.Gray {
			jr.Gray[g.Sig] = &GrayInfo{Count: 1, Example: job.Choices, Note: g.Note}
		}
		jr.Sample = &Sample{Config: job.cfgString(), Choices: job.Choices, Schedule: scheduleOf(res.Trace), Obs: out.Obs}
		return jr
	}
	ex := &Explorer{B: job.B, Prefix: job.Prefix}
	if job.Mode == "split" {
		ex.MaxDepth = 2
	}
	deadline := time.Time{}
	if job.Deadline > 0 {
		deadline = time.UnixMilli(job.Deadline)
		if time.Now().After(deadline) {
			jr.Complete = false
			return jr
		}
	}
	first := true
	for {
		ex.Begin()
		res, out := runOnce(job, ex, false)
		if res.Fatal != "" || !ex.EndOK() {
			jr.Err = fmt.Sprintf("harness error in %s prefix=%v choices=%v: fatal=%q diverged=%q endok=%v\n%s", job.cfgString(), job.Prefix, ex.Choices, res.Fatal, ex.Diverged, ex.EndOK(), res.Stacks)
			jr.Complete = false
			return jr
		}
		if ex.BadPfx {
			// the prefix is not a path of this tree (cannot happen when the leaves came from a split of the same job)
			jr.Err = fmt.Sprintf("bad prefix %v for %s", job.Prefix, job.cfgString())
			jr.Complete = false
			return jr
		}
		if first {
			// ownership of nondeterminism: the same choices must give the same run
			first = false
			saved := append([]int(nil), ex.Choices...)
			res2, out2 := runOnce(job, &Replayer{List: saved}, false)
			if res2.Digest != res.Digest || out2.Obs != out.Obs || res2.Points != res.Points {
				jr.Err = fmt.Sprintf("NONDETERMINISM in %s: replaying choices %v gave digest %x/%x points %d/%d obs %q / %q", job.cfgString(), saved, res.Digest, res2.Digest, res.Points, res2.Points, out.Obs, out2.Obs)
				jr.Complete = false
				return jr
			}
		}
		if job.Mode == "split" {
			jr.Leaves = append(jr.Leaves, ex.Leaf())
		} else {
			jr.Executions++
			jr.Points += int64(res.Points)
			jr.ChoicePoints += int64(res.ChoicePoints)
			if res.Points > jr.MaxPoints {
				jr.MaxPoints = res.Points
			}
			jr.Obs[out.Obs]++
			for _, v := range out.Violations {
				jr.ViolCount[v.Sig]++
				if jr.ViolCount[v.Sig] <= 2 && len(jr.Viol) < 40 {
					jr.Viol = append(jr.Viol, FoundViol{Viol: v, Choices: append([]int(nil), ex.Choices...)})
				}
			}
			for _, g := range out.Gray {
				gi := jr.Gray[g.Sig]
				if gi == nil {
					gi = &GrayInfo{Example: append([]int(nil), ex.Choices...), Note: g.Note}
					jr.Gray[g.Sig] = gi
				}
				gi.Count++
			}
		}
		if !ex.Next() {
			if job.Harness == "C10conc" && job.Mode == "explore" {
				c10ReopenCheck(jr, job.C10)
			}
			break
		}
		if !deadline.IsZero() && jr.Executions%64 == 0 && time.Now().After(deadline) {
			jr.Complete = false
			break
		}
	}
	return jr
}

// WorkerMain serves jobs: one JSON job per line on stdin, one JSON result per line on stdout.
func WorkerMain() {
	Quiet()
	defer C10Cleanup()
	in := bufio.NewReaderSize(os.Stdin, 1<<20)
	// the code under test prints to stdout in places: keep the protocol on a private duplicate of the descriptor
	proto := os.Stdout
	if fd, err := syscall.Dup(1); err == nil {
		proto = os.NewFile(uintptr(fd), "protocol")
		syscall.Dup2(2, 1)
	}
	out := bufio.NewWriter(proto)
	var total int64
	for {
		line, err := in.ReadBytes('\n')
		if len(strings.TrimSpace(string(line))) > 0 {
			var job Job
			if e := json.Unmarshal(line, &job); e != nil {
				fmt.Fprintf(os.Stderr, "ed worker: bad job: %v\n", e)
				os.Exit(3)
			}
			jr := RunJob(&job)
			total += jr.Executions
			// process-global state of the code under test (the journal's pending-op table) grows when executions are
			// abandoned with requests in flight: start over with a fresh process now and then
			if total > 8000 {
				jr.Bye = true
			}
			b, _ := json.Marshal(jr)
			out.Write(b)
			out.WriteByte('\n')
			out.Flush()
			if jr.Bye {
				return
			}
		}
		if err != nil {
			return
		}
	}
}

// Quiet silences the code under test.
func Quiet() {
	logrus.SetOutput(io.Discard)
	logrus.SetLevel(logrus.PanicLevel)
	// logrus.Fatal = the process under test would exit here: a panic of the calling thread (recorded as a violation)
	logrus.StandardLogger().ExitFunc = func(int) { panic("logrus.Fatal: the process would exit here") }
}

func sortedKeys(m map[string]int64) []string {
	ks := make([]string, 0, len(m))
	for k := range m {
		ks = append(ks, k)
	}
	sort.Strings(ks)
	return ks
}
