package ed

import (
	"fmt"
	"net/http"
	"net/http/httptest"
	"os"
	"sort"
	"strings"

	controllerrest "github.com/openebs/jiva/controller/rest"
	"github.com/openebs/jiva/replica"
	replicarest "github.com/openebs/jiva/replica/rest"
	"github.com/openebs/jiva/types"
	"github.com/openebs/jiva/util"
	"github.com/openebs/jiva/verifshim/vs"
)

// C14Cfg is one configuration of the overlapping-requests harness (part C14conc of C14): a real replica.Server on a
// scratch directory behind the real replica/rest router, package replica under the scheduler (the Server's and the
// Replica's RWMutex, revisionLock, rmLock are scheduling points), and two or three management requests whose handlers
// run concurrently.  Every interleaving at lock granularity up to the preemption bound is executed; afterwards every
// handler must have returned, no lock may be held, and a well-formed request must still be served.
type C14Cfg struct {
	Name  string   `json:"name"`
	State string   `json:"state"` // open | closed
	Reqs  []string `json:"reqs"`
}

func (c C14Cfg) String() string {
	return fmt.Sprintf("%s state=%s requests=%s", c.Name, c.State, strings.Join(c.Reqs, "||"))
}

const c14Created = `"2020-01-01T00:00:00Z"`

// c14Request maps a request name of the menu to method, path and body.
func c14Request(name string) (method, path, body string) {
	act := func(a, b string) (string, string, string) { return "POST", "/v1/replicas/1?action=" + a, b }
	switch name {
	case "get":
		return "GET", "/v1/replicas/1", ""
	case "list":
		return "GET", "/v1/replicas", ""
	case "stats":
		return "GET", "/v1/stats", ""
	case "usage":
		return "GET", "/v1/replicas/1/volusage", ""
	case "delete":
		return "DELETE", "/v1/replicas/1", ""
	case "snapshot":
		return act("snapshot", `{"name":"x1","usercreated":true,"created":`+c14Created+`}`)
	case "setrebuilding":
		return act("setrebuilding", `{"rebuilding":true}`)
	case "setrevisioncounter":
		return act("setrevisioncounter", `{"counter":"7"}`)
	case "setreplicamode":
		return act("setreplicamode", `{"mode":"WO"}`)
	case "setcheckpoint":
		return act("setcheckpoint", `{"snapshotName":"volume-snap-s2.img"}`)
	case "revert":
		return act("revert", `{"name":"volume-snap-s1.img","created":`+c14Created+`}`)
	case "resize":
		return act("resize", `{"name":"vol","size":"32768"}`)
	case "prepareremovedisk":
		return act("prepareremovedisk", `{"name":"volume-snap-s1.img"}`)
	case "removedisk":
		return act("removedisk", `{"name":"volume-snap-s1.img"}`)
	case "close":
		return act("close", "")
	case "open":
		return act("open", "")
	case "reload":
		return act("reload", "")
	case "start":
		return act("start", `{"Action":"start"}`)
	case "badbody":
		return act("snapshot", `{"name":`)
	}
	return "", "", ""
}

var c14Seq int

func c14Scratch() string {
	if c10Dir == "" {
		c10Dir = c10Scratch() + "/vol"
	}
	return strings.TrimSuffix(c10Dir, "/vol")
}

func c14Run(cfg *C14Cfg, ch vs.Chooser, trace bool) (*Outcome, *vs.Result) {
	out := &Outcome{}
	c14Seq++
	dir := fmt.Sprintf("%s/c14-%d", c14Scratch(), c14Seq)
	os.RemoveAll(dir)
	if err := os.MkdirAll(dir, 0755); err != nil {
		return nil, &vs.Result{Fatal: err.Error()}
	}
	var srv *replica.Server
	defer func() {
		// outside the scheduler: release the files of this execution
		func() {
			defer func() { recover() }()
			if srv != nil && srv.Replica() != nil {
				replica.VerifEdCloseFiles(srv.Replica())
			}
		}()
		os.RemoveAll(dir)
	}()
	tag := cfg.State + ":" + strings.Join(cfg.Reqs, "||")
	viol := func(oracle, f string, a ...interface{}) {
		out.Violations = append(out.Violations, Viol{Oracle: oracle, Sig: oracle + ":" + tag, Detail: fmt.Sprintf(f, a...)})
	}
	type reqRun struct {
		name   string
		status int
		done   bool
	}
	res := vs.Run(vs.Config{Chooser: ch, PostUnlockPoints: true, Horizon: 20000, Trace: trace}, func() {
		vs.NoChoice(true)
		util.VerifNoSync = true // durability is engine C's subject
		types.ShouldPunchHoles = false
		types.DrainOps = types.DrainDone
		replica.VerifEdDrain()
		// the drain branch of replica.CreateHoles, played by a managed thread: holeDrainer (Close, Delete, Reload,
		// RemoveDiffDisk, ReplaceDisk) asks for a drain and polls until it was done
		vs.Go("hole-puncher-stub", func() {
			for {
				vs.Block("idle hole puncher", func() bool { return types.DrainOps == types.DrainStart })
				replica.VerifEdDrain()
			}
		})
		srv = replica.NewServer("127.0.0.1:9502", dir, 512, "")
		must := func(what string, err error) {
			if err != nil {
				vs.Fatal("set-up " + what + ": " + err.Error())
			}
		}
		must("create", srv.Create(4*4096))
		if cfg.State == "open" {
			must("open", srv.Open())
			must("mode", srv.SetReplicaMode("RW"))
			buf := make([]byte, 4096)
			for i := range buf {
				buf[i] = 7
			}
			_, err := srv.WriteAt(buf, 0)
			must("write", err)
			must("snapshot s1", srv.Snapshot("s1", true, "2020-01-01T00:00:00Z"))
			_, err = srv.WriteAt(buf, 4096)
			must("write", err)
			must("snapshot s2", srv.Snapshot("s2", false, "2020-01-01T00:00:00Z"))
			_, err = srv.WriteAt(buf, 8192)
			must("write", err)
		}
		router := replicarest.NewRouter(replicarest.NewServer(srv))
		serve := func(name string) int {
			method, path, body := c14Request(name)
			var req *http.Request
			if body != "" {
				req = httptest.NewRequest(method, "http://127.0.0.1:9502"+path, strings.NewReader(body))
				req.Header.Set("Content-Type", "application/json")
			} else {
				req = httptest.NewRequest(method, "http://127.0.0.1:9502"+path, nil)
			}
			rec := httptest.NewRecorder()
			router.ServeHTTP(rec, req)
			return rec.Code
		}
		runs := make([]*reqRun, len(cfg.Reqs))
		for k, n := range cfg.Reqs {
			runs[k] = &reqRun{name: fmt.Sprintf("%d:%s", k, n)}
		}
		vs.NoChoice(false)
		for k, n := range cfg.Reqs {
			k, n := k, n
			vs.Go("req"+runs[k].name, func() { runs[k].status = serve(n); runs[k].done = true })
		}
		vs.Quiesce(0)
		vs.NoChoice(true)
		var obs []string
		stuck := false
		for _, r := range runs {
			if !r.done {
				stuck = true
				obs = append(obs, r.name+"=NEVER-RETURNED")
				continue
			}
			cls := r.status / 100
			obs = append(obs, fmt.Sprintf("%s=%dxx", r.name, cls))
		}
		if stuck {
			var bl []string
			for _, t := range vs.Threads() {
				if strings.HasPrefix(t.Name, "req") && !t.Done {
					bl = append(bl, fmt.Sprintf("%s blocked in %s at %s", t.Name, t.Kind, t.Loc))
				}
			}
			viol("handler-never-returns", "%s: %v", strings.Join(obs, " "), bl)
			out.Obs = strings.Join(obs, " ")
			return
		}
		// a replica can be attached only while it is closed: of several overlapping open requests on a closed replica at
		// most one is told that it opened it (the attach protocol of backend/remote relies on the answer)
		if cfg.State == "closed" {
			opened := 0
			for k, r := range runs {
				if cfg.Reqs[k] == "open" && r.status/100 == 2 {
					opened++
				}
			}
			if opened > 1 {
				viol("attached-twice", "%d overlapping open requests were all answered with success: %s", opened, strings.Join(obs, " "))
			}
		}
		if !srv.VerifTryLock() {
			viol("lock-left-held", "the replica server lock is still held after %s", strings.Join(obs, " "))
		} else if r := srv.Replica(); r != nil && !r.VerifTryLock() {
			viol("lock-left-held", "the Replica lock is still held after %s", strings.Join(obs, " "))
		} else {
			// a well-formed request is still served
			done, code := false, 0
			vs.Go("probe", func() { code = serve("get"); done = true })
			vs.Quiesce(0)
			if !done {
				viol("probe-not-served", "GET /v1/replicas/1 after %s never returned", strings.Join(obs, " "))
			} else if code != 200 {
				viol("probe-not-served", "GET /v1/replicas/1 after %s answered %d", strings.Join(obs, " "), code)
			}
			obs = append(obs, fmt.Sprintf("probe=%d", code))
		}
		st, _ := srv.Status()
		obs = append(obs, "state="+string(st))
		sort.Strings(obs[:len(runs)])
		out.Obs = strings.Join(obs, " ")
	})
	return out, res
}

func c14Configs(tier string) []C14Cfg {
	var out []C14Cfg
	openMenu := []string{"get", "list", "snapshot", "setrebuilding", "setrevisioncounter", "revert", "resize", "close", "reload", "delete", "prepareremovedisk", "setreplicamode", "setcheckpoint", "usage", "badbody"}
	closedMenu := []string{"get", "list", "open", "delete", "revert", "start"}
	pairs := func(state string, menu []string) {
		for i := 0; i < len(menu); i++ {
			for j := i; j < len(menu); j++ {
				if i == j && (menu[i] == "list" || menu[i] == "usage" || menu[i] == "badbody") {
					continue
				}
				out = append(out, C14Cfg{Name: "overlap", State: state, Reqs: []string{menu[i], menu[j]}})
			}
		}
	}
	pairs("open", openMenu)
	pairs("closed", closedMenu)
	for _, t := range [][]string{{"get", "get", "delete"}, {"get", "snapshot", "close"}, {"get", "list", "reload"}} {
		out = append(out, C14Cfg{Name: "overlap", State: "open", Reqs: t})
	}
	if tier == "thorough" {
		for _, t := range [][]string{{"get", "revert", "snapshot"}, {"list", "setrebuilding", "close"}, {"get", "delete", "delete"}, {"usage", "resize", "reload"}} {
			out = append(out, C14Cfg{Name: "overlap", State: "open", Reqs: t})
		}
	}
	return out
}

func checkC14conc() int { return checkSimple("C14", "C14conc", "C14-conc.part") }

// c17OpenConfigs (part C17open of C17): overlapping requests on a CLOSED replica through the real router - open against
// open, start, revert, delete and the reads: a replica is attached at most once.
func c17OpenConfigs(tier string) []C14Cfg {
	var out []C14Cfg
	for _, c := range c14Configs(tier) {
		if c.State == "closed" {
			c.Name = "closed"
			out = append(out, c)
		}
	}
	out = append(out, C14Cfg{Name: "closed", State: "closed", Reqs: []string{"open", "open", "open"}})
	return out
}

func checkC17Open() int { return checkSimple("C17", "C17open", "C17-open.part") }

// ---------------------------------------------------------------------------------------------------------------
// controller side: overlapping requests on the real controller/rest router

// C14CtlCfg: a real controller.Controller (package controller and package controller/rest under the scheduler) brought to
// an initial membership by c18Build, behind the real controller/rest router; two or three requests whose handlers run
// concurrently.  Oracle: every handler returns, none panics, afterwards the controller lock is free, GET /v1/volumes
// and GET /v1/replicas are answered 200 and C18's membership invariants hold.
type C14CtlCfg struct {
	Name string   `json:"name"`
	Init string   `json:"init"` // rw3 | rw2wo | rw2
	Reqs []string `json:"reqs"`
}

func (c C14CtlCfg) String() string {
	return fmt.Sprintf("%s init=%s requests=%s", c.Name, c.Init, strings.Join(c.Reqs, "||"))
}

func c14CtlRequest(name string) (method, path, body string) {
	vol := "/v1/volumes/" + controllerrest.EncodeID("vol")
	rep := func(i int) string { return "/v1/replicas/" + controllerrest.EncodeID(c18addr(i)) }
	idx := func() int { var i int; fmt.Sscanf(name[len(name)-1:], "%d", &i); return i }
	switch {
	case name == "vols":
		return "GET", "/v1/volumes", ""
	case name == "vol":
		return "GET", vol, ""
	case name == "stats":
		return "GET", "/v1/stats", ""
	case name == "cp":
		return "GET", "/v1/checkpoint", ""
	case name == "reps":
		return "GET", "/v1/replicas", ""
	case strings.HasPrefix(name, "rep"):
		return "GET", rep(idx()), ""
	case name == "snap":
		return "POST", vol + "?action=snapshot", `{"name":"x1"}`
	case name == "snapbad":
		return "POST", vol + "?action=snapshot", `{"name":`
	case name == "revert":
		return "POST", vol + "?action=revert", `{"name":"nosuch"}`
	case name == "resize":
		return "POST", vol + "?action=resize", `{"name":"vol","size":"32768"}`
	case name == "delsnap":
		return "DELETE", vol + "?action=deleteSnapshot", `{"name":"nosuch"}`
	case name == "delsnapbad":
		return "DELETE", vol + "?action=deleteSnapshot", `{"name":`
	case strings.HasPrefix(name, "add"):
		return "POST", "/v1/replicas", fmt.Sprintf(`{"address":%q}`, c18addr(idx()))
	case strings.HasPrefix(name, "del"):
		return "DELETE", rep(idx()), ""
	case strings.HasPrefix(name, "err"):
		return "PUT", rep(idx()), `{"mode":"ERR"}`
	case strings.HasPrefix(name, "ver"):
		return "POST", rep(idx()) + "?action=verifyrebuild", ""
	case strings.HasPrefix(name, "prep"):
		return "POST", rep(idx()) + "?action=preparerebuild", ""
	case strings.HasPrefix(name, "reg"):
		return "POST", "/v1/register", fmt.Sprintf(`{"Address":%q,"UUID":"uuid-r","RevCount":"1","RepType":"Backend","RepState":"closed","UpTime":1000}`, c18ip(idx()))
	}
	return "", "", ""
}

func c14CtlRun(cfg *C14CtlCfg, ch vs.Chooser, trace bool) (*Outcome, *vs.Result) {
	out := &Outcome{}
	tag := cfg.Init + ":" + strings.Join(cfg.Reqs, "||")
	viol := func(oracle, f string, a ...interface{}) {
		out.Violations = append(out.Violations, Viol{Oracle: oracle, Sig: oracle + ":" + tag, Detail: fmt.Sprintf(f, a...)})
	}
	type reqRun struct {
		name   string
		status int
		done   bool
	}
	res := vs.Run(vs.Config{Chooser: ch, PostUnlockPoints: true, Horizon: 30000, Trace: trace}, func() {
		vs.NoChoice(true)
		cl, err := c18Build(cfg.Init)
		if err != nil {
			vs.Fatal("cannot build the initial cluster: " + err.Error())
		}
		vs.Quiesce(0)
		router := controllerrest.NewRouter(controllerrest.NewServer(cl.c))
		serve := func(name string) int {
			method, path, body := c14CtlRequest(name)
			var req *http.Request
			if body != "" {
				req = httptest.NewRequest(method, "http://10.0.0.100:9501"+path, strings.NewReader(body))
				req.Header.Set("Content-Type", "application/json")
			} else {
				req = httptest.NewRequest(method, "http://10.0.0.100:9501"+path, nil)
			}
			rec := httptest.NewRecorder()
			router.ServeHTTP(rec, req)
			return rec.Code
		}
		runs := make([]*reqRun, len(cfg.Reqs))
		for k, n := range cfg.Reqs {
			runs[k] = &reqRun{name: fmt.Sprintf("%d:%s", k, n)}
		}
		vs.NoChoice(false)
		for k, n := range cfg.Reqs {
			k, n := k, n
			vs.Go("req"+runs[k].name, func() { runs[k].status = serve(n); runs[k].done = true })
		}
		vs.Quiesce(0)
		vs.NoChoice(true)
		var obs []string
		stuck := false
		for _, r := range runs {
			if !r.done {
				stuck = true
				obs = append(obs, r.name+"=NEVER-RETURNED")
				continue
			}
			obs = append(obs, fmt.Sprintf("%s=%dxx", r.name, r.status/100))
		}
		out.Obs = strings.Join(obs, " ")
		if stuck {
			var bl []string
			for _, t := range vs.Threads() {
				if !t.Done && t.Kind != "" && !strings.Contains(t.Name, "stub") && t.Name != "main" {
					bl = append(bl, fmt.Sprintf("%s blocked in %s at %s", t.Name, t.Kind, t.Loc))
				}
			}
			viol("handler-never-returns", "%s: %v", out.Obs, bl)
			return
		}
		if !cl.c.VerifTryLock() {
			viol("lock-left-held", "the controller lock is still held after %s", out.Obs)
			return
		}
		probes := []string{"vols", "reps"}
		if cfg.Init == "rw2" {
			probes = append(probes, "err2") // a mode change of the replica the adds were about (fatal on a duplicate entry)
		}
		for _, p := range probes {
			p := p
			done, code := false, 0
			vs.Go("probe-"+p, func() { code = serve(p); done = true })
			vs.Quiesce(0)
			if !done || (code != 200 && !(p == "err2" && code == 404)) {
				viol("probe-not-served", "probe %s after %s: returned=%v status=%d", p, out.Obs, done, code)
				return
			}
		}
		if iv := cl.invariants(); len(iv) > 0 {
			viol("membership-invariant", "after %s: %s", out.Obs, strings.Join(iv, "; "))
		}
		v := cl.c.VerifView()
		var reps []string
		for _, r := range v.Replicas {
			reps = append(reps, r.Address[len("tcp://10.0.0."):len("tcp://10.0.0.")+1]+":"+string(r.Mode))
		}
		sort.Strings(reps)
		sort.Strings(obs)
		out.Obs = fmt.Sprintf("%s | ro=%v rw=%d replicas=%v", strings.Join(obs, " "), v.ReadOnly, v.RWReplicaCount, reps)
	})
	return out, res
}

func c14CtlConfigs(tier string) []C14CtlCfg {
	var out []C14CtlCfg
	pairs := func(init string, menu []string) {
		for i := 0; i < len(menu); i++ {
			for j := i + 1; j < len(menu); j++ {
				out = append(out, C14CtlCfg{Name: "ctl-overlap", Init: init, Reqs: []string{menu[i], menu[j]}})
			}
		}
	}
	pairs("rw3", []string{"vols", "reps", "rep1", "stats", "cp", "snap", "delsnap", "delsnapbad", "del1", "err1", "revert", "resize"})
	pairs("rw2wo", []string{"reps", "ver2", "prep2", "del2", "err0", "snap"})
	pairs("rw2", []string{"vols", "add2", "add3", "del1", "reg3", "snapbad"})
	for _, same := range []string{"snap", "del1", "err1", "delsnap"} {
		out = append(out, C14CtlCfg{Name: "ctl-overlap", Init: "rw3", Reqs: []string{same, same}})
	}
	out = append(out, C14CtlCfg{Name: "ctl-overlap", Init: "rw2", Reqs: []string{"add2", "add2"}})
	out = append(out, C14CtlCfg{Name: "ctl-overlap", Init: "rw2", Reqs: []string{"reg3", "reg3"}})
	if tier == "thorough" {
		for _, t := range [][]string{{"vols", "del1", "err2"}, {"stats", "snap", "del1"}, {"reps", "delsnapbad", "snap"}} {
			out = append(out, C14CtlCfg{Name: "ctl-overlap", Init: "rw3", Reqs: t})
		}
	}
	return out
}

func checkC14ctl() int { return checkSimple("C14", "C14ctl", "C14-ctl.part") }

// c18RestConfigs (part C18rest of C18): the controller's READ handlers (volumes, stats, checkpoint, replica list, one
// replica) against the requests that change membership (REST ERR, removal, snapshot, verify, add): a request that only
// reports must leave the bookkeeping alone - the membership invariants of C18 are evaluated at the end.
func c18RestConfigs(tier string) []C14CtlCfg {
	var out []C14CtlCfg
	for _, g := range []string{"vols", "stats", "cp", "reps", "rep1"} {
		for _, m := range []string{"err1", "err0", "del1", "snap"} {
			out = append(out, C14CtlCfg{Name: "reads", Init: "rw3", Reqs: []string{g, m}})
		}
		for _, m := range []string{"ver2", "err0", "del2"} {
			out = append(out, C14CtlCfg{Name: "reads", Init: "rw2wo", Reqs: []string{g, m}})
		}
	}
	if tier == "thorough" {
		for _, g := range []string{"stats", "reps"} {
			out = append(out, C14CtlCfg{Name: "reads", Init: "rw3", Reqs: []string{g, "err1", "err0"}}, C14CtlCfg{Name: "reads", Init: "rw3", Reqs: []string{g, g, "err1"}})
		}
	}
	return out
}

func checkC18Rest() int { return checkSimple("C18", "C18rest", "C18-rest.part") }
