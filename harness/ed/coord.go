package ed

import (
	"encoding/json"
	"fmt"
	"os"
	"os/exec"
	"path/filepath"
	"regexp"
	"runtime"
	"sort"
	"strconv"
	"strings"
	"sync"
	"time"

	"verif/harness/kernel"
)

// Main dispatches `ed check <id>`, `ed replay <file>`, `ed racepass <id>`.
func Main(args []string) int {
	switch args[0] {
	case "check":
		if len(args) < 2 {
			break
		}
		switch args[1] {
		case "C15":
			return checkC15()
		case "C10conc":
			return checkC10()
		case "C05mon":
			return checkC05()
		case "C05full":
			return checkC05Full()
		case "C16grow":
			return checkC16Grow()
		case "C18atom":
			return checkC18()
		case "C03conc":
			return checkC03()
		case "C13conc":
			return checkC13()
		case "C14conc":
			return checkC14conc()
		case "C17open":
			return checkC17Open()
		case "C14ctl":
			return checkC14ctl()
		case "C18rest":
			return checkC18Rest()
		case "C01conc":
			return checkC01conc()
		case "C06conc":
			return checkC06conc()
		case "C12conc":
			return checkC12conc()
		case "C17conc":
			return checkC17conc()
		case "C16conc":
			return checkC16conc()
		case "C04conc":
			return checkC04()
		case "C02conc":
			return checkC02()
		case "C10prom":
			return checkC10prom()
		case "C05conc":
			return checkC05conc()
		case "C09conc":
			return checkC09conc()
		case "C08conc":
			return checkC08conc()
		}
	case "replay":
		if len(args) < 2 {
			break
		}
		return replayFile(args[1])
	case "racepass":
		if len(args) < 2 {
			break
		}
		return racePass(args[1])
	}
	fmt.Fprintln(os.Stderr, "usage: ed check C15|C10conc|C05mon|C18atom|C03conc|C13conc|C14conc|C14ctl|C01conc|C06conc|C12conc|C17conc|C16conc|C04conc|C02conc|C10prom|C05conc|C09conc|C08conc | ed replay <file> | ed racepass <id> | ed worker")
	return 2
}

type levelStat struct {
	Bounds       Bounds  `json:"bounds"`
	Configs      int     `json:"configs"`
	Jobs         int     `json:"jobs"`
	Executions   int64   `json:"executions"`
	Points       int64   `json:"scheduling_points"`
	ChoicePoints int64   `json:"choice_points"`
	MaxPoints    int     `json:"max_points_in_one_execution"`
	Complete     bool    `json:"complete"`
	WallS        float64 `json:"wall_s"`
}

type foundV struct {
	v       Viol
	job     Job // harness + cfg
	choices []int
	count   int64
}

type grayAgg struct {
	Count   int64  `json:"executions"`
	Config  string `json:"example_config"`
	Choices []int  `json:"example_choices"`
	Note    string `json:"note"`
	Replay  string `json:"replay,omitempty"`
	job     Job
}

// explorer state shared by the checks
type campaign struct {
	prop     string
	engine   string
	pool     *pool
	mu       sync.Mutex
	deadline time.Time
	obs      map[string]int64
	viol     map[string]*foundV
	gray     map[string]*grayAgg
	errs     []string
	totalEx  int64
	totalPts int64
	samples  []*Sample
}

func newCampaign(prop string, budget time.Duration) *campaign {
	n := runtime.NumCPU()
	if n > 16 {
		n = 16
	}
	return &campaign{prop: prop, engine: "ed", pool: newPool(n), deadline: time.Now().Add(budget), obs: map[string]int64{}, viol: map[string]*foundV{}, gray: map[string]*grayAgg{}}
}

// runLevel explores every configuration at the given bounds; the tree of each configuration is split into its
// depth-2 subtrees, which are the unit of work of the 16 worker processes.
func (c *campaign) runLevel(name string, jobs []Job, b Bounds) *levelStat {
	ls := &levelStat{Bounds: b, Configs: len(jobs), Complete: true}
	t0 := time.Now()
	collect := func(base Job) func(*JobResult) {
		return func(jr *JobResult) {
			c.mu.Lock()
			defer c.mu.Unlock()
			ls.Jobs++
			if jr.Err != "" {
				c.errs = append(c.errs, jr.Err)
				ls.Complete = false
				return
			}
			if !jr.Complete {
				ls.Complete = false
			}
			ls.Executions += jr.Executions
			ls.Points += jr.Points
			ls.ChoicePoints += jr.ChoicePoints
			if jr.MaxPoints > ls.MaxPoints {
				ls.MaxPoints = jr.MaxPoints
			}
			c.totalEx += jr.Executions
			c.totalPts += jr.Points
			for o, n := range jr.Obs {
				c.obs[name+" :: "+o] += n
			}
			for sig, n := range jr.ViolCount {
				fv := c.viol[sig]
				if fv == nil {
					for _, x := range jr.Viol {
						if x.Viol.Sig == sig {
							fv = &foundV{v: x.Viol, job: base, choices: x.Choices}
							break
						}
					}
					if fv == nil {
						continue
					}
					c.viol[sig] = fv
				}
				fv.count += n
			}
			for sig, g := range jr.Gray {
				ga := c.gray[sig]
				if ga == nil {
					ga = &grayAgg{Config: base.cfgString(), Choices: g.Example, Note: g.Note, job: base}
					c.gray[sig] = ga
				}
				ga.Count += g.Count
			}
		}
	}
	for i := range jobs {
		base := jobs[i]
		base.B = b
		if b.Total < 2 {
			j := base
			j.Mode = "explore"
			j.Deadline = c.deadline.UnixMilli()
			c.pool.submit(&j, collect(base))
			continue
		}
		sp := base
		sp.Mode = "split"
		c.pool.submit(&sp, func(jr *JobResult) {
			if jr.Err != "" {
				c.mu.Lock()
				c.errs = append(c.errs, jr.Err)
				ls.Complete = false
				c.mu.Unlock()
				return
			}
			for _, leaf := range jr.Leaves {
				j := base
				j.Mode = "explore"
				j.Prefix = leaf
				j.Deadline = c.deadline.UnixMilli()
				if time.Now().After(c.deadline) {
					c.mu.Lock()
					ls.Complete = false
					c.mu.Unlock()
					return
				}
				c.pool.submit(&j, collect(base))
			}
		})
	}
	c.pool.drain()
	ls.WallS = time.Since(t0).Seconds()
	return ls
}

// sample replays one execution with tracing and keeps it for the evidence file.
func (c *campaign) sample(job Job, choices []int) *Sample {
	job.Mode, job.Choices, job.Trace = "replay", choices, true
	var out *Sample
	done := make(chan struct{})
	c.pool.submit(&job, func(jr *JobResult) { out = jr.Sample; close(done) })
	<-done
	return out
}

// confirm replays a violating execution 5 times; it must show the same violation signature every time.
func (c *campaign) confirm(fv *foundV) (int, string) {
	ok := 0
	detail := ""
	for i := 0; i < 5; i++ {
		job := fv.job
		job.Mode, job.Choices = "replay", fv.choices
		done := make(chan *JobResult, 1)
		c.pool.submit(&job, func(jr *JobResult) { done <- jr })
		jr := <-done
		if jr.Err != "" {
			detail = jr.Err
			continue
		}
		if jr.ViolCount[fv.v.Sig] > 0 {
			ok++
		} else {
			detail = fmt.Sprintf("replay %d did not show %s (observed %v)", i, fv.v.Sig, jr.Obs)
		}
	}
	return ok, detail
}

type replayCfg struct {
	Job Job `json:"job"`
}

func (c *campaign) writeReplay(fv *foundV, note string) string {
	job := fv.job
	job.Mode, job.Choices, job.Prefix, job.Deadline = "replay", fv.choices, nil, 0
	cfg, _ := json.Marshal(replayCfg{Job: job})
	path := make([]string, len(fv.choices))
	for i, x := range fv.choices {
		path[i] = strconv.Itoa(x)
	}
	return kernel.WriteReplay(&kernel.Replay{
		Property: c.prop, Engine: "ed", Cfg: cfg, Path: path,
		Violation: kernel.Violation{Oracle: fv.v.Oracle, Signature: fv.v.Sig, Detail: fv.v.Detail},
		Note:      note + " | harness " + job.Harness + ", configuration: " + job.cfgString() + " | path = the answer at every choice point of the scheduler (0 = default: keep running the current thread if enabled, else lowest thread id; k = k-th alternative). Re-run: /verif/build/ed replay <this file>",
	})
}

// report prints VIOLATION / KNOWN-FINDING lines after confirming each distinct violation; returns (#new, #known, harness error).
func (c *campaign) report() (int, int, bool) {
	findings := kernel.LoadFindings()
	sigs := make([]string, 0, len(c.viol))
	for s := range c.viol {
		sigs = append(sigs, s)
	}
	sort.Strings(sigs)
	nNew, nKnown := 0, 0
	for _, s := range sigs {
		fv := c.viol[s]
		ok, detail := c.confirm(fv)
		if ok != 5 {
			fmt.Printf("HARNESS-ERROR property=%s violation %s reproduced only %d/5 times: %s\n", c.prop, s, ok, detail)
			return nNew, nKnown, true
		}
		p := c.writeReplay(fv, fmt.Sprintf("seen in %d execution(s) of this run; reproduced 5/5", fv.count))
		if kf := kernel.KnownFor(findings, c.prop, s); kf != nil {
			fmt.Printf("KNOWN-FINDING: property=%s %s (signature %s, replay=%s)\n", c.prop, kf.What, s, p)
			nKnown++
			continue
		}
		fmt.Printf("VIOLATION property=%s replay=%s\n  signature: %s (%d executions)\n  %s\n", c.prop, p, s, fv.count, strings.SplitN(fv.v.Detail, "\n", 2)[0])
		nNew++
	}
	return nNew, nKnown, false
}

func replayFile(path string) int {
	Quiet()
	r, err := kernel.ReadReplay(path)
	if err != nil {
		fmt.Fprintln(os.Stderr, "replay:", err)
		return 2
	}
	var rc replayCfg
	if err := json.Unmarshal(r.Cfg, &rc); err != nil {
		fmt.Fprintln(os.Stderr, "replay: bad cfg:", err)
		return 2
	}
	job := rc.Job
	job.Mode, job.Trace = "replay", true
	job.Choices = nil
	for _, s := range r.Path {
		n, _ := strconv.Atoi(s)
		job.Choices = append(job.Choices, n)
	}
	fmt.Printf("replaying %s: %s\nexpected: %s\n", job.Harness, job.cfgString(), r.Violation.Signature)
	fmt.Println("step  thread   operation                at (function, file:line of the generated source under /verif/build/ovl-d)")
	jr := RunJob(&job)
	if jr.Sample != nil {
		for _, l := range jr.Sample.Schedule {
			fmt.Println(l)
		}
		fmt.Println("final observation:", jr.Sample.Obs)
	}
	if jr.Err != "" {
		fmt.Println("harness error:", jr.Err)
		return 2
	}
	for sig, g := range jr.Gray {
		fmt.Printf("observation (not a violation): %s — %s\n", sig, g.Note)
	}
	hit := false
	for _, v := range jr.Viol {
		fmt.Printf("violation: %s\n  %s\n", v.Viol.Sig, v.Viol.Detail)
		if v.Viol.Sig == r.Violation.Signature {
			hit = true
		}
	}
	if jr.Stacks != "" {
		fmt.Println("goroutine dump at the end of the execution:\n" + jr.Stacks)
	}
	if len(jr.Viol) == 0 {
		fmt.Println("no violation in this execution")
		return 0
	}
	if !hit && r.Violation.Signature != "" && !strings.HasPrefix(r.Violation.Oracle, "observation") {
		fmt.Println("(the recorded signature was not reproduced)")
	}
	return 1
}

// ---------------------------------------------------------------------------------------------------------------
// C15

func c15Scenarios(tier string) []Scenario {
	lv := func(x ...[3]int) []Bounds {
		var out []Bounds
		for _, b := range x {
			out = append(out, Bounds{P: b[0], T: b[1], Total: b[2]})
		}
		return out
	}
	if tier == "thorough" {
		return []Scenario{
			{"2x1", []string{"R", "W"}, lv([3]int{0, 0, 0}, [3]int{1, 1, 1}, [3]int{2, 1, 2}, [3]int{2, 2, 3}, [3]int{3, 2, 4}), false},
			{"2x2", []string{"RS", "WP"}, lv([3]int{0, 0, 0}, [3]int{1, 1, 1}, [3]int{2, 1, 2}, [3]int{3, 2, 3}), false},
			{"2xR", []string{"R", "R"}, lv([3]int{0, 0, 0}, [3]int{1, 1, 1}, [3]int{2, 1, 2}, [3]int{3, 2, 3}), false},
			{"3x1", []string{"R", "W", "R"}, lv([3]int{0, 0, 0}, [3]int{1, 1, 1}, [3]int{2, 1, 2}, [3]int{3, 2, 3}), false},
			{"3x211", []string{"RS", "W", "P"}, lv([3]int{0, 0, 0}, [3]int{1, 1, 1}, [3]int{2, 1, 2}, [3]int{3, 2, 3}), false},
			{"srv2x2", []string{"RS", "WP"}, lv([3]int{0, 0, 0}, [3]int{1, 0, 1}, [3]int{2, 0, 2}, [3]int{3, 0, 3}), true},
			{"srv3x1", []string{"R", "W", "R"}, lv([3]int{0, 0, 0}, [3]int{1, 0, 1}, [3]int{2, 0, 2}, [3]int{3, 0, 3}), true},
		}
	}
	return []Scenario{
		{"2x1", []string{"R", "W"}, lv([3]int{0, 0, 0}, [3]int{1, 1, 1}, [3]int{2, 1, 2}, [3]int{2, 2, 3}), false},
		{"2x2", []string{"RS", "WP"}, lv([3]int{0, 0, 0}, [3]int{1, 1, 1}, [3]int{2, 1, 2}), false},
		{"2xR", []string{"R", "R"}, lv([3]int{0, 0, 0}, [3]int{1, 1, 1}, [3]int{2, 1, 2}), false},     // two reads in flight: replies decoded back to back
		{"srv2x2", []string{"RS", "WP"}, lv([3]int{0, 0, 0}, [3]int{1, 0, 1}, [3]int{2, 0, 2}), true}, // the real rpc.Server as the peer
	}
}

func checkC15() int {
	t0 := time.Now()
	tier, seed := kernel.Tier(), kernel.Seed()
	budget := 150 * time.Second
	if tier == "thorough" {
		budget = 20 * time.Minute
	}
	budget = budgetOverride(budget)
	Quiet()
	fmt.Printf("C15 tier=%s: codec product space ...\n", tier)
	codec := CheckCodec()
	fmt.Printf("  %d round trips, %d truncations, %d bad-magic frames, %d streams; %d violations\n", codec.RoundTrips, codec.Truncations, codec.BadMagic, codec.BackToBack, len(codec.Violations))

	raceCh := make(chan *RaceSummary, 1)
	go func() { raceCh <- runRacePass("C15") }()
	c := newCampaign("C15", budget)
	defer c.pool.close()
	for _, v := range codec.Violations {
		if c.viol[v.Sig] == nil {
			c.viol[v.Sig] = &foundV{v: v, job: Job{Harness: "codec", CodecSig: v.Sig}}
		}
		c.viol[v.Sig].count++
	}
	scs := c15Scenarios(tier)
	type scStat struct {
		Name         string       `json:"scenario"`
		Callers      []string     `json:"callers"`
		Permutations int          `json:"reply_orders"`
		FaultVars    int          `json:"fault_variants"`
		Configs      int          `json:"configurations"`
		Levels       []*levelStat `json:"levels"`
		Completed    *Bounds      `json:"bounds_completed"`
	}
	var stats []*scStat
	jobsOf := map[string][]Job{}
	perms, faultVars := 0, 0
	for _, sc := range scs {
		cfgs := C15Configs(sc)
		st := &scStat{Name: sc.Name, Callers: sc.Callers, Permutations: len(linearExtensions(sc.Callers)), Configs: len(cfgs)}
		for i := range cfgs {
			cf := cfgs[i]
			jobsOf[sc.Name] = append(jobsOf[sc.Name], Job{Harness: "C15", C15: &cf})
			if cf.Fault != "" {
				st.FaultVars++
			}
		}
		perms += st.Permutations
		faultVars += st.FaultVars
		stats = append(stats, st)
	}
	maxLv := 0
	for _, sc := range scs {
		if len(sc.Levels) > maxLv {
			maxLv = len(sc.Levels)
		}
	}
	exhaustive := true
	stopped := map[string]bool{}
levels:
	for li := 0; li < maxLv; li++ {
		for si, sc := range scs {
			if li >= len(sc.Levels) || stopped[sc.Name] {
				continue
			}
			if time.Now().After(c.deadline) {
				exhaustive = false
				break levels
			}
			b := sc.Levels[li]
			ls := c.runLevel(sc.Name, jobsOf[sc.Name], b)
			stats[si].Levels = append(stats[si].Levels, ls)
			fmt.Printf("  %-6s %-22s %4d configs %9d executions %11d points  %.1fs complete=%v\n", sc.Name, b, ls.Configs, ls.Executions, ls.Points, ls.WallS, ls.Complete)
			if len(c.errs) > 0 {
				break levels
			}
			if ls.Complete {
				bb := b
				stats[si].Completed = &bb
			} else {
				exhaustive = false
				stopped[sc.Name] = true
			}
		}
	}
	if len(c.errs) > 0 {
		fmt.Printf("HARNESS-ERROR property=C15 %s\n", c.errs[0])
		return 2
	}
	for si, sc := range scs {
		if stats[si].Completed == nil || *stats[si].Completed != sc.Levels[len(sc.Levels)-1] {
			exhaustive = false
		}
	}
	// samples: the default schedule of a fault-free and of a faulty configuration, and one with deviations
	var samples []interface{}
	for _, sj := range []struct {
		job     Job
		choices []int
	}{
		{jobsOf[scs[0].Name][0], nil},
		{jobsOf[scs[0].Name][1], nil},
		{jobsOf[scs[len(scs)-1].Name][0], []int{0, 0, 0, 0, 0, 1, 0, 0, 0, 0, 0, 0, 0, 0, 0, 0, 0, 0, 0, 0, 1}},
	} {
		if s := c.sample(sj.job, sj.choices); s != nil {
			samples = append(samples, s)
		}
	}
	// gray-area observations get a replay artefact each, so they can be looked at
	grayOut := map[string]*grayAgg{}
	for sig, g := range c.gray {
		fv := &foundV{v: Viol{Oracle: "observation (gray area, not a violation)", Sig: sig, Detail: g.Note}, job: g.job, choices: g.Choices, count: g.Count}
		g.Replay = c.writeReplayIn("C15-observations", fv)
		grayOut[sig] = g
	}
	race := <-raceCh
	nNew, nKnown, herr := c.report()
	if herr {
		return 2
	}
	// evidence
	minP, minT := -1, -1
	var lastEx, lastPts int64
	for _, st := range stats {
		if st.Completed == nil {
			minP, minT = 0, 0
			continue
		}
		if minP < 0 || st.Completed.P < minP {
			minP = st.Completed.P
		}
		if minT < 0 || st.Completed.T < minT {
			minT = st.Completed.T
		}
		for _, l := range st.Levels {
			if l.Complete && l.Bounds == *st.Completed {
				lastEx += l.Executions
				lastPts += l.Points
			}
		}
	}
	obsKeys := make([]string, 0, len(c.obs))
	for k := range c.obs {
		obsKeys = append(obsKeys, k)
	}
	sort.Strings(obsKeys)
	codecCases := codec.RoundTrips + codec.Truncations + codec.BadMagic + codec.BackToBack
	ev := &kernel.Evidence{
		PropertyID: "C15", Tier: tier, Seed: seed, Level: "model_checking",
		Coverage: map[string]interface{}{
			"states":                               len(c.obs),
			"transitions":                          c.totalPts,
			"traces_validated_against_impl":        c.totalEx,
			"rule":                                 "stateless deviation-bounded DFS over the schedules of the REAL rpc.Client (rewritten by /verif/tools/instr: every go/chan/select/lock/timer is a scheduling point of a cooperative scheduler, one thread runs at a time). A configuration = caller threads x operations x reply order of the scripted peer (every linear extension of the callers' program orders) x fault variant (none | at reply k the peer stalls / closes / sends a bad-magic header, either instead of reply k or immediately after reply k-1). Within a configuration every choice sequence with <= P non-default thread choices (preemptions, non-lowest-id continuation after a block, non-first ready select case) and <= T early timer firings (P+T <= total) is executed to quiescence (all armed timers fired). states = distinct (scenario, final observation) pairs, where the observation is every request's result class, poisoned flag, closeChan tokens, live client threads; transitions = scheduling points executed (all levels); traces_validated_against_impl = executions run on the real code (all levels; the levels are cumulative, executions_at_completed_bound counts the last completed level only).",
			"samples":                              samples,
			"exhaustive":                           exhaustive,
			"preemption_bound_completed":           minP,
			"timer_deviation_bound_completed":      minT,
			"executions":                           lastEx,
			"executions_all_levels":                c.totalEx,
			"scheduling_points_at_completed_bound": lastPts,
			"distinct_outcomes":                    len(c.obs),
			"outcomes":                             obsCounts(c.obs, 60),
			"permutations":                         perms,
			"fault_variants":                       faultVars,
			"scenarios":                            stats,
			"codec_cases":                          codecCases,
			"codec":                                codec,
			"race_pass":                            race,
			"gray_area_observations":               grayOut,
			"observations":                         observationList(grayOut),
			"known_findings_matched":               nKnown,
		},
		Assumptions: []string{
			"sequential consistency between scheduling points: code between two hooked operations (bufio, encoding/binary, logrus, journal bookkeeping, the in-memory connection) runs atomically; unsynchronised fields (Client.err in operation, Wire.readExit/writeExit in Close) get an explicit scheduling point before each access; the free-running -race pass lists the races this hides",
			"bounded: 2 (thorough 3) caller threads with 1-2 operations, deviation bounds as reported per scenario; the default continuation after a blocked thread is the lowest thread id, any other choice costs one deviation",
			"the connection is an in-memory duplex stream with TCP-like half-close; rpc.Wire's type assertion *net.TCPConn is rewritten to the interface vs.HalfCloser (which *net.TCPConn satisfies) so that Client.Close runs its real shutdown/poll path",
			"virtual time: timers fire when no thread can run, or earlier as a counted deviation; 'promptly' is judged on armed deadlines: a request must not need its own 30/40 s deadline when the client was poisoned more than the implementation's own 2 s settle delay before it",
			"map iteration over Client.messages in handleResponse is replaced by ascending-seq order (deterministic replay); the order in which in-flight requests are failed is therefore not varied",
			"wall-clock RPC time-outs and killed processes are represented by timer-fired / connection-closed events on the same code paths",
			"codec: truncation of the 64 KiB frame is checked at the header, both ends and every 4 KiB boundary +-1 (all other frames: every byte); corrupted length fields are not enumerated (they only change how much is read)",
		},
		WallS: time.Since(t0).Seconds(), Violations: nNew,
	}
	if err := kernel.WriteEvidence(ev); err != nil {
		fmt.Fprintln(os.Stderr, "evidence:", err)
		return 2
	}
	fmt.Printf("C15: %d executions (%d at the completed bounds), %d scheduling points, %d distinct outcomes, bounds completed P=%d T=%d, exhaustive=%v, %d gray-area observation kinds, %d violations, %d known, %.0fs\n",
		c.totalEx, lastEx, c.totalPts, len(c.obs), minP, minT, exhaustive, len(c.gray), nNew, nKnown, time.Since(t0).Seconds())
	printGray(grayOut)
	if nNew > 0 {
		return 1
	}
	return 0
}

// budgetOverride: VERIF_ED_BUDGET_S=<seconds> replaces the internal exploration budget (used to test the early-stop path).
func budgetOverride(d time.Duration) time.Duration {
	if n, err := strconv.Atoi(os.Getenv("VERIF_ED_BUDGET_S")); err == nil && n > 0 {
		return time.Duration(n) * time.Second
	}
	return d
}

var observationText = map[string]string{
	"late-fail": "a request that has passed the c.err check, or sits in Client.requests, when Client.loop handles the transport error and exits is never failed by the client (loop returns without draining Client.requests); it returns only when its own 30/40 s deadline fires. It does return (no hang); whether that is 'promptly' is a matter of reading, so it is recorded, not judged",
	"inflight-own-deadline-under-early-timer": "artefact of the explorer firing timers while a thread is runnable (starvation): the in-flight request's completion was delivered but the caller took the timeout branch; the registered-requests check at quiescence is the deciding oracle for such executions",
	"failed-request-sent-as-error-frame":      "replyError rewrites in place a *Message that is still queued in Client.send (Type=TypeError, Data=error text); when the write goroutine had not yet sent it (it was not scheduled during the 2 s settle sleep, e.g. blocked in a stalled TCP write) it then puts a TypeError frame carrying the error text on the wire (with true parallelism the frame can be torn). A code defect, but not a clause of C15 (replies reach their requests, frames round-trip, pending/later requests fail promptly, failure is reported), hence an observation",
	"client-thread-alive-after-poison":        "client goroutines still blocked at quiescence after the client was poisoned",
	"horizon-inconclusive":                    "the fault happened too close to the virtual-time horizon to judge the report",
}

// observationList: one entry per class of observation (count, example, explanation) for coverage.observations.
func observationList(g map[string]*grayAgg) []map[string]interface{} {
	type cls struct {
		n    int64
		sigs []string
		ex   *grayAgg
		sig  string
	}
	m := map[string]*cls{}
	for sig, a := range g {
		k := strings.SplitN(sig, ":", 2)[0]
		c := m[k]
		if c == nil {
			c = &cls{}
			m[k] = c
		}
		c.n += a.Count
		c.sigs = append(c.sigs, sig)
		if c.ex == nil || len(a.Choices) < len(c.ex.Choices) || (len(a.Choices) == len(c.ex.Choices) && sig < c.sig) {
			c.ex, c.sig = a, sig
		}
	}
	ks := make([]string, 0, len(m))
	for k := range m {
		ks = append(ks, k)
	}
	sort.Strings(ks)
	out := []map[string]interface{}{}
	for _, k := range ks {
		c := m[k]
		sort.Strings(c.sigs)
		out = append(out, map[string]interface{}{
			"class": k, "executions": c.n, "signatures": c.sigs, "counted_as_violation": false,
			"example_signature": c.sig, "example_config": c.ex.Config, "example_replay": c.ex.Replay, "example_note": c.ex.Note,
			"explanation": observationText[k],
		})
	}
	return out
}

// printGray prints one line per class of gray-area observation (the evidence file has every signature).
func printGray(g map[string]*grayAgg) {
	type cls struct {
		n    int64
		sigs int
		ex   *grayAgg
		sig  string
	}
	m := map[string]*cls{}
	for sig, a := range g {
		k := strings.SplitN(sig, ":", 2)[0]
		c := m[k]
		if c == nil {
			c = &cls{}
			m[k] = c
		}
		c.n += a.Count
		c.sigs++
		if c.ex == nil || len(a.Choices) < len(c.ex.Choices) || (len(a.Choices) == len(c.ex.Choices) && sig < c.sig) {
			c.ex, c.sig = a, sig
		}
	}
	ks := make([]string, 0, len(m))
	for k := range m {
		ks = append(ks, k)
	}
	sort.Strings(ks)
	for _, k := range ks {
		c := m[k]
		fmt.Printf("OBSERVATION (gray area, not counted as a violation) %s: %d executions in %d signatures, e.g. %s [%s] replay=%s\n  %s\n", k, c.n, c.sigs, c.sig, c.ex.Config, c.ex.Replay, c.ex.Note)
	}
}

func (c *campaign) writeReplayIn(dir string, fv *foundV) string {
	save := c.prop
	c.prop = dir
	p := c.writeReplay(fv, fmt.Sprintf("seen in %d execution(s)", fv.count))
	c.prop = save
	return p
}

func obsCounts(m map[string]int64, max int) map[string]int64 {
	out := map[string]int64{}
	ks := sortedKeys(m)
	for i, k := range ks {
		if i >= max {
			out["... ("+strconv.Itoa(len(ks)-max)+" more)"] = 0
			break
		}
		out[k] = m[k]
	}
	return out
}

// ---------------------------------------------------------------------------------------------------------------
// free-running race pass

type RaceSummary struct {
	Ran     bool     `json:"ran"`
	Runs    int      `json:"runs"`
	Reports int      `json:"race_reports"`
	Races   []string `json:"distinct_races"`
	Note    string   `json:"note"`
}

var raceFrame = regexp.MustCompile(`^\s+((?:github.com/openebs/jiva|verif/harness)\S*)\(\)\s*$`)

// runRacePass runs `ed-race racepass <id>` (the same harness bodies, no scheduler, pass-through shims) and summarises
// the race detector's reports.
func runRacePass(id string) *RaceSummary {
	rs := &RaceSummary{}
	self, _ := os.Executable()
	bin := filepath.Join(filepath.Dir(self), "ed-race")
	if _, err := os.Stat(bin); err != nil {
		rs.Note = "race binary not built (bin/build-ed race)"
		return rs
	}
	logp := filepath.Join(filepath.Dir(self), "race-"+id)
	old, _ := filepath.Glob(logp + ".*")
	for _, f := range old {
		os.Remove(f)
	}
	cmd := exec.Command(bin, "racepass", id)
	cmd.Env = append(os.Environ(), "GORACE=log_path="+logp+" halt_on_error=0 history_size=3")
	outb, err := cmd.CombinedOutput()
	rs.Ran = true
	if m := regexp.MustCompile(`runs=(\d+)`).FindSubmatch(outb); m != nil {
		rs.Runs, _ = strconv.Atoi(string(m[1]))
	}
	if err != nil {
		if _, isExit := err.(*exec.ExitError); !isExit {
			rs.Note = "race pass failed to run: " + err.Error()
			return rs
		}
	}
	files, _ := filepath.Glob(logp + ".*")
	seen := map[string]bool{}
	for _, f := range files {
		b, _ := os.ReadFile(f)
		for _, rep := range strings.Split(string(b), "WARNING: DATA RACE")[1:] {
			rs.Reports++
			// first jiva/harness frame of each of the two accesses
			var tops []string
			for _, sec := range strings.Split(rep, "\n\n") {
				h := strings.TrimSpace(sec)
				if !(strings.HasPrefix(h, "Read at") || strings.HasPrefix(h, "Write at") || strings.HasPrefix(h, "Previous read at") || strings.HasPrefix(h, "Previous write at")) {
					continue
				}
				kind := strings.Fields(h)[0]
				if kind == "Previous" {
					kind = strings.Fields(h)[1]
				}
				for _, l := range strings.Split(sec, "\n") {
					if m := raceFrame.FindStringSubmatch(l); m != nil && !strings.Contains(m[1], "verifshim") {
						fn := m[1]
						fn = strings.TrimPrefix(fn, "github.com/openebs/jiva/")
						if strings.Contains(fn, ".Verif") {
							fn += " [read-only accessor called by the harness]"
						}
						tops = append(tops, strings.ToLower(kind)+" in "+fn)
						break
					}
				}
			}
			sort.Strings(tops)
			k := strings.Join(tops, "  <->  ")
			if k != "" && !seen[k] {
				seen[k] = true
				rs.Races = append(rs.Races, k)
			}
		}
	}
	sort.Strings(rs.Races)
	rs.Note = "free-running (no scheduler, pass-through vs/vsync, real time divided by 1000) under the Go race detector; races on the unchanged tree are limits of the sequential-consistency assumption of the scheduler, not property violations"
	return rs
}

func racePass(id string) int {
	Quiet()
	runs := 0
	switch id {
	case "C15":
		for rep := 0; rep < 1; rep++ {
			for _, sc := range c15Scenarios("quick") {
				for _, cf := range C15Configs(sc) {
					_, body := RunC15(cf, func() bool { return true })
					body()
					runs++
				}
			}
		}
	case "C10conc":
		runs = raceC10()
	}
	fmt.Printf("runs=%d\n", runs)
	return 0
}

// ---------------------------------------------------------------------------------------------------------------
// C10conc / C05mon: one list of configurations, cumulative deviation levels, a part-evidence file

func checkSimple(prop, harness, evName string) int {
	t0 := time.Now()
	tier, seed := kernel.Tier(), kernel.Seed()
	budget := 100 * time.Second
	if tier == "thorough" {
		budget = 10 * time.Minute
	}
	budget = budgetOverride(budget)
	Quiet()
	c := newCampaign(prop, budget)
	defer c.pool.close()
	var jobs []Job
	var levels []Bounds
	switch harness {
	case "C10conc":
		for _, cf := range c10Configs(tier) {
			cf := cf
			jobs = append(jobs, Job{Harness: harness, C10: &cf})
		}
		levels = []Bounds{{0, 0, 0}, {1, 0, 1}, {2, 0, 2}, {3, 0, 3}}
		if tier == "thorough" {
			levels = append(levels, Bounds{4, 0, 4})
		}
	case "C03conc":
		for _, cf := range c03Configs(tier) {
			cf := cf
			jobs = append(jobs, Job{Harness: harness, C03: &cf})
		}
		levels = []Bounds{{0, 0, 0}, {1, 0, 1}, {2, 0, 2}, {3, 0, 3}}
		if tier == "thorough" {
			levels = append(levels, Bounds{4, 0, 4})
		}
	case "C01conc", "C06conc", "C12conc", "C17conc", "C16conc", "C08conc":
		for _, cf := range c01Configs(harness, tier) {
			cf := cf
			jobs = append(jobs, Job{Harness: harness, C01: &cf})
		}
		levels = []Bounds{{0, 0, 0}, {1, 0, 1}, {2, 0, 2}, {3, 0, 3}}
		if tier == "thorough" {
			levels = append(levels, Bounds{4, 0, 4}, Bounds{5, 0, 5})
		}
	case "C18rest":
		for _, cf := range c18RestConfigs(tier) {
			cf := cf
			jobs = append(jobs, Job{Harness: harness, C14Ctl: &cf})
		}
		levels = []Bounds{{0, 0, 0}, {1, 0, 1}, {2, 0, 2}}
		if tier == "thorough" {
			levels = append(levels, Bounds{3, 0, 3}, Bounds{4, 0, 4})
		}
	case "C14ctl":
		for _, cf := range c14CtlConfigs(tier) {
			cf := cf
			jobs = append(jobs, Job{Harness: harness, C14Ctl: &cf})
		}
		levels = []Bounds{{0, 0, 0}, {1, 0, 1}, {2, 0, 2}}
		if tier == "thorough" {
			levels = append(levels, Bounds{3, 0, 3}, Bounds{4, 0, 4})
		}
	case "C17open":
		for _, cf := range c17OpenConfigs(tier) {
			cf := cf
			jobs = append(jobs, Job{Harness: harness, C14: &cf})
		}
		levels = []Bounds{{0, 0, 0}, {1, 0, 1}, {2, 0, 2}}
		if tier == "thorough" {
			levels = append(levels, Bounds{3, 0, 3}, Bounds{4, 0, 4})
		}
	case "C14conc":
		for _, cf := range c14Configs(tier) {
			cf := cf
			jobs = append(jobs, Job{Harness: harness, C14: &cf})
		}
		levels = []Bounds{{0, 0, 0}, {1, 0, 1}, {2, 0, 2}}
		if tier == "thorough" {
			levels = append(levels, Bounds{3, 0, 3}, Bounds{4, 0, 4})
		}
	case "C09conc":
		for _, cf := range c09Configs(tier) {
			cf := cf
			jobs = append(jobs, Job{Harness: harness, C09: &cf})
		}
		levels = []Bounds{{0, 0, 0}, {1, 0, 1}, {2, 0, 2}, {3, 0, 3}}
		if tier == "thorough" {
			levels = append(levels, Bounds{4, 0, 4}, Bounds{5, 0, 5})
		}
	case "C05conc":
		for _, cf := range c05ConcConfigs(tier) {
			cf := cf
			jobs = append(jobs, Job{Harness: harness, C18: &cf})
		}
		levels = []Bounds{{0, 0, 0}, {1, 0, 1}, {2, 0, 2}, {3, 0, 3}}
		if tier == "thorough" {
			levels = append(levels, Bounds{4, 0, 4}, Bounds{5, 0, 5})
		}
	case "C10prom":
		for _, cf := range c10PromConfigs(tier) {
			cf := cf
			jobs = append(jobs, Job{Harness: harness, C18: &cf})
		}
		levels = []Bounds{{0, 0, 0}, {1, 0, 1}, {2, 0, 2}, {3, 0, 3}}
		if tier == "thorough" {
			levels = append(levels, Bounds{4, 0, 4}, Bounds{5, 0, 5})
		}
	case "C02conc":
		for _, cf := range c02Configs(tier) {
			cf := cf
			jobs = append(jobs, Job{Harness: harness, C18: &cf})
		}
		levels = []Bounds{{0, 0, 0}, {1, 0, 1}, {2, 0, 2}, {3, 0, 3}}
		if tier == "thorough" {
			levels = append(levels, Bounds{4, 0, 4}, Bounds{5, 0, 5})
		}
	case "C04conc":
		for _, cf := range c04Configs(tier) {
			cf := cf
			jobs = append(jobs, Job{Harness: harness, C18: &cf})
		}
		levels = []Bounds{{0, 0, 0}, {1, 0, 1}, {2, 0, 2}, {3, 0, 3}}
		if tier == "thorough" {
			levels = append(levels, Bounds{4, 0, 4}, Bounds{5, 0, 5})
		}
	case "C13conc":
		for _, cf := range c13Configs(tier) {
			cf := cf
			jobs = append(jobs, Job{Harness: harness, C18: &cf})
		}
		levels = []Bounds{{0, 0, 0}, {1, 0, 1}, {2, 0, 2}, {3, 0, 3}}
		if tier == "thorough" {
			levels = append(levels, Bounds{4, 0, 4}, Bounds{5, 0, 5})
		}
	case "C16grow":
		for _, cf := range c16GrowConfigs(tier) {
			cf := cf
			jobs = append(jobs, Job{Harness: harness, C18: &cf})
		}
		levels = []Bounds{{0, 0, 0}, {1, 0, 1}, {2, 0, 2}, {3, 0, 3}}
		if tier == "thorough" {
			levels = append(levels, Bounds{4, 0, 4}, Bounds{5, 0, 5})
		}
	case "C18atom":
		for _, cf := range c18Configs(tier) {
			cf := cf
			jobs = append(jobs, Job{Harness: harness, C18: &cf})
		}
		levels = []Bounds{{0, 0, 0}, {1, 0, 1}, {2, 0, 2}, {3, 0, 3}}
		if tier == "thorough" {
			levels = append(levels, Bounds{4, 0, 4}, Bounds{5, 0, 5})
		}
	case "C05full":
		for _, cf := range c05FullConfigs(tier) {
			cf := cf
			jobs = append(jobs, Job{Harness: harness, C05Full: &cf})
		}
		levels = []Bounds{{0, 0, 0}, {1, 0, 1}}
		if tier == "thorough" {
			levels = append(levels, Bounds{2, 0, 2})
		}
	case "C05mon":
		for _, cf := range c05Configs(tier) {
			cf := cf
			jobs = append(jobs, Job{Harness: harness, C05: &cf})
		}
		levels = []Bounds{{0, 0, 0}, {1, 1, 1}, {2, 1, 2}, {3, 1, 3}}
		if tier == "thorough" {
			levels = append(levels, Bounds{3, 2, 4})
		}
	}
	var stats []*levelStat
	var completed *Bounds
	exhaustive := true
	for _, b := range levels {
		if time.Now().After(c.deadline) {
			exhaustive = false
			break
		}
		ls := c.runLevel(harness, jobs, b)
		stats = append(stats, ls)
		fmt.Printf("  %-8s %-22s %4d configs %9d executions %11d points  %.1fs complete=%v\n", harness, b, ls.Configs, ls.Executions, ls.Points, ls.WallS, ls.Complete)
		if len(c.errs) > 0 {
			fmt.Printf("HARNESS-ERROR property=%s %s\n", prop, c.errs[0])
			return 2
		}
		if !ls.Complete {
			exhaustive = false
			break
		}
		bb := b
		completed = &bb
	}
	var samples []interface{}
	if s := c.sample(jobs[len(jobs)-1], nil); s != nil {
		samples = append(samples, s)
	}
	if s := c.sample(jobs[len(jobs)-1], []int{0, 0, 1, 0, 0, 0, 1}); s != nil {
		samples = append(samples, s)
	}
	grayOut := map[string]*grayAgg{}
	for sig, g := range c.gray {
		fv := &foundV{v: Viol{Oracle: "observation (gray area, not a violation)", Sig: sig, Detail: g.Note}, job: g.job, choices: g.Choices, count: g.Count}
		g.Replay = c.writeReplayIn(prop+"-observations", fv)
		grayOut[sig] = g
	}
	var race *RaceSummary
	if harness == "C10conc" {
		race = runRacePass(harness)
	}
	nNew, nKnown, herr := c.report()
	if herr {
		return 2
	}
	var lastEx int64
	pb := 0
	if completed != nil {
		pb = completed.P
		for _, l := range stats {
			if l.Bounds == *completed {
				lastEx = l.Executions
			}
		}
	}
	ev := &kernel.Evidence{
		PropertyID: prop, Tier: tier, Seed: seed, Level: "model_checking",
		Coverage: map[string]interface{}{
			"engine":                        "E-D " + harness,
			"states":                        len(c.obs),
			"transitions":                   c.totalPts,
			"traces_validated_against_impl": c.totalEx,
			"rule":                          "stateless deviation-bounded DFS over thread schedules of the real code under the cooperative scheduler (see C15); states = distinct final observations, transitions = scheduling points executed, traces = executions (levels are cumulative)",
			"samples":                       samples,
			"exhaustive":                    exhaustive,
			"preemption_bound_completed":    pb,
			"executions":                    lastEx,
			"executions_all_levels":         c.totalEx,
			"distinct_outcomes":             len(c.obs),
			"outcomes":                      obsCounts(c.obs, 80),
			"configurations":                len(jobs),
			"levels":                        stats,
			"gray_area_observations":        grayOut,
			"observations":                  observationList(grayOut),
			"known_findings_matched":        nKnown,
			"race_pass":                     race,
		},
		Assumptions: simpleAssumptions(harness),
		WallS:       time.Since(t0).Seconds(), Violations: nNew,
	}
	eb, _ := json.MarshalIndent(ev, "", " ")
	os.MkdirAll(filepath.Join(kernel.OutDir(), "evidence"), 0755)
	if err := os.WriteFile(filepath.Join(kernel.OutDir(), "evidence", evName+".json"), append(eb, '\n'), 0644); err != nil {
		fmt.Fprintln(os.Stderr, "evidence:", err)
		return 2
	}
	fmt.Printf("%s: %d executions (%d at the completed bound), %d scheduling points, %d distinct outcomes, bound completed P=%d, exhaustive=%v, %d violations, %d known, %.0fs -> evidence/%s.json\n",
		harness, c.totalEx, lastEx, c.totalPts, len(c.obs), pb, exhaustive, nNew, nKnown, time.Since(t0).Seconds(), evName)
	printGray(grayOut)
	if nNew > 0 {
		return 1
	}
	return 0
}

func simpleAssumptions(h string) []string {
	switch h {
	case "C10conc":
		return []string{
			"one real on-disk replica.Replica (16 x 4 KiB, O_DIRECT files in a scratch directory) per worker process, reused across executions: every execution starts from the counter value the previous one left (read before the threads start)",
			"scheduling points: Replica.RLock/Lock (Go's writer preference modelled: a Lock call announces itself first), volume.rmLock, revisionLock; file-system calls between two points run atomically",
			"the mode a write was applied in is the value of Replica.mode at the moment the write acquired Replica.RLock (recorded by a scheduler hook; SetReplicaMode needs the write lock), so the expected count is exact",
			"persisted value: read back from the revision.counter block after every execution; close+reopen once per explored subtree (job), not per execution",
		}
	case "C03conc":
		return []string{
			"the controller harness of C18atom (real controller.Controller with package controller under the scheduler, real *remote.Remote backends, E-B's model replica nodes); memberships: 3 RW, 2 RW of RF 3 (exactly at quorum), 2 RW + 1 WO, RF 2 with 2 RW, RF 1",
			"oracle inside the stub data path: when the FIRST replica call of a write/sync/unmap operation arrives at a replica, the number of RW entries of the controller's replica list at that moment (not the cached RWReplicaCount) must be >= RF/2+1; the other calls of the same MultiWriterAt fan-out belong to the same admission; an operation refused as read-only must not have reached any replica",
			"calls are attributed to operations by payload byte (write), offset (unmap), and by being the only sync of the configuration; failing calls fail before being applied on the chosen replica",
		}
	case "C18atom", "C13conc", "C04conc", "C02conc", "C10prom", "C05conc", "C16grow":
		return []string{
			"real controller.Controller (whole package under the scheduler: Controller.RWMutex, MultiWriterAt/replicator fan-out goroutines and wait groups, Controller.monitoring goroutines) with real *remote.Remote backends whose REST and data calls go in-process to engine E-B's model replica nodes (bound to the real replica by E-B's conformance check)",
			"each execution builds its own cluster inside the scheduler (register x2, start, add+sync+verify) without exploring that prefix; then the calls run concurrently; map iterations of package controller are in key order",
			"reference = every sequential order of the same calls, each run to quiescence, AddReplica counting as two events (check+factory.Create | attach) as in E-B's event alphabet; monitor failure = an error put on the backend's monitor channel; the StopMonitoring branch of monitorPing is played by a stub thread",
			"outcome = per-call results (ok/err, n, data digest) + canonical final state (controller membership, modes, ReadOnly, RW count, checkpoint, reader/writer counts; every node's state, mode, revision counter, chain with generated names renamed, checkpoint, data digest)",
		}
	case "C01conc", "C06conc", "C12conc", "C17conc", "C16conc", "C08conc":
		return []string{
			"ONE real on-disk replica.Server per execution (3 blocks; chain a1 (automatic, base) < a2 (automatic) < u3 (user) < a4 (automatic, latest) < head, every block rewritten along the way), package replica under the scheduler: Server.RWMutex, Replica.RWMutex (writer preference modelled), rmLock, revisionLock are scheduling points; file-system calls, FIEMAP and the coalesce (sparse.FoldFile, as the sfold child does it) run atomically between two points; reclamation off, the hole puncher's drain branch is a managed stub thread",
			"threads call what the RPC server (WriteAt aligned/unaligned, ReadAt aligned/unaligned) and the REST server / cleaner call (Snapshot, prepare+coalesce+RemoveDiffDisk of a2 as three calls, Revert to u3, Reload, reload-without-preload + UpdateLUNMap, Resize, SetReplicaMode, SetRevisionCounter, Close)",
			"reference = every sequential merge of the threads' call sequences, each call run to completion on a fresh replica; outcome = per-call results (read data as run-length byte values) + state, mode, size, revision counter, chain, live image and the allocated contents of every chain file",
		}
	case "C09conc":
		return []string{
			"a real controller.Controller (package controller under the scheduler) with no replica yet, RF 3, three model nodes with revision counters 5, 10, 20; the backend factory records every start signal (and fails it where the configuration says so); registration threads run concurrently",
			"after quiescence every replica that was told to start calls Controller.Start, lowest revision counter first; outcome = registration results, the start signals in order, which start was accepted, final membership; reference = every sequential merge of the same registrations; additional oracle: the accepted start comes from the replica with the highest revision counter among those told to start",
		}
	case "C14ctl", "C18rest":
		return []string{
			"the controller harness of C18atom (real controller.Controller, packages controller and controller/rest under the scheduler: Controller.RWMutex, the handlers' fan-out goroutines and wait groups, the monitoring goroutines; real *remote.Remote backends in front of E-B's model replica nodes) behind the real controller/rest router; memberships: 3 RW, 2 RW + 1 WO synced, 2 RW of RF 3",
			"each execution builds its own cluster inside the scheduler (not explored), then the handlers of the configuration's requests run concurrently; oracle: every handler returns, none panics (a double unlock is a panic of the shimmed mutex), afterwards the controller lock is free, GET /v1/volumes and GET /v1/replicas are answered 200 and the membership invariants of C18 hold",
		}
	case "C14conc", "C17open":
		return []string{
			"a real replica.Server on a scratch directory (created, opened RW, two snapshots, three written blocks; or created and closed) behind the real replica/rest router; package replica runs under the scheduler: Server.RWMutex, Replica.RWMutex (Go's writer preference modelled: a Lock call announces itself, later RLock calls wait), revisionLock, rmLock are scheduling points; file-system calls and the HTTP plumbing between two points run atomically",
			"the hole-punching goroutine is idle (reclamation off, as in a freshly started replica); its drain branch is played by a managed stub thread",
			"each execution builds its own replica inside the scheduler (not explored), then the handlers of the configuration's requests run concurrently; oracle: every handler returns, no handler panics (a double unlock is a panic of the shimmed mutex), afterwards the server and replica locks are free and GET /v1/replicas/1 is answered 200",
		}
	case "C05full":
		return []string{
			"real controller.Controller with backends made by the real remote.Factory (Create / SignalToAdd / VerifyReplicaAlive; its REST calls are answered by model nodes in-process, its net.Dial gets an in-memory connection), real rpc.Client, monitorPing and Controller.monitoring goroutines; each replica is the real rpc.Server in front of a model node",
			"the set-up (register, start, add, sync, verify, one write) runs inside the scheduler with default choices (not explored); virtual time is cut off at the configured horizon because the ping tickers never stop",
		}
	case "C05mon":
		return []string{
			"real remote.monitorPing / StopMonitoring and a real rpc.Client on the in-memory connection; the Remote value is built by the REAL remote.Factory.Create (its REST calls answered in-process, its net.Dial routed to the in-memory connection by the E-D profile)",
			"the controller side is a consumer thread that receives from the monitor channel once (as Controller.monitoring does) ; virtual time is cut off at the configured horizon because the ping ticker never stops",
		}
	}
	return nil
}
