package ed

func Main(args []string) int { return 2 }
