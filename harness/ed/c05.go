package ed

import (
	"fmt"
	"net"
	"net/http"
	"net/http/httptest"
	"strings"
	"time"

	"github.com/openebs/jiva/backend/remote"
	"github.com/openebs/jiva/rpc"
	"github.com/openebs/jiva/verifshim/vs"
)

// C05Cfg is one configuration of the monitor harness: a real remote.Remote (monitorPing, StopMonitoring, Close) on a
// real rpc.Client, a peer that answers Replies frames and then misbehaves, a controller-style consumer of the monitor
// channel, optionally the I/O-error path of the controller (StopMonitoring + Close) and one concurrent write.
type C05Cfg struct {
	Name    string `json:"name"`
	Replies int    `json:"replies"` // frames the peer answers before the fault
	Fault   string `json:"fault"`   // "", stall, close
	Stop    bool   `json:"stop"`    // a thread does what Controller.handleErrorNoLock+RemoveReplicaNoLock do: StopMonitoring(); Close()
	IO      bool   `json:"io"`      // one concurrent WriteAt through Remote.IOs
	LimitS  int    `json:"limit_s"` // virtual-time horizon in seconds (the ping ticker never stops)
}

// c05Transport answers the two REST calls of Factory.Create: the replica reports state closed, then accepts open.
type c05Transport struct{}

func (c05Transport) RoundTrip(req *http.Request) (*http.Response, error) {
	rec := httptest.NewRecorder()
	rec.Header().Set("Content-Type", "application/json")
	if req.Method == "GET" {
		rec.WriteString(`{"id":"1","type":"replica","state":"closed"}`)
	} else {
		rec.WriteString(`{"id":"1","type":"replica","state":"open"}`)
	}
	return rec.Result(), nil
}

func (c C05Cfg) String() string {
	return fmt.Sprintf("%s replies=%d fault=%q stop=%v io=%v limit=%ds", c.Name, c.Replies, c.Fault, c.Stop, c.IO, c.LimitS)
}

func runC05(cfg *C05Cfg, ch vs.Chooser, trace bool) (*Outcome, *vs.Result) {
	out := &Outcome{}
	tag := cfg.Fault
	if tag == "" {
		tag = "nofault"
	}
	if cfg.Stop {
		tag += "+stop"
	}
	viol := func(oracle, sig, f string, a ...interface{}) {
		out.Violations = append(out.Violations, Viol{Oracle: oracle, Sig: oracle + ":" + tag + ":" + sig, Detail: fmt.Sprintf(f, a...)})
	}
	var (
		r         *remote.Remote
		client    *rpc.Client
		notified  bool
		notifyErr error
		notifyT   int64
		ioDone    bool
		ioN       int
		ioErr     error
		replies   int
		faultT    int64 = -1
		stopT     int64 = -1
	)
	res := vs.Run(vs.Config{Chooser: ch, Horizon: 6000, Trace: trace, TimeLimit: time.Duration(cfg.LimitS) * time.Second}, func() {
		a, b := NewVConnPair()
		// the REAL Factory.Create builds the backend (channel capacities, the rpc client sharing closeChan, the
		// monitorPing goroutine): its two REST calls are answered by c05Transport, its net.Dial (rewritten to vs.Dial by
		// the E-D profile) gets one end of the in-memory connection pair
		vs.DialHook = func(network, addr string) (net.Conn, error) { return a, nil }
		http.DefaultTransport = c05Transport{}
		c18TransportSet = false
		be, err := (&remote.Factory{}).Create("tcp://10.9.9.9:9502")
		if err != nil {
			panic("Factory.Create: " + err.Error())
		}
		r = be.(*remote.Remote)
		client = remote.VerifEdClient(r)
		// controller side: Controller.monitoring
		vs.Go("monitoring", func() {
			err := vs.Recv(r.GetMonitorChannel())
			notified, notifyErr, notifyT = true, err, vs.NowNS()
			vs.Note("controller: monitor channel delivered %v", err)
			if err != nil {
				r.StopMonitoring() // setReplicaModeNoLock(ERR) -> replicator.SetMode -> StopMonitoring
			}
			r.Close() // RemoveReplicaNoLock -> RemoveBackend -> backend.Close -> StopMonitoring
		})
		if cfg.Stop {
			vs.Go("ioerror-path", func() {
				stopT = vs.NowNS()
				r.StopMonitoring() // handleErrorNoLock -> setReplicaModeNoLock(ERR)
				r.Close()          // RemoveReplicaNoLock
			})
		}
		if cfg.IO {
			vs.Go("writer", func() {
				ioN, ioErr = r.WriteAt(pattern(4096, 9), 4096)
				ioDone = true
			})
		}
		vs.Go("peer", func() {
			w := rpc.NewWire(b)
			for {
				m, err := w.Read()
				if err != nil {
					return
				}
				if cfg.Fault != "" && replies == cfg.Replies {
					faultT = vs.NowNS()
					vs.Note("peer: fault %s", cfg.Fault)
					if cfg.Fault == "close" {
						b.Close()
					}
					return
				}
				rep := &rpc.Message{MagicVersion: rpc.MagicVersion, Seq: m.Seq, Type: rpc.TypeResponse}
				if m.Type == rpc.TypeWrite {
					rep.Size = int64(len(m.Data))
				}
				if err := w.Write(rep); err != nil {
					return
				}
				replies++
			}
		})
		vs.Quiesce(0)
		// ---- oracles at quiescence (virtual time horizon reached, nothing can run)
		monitorAlive := false
		for _, t := range vs.Threads() {
			if t.Done || t.Name == "main" {
				continue
			}
			if strings.HasPrefix(t.Kind, "send") {
				viol("blocked-send", t.Name, "thread %s is blocked for ever in a channel send at %s (closeChan/monitorChan full: the controller would wedge holding its lock)", t.Name, t.Loc)
			}
			if t.Name == "r.monitorPing" {
				monitorAlive = true
			}
		}
		failed := cfg.Fault != "" && faultT >= 0
		if failed && faultT+int64(50*time.Second) > int64(cfg.LimitS)*int64(time.Second) {
			// the ping deadline (40 s) plus the settle delays do not fit into the virtual-time horizon any more
			out.Gray = append(out.Gray, GrayObs{"horizon-inconclusive:" + tag, "the fault happened too close to the virtual-time horizon to judge the report"})
			failed = false
			if !notified && !cfg.Stop {
				out.Obs = "inconclusive (fault too close to the horizon)"
				return
			}
		}
		if failed && !notified {
			viol("unreported", "-", "the peer did %s at %v but nothing was delivered on the monitor channel by %v: the replica is never detached", cfg.Fault, time.Duration(faultT), time.Duration(vs.NowNS()))
		}
		if cfg.Stop && !notified {
			viol("stop-unreported", "-", "StopMonitoring was called at %v but the monitoring goroutine never got the channel message", time.Duration(stopT))
		}
		if (failed || cfg.Stop) && monitorAlive {
			viol("monitor-leak", "-", "monitorPing is still running at quiescence although the replica failed / monitoring was stopped")
		}
		early := false
		if cc, ok := ch.(*countingChooser); ok {
			early = cc.usedT > 0 // a deadline was made to expire early in this execution: a time-out is then legitimate
		}
		if !failed && !cfg.Stop && !early {
			if notified {
				viol("false-alarm", "-", "a healthy replica was reported on the monitor channel (%v)", notifyErr)
			}
			if rpc.VerifClientErr(client) != nil {
				viol("false-alarm", "poison", "the client of a healthy replica was poisoned: %v", rpc.VerifClientErr(client))
			}
		}
		if cfg.IO {
			switch {
			case !ioDone:
				viol("hang", "W", "the concurrent write never returned")
			case ioErr == nil && ioN != 9:
				viol("mismatch", "W", "write returned n=%d", ioN)
			}
		}
		cl, ml := remote.VerifEdChanLens(r)
		ioS := "-"
		if cfg.IO {
			ioS = errClass(ioErr)
		}
		nerr := "none"
		if notified {
			nerr = errClass(notifyErr)
			if notifyErr == nil {
				nerr = "nil"
			}
		}
		_ = notifyT
		out.Obs = fmt.Sprintf("notified=%s io=%s poisoned=%v closeChan=%d monitorChan=%d monitorAlive=%v replies=%d", nerr, ioS, rpc.VerifClientErr(client) != nil, cl, ml, monitorAlive, replies)
	})
	return out, res
}

func c05Configs(tier string) []C05Cfg {
	var out []C05Cfg
	for _, io := range []bool{false, true} {
		out = append(out, C05Cfg{Name: "mon", Fault: "", LimitS: 5, IO: io})
		out = append(out, C05Cfg{Name: "mon", Fault: "", Stop: true, LimitS: 5, IO: io})
		for _, f := range []string{"stall", "close"} {
			for _, k := range []int{0, 1} {
				for _, stop := range []bool{false, true} {
					if tier != "thorough" && k == 1 && stop {
						continue
					}
					out = append(out, C05Cfg{Name: "mon", Replies: k, Fault: f, Stop: stop, IO: io, LimitS: 120})
				}
			}
		}
	}
	return out
}

func checkC05() int { return checkSimple("C05", "C05mon", "C05-mon.part") }
