package ed

import (
	"bufio"
	"encoding/json"
	"fmt"
	"io"
	"os"
	"os/exec"
	"sync"
	"time"
)

// pool runs jobs on worker sub-processes (`ed worker`); jobs may be submitted from result callbacks.
type pool struct {
	n       int
	mu      sync.Mutex
	cond    *sync.Cond
	queue   []*poolItem
	pending int
	closed  bool
	wg      sync.WaitGroup
	nextID  int
}

type poolItem struct {
	job  *Job
	done func(*JobResult)
}

func newPool(n int) *pool {
	p := &pool{n: n}
	p.cond = sync.NewCond(&p.mu)
	for i := 0; i < n; i++ {
		p.wg.Add(1)
		go p.serve()
	}
	return p
}

type proc struct {
	cmd *exec.Cmd
	in  io.WriteCloser
	out *bufio.Reader
	err *tail
}

type tail struct {
	mu sync.Mutex
	b  []byte
}

func (t *tail) Write(p []byte) (int, error) {
	t.mu.Lock()
	t.b = append(t.b, p...)
	if len(t.b) > 1<<16 {
		t.b = t.b[len(t.b)-1<<16:]
	}
	t.mu.Unlock()
	return len(p), nil
}

func spawn() (*proc, error) {
	self, err := os.Executable()
	if err != nil {
		return nil, err
	}
	cmd := exec.Command(self, "worker")
	cmd.Env = append(os.Environ(), "GOMAXPROCS=2")
	in, _ := cmd.StdinPipe()
	out, _ := cmd.StdoutPipe()
	tb := &tail{}
	cmd.Stderr = tb
	if err := cmd.Start(); err != nil {
		return nil, err
	}
	return &proc{cmd: cmd, in: in, out: bufio.NewReaderSize(out, 1<<20), err: tb}, nil
}

func (p *pool) serve() {
	defer p.wg.Done()
	var w *proc
	defer func() {
		if w != nil {
			// closing stdin lets the worker clean up its scratch directory and exit
			w.in.Close()
			done := make(chan struct{})
			go func() { w.cmd.Wait(); close(done) }()
			select {
			case <-done:
			case <-time.After(5 * time.Second):
				w.cmd.Process.Kill()
				<-done
			}
		}
	}()
	for {
		p.mu.Lock()
		for len(p.queue) == 0 && !p.closed {
			p.cond.Wait()
		}
		if len(p.queue) == 0 && p.closed {
			p.mu.Unlock()
			return
		}
		it := p.queue[0]
		p.queue = p.queue[1:]
		p.mu.Unlock()
		var jr *JobResult
		if w == nil {
			var err error
			if w, err = spawn(); err != nil {
				jr = &JobResult{ID: it.job.ID, Err: "spawn: " + err.Error()}
			}
		}
		if jr == nil {
			b, _ := json.Marshal(it.job)
			b = append(b, '\n')
			var line []byte
			_, err := w.in.Write(b)
			if err == nil {
				line, err = w.out.ReadBytes('\n')
			}
			if err != nil {
				w.cmd.Process.Kill()
				w.cmd.Wait()
				jr = &JobResult{ID: it.job.ID, Err: fmt.Sprintf("worker died on %s prefix=%v: %v\n%s", it.job.cfgString(), it.job.Prefix, err, string(w.err.b))}
				w = nil
			} else {
				jr = &JobResult{}
				if e := json.Unmarshal(line, jr); e != nil {
					jr = &JobResult{ID: it.job.ID, Err: "bad worker response: " + e.Error()}
				}
				if jr.Bye {
					w.in.Close()
					w.cmd.Wait()
					w = nil
				}
			}
		}
		it.done(jr)
		p.mu.Lock()
		p.pending--
		p.cond.Broadcast()
		p.mu.Unlock()
	}
}

func (p *pool) submit(job *Job, done func(*JobResult)) {
	p.mu.Lock()
	p.nextID++
	job.ID = p.nextID
	p.queue = append(p.queue, &poolItem{job, done})
	p.pending++
	p.cond.Broadcast()
	p.mu.Unlock()
}

// drain waits until every submitted job (including jobs submitted by callbacks) has completed.
func (p *pool) drain() {
	p.mu.Lock()
	for p.pending > 0 {
		p.cond.Wait()
	}
	p.mu.Unlock()
}

// cancel drops the queued jobs that have not started.
func (p *pool) cancel() int {
	p.mu.Lock()
	n := len(p.queue)
	p.pending -= n
	p.queue = nil
	p.cond.Broadcast()
	p.mu.Unlock()
	return n
}

func (p *pool) close() {
	p.mu.Lock()
	p.closed = true
	p.cond.Broadcast()
	p.mu.Unlock()
	p.wg.Wait()
}
