package ed

import (
	"fmt"
	"os"
	"sort"
	"strings"

	"github.com/openebs/jiva/replica"
	"github.com/openebs/jiva/verifshim/vs"
)

// C10Cfg is one configuration of the concurrent revision-counter harness: writer threads on ONE real on-disk
// replica.Replica whose locks (Replica.RWMutex, volume.rmLock, revisionLock) are scheduling points.
type C10Cfg struct {
	Name    string   `json:"name"`
	Writers []string `json:"writers"` // one string per writer thread, one 'W' per 4 KiB write
	Reader  int      `json:"reader"`  // number of GetRevisionCounter calls of the reader thread (0 = no reader)
	Flip    string   `json:"flip"`    // "", "RW>WO", "WO>RW": initial mode and the mode a SetReplicaMode thread switches to
}

func (c C10Cfg) String() string {
	return fmt.Sprintf("%s writers=%s reader=%d flip=%q", c.Name, strings.Join(c.Writers, "|"), c.Reader, c.Flip)
}

const c10Block = 4096
const c10Blocks = 16

var (
	c10R   *replica.Replica
	c10Dir string
)

func c10Scratch() string {
	for _, base := range []string{"/tmp", "/var/tmp", "/verif/build/scratch"} {
		os.MkdirAll(base, 0755)
		d := fmt.Sprintf("%s/verif-ed-%d", base, os.Getpid())
		if err := os.MkdirAll(d, 0700); err == nil {
			return d
		}
	}
	return ""
}

var holesOnce bool

// c10Replica returns the worker's replica (created on first use, outside any managed execution).
func c10Replica() (*replica.Replica, error) {
	if c10R != nil {
		return c10R, nil
	}
	if !holesOnce {
		holesOnce = true
		go replica.CreateHoles() // idle: blocks on its (real) channel; needed by Close's holeDrainer
	}
	if c10Dir == "" {
		c10Dir = c10Scratch() + "/vol"
	}
	r, err := replica.New(false, c10Blocks*c10Block, 512, c10Dir, nil, "")
	if err != nil {
		return nil, err
	}
	c10R = r
	return r, nil
}

// C10Cleanup removes the scratch directory of this process.
func C10Cleanup() {
	if c10R != nil {
		c10R.Close()
		c10R = nil
	}
	if c10Dir != "" {
		os.RemoveAll(strings.TrimSuffix(c10Dir, "/vol"))
	}
}

func c10Reopen() (int64, error) {
	if err := c10R.Close(); err != nil {
		return 0, err
	}
	c10R = nil
	r, err := c10Replica()
	if err != nil {
		return 0, err
	}
	return r.GetRevisionCounter(), nil
}

type c10Write struct {
	sawMode            string // Replica.mode at the moment this write acquired Replica.RLock (the flip needs the write lock)
	issueStep, retStep int
	n                  int
	err                error
	done               bool
}

type c10Read struct {
	issueStep, retStep int
	v                  int64
}

var c10Execs int
var c10LastFinal int64 = -1

func runC10(cfg *C10Cfg, ch vs.Chooser, trace bool) (*Outcome, *vs.Result) {
	r, err := c10Replica()
	if err != nil {
		return nil, &vs.Result{Fatal: "cannot create replica: " + err.Error()}
	}
	initial, target := "RW", ""
	if cfg.Flip != "" {
		p := strings.Split(cfg.Flip, ">")
		initial, target = p[0], p[1]
	}
	if err := r.SetReplicaMode(initial); err != nil {
		return nil, &vs.Result{Fatal: err.Error()}
	}
	c0 := r.GetRevisionCounter()
	var writes []*c10Write
	var reads []*c10Read
	step := 0
	flipBefore, flipAfter := -1, -1
	out := &Outcome{}
	cur := map[string]*c10Write{}
	execHook := func(thread, kind string) {
		if kind == "rw.rlock" {
			if w := cur[thread]; w != nil && w.sawMode == "" {
				w.sawMode = replica.VerifEdMode(r)
			}
		}
	}
	res := vs.Run(vs.Config{Chooser: ch, Horizon: 2000, Trace: trace, StepHook: func() { step++ }, ExecHook: execHook}, func() {
		blk := 0
		for wi, ws := range cfg.Writers {
			var mine []*c10Write
			var blocks []int
			for range ws {
				w := &c10Write{}
				writes = append(writes, w)
				mine = append(mine, w)
				blocks = append(blocks, blk%c10Blocks)
				blk++
			}
			wi := wi
			vs.Go(fmt.Sprintf("writer%d", wi), func() {
				for k, w := range mine {
					buf := make([]byte, c10Block)
					for i := range buf {
						buf[i] = byte(wi*16 + k + 1)
					}
					w.issueStep = step
					cur[fmt.Sprintf("writer%d", wi)] = w
					w.n, w.err = r.WriteAt(buf, int64(blocks[k])*c10Block)
					w.retStep, w.done = step, true
				}
			})
		}
		if cfg.Reader > 0 {
			for i := 0; i < cfg.Reader; i++ {
				reads = append(reads, &c10Read{})
			}
			vs.Go("reader", func() {
				for _, rd := range reads {
					rd.issueStep = step
					rd.v = r.GetRevisionCounter()
					rd.retStep = step
				}
			})
		}
		if target != "" {
			vs.Go("flipper", func() {
				flipBefore = step
				if err := r.SetReplicaMode(target); err != nil {
					out.Violations = append(out.Violations, Viol{Oracle: "flip", Sig: "flip:" + cfg.Flip, Detail: err.Error()})
				}
				flipAfter = step
			})
		}
		vs.Quiesce(0)
		c10Judge(cfg, r, out, c0, initial, target, writes, reads, flipBefore, flipAfter)
	})
	c10Execs++
	return out, res
}

func c10Judge(cfg *C10Cfg, r *replica.Replica, out *Outcome, c0 int64, initial, target string, writes []*c10Write, reads []*c10Read, flipBefore, flipAfter int) {
	tag := cfg.Flip
	if tag == "" {
		tag = "noflip"
	}
	viol := func(oracle, f string, a ...interface{}) {
		out.Violations = append(out.Violations, Viol{Oracle: oracle, Sig: oracle + ":" + tag, Detail: fmt.Sprintf(f, a...)})
	}
	for _, t := range vs.Threads() {
		if !t.Done && t.Name != "main" {
			viol("hang", "thread %s never finished (blocked in %s %s)", t.Name, t.Kind, t.Loc)
		}
	}
	// which mode did a write see?  the mode is read under Replica.RLock, the flip happens under Replica.Lock
	sure, maybe := int64(0), int64(0)
	ok := 0
	for i, w := range writes {
		if !w.done {
			continue
		}
		if w.err != nil || w.n != c10Block {
			viol("write-failed", "write %d returned n=%d err=%v", i, w.n, w.err)
			continue
		}
		ok++
		// cross-check of the recorded mode against the step stamps
		sawInitial := target == "" || flipBefore < 0 || w.retStep <= flipBefore
		sawTarget := target != "" && flipAfter >= 0 && w.issueStep >= flipAfter
		if (sawInitial && w.sawMode != initial) || (sawTarget && w.sawMode != target) || w.sawMode == "" {
			viol("harness-mode-tracking", "write %d recorded mode %q but step stamps say initial=%v target=%v", i, w.sawMode, sawInitial, sawTarget)
		}
		if w.sawMode == "RW" {
			sure++
			maybe++
		}
	}
	final := r.GetRevisionCounter() // reads the persisted 4 KiB block
	cache := replica.VerifEdRevisionCache(r)
	c10LastFinal = final
	if final < c0+sure || final > c0+maybe {
		viol("count", "revision counter %d -> %d after %d successful writes of which %d..%d were applied in RW mode: expected %d..%d", c0, final, ok, sure, maybe, c0+sure, c0+maybe)
	}
	if cache != final {
		viol("cache", "in-memory revision cache %d differs from the persisted counter %d", cache, final)
	}
	wantMode := initial
	if target != "" {
		wantMode = target
	}
	if m := replica.VerifEdMode(r); m != wantMode {
		viol("mode", "final mode %s, expected %s", m, wantMode)
	}
	prev := c0
	var rv []string
	for i, rd := range reads {
		// lower bound: RW-for-sure writes that had returned before the read was issued; upper: writes issued before it returned
		lo, hi := c0, c0
		for _, w := range writes {
			if w.done && w.retStep <= rd.issueStep && (target == "" && initial == "RW") {
				lo++
			}
			if w.issueStep <= rd.retStep {
				hi++
			}
		}
		if rd.v < prev {
			viol("monotonic", "GetRevisionCounter call %d returned %d after an earlier value %d: the counter went back", i, rd.v, prev)
		}
		if rd.v < lo || rd.v > hi {
			viol("read-range", "GetRevisionCounter call %d returned %d, outside %d..%d (initial %d)", i, rd.v, lo, hi, c0)
		}
		prev = rd.v
		rv = append(rv, fmt.Sprint(rd.v-c0))
	}
	sort.Strings(rv)
	out.Obs = fmt.Sprintf("final=+%d rw-writes=%d reads=%v", final-c0, sure, rv)
}

func c10Configs(tier string) []C10Cfg {
	ws := [][]string{{"W", "W"}, {"WW", "W"}, {"W", "W", "W"}}
	if tier == "thorough" {
		ws = append(ws, []string{"WW", "WW"}, []string{"WW", "W", "W"})
	}
	var out []C10Cfg
	for _, w := range ws {
		for _, rd := range []int{0, 2} {
			for _, fl := range []string{"", "RW>WO", "WO>RW"} {
				out = append(out, C10Cfg{Name: "c10", Writers: w, Reader: rd, Flip: fl})
			}
		}
	}
	return out
}

// c10ReopenCheck closes and reopens the worker's replica and compares the persisted counter with the last final value.
func c10ReopenCheck(jr *JobResult, cfg *C10Cfg) {
	if c10R == nil || c10LastFinal < 0 {
		return
	}
	want := c10LastFinal
	got, err := c10Reopen()
	if jr.Extra == nil {
		jr.Extra = map[string]int64{}
	}
	jr.Extra["reopen_checks"]++
	if err != nil {
		jr.Err = "reopen: " + err.Error()
		return
	}
	if got != want {
		v := Viol{Oracle: "reopen", Sig: "reopen:" + cfg.Flip, Detail: fmt.Sprintf("revision counter after close+reopen is %d, last value before was %d", got, want)}
		jr.ViolCount[v.Sig]++
		jr.Viol = append(jr.Viol, FoundViol{Viol: v})
	}
}

func checkC10() int { return checkSimple("C10", "C10conc", "C10-conc.part") }
