package ed

import (
	"fmt"
	"sort"
	"strings"

	"github.com/openebs/jiva/types"
	"github.com/openebs/jiva/verifshim/vs"

	"verif/harness/eb"
)

// C03Cfg is one configuration of the concurrent quorum-gate harness (engine E-D on the controller harness of C18atom):
// from a membership, a pair/triple of calls runs concurrently; the oracle sits in the stub data path of the backends.
//
// Ops: W<k> write of block k; WF<k> write of block k whose call fails on replica node Fail; Sy / SyF sync (failing on
// Fail); Un<k> / UnF<k> unmap of block k (failing on Fail); Mon monitor failure of Fail; Rm RemoveReplica(Fail);
// Err SetReplicaMode(Fail, ERR) as the REST action does.
type C03Cfg struct {
	Name string   `json:"name"`
	Init string   `json:"init"` // rw3 | rw2 (RF 3, exactly at quorum) | rw2wo | rf2 | rf1
	Ops  []string `json:"ops"`
	Fail int      `json:"fail"` // the replica node that fails / is removed
}

func (c C03Cfg) String() string {
	return fmt.Sprintf("%s init=%s ops=%s failing-node=%d", c.Name, c.Init, strings.Join(c.Ops, "||"), c.Fail+1)
}

// c03Quorum is the oracle state.  A mutating data call that reaches a replica is attributed to its operation (write:
// first payload byte; unmap: offset; sync: the only sync of the configuration).  When the FIRST replica call of an
// operation arrives, the number of RW entries in the controller's replica list (ground truth, not the cached count)
// must be at least RF/2+1; the other calls of the same fan-out belong to the same admission.
type c03Quorum struct {
	armed   bool
	byPat   map[int]string   // payload byte -> op name
	byOff   map[int64]string // unmap offset -> op name
	syncOp  string
	failing map[string]int // op name -> node on which its call fails
	seen    map[string]int // op name -> replica calls that arrived
	viol    []string
}

func (q *c03Quorum) reach(cl *c18Cluster, node int, kind string, pat int, off int64) error {
	if !q.armed {
		return nil
	}
	op := ""
	switch kind {
	case "W":
		op = q.byPat[pat]
	case "U":
		op = q.byOff[off]
	case "S":
		op = q.syncOp
	}
	if op == "" {
		q.viol = append(q.viol, fmt.Sprintf("unattributed %s call on node %d", kind, node+1))
		return nil
	}
	q.seen[op]++
	if q.seen[op] == 1 {
		rw := 0
		var l []string
		for _, r := range cl.c.VerifView().Replicas {
			if r.Mode == types.RW {
				rw++
			}
			l = append(l, r.Address[len("tcp://10.0.0."):len("tcp://10.0.0.")+1]+":"+string(r.Mode))
		}
		need := cl.rf/2 + 1
		vs.Note("first replica call of %s reaches node %d: replica list %v (RW=%d, quorum %d)", op, node+1, l, rw, need)
		if rw < need {
			q.viol = append(q.viol, fmt.Sprintf("BELOW-QUORUM %s: its first replica call reached node %d while only %d of the listed replicas %v were RW (replication factor %d needs %d)", op, node+1, rw, l, cl.rf, need))
		}
	}
	if n, ok := q.failing[op]; ok && n == node {
		return fmt.Errorf("injected I/O failure of %s on node %d", op, node+1)
	}
	return nil
}

func c03Run(cfg *C03Cfg, ch vs.Chooser, trace bool) (*Outcome, *vs.Result) {
	out := &Outcome{}
	res := vs.Run(vs.Config{Chooser: ch, PostUnlockPoints: true, Horizon: 20000, Trace: trace}, func() {
		vs.NoChoice(true)
		cl, err := c18Build(cfg.Init)
		if err != nil {
			vs.Fatal("cannot build the initial cluster: " + err.Error())
		}
		vs.Quiesce(0)
		q := &c03Quorum{byPat: map[int]string{}, byOff: map[int64]string{}, failing: map[string]int{}, seen: map[string]int{}}
		type opRun struct {
			name  string
			f     func() (int, error)
			mut   bool
			n     int
			err   error
			done  bool
			wantN int
		}
		ops := make([]*opRun, len(cfg.Ops))
		c := cl.c
		for k, name := range cfg.Ops {
			k, name := k, name
			o := &opRun{name: fmt.Sprintf("%d:%s", k, name)}
			fail := strings.Contains(name, "F")
			base := strings.Replace(name, "F", "", 1)
			blk := 0
			if len(base) > 1 && base[len(base)-1] >= '0' && base[len(base)-1] <= '9' {
				blk = int(base[len(base)-1] - '0')
				base = base[:len(base)-1]
			}
			switch base {
			case "W":
				pat := 100 + k
				buf := make([]byte, eb.Block)
				for i := range buf {
					buf[i] = byte(pat)
				}
				q.byPat[pat] = o.name
				o.mut, o.wantN = true, eb.Block
				o.f = func() (int, error) { return c.WriteAt(buf, int64(blk)*eb.Block) }
			case "Sy":
				q.syncOp = o.name
				o.mut = true
				o.f = func() (int, error) { return c.Sync() }
			case "Un":
				q.byOff[int64(blk)*eb.Block] = o.name
				o.mut = true
				o.f = func() (int, error) { return c.Unmap(int64(blk)*eb.Block, eb.Block) }
			case "Mon":
				o.f = func() (int, error) {
					if r := cl.bes[cfg.Fail]; r != nil {
						vs.Send(r.VerifMonitorChan(), fmt.Errorf("ping failure (injected)"))
					}
					return 0, nil
				}
			case "Rm":
				o.f = func() (int, error) { return 0, c.RemoveReplica(c18addr(cfg.Fail)) }
			case "Err":
				o.f = func() (int, error) { return 0, c.SetReplicaMode(c18addr(cfg.Fail), types.ERR) }
			default:
				vs.Fatal("unknown op " + name)
			}
			if fail {
				q.failing[o.name] = cfg.Fail
			}
			ops[k] = o
		}
		cl.q = q
		q.armed = true
		vs.NoChoice(false)
		for _, o := range ops {
			o := o
			vs.Go("op"+o.name, func() { o.n, o.err = o.f(); o.done = true })
		}
		vs.Quiesce(0)
		q.armed = false
		tag := cfg.Init
		viol := func(oracle, sig, f string, a ...interface{}) {
			out.Violations = append(out.Violations, Viol{Oracle: oracle, Sig: oracle + ":" + tag + ":" + sig, Detail: fmt.Sprintf(f, a...)})
		}
		var obs []string
		for _, o := range ops {
			kind := strings.TrimRight(strings.SplitN(o.name, ":", 2)[1], "0123456789")
			switch {
			case !o.done:
				viol("hang", kind, "%s never returned", o.name)
				obs = append(obs, o.name+"=HANG")
				continue
			case o.err != nil && strings.Contains(o.err.Error(), "ReadOnly"):
				obs = append(obs, fmt.Sprintf("%s=refused-RO(calls=%d)", o.name, q.seen[o.name]))
				if q.seen[o.name] > 0 {
					viol("refused-but-reached-replica", kind, "%s was refused as read-only but %d of its calls reached a replica", o.name, q.seen[o.name])
				}
			case o.err != nil:
				obs = append(obs, fmt.Sprintf("%s=err(calls=%d)", o.name, q.seen[o.name]))
			default:
				obs = append(obs, fmt.Sprintf("%s=ok(calls=%d)", o.name, q.seen[o.name]))
			}
		}
		for _, v := range q.viol {
			if strings.HasPrefix(v, "BELOW-QUORUM ") {
				name := strings.Fields(v)[1]
				kind := strings.TrimRight(strings.SplitN(strings.TrimSuffix(name, ":"), ":", 2)[1], "0123456789:")
				viol("below-quorum", kind, "%s", strings.TrimPrefix(v, "BELOW-QUORUM "))
			} else {
				viol("harness-attribution", "-", "%s", v)
			}
		}
		v := cl.c.VerifView()
		var reps []string
		for _, r := range v.Replicas {
			reps = append(reps, r.Address[len("tcp://10.0.0."):len("tcp://10.0.0.")+1]+":"+string(r.Mode))
		}
		sort.Strings(reps)
		out.Obs = fmt.Sprintf("%s | ro=%v rw=%d replicas=%v", strings.Join(obs, " "), v.ReadOnly, v.RWReplicaCount, reps)
	})
	return out, res
}

func c03Configs(tier string) []C03Cfg {
	menu := []string{"W0", "WF1", "Sy", "SyF", "Un2", "UnF3", "Mon", "Rm", "Err"}
	mut := func(o string) bool { return o[0] == 'W' || o[0] == 'S' || o[0] == 'U' }
	var out []C03Cfg
	for _, init := range []string{"rw3", "rw2", "rw2wo", "rf2", "rf1"} {
		fail := 1
		if init == "rf1" {
			fail = 0
		}
		for i := 0; i < len(menu); i++ {
			for j := i + 1; j < len(menu); j++ {
				a, b := menu[i], menu[j]
				if !mut(a) && !mut(b) {
					continue
				}
				if a[0] == 'S' && b[0] == 'S' {
					continue // two syncs cannot be told apart at the replica
				}
				out = append(out, C03Cfg{Name: "quorum", Init: init, Ops: []string{a, b}, Fail: fail})
			}
		}
		for _, t := range [][]string{{"W0", "WF1", "Mon"}, {"W0", "WF1", "UnF3"}, {"W0", "SyF", "Rm"}, {"W0", "WF1", "Err"}} {
			if tier == "thorough" || init == "rw2" || init == "rf2" {
				out = append(out, C03Cfg{Name: "quorum", Init: init, Ops: t, Fail: fail})
			}
		}
	}
	return out
}

func checkC03() int { return checkSimple("C03", "C03conc", "C03-conc.part") }
