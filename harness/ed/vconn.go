package ed

import (
	"errors"
	"io"
	"net"
	"time"

	"github.com/openebs/jiva/verifshim/vs"
)

// VConn is one end of an in-memory, scheduler-aware duplex byte stream.  Read, Write and the close operations are
// scheduling points (vs.Block); a Read is enabled when bytes are buffered or the stream ended.  It implements
// vs.HalfCloser so that rpc.Wire.CloseRead/CloseWrite shut it down the way a TCP connection is shut down.  In
// pass-through mode (race pass) the same code blocks on a condition variable.
type VConn struct {
	name    string
	in, out *vq
	closed  bool
}

type vq struct {
	buf     []byte
	wclosed bool // the writing end has shut down its write side: the reader sees EOF after draining
	rclosed bool // the reading end has shut down its read side: reads return EOF, writes of the other end fail
}

type vaddr string

func (a vaddr) Network() string { return "vconn" }
func (a vaddr) String() string  { return string(a) }

var ErrClosedConn = errors.New("use of closed vconn")
var ErrBrokenPipe = errors.New("write: broken pipe (vconn)")

// NewVConnPair returns the two ends (client side, peer side).
func NewVConnPair() (*VConn, *VConn) {
	ab, ba := &vq{}, &vq{}
	return &VConn{name: "client", in: ba, out: ab}, &VConn{name: "peer", in: ab, out: ba}
}

func (c *VConn) Read(p []byte) (n int, err error) {
	vs.Block("conn.read "+c.name, func() bool { return len(c.in.buf) > 0 || c.in.wclosed || c.in.rclosed || c.closed })
	vs.Atomic(func() {
		switch {
		case c.closed:
			err = ErrClosedConn
		case len(c.in.buf) > 0:
			n = copy(p, c.in.buf)
			c.in.buf = c.in.buf[n:]
		default:
			err = io.EOF
		}
	})
	return
}

func (c *VConn) Write(p []byte) (n int, err error) {
	vs.Block("conn.write "+c.name, func() bool { return true })
	vs.Atomic(func() {
		switch {
		case c.closed:
			err = ErrClosedConn
		case c.out.wclosed || c.out.rclosed:
			err = ErrBrokenPipe
		default:
			c.out.buf = append(c.out.buf, p...)
			n = len(p)
		}
	})
	return
}

func (c *VConn) CloseRead() error {
	vs.Block("conn.closeread "+c.name, func() bool { return true })
	vs.Atomic(func() { c.in.rclosed = true })
	return nil
}

func (c *VConn) CloseWrite() error {
	vs.Block("conn.closewrite "+c.name, func() bool { return true })
	vs.Atomic(func() { c.out.wclosed = true })
	return nil
}

func (c *VConn) Close() error {
	vs.Block("conn.close "+c.name, func() bool { return true })
	var err error
	vs.Atomic(func() {
		if c.closed {
			err = ErrClosedConn
		}
		c.closed = true
		c.in.rclosed = true
		c.out.wclosed = true
	})
	return err
}

func (c *VConn) LocalAddr() net.Addr                { return vaddr("vconn-" + c.name) }
func (c *VConn) RemoteAddr() net.Addr               { return vaddr("vconn-remote-of-" + c.name) }
func (c *VConn) SetDeadline(t time.Time) error      { return nil }
func (c *VConn) SetReadDeadline(t time.Time) error  { return nil }
func (c *VConn) SetWriteDeadline(t time.Time) error { return nil }

var _ net.Conn = (*VConn)(nil)
var _ vs.HalfCloser = (*VConn)(nil)
