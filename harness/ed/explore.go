// Package ed is engine E-D (SCHED): stateless, deviation-bounded exploration of all thread interleavings of the real,
// rewritten jiva code under the cooperative scheduler of verifshim/vs.
package ed

import (
	"fmt"

	"github.com/openebs/jiva/verifshim/vs"
)

// Bounds of one exploration level.  A deviation is any non-default answer at a choice point:
//
//	P: another thread than the default one runs (default = the current thread if it is enabled, else the enabled thread
//	   with the lowest id) — this contains every preemption —, a non-first ready select case, a harness choice;
//	T: virtual time advances (a timer fires) although some thread is enabled.
type Bounds struct {
	P     int `json:"p"`
	T     int `json:"t"`
	Total int `json:"total"` // P+T <= Total
}

func (b Bounds) String() string { return fmt.Sprintf("P<=%d,T<=%d,P+T<=%d", b.P, b.T, b.Total) }

type frame struct {
	n      int
	kinds  []byte
	chosen int
	preP   int
	preT   int
}

// Explorer is the vs.Chooser of the DFS.  One Explorer enumerates, execution by execution, every choice sequence that
// starts with Prefix and stays within Bounds.
type Explorer struct {
	B        Bounds
	Prefix   []int
	MaxDepth int // >0: only the first MaxDepth affordable choice points branch (used to split the tree)

	stack    []frame
	pos      int
	usedP    int
	usedT    int
	Choices  []int // every answer of the current execution, forced defaults included (the replay artefact)
	Diverged string
	BadPfx   bool
}

func (e *Explorer) affordable(p, t int, kind byte) bool {
	if kind == 't' {
		t++
	} else {
		p++
	}
	return p <= e.B.P && t <= e.B.T && p+t <= e.B.Total
}

// Begin prepares the next execution.
func (e *Explorer) Begin() {
	e.pos, e.usedP, e.usedT = 0, 0, 0
	e.Choices = e.Choices[:0]
}

func (e *Explorer) UsedP() int { return e.usedP }
func (e *Explorer) UsedT() int { return e.usedT }

func (e *Explorer) take(kind byte, c int) int {
	if c > 0 {
		if kind == 't' {
			e.usedT++
		} else {
			e.usedP++
		}
	}
	e.Choices = append(e.Choices, c)
	return c
}

func (e *Explorer) Choose(opts []vs.Option) int {
	any := false
	for i := 1; i < len(opts); i++ {
		if e.affordable(e.usedP, e.usedT, opts[i].Kind) {
			any = true
			break
		}
	}
	if !any {
		return e.take(opts[0].Kind, 0)
	}
	if e.pos < len(e.stack) {
		f := &e.stack[e.pos]
		if f.n != len(opts) || f.preP != e.usedP || f.preT != e.usedT {
			e.Diverged = fmt.Sprintf("choice point %d: recorded %d options (P=%d,T=%d), now %d options (P=%d,T=%d)", e.pos, f.n, f.preP, f.preT, len(opts), e.usedP, e.usedT)
			return -1
		}
		for i := range opts {
			if f.kinds[i] != opts[i].Kind {
				e.Diverged = fmt.Sprintf("choice point %d: option kinds changed", e.pos)
				return -1
			}
		}
		e.pos++
		return e.take(opts[f.chosen].Kind, f.chosen)
	}
	if e.MaxDepth > 0 && len(e.stack) >= e.MaxDepth {
		return e.take(opts[0].Kind, 0)
	}
	f := frame{n: len(opts), kinds: make([]byte, len(opts)), preP: e.usedP, preT: e.usedT}
	for i := range opts {
		f.kinds[i] = opts[i].Kind
	}
	if i := len(e.stack); i < len(e.Prefix) {
		c := e.Prefix[i]
		if c >= f.n || (c > 0 && !e.affordable(e.usedP, e.usedT, f.kinds[c])) {
			e.BadPfx = true
			c = 0
		}
		f.chosen = c
	}
	e.stack = append(e.stack, f)
	e.pos++
	return e.take(opts[f.chosen].Kind, f.chosen)
}

// Next moves to the next choice sequence; false when the subtree is exhausted.
func (e *Explorer) Next() bool {
	for len(e.stack) > len(e.Prefix) {
		f := &e.stack[len(e.stack)-1]
		for c := f.chosen + 1; c < f.n; c++ {
			if e.affordable(f.preP, f.preT, f.kinds[c]) {
				f.chosen = c
				return true
			}
		}
		e.stack = e.stack[:len(e.stack)-1]
	}
	return false
}

// EndOK reports whether the execution that just ended visited every recorded branching frame (it must: the stack is
// truncated on every backtrack); a shorter execution means the run is not a function of its choices.
func (e *Explorer) EndOK() bool { return e.pos == len(e.stack) && e.Diverged == "" }

// Leaf returns the choices of the branching frames of the last execution (used by the splitter).
func (e *Explorer) Leaf() []int {
	out := make([]int, len(e.stack))
	for i := range e.stack {
		out[i] = e.stack[i].chosen
	}
	return out
}

// Replayer answers from a recorded list of choices.
type Replayer struct {
	List []int
	pos  int
	Over bool
}

func (r *Replayer) Choose(opts []vs.Option) int {
	if r.pos >= len(r.List) {
		r.Over = true
		return 0
	}
	c := r.List[r.pos]
	r.pos++
	if c < 0 || c >= len(opts) {
		r.Over = true // not a recorded execution of this tree: fall back to the default
		return 0
	}
	return c
}
