package ed

import (
	"bytes"
	"fmt"
	"net"
	"net/http"
	"net/http/httptest"
	"os"
	"sort"
	"strings"
	"time"

	"github.com/openebs/jiva/backend/dynamic"
	"github.com/openebs/jiva/backend/remote"
	"github.com/openebs/jiva/controller"
	"github.com/openebs/jiva/rpc"
	"github.com/openebs/jiva/types"
	"github.com/openebs/jiva/verifshim/vs"

	"verif/harness/eb"
)

// C05FullCfg is one configuration of the full-stack failure harness (part C05full of C05): a real controller.Controller
// whose backends are made by the REAL remote.Factory (Create with its REST calls answered in-process and its net.Dial
// routed to an in-memory connection, real rpc.Client, real monitorPing goroutine, real Controller.monitoring), every
// replica played by the REAL rpc.Server in front of a model node.  One replica then fails (its connection is closed,
// or it stops answering) while writes / reads run; every interleaving of all those goroutines up to the preemption bound.
type C05FullCfg struct {
	Name   string   `json:"name"`
	RF     int      `json:"rf"`
	Fault  string   `json:"fault"` // close | stall | ""
	Node   int      `json:"node"`  // the replica that fails
	Ops    []string `json:"ops"`   // one thread each: calls separated by '+': W (write block 1), R (read block 0)
	LimitS int      `json:"limit_s"`
}

func (c C05FullCfg) String() string {
	return fmt.Sprintf("%s rf=%d fault=%q node=%d ops=%s limit=%ds", c.Name, c.RF, c.Fault, c.Node, strings.Join(c.Ops, "||"), c.LimitS)
}

type c05fState struct {
	nodes   []*eb.ModelNode
	peers   map[int]*VConn // node -> replica side of its data connection
	stalled map[int]bool
}

var c05fCur *c05fState

// c05fTransport: the replicas' REST API (model nodes) for Factory.Create, the controller's rebuild calls and the liveness probes.
type c05fTransport struct{}

func (c05fTransport) RoundTrip(req *http.Request) (*http.Response, error) {
	st := c05fCur
	host := strings.Split(req.URL.Host, ":")[0]
	var n int
	if _, err := fmt.Sscanf(host, "10.0.0.%d", &n); err != nil || st == nil || n < 1 || n > len(st.nodes) {
		return nil, fmt.Errorf("dial tcp %s: connection refused", req.URL.Host)
	}
	rec := httptest.NewRecorder()
	st.nodes[n-1].ServeHTTP(rec, req)
	return rec.Result(), nil
}

// c05fData makes a model node the data processor of the real rpc server; a stalled replica never answers.
type c05fData struct {
	st *c05fState
	i  int
}

func (d c05fData) wait() {
	if d.st.stalled[d.i] {
		vs.Block("stalled replica", func() bool { return false })
	}
}
func (d c05fData) ReadAt(b []byte, off int64) (int, error) {
	d.wait()
	return d.st.nodes[d.i].ReadAt(b, off)
}
func (d c05fData) WriteAt(b []byte, off int64) (int, error) {
	d.wait()
	return d.st.nodes[d.i].WriteAt(b, off)
}
func (d c05fData) Sync() (int, error)            { d.wait(); return d.st.nodes[d.i].Sync() }
func (d c05fData) Unmap(o, l int64) (int, error) { d.wait(); return d.st.nodes[d.i].Unmap(o, l) }
func (d c05fData) Close() error                  { return nil }
func (d c05fData) PingResponse() error           { d.wait(); return nil }

func runC05Full(cfg *C05FullCfg, ch vs.Chooser, trace bool) (*Outcome, *vs.Result) {
	out := &Outcome{}
	tag := cfg.Fault
	if tag == "" {
		tag = "nofault"
	}
	viol := func(oracle, sig, f string, a ...interface{}) {
		out.Violations = append(out.Violations, Viol{Oracle: oracle, Sig: oracle + ":" + tag + ":" + sig, Detail: fmt.Sprintf(f, a...)})
	}
	results := make([]string, len(cfg.Ops))
	res := vs.Run(vs.Config{Chooser: ch, Horizon: 400000, Trace: trace, TimeLimit: time.Duration(cfg.LimitS) * time.Second}, func() {
		st := &c05fState{peers: map[int]*VConn{}, stalled: map[int]bool{}}
		c05fCur = st
		for i := 0; i < cfg.RF; i++ {
			st.nodes = append(st.nodes, eb.NewModelNode(c18addr(i)))
		}
		http.DefaultTransport = c05fTransport{}
		c18TransportSet = false
		vs.DialHook = func(network, addr string) (net.Conn, error) {
			var n int
			if _, err := fmt.Sscanf(addr, "10.0.0.%d:", &n); err != nil || n < 1 || n > len(st.nodes) {
				return nil, fmt.Errorf("dial %s: no route to host", addr)
			}
			a, b := NewVConnPair()
			st.peers[n-1] = b
			i := n - 1
			vs.Go(fmt.Sprintf("replica%d", n), func() {
				// what replica/rpc.Server.ListenAndServe runs for the connection; when Handle returns the replica drops it
				srv := rpc.NewServer(b, c05fData{st, i})
				srv.Handle()
				b.Close()
			})
			return a, nil
		}
		os.Setenv("REPLICATION_FACTOR", fmt.Sprint(cfg.RF))
		c := controller.NewController(controller.WithName("vol"), controller.WithRF(cfg.RF), controller.WithBackend(dynamic.New(map[string]types.BackendFactory{"tcp": &remote.Factory{}})),
			controller.WithFrontend(&c18Frontend{}, "127.0.0.1"), controller.WithClusterIP("127.0.0.1"))
		// ---- set-up (not explored): register a majority, start, add + sync + verify the others
		vs.NoChoice(true)
		fail := func(f string, a ...interface{}) {
			out.Obs = "SETUP FAILED: " + fmt.Sprintf(f, a...)
			viol("setup", "-", "%s", out.Obs)
		}
		for i := 0; i < cfg.RF/2+1; i++ {
			if err := c.RegisterReplica(types.RegReplica{Address: c18ip(i), UUID: fmt.Sprintf("uuid-%d", i), RevCount: 1, RepType: "Backend", RepState: "closed"}); err != nil {
				fail("register %d: %v", i, err)
				return
			}
		}
		v := c.VerifView()
		if v.MaxRevReplica == "" {
			fail("no replica elected")
			return
		}
		if err := c.Start("tcp://" + v.MaxRevReplica + ":9502"); err != nil {
			fail("start: %v", err)
			return
		}
		first := 0
		fmt.Sscanf(v.MaxRevReplica, "10.0.0.%d", &first)
		first--
		rest := func(node int, action, body string) error {
			req, _ := http.NewRequest("POST", "http://"+c18ip(node)+":9502/v1/replicas/1?action="+action, strings.NewReader(body))
			req.Header.Set("Content-Type", "application/json")
			resp, err := http.DefaultClient.Do(req)
			if err != nil {
				return err
			}
			defer resp.Body.Close()
			if resp.StatusCode != 200 {
				return fmt.Errorf("%s on node %d: status %d", action, node, resp.StatusCode)
			}
			return nil
		}
		for i := 0; i < cfg.RF; i++ {
			if i == first {
				continue
			}
			if err := c.AddReplica(c18addr(i)); err != nil {
				fail("add %d: %v", i, err)
				return
			}
			if err := rest(i, "setrebuilding", `{"rebuilding":true}`); err != nil {
				fail("%v", err)
				return
			}
			if err := st.nodes[i].SyncFrom(st.nodes[first]); err != nil {
				fail("sync %d: %v", i, err)
				return
			}
			if err := c.VerifyRebuildReplica(c18addr(i)); err != nil {
				fail("verify %d: %v", i, err)
				return
			}
			if err := rest(i, "setrebuilding", `{"rebuilding":false}`); err != nil {
				fail("%v", err)
				return
			}
		}
		if n, err := c.WriteAt(c18Block(3), 0); err != nil || n != eb.Block {
			fail("initial write: n=%d err=%v", n, err)
			return
		}
		vs.NoChoice(false)
		// ---- the explored part
		if cfg.Fault != "" {
			vs.Go("fault", func() {
				switch cfg.Fault {
				case "close":
					st.peers[cfg.Node].Close() // the replica process dies: its end of the data connection is gone
				case "stall":
					st.stalled[cfg.Node] = true // the replica hangs: nothing is answered any more
				}
				vs.Note("fault %s on node %d", cfg.Fault, cfg.Node+1)
			})
		}
		for k, o := range cfg.Ops {
			k, o := k, o
			vs.Go(fmt.Sprintf("op%d:%s", k, o), func() {
				var rs []string
				for j, call := range strings.Split(o, "+") {
					switch call {
					case "W":
						b := c18Block(20 + 7*k + j)
						n, err := c.WriteAt(b, eb.Block)
						rs = append(rs, fmt.Sprintf("W:n=%d/%s", n, errClass(err)))
					case "R":
						buf := make([]byte, eb.Block)
						n, err := c.ReadAt(buf, 0)
						if err == nil && !bytes.Equal(buf, c18Block(3)) {
							viol("read-wrong-data", o, "a read reported success but did not return the acknowledged content of block 0")
						}
						rs = append(rs, fmt.Sprintf("R:n=%d/%s", n, errClass(err)))
					}
				}
				results[k] = strings.Join(rs, ",")
			})
		}
		vs.Quiesce(0)
		// ---- oracles at the virtual-time horizon
		for _, t := range vs.Threads() {
			if t.Done || t.Name == "main" {
				continue
			}
			if strings.HasPrefix(t.Kind, "send") {
				viol("blocked-send", t.Name, "thread %s is blocked for ever in a channel send at %s (a full closeChan/monitorChan: whoever holds the controller lock there wedges the volume)", t.Name, t.Loc)
			}
		}
		for k, r := range results {
			if r == "" {
				viol("hang", cfg.Ops[k], "operation thread %s never returned (horizon %ds)", cfg.Ops[k], cfg.LimitS)
				results[k] = cfg.Ops[k] + ":NEVER-RETURNED"
			}
		}
		// a minority failed (at most one replica of RF=3): no I/O error
		if cfg.RF >= 3 {
			for k, r := range results {
				for _, part := range strings.Split(r, ",") {
					if (strings.HasPrefix(part, "W:") || strings.HasPrefix(part, "R:")) && !strings.HasSuffix(part, fmt.Sprintf("n=%d/ok", eb.Block)) && !strings.Contains(part, "NEVER") {
						viol("minority-failure-surfaced", cfg.Ops[k], "with one of %d replicas failing (%s) the call %s of thread %s did not succeed", cfg.RF, cfg.Fault, part, cfg.Ops[k])
					}
				}
			}
		}
		view, free := c.VerifViewIfFree()
		if !free {
			viol("lock-held", "-", "the controller lock is still held at the horizon: the volume is wedged")
			out.Obs = strings.Join(results, " ; ") + " || LOCKED"
			return
		}
		var reps []string
		for _, r := range view.Replicas {
			var n int
			fmt.Sscanf(r.Address, "tcp://10.0.0.%d:9502", &n)
			reps = append(reps, fmt.Sprintf("%d:%s", n, r.Mode))
			if cfg.Fault != "" && n-1 == cfg.Node && r.Mode == types.RW {
				viol("failed-replica-in-service", "-", "node %d failed (%s) but is still listed RW at the horizon (%ds)", n, cfg.Fault, cfg.LimitS)
			}
		}
		sort.Strings(reps)
		for i := range st.nodes {
			if cfg.Fault != "" && i == cfg.Node {
				continue
			}
			found := false
			for _, r := range view.Replicas {
				if r.Address == c18addr(i) && r.Mode == types.RW {
					found = true
				}
			}
			if !found {
				viol("healthy-replica-lost", fmt.Sprint(i+1), "node %d did not fail but is not RW at the horizon: %v", i+1, reps)
			}
		}
		out.Obs = fmt.Sprintf("%s || replicas=%v ro=%v rw=%d", strings.Join(results, " ; "), reps, view.ReadOnly, view.RWReplicaCount)
	})
	return out, res
}

func c05FullConfigs(tier string) []C05FullCfg {
	var out []C05FullCfg
	for _, f := range []string{"close", "stall"} {
		out = append(out, C05FullCfg{Name: "full", RF: 3, Fault: f, Node: 1, Ops: []string{"W"}, LimitS: 150})
		out = append(out, C05FullCfg{Name: "full", RF: 3, Fault: f, Node: 0, Ops: []string{"W+W"}, LimitS: 150})
		out = append(out, C05FullCfg{Name: "full", RF: 3, Fault: f, Node: 2, Ops: []string{"R+R+R"}, LimitS: 150})
		if tier == "thorough" {
			out = append(out, C05FullCfg{Name: "full", RF: 3, Fault: f, Node: 1, Ops: []string{"W", "R"}, LimitS: 150})
		}
	}
	out = append(out, C05FullCfg{Name: "full", RF: 3, Fault: "", Ops: []string{"W", "R"}, LimitS: 10})
	return out
}

func checkC05Full() int { return checkSimple("C05", "C05full", "C05-full.part") }
