package ed

import (
	"bytes"
	"encoding/binary"
	"fmt"
	"os"
	"regexp"
	"sort"
	"strings"
	"syscall"
	"time"

	"github.com/openebs/jiva/rpc"
	"github.com/openebs/jiva/verifshim/vs"
)

// C15Cfg is one configuration of the rpc harness: who issues what, in which order the scripted peer answers, and at
// which reply frame it misbehaves instead.
type C15Cfg struct {
	Name    string   `json:"name"`
	Callers []string `json:"callers"` // one string per caller thread, one letter per operation: R read, W write, S sync, P ping
	Order   []int    `json:"order"`   // reply order: request ids (index into the flattened caller strings)
	Fault   string   `json:"fault"`   // "", stall, close, corrupt
	FaultAt int      `json:"fault_at"`
	Imm     bool     `json:"imm"`                // the fault happens right after reply FaultAt-1, without waiting for request Order[FaultAt]
	Server  bool     `json:"server,omitempty"`   // the peer is the REAL rpc.Server (replica side) over a stub data processor
	DataErr int      `json:"data_err,omitempty"` // Server: the data processor refuses request DataErr-1 with an I/O error (0 = none)
}

func (c C15Cfg) String() string {
	f := "none"
	if c.Fault != "" {
		f = fmt.Sprintf("%s@%d", c.Fault, c.FaultAt)
		if c.Imm {
			f += "!"
		}
	}
	if c.Server {
		if c.DataErr > 0 {
			return fmt.Sprintf("%s callers=%s peer=real rpc.Server, the data processor refuses request %d", c.Name, strings.Join(c.Callers, "|"), c.DataErr-1)
		}
		return fmt.Sprintf("%s callers=%s peer=real rpc.Server", c.Name, strings.Join(c.Callers, "|"))
	}
	return fmt.Sprintf("%s callers=%s order=%v fault=%s", c.Name, strings.Join(c.Callers, "|"), c.Order, f)
}

// grace is the delay the implementation itself puts between poisoning the client and failing the in-flight requests
// (time.Sleep(2 * time.Second) in handleResponse): a request that fails within it failed "promptly".
const grace = int64(2 * time.Second)

type opSpec struct {
	id     int
	caller int
	kind   byte
	typ    uint32
	off    int64
	size   int64
}

type opRec struct {
	issued, returned   bool
	issueT, retT       int64
	issueStep, retStep int
	poisonedAtIssue    bool
	reportedAtIssue    bool // the failure had already been reported on closeChan when this request was issued
	n                  int
	err                error
	dataOK             bool
	viaSelect          bool // the call went through operation's select (it was not turned away by the c.err check)
	replied            bool // the peer sent the correct reply frame for this request
	inflightAtPoison   bool
}

func pattern(off int64, n int64) []byte {
	b := make([]byte, n)
	for i := range b {
		b[i] = byte(off>>12) ^ byte(i*7+1)
	}
	return b
}

func flatten(callers []string) []opSpec {
	var ops []opSpec
	for ci, s := range callers {
		for j := 0; j < len(s); j++ {
			id := len(ops)
			o := opSpec{id: id, caller: ci, kind: s[j]}
			switch s[j] {
			case 'R':
				o.typ, o.off, o.size = rpc.TypeRead, int64(id+1)<<12, int64(5+id)
			case 'W':
				o.typ, o.off, o.size = rpc.TypeWrite, int64(id+1)<<12, int64(5+id)
			case 'S':
				o.typ = rpc.TypeSync
			case 'P':
				o.typ = rpc.TypePing
			default:
				panic("bad op kind")
			}
			ops = append(ops, o)
		}
	}
	return ops
}

// Outcome of one execution.
type Outcome struct {
	Obs        string    // canonical final observation
	Violations []Viol    // oracle failures
	Gray       []GrayObs // gray-area observations (not violations)
}

type GrayObs struct{ Sig, Note string }

type Viol struct {
	Oracle string `json:"oracle"`
	Sig    string `json:"sig"`
	Detail string `json:"detail"`
}

var hexRe = regexp.MustCompile(`0x[0-9a-fA-F]+`)

func errClass(err error) string {
	switch {
	case err == nil:
		return "ok"
	case err == rpc.ErrRWTimeout || err == rpc.ErrPingTimeout:
		return "own-deadline"
	}
	return "err(" + hexRe.ReplaceAllString(err.Error(), "0xPTR") + ")"
}

// c15State is shared between the harness threads of one execution.
type c15State struct {
	cfg        C15Cfg
	ops        []opSpec
	recs       []opRec
	client     *rpc.Client
	closeChan  chan struct{}
	poisoned   bool
	poisonT    int64
	poisonStep int
	step       int
	peerNotes  []string
	peerBad    []string
	wg         vs.WaitGroup
}

func (st *c15State) stepHook() {
	st.step++
	if !st.poisoned && st.client != nil && rpc.VerifClientErr(st.client) != nil {
		st.poisoned = true
		st.poisonT = vs.NowNS()
		st.poisonStep = st.step
		for _, f := range rpc.VerifInflight(st.client) {
			for i := range st.ops {
				o := &st.ops[i]
				if int64(o.typ) == f[0] && o.off == f[1] && o.size == f[2] && st.recs[i].issued && !st.recs[i].returned {
					st.recs[i].inflightAtPoison = true
				}
			}
		}
		vs.Note("client poisoned: err=%v, in flight: %v", rpc.VerifClientErr(st.client), rpc.VerifInflight(st.client))
	}
}

func (st *c15State) caller(ci int) {
	defer st.wg.Done()
	for i := range st.ops {
		o := st.ops[i]
		if o.caller != ci {
			continue
		}
		var (
			n   int
			err error
			ok  = true
		)
		sel0 := vs.SelectsDone()
		vs.Atomic(func() {
			r := &st.recs[i]
			r.issued, r.issueT, r.issueStep = true, vs.NowNS(), st.step
			r.poisonedAtIssue = rpc.VerifClientErr(st.client) != nil
			r.reportedAtIssue = len(st.closeChan) > 0
		})
		switch o.kind {
		case 'R':
			buf := make([]byte, o.size)
			n, err = st.client.ReadAt(buf, o.off)
			ok = err != nil || (int64(n) == o.size && bytes.Equal(buf, pattern(o.off, o.size)))
		case 'W':
			n, err = st.client.WriteAt(pattern(o.off, o.size), o.off)
			ok = err != nil || int64(n) == o.size
		case 'S':
			n, err = st.client.Sync()
			ok = err != nil || n == 0
		case 'P':
			err = st.client.Ping()
		}
		vs.Atomic(func() {
			r := &st.recs[i]
			r.returned, r.retT, r.retStep, r.n, r.err, r.dataOK = true, vs.NowNS(), st.step, n, err, ok
			r.viaSelect = vs.SelectsDone() != sel0
		})
		vs.Note("caller %d: op %d (%c) returned n=%d err=%v", ci, i, o.kind, n, err)
	}
}

// peer is the scripted replica side: it answers request Order[k] as the k-th reply, waiting for it to arrive, and at
// reply index FaultAt misbehaves instead.
func (st *c15State) peer(conn *VConn) {
	w := rpc.NewWire(conn)
	got := map[int]uint32{} // request id -> seq
	lastSeq := uint32(0)
	bad := func(f string, a ...interface{}) {
		vs.Atomic(func() { st.peerBad = append(st.peerBad, fmt.Sprintf(f, a...)) })
	}
	readOne := func() bool {
		m, err := w.Read()
		if err != nil {
			vs.Atomic(func() {
				st.peerNotes = append(st.peerNotes, "peer read: "+hexRe.ReplaceAllString(err.Error(), "0xPTR"))
			})
			return false
		}
		id := -1
		for i := range st.ops {
			o := &st.ops[i]
			if o.typ == m.Type && o.off == m.Offset && o.size == m.Size {
				id = i
			}
		}
		switch {
		case id < 0 && m.Type == rpc.TypeError:
			// the frame of a request that the client has already failed (replyError rewrote the queued *Message into
			// an error message) was still transmitted by the write goroutine
			bad("ERRFRAME: the client transmitted a TypeError frame (seq=%d off=%d size=%d payload=%q): a request that had already been failed towards its caller was rewritten in place by replyError while still queued in Client.send and then put on the wire", m.Seq, m.Offset, m.Size, string(m.Data))
			return true
		case id < 0:
			bad("unknown request frame type=%d off=%d size=%d len=%d", m.Type, m.Offset, m.Size, len(m.Data))
			return true
		case m.MagicVersion != rpc.MagicVersion:
			bad("request %d with magic %x", id, m.MagicVersion)
		case m.Seq <= lastSeq:
			bad("request %d with seq %d after seq %d", id, m.Seq, lastSeq)
		}
		if _, dup := got[id]; dup {
			bad("request %d received twice", id)
		}
		if st.ops[id].kind == 'W' {
			if !bytes.Equal(m.Data, pattern(m.Offset, m.Size)) {
				bad("write request %d carries the wrong payload", id)
			}
		} else if len(m.Data) != 0 {
			bad("request %d carries %d unexpected payload bytes", id, len(m.Data))
		}
		lastSeq = m.Seq
		got[id] = m.Seq
		return true
	}
	fault := func() {
		vs.Note("peer: fault %s at reply %d", st.cfg.Fault, st.cfg.FaultAt)
		switch st.cfg.Fault {
		case "stall":
		case "close":
			conn.Close()
		case "corrupt":
			var b bytes.Buffer
			binary.Write(&b, binary.LittleEndian, uint16(0xdead))
			b.Write(make([]byte, 26))
			conn.Write(b.Bytes())
		}
	}
	for k, id := range st.cfg.Order {
		if st.cfg.Fault != "" && st.cfg.FaultAt == k && st.cfg.Imm {
			fault()
			return
		}
		for {
			if _, ok := got[id]; ok {
				break
			}
			if !readOne() {
				return
			}
		}
		if st.cfg.Fault != "" && st.cfg.FaultAt == k {
			fault()
			return
		}
		o := st.ops[id]
		m := &rpc.Message{MagicVersion: rpc.MagicVersion, Seq: got[id], Type: rpc.TypeResponse}
		switch o.kind {
		case 'R':
			m.Data = pattern(o.off, o.size)
			m.Size = o.size
		case 'W':
			m.Size = o.size
		}
		if err := w.Write(m); err != nil {
			vs.Atomic(func() { st.peerNotes = append(st.peerNotes, "peer write: "+err.Error()) })
			return
		}
		vs.Atomic(func() { st.recs[id].replied = true })
		vs.Note("peer: replied to request %d (seq %d)", id, got[id])
	}
	for readOne() { // nothing more may arrive
	}
}

// c15Data is the data processor behind the real rpc.Server: reads return the pattern of their range, writes must carry it.
type c15Data struct{ st *c15State }

// refuses reports whether the configuration makes the data processor fail this request (disk full on the replica).
func (d c15Data) refuses(typ uint32, off, size int64) bool {
	k := d.st.cfg.DataErr - 1
	if k < 0 || k >= len(d.st.ops) {
		return false
	}
	o := d.st.ops[k]
	return o.typ == typ && o.off == off && o.size == size
}

func (d c15Data) mark(typ uint32, off, size int64) {
	vs.Atomic(func() {
		for i := range d.st.ops {
			o := &d.st.ops[i]
			if o.typ == typ && o.off == off && o.size == size {
				d.st.recs[i].replied = true
				return
			}
		}
		d.st.peerBad = append(d.st.peerBad, fmt.Sprintf("the server handed an unknown request to the data processor: type=%d off=%d size=%d", typ, off, size))
	})
}

// what a replica's disk produces when it is full (the error class travels through the server's reply construction)
var errC15NoSpace error = &os.PathError{Op: "write", Path: "/replica/volume-head.img", Err: syscall.ENOSPC}

func (d c15Data) ReadAt(b []byte, off int64) (int, error) {
	d.mark(rpc.TypeRead, off, int64(len(b)))
	if d.refuses(rpc.TypeRead, off, int64(len(b))) {
		return 0, errC15NoSpace
	}
	copy(b, pattern(off, int64(len(b))))
	return len(b), nil
}
func (d c15Data) WriteAt(b []byte, off int64) (int, error) {
	d.mark(rpc.TypeWrite, off, int64(len(b)))
	if d.refuses(rpc.TypeWrite, off, int64(len(b))) {
		return 0, errC15NoSpace
	}
	if !bytes.Equal(b, pattern(off, int64(len(b)))) {
		vs.Atomic(func() {
			d.st.peerBad = append(d.st.peerBad, fmt.Sprintf("write off=%d len=%d reached the data processor with the wrong payload", off, len(b)))
		})
	}
	return len(b), nil
}
func (d c15Data) Sync() (int, error) {
	d.mark(rpc.TypeSync, 0, 0)
	if d.refuses(rpc.TypeSync, 0, 0) {
		return -1, errC15NoSpace
	}
	return 0, nil
}
func (d c15Data) Unmap(off, l int64) (int, error) { d.mark(rpc.TypeUnmap, off, l); return 0, nil }
func (d c15Data) Close() error                    { return nil }
func (d c15Data) PingResponse() error             { d.mark(rpc.TypePing, 0, 0); return nil }

// serverPeer is the replica side played by the real rpc.Server (what replica/rpc.Server.ListenAndServe runs per
// connection); when Handle returns the connection is dropped, as the replica process would exit.
func (st *c15State) serverPeer(conn *VConn) {
	srv := rpc.NewServer(conn, c15Data{st})
	err := srv.Handle()
	vs.Atomic(func() { st.peerNotes = append(st.peerNotes, fmt.Sprintf("rpc.Server.Handle returned: %v", err)) })
	conn.Close()
}

// RunC15 is the body of the main thread of one execution (also used free-running by the race pass).
func RunC15(cfg C15Cfg, earlyTimer func() bool) (*c15State, func() *Outcome) {
	st := &c15State{cfg: cfg, ops: flatten(cfg.Callers)}
	st.recs = make([]opRec, len(st.ops))
	body := func() *Outcome {
		a, b := NewVConnPair()
		st.closeChan = make(chan struct{}, 5) // as backend/remote.Factory.Create makes it
		st.client = rpc.NewClient(a, st.closeChan)
		st.wg.Add(len(cfg.Callers))
		for ci := range cfg.Callers {
			ci := ci
			vs.Go(fmt.Sprintf("caller%d", ci), func() { st.caller(ci) })
		}
		if cfg.Server {
			vs.Go("server", func() { st.serverPeer(b) })
		} else {
			vs.Go("peer", func() { st.peer(b) })
		}
		if vs.Active() {
			vs.Quiesce(0)
		} else {
			// free-running (race pass): wait for the callers, let the client settle, then drop the peer's end
			st.wg.Wait()
			vs.Quiesce(30 * time.Millisecond)
			b.Close()
			vs.Quiesce(30 * time.Millisecond)
		}
		return st.judge(earlyTimer())
	}
	return st, body
}

func (st *c15State) judge(earlyTimer bool) *Outcome {
	out := &Outcome{}
	cfg := st.cfg
	faultTag := cfg.Fault
	if faultTag == "" {
		faultTag = "nofault"
	}
	viol := func(oracle, sig, f string, a ...interface{}) {
		out.Violations = append(out.Violations, Viol{Oracle: oracle, Sig: oracle + ":" + faultTag + ":" + sig, Detail: fmt.Sprintf(f, a...)})
	}
	var threads []vs.ThreadInfo
	vs.Atomic(func() { threads = vs.Threads() })
	poisonedNow := rpc.VerifClientErr(st.client) != nil
	tokens := len(st.closeChan)
	var obs []string
	anyTransportErr := false
	for i := range st.ops {
		o, r := st.ops[i], st.recs[i]
		k := string(o.kind)
		switch {
		case !r.issued:
			// a caller thread that hangs in an earlier operation never issues its later ones
			obs = append(obs, fmt.Sprintf("%d%c:not-issued", i, o.kind))
			continue
		case !r.returned:
			where := ""
			for _, t := range threads {
				if t.Name == fmt.Sprintf("caller%d", o.caller) {
					where = t.Kind + " " + t.Loc
				}
			}
			viol("hang", k, "request %d (%c) of caller %d never returned although every armed timer has fired; blocked at: %s", i, o.kind, o.caller, where)
			obs = append(obs, fmt.Sprintf("%d%c:HANG", i, o.kind))
			continue
		}
		ownDeadline := r.issueT + rpc.VerifTimeout(o.typ)
		cl := errClass(r.err)
		if cl == "own-deadline" && !r.viaSelect {
			// the same error value, but handed out as the client's sticky error before this request's deadline
			cl = "err(" + r.err.Error() + ")"
		}
		if cfg.Server && cfg.DataErr > 0 && i == cfg.DataErr-1 {
			// the replica answered this request with an error reply: the caller gets an error (the reply reached ITS
			// request, promptly), nobody else is affected and the connection is not given up
			switch {
			case r.err == nil:
				viol("error-reply-lost", k, "request %d (%c) returned success although the replica's data processor refused it", i, o.kind)
			case cl == "own-deadline":
				viol("error-reply-not-delivered", k, "request %d (%c) was answered by the replica with an error reply but returned only when its own deadline fired at %v", i, o.kind, time.Duration(ownDeadline))
			}
			obs = append(obs, fmt.Sprintf("%d%c:refused-by-replica:%s", i, o.kind, cl))
			continue
		}
		late := ""
		if r.err != nil {
			anyTransportErr = true
			// "late": the request ended through its own deadline although the client had been poisoned more than the
			// implementation's grace period before that deadline (schedule-independent: compares armed deadlines)
			if cl == "own-deadline" && st.poisoned && st.poisonStep < r.retStep && ownDeadline > st.poisonT+grace {
				late = "+late"
			}
		}
		obs = append(obs, fmt.Sprintf("%d%c:%s%s", i, o.kind, cl, late))
		if r.err == nil {
			if !r.dataOK {
				viol("mismatch", k, "request %d (%c off=%d size=%d) returned success with the wrong size/data (n=%d): it was completed with another request's reply", i, o.kind, o.off, o.size, r.n)
			}
			if !r.replied {
				viol("phantom-success", k, "request %d (%c) returned success but the peer never sent its reply", i, o.kind)
			}
			if r.reportedAtIssue {
				viol("success-after-report", k, "request %d (%c) was issued after the connection failure had been reported on closeChan and still succeeded", i, o.kind)
			}
			if r.poisonedAtIssue {
				viol("success-after-poison", k, "request %d (%c) was issued after the transport error had been handled and still succeeded", i, o.kind)
			}
			// sticky: no request issued after another one returned a transport error may succeed
			for j := range st.ops {
				q := st.recs[j]
				if cfg.Server && cfg.DataErr > 0 && j == cfg.DataErr-1 {
					continue // an error REPLY of the replica is not a failure of the connection
				}
				if j != i && q.returned && q.err != nil && q.retStep < r.issueStep {
					viol("later-request-succeeded", k, "request %d (%c) was issued after request %d had returned %q and still succeeded", i, o.kind, j, errClass(q.err))
				}
			}
			if cfg.Fault == "" && !earlyTimer {
				continue
			}
		} else {
			if cfg.Fault == "" && !earlyTimer {
				viol("spurious-failure", k, "request %d (%c) failed with %q although the peer answered every request and no deadline was made to expire early", i, o.kind, cl)
			}
			if r.poisonedAtIssue && cl == "own-deadline" {
				viol("late-after-handled", k, "request %d (%c) was issued after the transport error had been handled but returned only through its own deadline", i, o.kind)
			}
			if r.reportedAtIssue && cl == "own-deadline" && r.viaSelect {
				// the connection had failed and the failure had been reported for detachment (token on closeChan) before
				// this request was even issued: "every later request fails promptly"
				viol("late-after-reported", k, "request %d (%c) was issued at %v, after the connection failure had been reported on closeChan, but was not turned away: it returned only when its own deadline fired at %v", i, o.kind, time.Duration(r.issueT), time.Duration(ownDeadline))
			}
			switch {
			case late == "":
			case r.inflightAtPoison && !earlyTimer:
				// no timer was fired early in this execution: time only advanced when no thread could run, so the
				// completion had not been delivered when the request's own deadline fired
				viol("inflight-not-failed", k, "request %d (%c) was in flight (registered in Client.messages) when the client was poisoned at %v, but it was not failed by the poisoning: it returned only when its own deadline fired at %v", i, o.kind, time.Duration(st.poisonT), time.Duration(ownDeadline))
			case r.inflightAtPoison:
				out.Gray = append(out.Gray, GrayObs{"inflight-own-deadline-under-early-timer:" + faultTag + ":" + k, fmt.Sprintf("request %d (%c) in flight at poisoning returned through its own deadline in an execution where the explorer fired timers early (thread starvation); judged by the registered-requests check instead", i, o.kind)})
			default:
				out.Gray = append(out.Gray, GrayObs{"late-fail:" + faultTag + ":" + k, fmt.Sprintf("request %d (%c), issued at %v and not yet registered in Client.messages when the client was poisoned at %v, was never failed by the client: it returned only when its own deadline fired at %v", i, o.kind, time.Duration(r.issueT), time.Duration(st.poisonT), time.Duration(ownDeadline))})
			}
		}
	}
	if poisonedNow && rpc.VerifRegistered(st.client) != 0 {
		viol("inflight-left-registered", "-", "the client is poisoned but %d request(s) are still registered in Client.messages at quiescence: in-flight requests were not terminated: %v", rpc.VerifRegistered(st.client), rpc.VerifInflight(st.client))
	}
	if poisonedNow != (tokens == 1) || tokens > 1 {
		viol("closechan-token", "-", "client poisoned=%v but closeChan holds %d token(s): the failure is not reported exactly once", poisonedNow, tokens)
	}
	if anyTransportErr && !poisonedNow {
		viol("error-not-sticky", "-", "a request returned a transport/deadline error but the client is not poisoned at quiescence")
	}
	if cfg.Fault != "" && !poisonedNow {
		viol("fault-unreported", "-", "the peer did %s at reply %d but the client was never poisoned (no detachment would happen)", cfg.Fault, cfg.FaultAt)
	}
	if cfg.Fault == "" && !earlyTimer && poisonedNow {
		viol("spurious-poison", "-", "client poisoned (%v) although nothing failed", rpc.VerifClientErr(st.client))
	}
	for _, b := range st.peerBad {
		if strings.HasPrefix(b, "ERRFRAME: ") {
			// Not a clause of C15 (which speaks about replies reaching their requests, codec round trips, prompt failure and
			// reporting): recorded as an observation, not as a violation.
			out.Gray = append(out.Gray, GrayObs{"failed-request-sent-as-error-frame:" + faultTag, strings.TrimPrefix(b, "ERRFRAME: ")})
			continue
		}
		viol("request-mangled", "-", "%s", b)
	}
	var leaks []string
	for _, t := range threads {
		if t.Done || t.Name == "main" {
			continue
		}
		if strings.HasPrefix(t.Kind, "send") {
			viol("blocked-send", t.Name, "thread %s is blocked for ever in a channel send (%s): a completion was delivered twice or a queue is full", t.Name, t.Loc)
		}
		if poisonedNow && strings.HasPrefix(t.Name, "c.") {
			leaks = append(leaks, t.Name)
		}
	}
	if len(leaks) > 0 {
		sort.Strings(leaks)
		out.Gray = append(out.Gray, GrayObs{"client-thread-alive-after-poison:" + faultTag + ":" + strings.Join(leaks, ","), "client goroutines still blocked at quiescence after the client was poisoned"})
	}
	sort.Strings(obs)
	out.Obs = fmt.Sprintf("%s poisoned=%v tokens=%d leaks=%v", strings.Join(obs, " "), poisonedNow, tokens, leaks)
	return out
}

func maxI(a, b int64) int64 {
	if a > b {
		return a
	}
	return b
}

// ---------------------------------------------------------------------------------------------------------------
// configurations

// linearExtensions enumerates every reply order that respects each caller's own sequence.
func linearExtensions(callers []string) [][]int {
	ops := flatten(callers)
	next := make([]int, len(callers)) // per caller: index of its next op
	var cur []int
	var out [][]int
	var rec func()
	rec = func() {
		if len(cur) == len(ops) {
			out = append(out, append([]int(nil), cur...))
			return
		}
		for ci := range callers {
			if next[ci] < len(callers[ci]) {
				// id of op next[ci] of caller ci
				id := 0
				for c2 := 0; c2 < ci; c2++ {
					id += len(callers[c2])
				}
				id += next[ci]
				next[ci]++
				cur = append(cur, id)
				rec()
				cur = cur[:len(cur)-1]
				next[ci]--
			}
		}
	}
	rec()
	return out
}

type Scenario struct {
	Name    string
	Callers []string
	Levels  []Bounds
	Server  bool
}

// C15Configs expands a scenario into every (reply order × fault variant) configuration.
func C15Configs(sc Scenario) []C15Cfg {
	var out []C15Cfg
	n := len(flatten(sc.Callers))
	seen := map[string]bool{}
	add := func(c C15Cfg) {
		// what the peer does depends only on the part of the order it gets to use
		used := c.Order
		if c.Fault != "" {
			used = c.Order[:c.FaultAt+1]
			if c.Imm {
				used = c.Order[:c.FaultAt]
			}
		}
		k := fmt.Sprint(c.Fault, c.FaultAt, c.Imm, used)
		if !seen[k] {
			seen[k] = true
			out = append(out, c)
		}
	}
	if sc.Server {
		// the real server decides the reply order itself; no scripted fault
		out := []C15Cfg{{Name: sc.Name, Callers: sc.Callers, Server: true}}
		for k := 1; k <= n; k++ {
			if kind := flatten(sc.Callers)[k-1].kind; kind != 'P' {
				out = append(out, C15Cfg{Name: sc.Name, Callers: sc.Callers, Server: true, DataErr: k})
			}
		}
		return out
	}
	for _, ord := range linearExtensions(sc.Callers) {
		add(C15Cfg{Name: sc.Name, Callers: sc.Callers, Order: ord})
		for k := 0; k < n; k++ {
			for _, f := range []string{"stall", "close", "corrupt"} {
				add(C15Cfg{Name: sc.Name, Callers: sc.Callers, Order: ord, Fault: f, FaultAt: k})
			}
			for _, f := range []string{"close", "corrupt"} {
				add(C15Cfg{Name: sc.Name, Callers: sc.Callers, Order: ord, Fault: f, FaultAt: k, Imm: true})
			}
		}
	}
	return out
}
