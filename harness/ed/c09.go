package ed

import (
	"fmt"
	"os"
	"sort"
	"strings"

	"github.com/openebs/jiva/backend/remote"
	"github.com/openebs/jiva/controller"
	"github.com/openebs/jiva/types"
	"github.com/openebs/jiva/verifshim/vs"

	"verif/harness/eb"
)

// C09Cfg is one configuration of the concurrent-bootstrap harness (part C09conc of C09): a real controller.Controller
// (package controller under the scheduler) with no replica yet, RF 3, three model nodes with revision counters 5, 10,
// 20; registration threads run concurrently (a thread is a '+'-separated sequence of registrations).  Afterwards every
// replica that was told to start calls Controller.Start, lowest revision counter first.  Every interleaving must end
// in the results (which start was accepted) and the membership of some sequential merge of the same registrations.
type C09Cfg struct {
	Name    string   `json:"name"`
	Threads []string `json:"threads"` // e.g. "Reg0+Reg1", "Reg2", "RegF1" (the start signal to that replica fails)
}

func (c C09Cfg) String() string {
	return fmt.Sprintf("%s regs=%s", c.Name, strings.Join(c.Threads, "||"))
}

var c09Revs = []int64{5, 10, 20, 20}

type c09Cluster struct {
	*c18Cluster
	signalled []string // addresses told to start, in order
	failSig   map[string]bool
}

type c09Factory struct {
	c18Factory
	cc *c09Cluster
}

func (f c09Factory) SignalToAdd(address, action string) error {
	if action == "start" {
		if f.cc.failSig[address] {
			return fmt.Errorf("signal to %s failed (injected)", address)
		}
		f.cc.signalled = append(f.cc.signalled, address)
	}
	return nil
}

func c09Exec(cfg *C09Cfg, ch vs.Chooser, trace bool, order []int) (string, *vs.Result) {
	outcome := ""
	res := vs.Run(vs.Config{Chooser: ch, PostUnlockPoints: true, Horizon: 20000, Trace: trace}, func() {
		vs.NoChoice(true)
		if !c18TransportSet {
			// the in-process transport of the controller-atomicity harness serves the model nodes
			if _, err := c18Build("rw2"); err != nil {
				vs.Fatal("transport set-up: " + err.Error())
			}
			vs.Quiesce(0)
		}
		os.Setenv("REPLICATION_FACTOR", "3")
		base := &c18Cluster{bes: map[int]*remote.Remote{}, rf: 3}
		cc := &c09Cluster{c18Cluster: base, failSig: map[string]bool{}}
		c18cur = base
		for i := 0; i < 4; i++ {
			n := eb.NewModelNode(c18addr(i))
			n.SetRevision(c09Revs[i])
			base.nodes = append(base.nodes, n)
		}
		base.c = controller.NewController(controller.WithName("vol"), controller.WithRF(3), controller.WithBackend(c09Factory{c18Factory{base}, cc}),
			controller.WithFrontend(&c18Frontend{}, "127.0.0.1"), controller.WithClusterIP("127.0.0.1"))
		c := base.c
		reg := func(name string) string {
			var i int
			fmt.Sscanf(name[len(name)-1:], "%d", &i)
			if strings.HasPrefix(name, "RegF") {
				cc.failSig[c18ip(i)] = true
			}
			err := c.RegisterReplica(types.RegReplica{Address: c18ip(i), UUID: fmt.Sprintf("uuid-%d", i), RevCount: c09Revs[i], RepType: "Backend", RepState: "closed"})
			if strings.HasPrefix(name, "RegF") {
				delete(cc.failSig, c18ip(i))
			}
			if err != nil {
				return name + ":err"
			}
			return name + ":ok"
		}
		calls := make([][]string, len(cfg.Threads))
		results := make([][]string, len(cfg.Threads))
		for k, t := range cfg.Threads {
			calls[k] = strings.Split(t, "+")
			results[k] = make([]string, len(calls[k]))
		}
		if order == nil {
			vs.NoChoice(false)
			for k := range calls {
				k := k
				vs.Go(fmt.Sprintf("regs%d:%s", k, cfg.Threads[k]), func() {
					for j, n := range calls[k] {
						results[k][j] = reg(n)
					}
				})
			}
			vs.Quiesce(0)
			vs.NoChoice(true)
		} else {
			next := make([]int, len(calls))
			for _, k := range order {
				k, j := k, next[k]
				next[k]++
				vs.Go(fmt.Sprintf("ref%d.%d", k, j), func() { results[k][j] = reg(calls[k][j]) })
				vs.Quiesce(0)
			}
		}
		var rs []string
		for k := range results {
			for j, r := range results[k] {
				if r == "" {
					r = calls[k][j] + ":NEVER-RETURNED"
				}
				rs = append(rs, r)
			}
		}
		// every replica that was told to start does so, lowest revision counter first (the stale one gets its chance
		// before the up-to-date one)
		told := map[string]bool{}
		for _, a := range cc.signalled {
			told[a] = true
		}
		var starters []int
		for i := 0; i < 3; i++ {
			if told[c18ip(i)] {
				starters = append(starters, i)
			}
		}
		sort.Slice(starters, func(a, b int) bool { return c09Revs[starters[a]] < c09Revs[starters[b]] })
		var st []string
		for _, i := range starters {
			i := i
			done, r := false, ""
			vs.Go(fmt.Sprintf("start%d", i), func() {
				if err := c.Start(c18addr(i)); err != nil {
					r = fmt.Sprintf("Start%d:refused", i)
				} else {
					r = fmt.Sprintf("Start%d:accepted", i)
				}
				done = true
			})
			vs.Quiesce(0)
			if !done {
				r = fmt.Sprintf("Start%d:NEVER-RETURNED", i)
			}
			st = append(st, r)
		}
		v := c.VerifView()
		var reps []string
		for _, r := range v.Replicas {
			reps = append(reps, r.Address[len("tcp://10.0.0."):len("tcp://10.0.0.")+1]+":"+string(r.Mode))
		}
		sort.Strings(reps)
		sort.Strings(rs)
		outcome = fmt.Sprintf("%s | told-to-start=%v | %s | replicas=%v", strings.Join(rs, " "), cc.signalled, strings.Join(st, " "), reps)
	})
	return outcome, res
}

var c09Allowed = map[string]map[string]string{}

func c09Run(cfg *C09Cfg, ch vs.Chooser, trace bool) (*Outcome, *vs.Result) {
	key := cfg.String()
	allowed, ok := c09Allowed[key]
	if !ok {
		allowed = map[string]string{}
		var n []int
		for _, t := range cfg.Threads {
			n = append(n, len(strings.Split(t, "+")))
		}
		for _, ord := range c01Merges(n) {
			o, res := c09Exec(cfg, defaultChooser{}, false, ord)
			if res.Fatal != "" || len(res.Panics) > 0 || res.HorizonHit {
				return nil, &vs.Result{Fatal: fmt.Sprintf("reference order %v of %s failed: fatal=%q panics=%v", ord, key, res.Fatal, res.Panics)}
			}
			if _, ok := allowed[o]; !ok {
				allowed[o] = fmt.Sprint(ord)
			}
		}
		c09Allowed[key] = allowed
	}
	o, res := c09Exec(cfg, ch, trace, nil)
	out := &Outcome{Obs: o}
	if res.Fatal != "" || len(res.Panics) > 0 || res.HorizonHit {
		return out, res
	}
	tag := strings.Join(cfg.Threads, "||")
	// the election clause itself: the replica whose start was accepted holds the highest revision counter among the
	// replicas that were told to start
	if i := strings.Index(o, ":accepted"); i >= 0 {
		var acc int
		fmt.Sscanf(o[i-1:i], "%d", &acc)
		for _, a := range strings.Fields(strings.Trim(o[strings.Index(o, "told-to-start=[")+len("told-to-start=["):strings.Index(o, "] |")], " ")) {
			var n int
			fmt.Sscanf(a, "10.0.0.%d", &n)
			if n >= 1 && c09Revs[n-1] > c09Revs[acc] {
				out.Violations = append(out.Violations, Viol{Oracle: "stale-replica-started", Sig: "stale-replica-started:" + tag,
					Detail: fmt.Sprintf("the start of node %d (revision counter %d) was accepted although node %d (revision counter %d) had been elected and told to start\n %s", acc+1, c09Revs[acc], n, c09Revs[n-1], o)})
				break
			}
		}
	}
	if _, ok := allowed[o]; !ok {
		var al []string
		for a, ord := range allowed {
			al = append(al, "  merge "+ord+": "+a)
		}
		sort.Strings(al)
		out.Violations = append(out.Violations, Viol{Oracle: "not-serializable", Sig: "not-serializable:" + tag,
			Detail: "the concurrent registrations ended in results/membership that no sequential merge of the same registrations produces.\n observed: " + o + "\n sequential outcomes:\n" + strings.Join(al, "\n")})
	}
	return out, res
}

func c09Configs(tier string) []C09Cfg {
	var out []C09Cfg
	add := func(t ...string) { out = append(out, C09Cfg{Name: "bootstrap", Threads: t}) }
	add("Reg0+Reg1", "Reg2")
	add("Reg0", "Reg1", "Reg2")
	add("Reg1+Reg0", "Reg2")
	add("Reg0+Reg2", "Reg1")
	add("Reg2+Reg0", "Reg1")
	add("Reg0+Reg1+Reg1", "Reg2") // the elected replica registers again while the third arrives
	add("RegF1+Reg0", "Reg2")     // a failing start signal
	add("Reg0+RegF1", "Reg2")
	if tier == "thorough" {
		add("Reg0+Reg1", "Reg2+Reg2")
		add("Reg0+Reg1+Reg0", "Reg2+Reg1")
	}
	return out
}

func checkC09conc() int { return checkSimple("C09", "C09conc", "C09-conc.part") }
