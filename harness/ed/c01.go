package ed

import (
	"fmt"
	"os"
	"path/filepath"
	"regexp"
	"sort"
	"strings"

	fibmap "github.com/frostschutz/go-fibmap"
	"github.com/openebs/jiva/replica"
	"github.com/openebs/jiva/types"
	"github.com/openebs/jiva/util"
	"github.com/openebs/jiva/verifshim/vs"
	"github.com/openebs/sparse-tools/sparse"

	"verif/harness/ea"
)

// C01Cfg is one configuration of the replica linearizability harness (parts C01conc / C06conc / C12conc): ONE real on-disk
// replica.Server (package replica under the scheduler: Server.RWMutex, Replica.RWMutex, rmLock, revisionLock are
// scheduling points), brought to a 3-file chain, then 2-3 threads run data-path calls (what the RPC server calls) and
// management calls (what the REST server and the snapshot cleaner call) concurrently.  A thread is a sequence of calls
// ("Rm" is the cleaner's prepare, fold, remove).  Every interleaving up to the preemption bound must end in per-call
// results, chain, live image and per-file contents that SOME sequential merge of the threads' calls produces.
type C01Cfg struct {
	Name    string   `json:"name"`
	Init    string   `json:"init,omitempty"` // "" = open RW; "closed" = the same chain, replica closed; "wo" = open, mode WO
	Threads []string `json:"threads"`        // one op per thread: W<b> Wu R<b> Ru Snap Rm Revert Reload ULM Resize ModeWO ModeRW Close Open SetRev
}

func (c C01Cfg) String() string {
	if c.Init != "" {
		return fmt.Sprintf("%s init=%s ops=%s", c.Name, c.Init, strings.Join(c.Threads, "||"))
	}
	return fmt.Sprintf("%s ops=%s", c.Name, strings.Join(c.Threads, "||"))
}

const c01Blocks = 3

type c01Inst struct {
	dir string
	srv *replica.Server
}

func c01Pat(tag byte, n int) []byte {
	b := make([]byte, n)
	for i := range b {
		b[i] = tag
	}
	return b
}

type foldStubED struct{}

func (foldStubED) UpdateFoldFileProgress(int, bool, error) {}

// calls expands an op into its sequence of calls; each call returns a short result text.
func (x *c01Inst) calls(k int, op string) []func() string {
	s := x.srv
	e := func(err error) string {
		if err == nil {
			return "ok"
		}
		return "err"
	}
	blk := func() int64 { return int64(op[len(op)-1] - '0') }
	tag := byte(0x40 + k) // distinct from the initial contents (1..7)
	switch {
	case len(op) == 2 && op[0] == 'W' && op[1] >= '0' && op[1] <= '9':
		return []func() string{func() string { _, err := s.WriteAt(c01Pat(tag, 4096), blk()*4096); return op + ":" + e(err) }}
	case op == "Wu":
		// sectors 3..4 of block 0: read-modify-write under rmLock
		return []func() string{func() string { _, err := s.WriteAt(c01Pat(tag, 1024), 3*512); return op + ":" + e(err) }}
	case len(op) == 2 && op[0] == 'R' && op[1] >= '0' && op[1] <= '9':
		return []func() string{func() string {
			buf := make([]byte, 4096)
			_, err := s.ReadAt(buf, blk()*4096)
			return fmt.Sprintf("%s:%s:%s", op, e(err), c01Tags(buf))
		}}
	case op == "Ru":
		return []func() string{func() string {
			buf := make([]byte, 3*512)
			_, err := s.ReadAt(buf, 2*512)
			return fmt.Sprintf("%s:%s:%s", op, e(err), c01Tags(buf))
		}}
	case op == "Snap":
		return []func() string{func() string { return op + ":" + e(s.Snapshot("x", true, "2020-01-01T00:00:00Z")) }}
	case op == "Rm":
		// what the snapshot cleaner does for the automatic snapshot a2 (its parent a1 is automatic too): prepare, coalesce
		// outside any lock, remove
		var ops []replica.PrepareRemoveAction
		return []func() string{
			func() string {
				var err error
				ops, err = s.PrepareRemoveDisk("volume-snap-a2.img")
				return "Rm.prepare:" + e(err)
			},
			func() string {
				for _, o := range ops {
					if o.Action == replica.OpCoalesce {
						if err := sparse.FoldFile(filepath.Join(x.dir, o.Source), filepath.Join(x.dir, o.Target), foldStubED{}); err != nil {
							return "Rm.fold:err"
						}
					}
				}
				return "Rm.fold:ok"
			},
			func() string {
				for _, o := range ops {
					if o.Action == replica.OpRemove {
						if err := s.RemoveDiffDisk(o.Source); err != nil {
							return "Rm.remove:err"
						}
					}
				}
				return "Rm.remove:ok"
			},
		}
	case op == "CloneSt":
		// what app/replica.go does around a clone: straight on the Replica, not through the Server lock.  Only paired with
		// operations that keep the Replica instance: a pointer fetched before a Revert/Reload refers to the superseded
		// instance afterwards (observation in DESIGN 9.7; the clone bracket runs when no revert/reload can arrive)
		return []func() string{func() string {
			r := s.Replica()
			if r == nil {
				return op + ":closed"
			}
			return op + ":" + e(r.SetCloneStatus("completed"))
		}}
	case op == "Rebuilding":
		return []func() string{func() string { return op + ":" + e(s.SetRebuilding(true)) }}
	case op == "Checkpoint":
		return []func() string{func() string { return op + ":" + e(s.SetCheckpoint("volume-snap-a4.img")) }}
	case op == "RmRaw":
		// the unlink step alone, as a REST removedisk request would issue it
		return []func() string{func() string { return op + ":" + e(s.RemoveDiffDisk("volume-snap-a2.img")) }}
	case op == "Revert":
		return []func() string{func() string { return op + ":" + e(s.Revert("volume-snap-u3.img", "2020-01-01T00:00:00Z")) }}
	case op == "Reload":
		return []func() string{func() string { return op + ":" + e(s.Reload()) }}
	case op == "ULM":
		// the epilogue of a rebuild: reload without preload, then merge the preloaded map
		return []func() string{
			func() string {
				s.SetPreload(false)
				err := s.Reload()
				s.SetPreload(true)
				return "ULM.reload:" + e(err)
			},
			func() string { return "ULM.update:" + e(s.UpdateLUNMap()) },
		}
	case op == "Resize":
		return []func() string{func() string { return op + ":" + e(s.Resize(fmt.Sprint((c01Blocks+1)*4096))) }}
	case op == "ModeWO":
		return []func() string{func() string { return op + ":" + e(s.SetReplicaMode("WO")) }}
	case op == "Close":
		return []func() string{func() string { return op + ":" + e(s.Close()) }}
	case op == "Open":
		return []func() string{func() string { return op + ":" + e(s.Open()) }}
	case op == "ModeRW":
		return []func() string{func() string { return op + ":" + e(s.SetReplicaMode("RW")) }}
	case op == "SetRev":
		return []func() string{func() string { return op + ":" + e(s.SetRevisionCounter(50)) }}
	}
	vs.Fatal("unknown op " + op)
	return nil
}

// c01Tags renders a buffer as the run-length list of its byte values ("7x4096" / "1x1536,65x1024,...").
func c01Tags(b []byte) string {
	var parts []string
	for i := 0; i < len(b); {
		j := i
		for j < len(b) && b[j] == b[i] {
			j++
		}
		parts = append(parts, fmt.Sprintf("%dx%d", b[i], j-i))
		i = j
	}
	return strings.Join(parts, ",")
}

var c01Tmpl string // closed replica directory with the initial chain (per worker process)

var c01HeadRe = regexp.MustCompile(`volume-head-\d+\.img`)

// state: chain, revision counter, live image and the allocated contents of every chain file.
func (x *c01Inst) state() string {
	s := x.srv
	r := s.Replica()
	closed := ""
	if r == nil {
		// closing and reopening reproduces chain and data: open what the calls left behind
		closed = "closed; "
		if err := s.Open(); err != nil {
			return "closed, REOPEN FAILS: " + strings.ReplaceAll(err.Error(), x.dir, "<dir>") + " " + x.files()
		}
		if err := s.SetReplicaMode("RW"); err != nil {
			return "closed, reopened, setmode fails: " + strings.ReplaceAll(err.Error(), x.dir, "<dir>")
		}
		r = s.Replica()
	}
	chain, err := r.Chain()
	if err != nil {
		return "chain-error:" + strings.ReplaceAll(err.Error(), x.dir, "<dir>")
	}
	size := r.Info().Size
	buf := make([]byte, size)
	live := ""
	if _, err := s.ReadAt(buf, 0); err != nil {
		live = "READ-ERROR:" + strings.ReplaceAll(err.Error(), x.dir, "<dir>")
	} else {
		live = c01Tags(buf)
	}
	st, _ := s.Status()
	mode := replica.VerifEdMode(r)
	rev := r.GetRevisionCounter()
	files := x.files()
	death := x.afterDeath()
	// the whole volume accepts writes: probe the last block (the final act on this replica)
	probe := "probe-write-last-block:skipped"
	if mode == "RW" || mode == "WO" {
		func() {
			defer func() {
				if p := recover(); p != nil {
					probe = fmt.Sprintf("probe-write-last-block:PANIC %v", p)
				}
			}()
			last := size - 4096
			if _, err := s.WriteAt(c01Pat(0x7f, 4096), last); err != nil {
				probe = "probe-write-last-block:err"
				return
			}
			pb := make([]byte, 4096)
			if _, err := s.ReadAt(pb, last); err != nil {
				probe = "probe-write-last-block:read-err"
				return
			}
			probe = "probe-write-last-block:" + c01Tags(pb)
		}()
	}
	return fmt.Sprintf("%sstate=%s mode=%s size=%d rev=%d chain=%s live=[%s] %s %s %s", closed, st, mode, size, rev,
		c01HeadRe.ReplaceAllString(strings.Join(chain, ">"), "HEAD"), live, files, death, probe)
}

// afterDeath: what a process death right now would leave - the directory is copied as it is (holes preserved) and the
// copy is opened by the real code.
func (x *c01Inst) afterDeath() string {
	cp := x.dir + "-death"
	defer os.RemoveAll(cp)
	if err := ea.CopyDir(x.dir, cp); err != nil {
		return "after-death: copy failed: " + strings.ReplaceAll(err.Error(), x.dir, "<dir>")
	}
	s2 := replica.NewServer("127.0.0.1:9602", cp, 512, "")
	if err := s2.Open(); err != nil {
		return "after-death: OPEN FAILS: " + strings.ReplaceAll(err.Error(), cp, "<dir>")
	}
	defer replica.VerifEdCloseFiles(s2.Replica())
	chain, err := s2.Replica().Chain()
	if err != nil {
		return "after-death: chain error: " + strings.ReplaceAll(err.Error(), cp, "<dir>")
	}
	inf := s2.Replica().Info()
	buf := make([]byte, inf.Size)
	live := ""
	if _, err := s2.ReadAt(buf, 0); err != nil {
		live = "READ-ERROR"
	} else {
		live = c01Tags(buf)
	}
	return fmt.Sprintf("after-death{size=%d reb=%v chain=%s live=[%s]}", inf.Size, inf.Rebuilding, c01HeadRe.ReplaceAllString(strings.Join(chain, ">"), "HEAD"), live)
}

func (x *c01Inst) files() string {
	ents, _ := os.ReadDir(x.dir)
	var out []string
	for _, e := range ents {
		n := e.Name()
		if !strings.HasSuffix(n, ".img") {
			continue
		}
		f, err := os.Open(filepath.Join(x.dir, n))
		if err != nil {
			out = append(out, n+":ERR")
			continue
		}
		st, _ := f.Stat()
		var d []string
		exts, errno := fibmap.Fiemap(f.Fd(), 0, uint64(st.Size()), 64)
		if errno != 0 {
			d = append(d, "FIEMAP-ERR")
		}
		alloc := map[int64]bool{}
		for _, ex := range exts {
			for b := int64(ex.Logical) / 4096; b < (int64(ex.Logical+ex.Length)+4095)/4096; b++ {
				alloc[b] = true
			}
		}
		for b := int64(0); b*4096 < st.Size(); b++ {
			if !alloc[b] {
				d = append(d, "-")
				continue
			}
			buf := make([]byte, 4096)
			f.ReadAt(buf, b*4096)
			d = append(d, c01Tags(buf))
		}
		f.Close()
		out = append(out, c01HeadRe.ReplaceAllString(n, "HEAD")+"{"+strings.Join(d, "|")+"}")
	}
	sort.Strings(out)
	return strings.Join(out, " ")
}

// c01Exec performs one execution.  order == nil: the threads run concurrently (explored).  order != nil: sequential
// reference - order lists thread indexes, one entry per call, each call run to completion before the next.
func c01Exec(cfg *C01Cfg, ch vs.Chooser, trace bool, order []int) (string, *vs.Result) {
	c14Seq++
	x := &c01Inst{dir: fmt.Sprintf("%s/c01-%d", c14Scratch(), c14Seq)}
	os.RemoveAll(x.dir)
	if err := os.MkdirAll(x.dir, 0755); err != nil {
		return "", &vs.Result{Fatal: err.Error()}
	}
	defer func() {
		func() {
			defer func() { recover() }()
			if x.srv != nil && x.srv.Replica() != nil {
				replica.VerifEdCloseFiles(x.srv.Replica())
			}
		}()
		os.RemoveAll(x.dir)
	}()
	outcome := ""
	res := vs.Run(vs.Config{Chooser: ch, PostUnlockPoints: true, Horizon: 20000, Trace: trace}, func() {
		vs.NoChoice(true)
		util.VerifNoSync = true
		types.ShouldPunchHoles = false
		types.DrainOps = types.DrainDone
		replica.VerifEdDrain()
		vs.Go("hole-puncher-stub", func() {
			for {
				vs.Block("idle hole puncher", func() bool { return types.DrainOps == types.DrainStart })
				replica.VerifEdDrain()
			}
		})
		s := replica.NewServer("127.0.0.1:9502", x.dir, 512, "")
		x.srv = s
		must := func(what string, err error) {
			if err != nil {
				vs.Fatal("set-up " + what + ": " + err.Error())
			}
		}
		w := func(tag byte, blk int64) {
			_, err := s.WriteAt(c01Pat(tag, 4096), blk*4096)
			must("write", err)
		}
		// the initial chain is built once per worker process with the real code and closed; every execution starts from
		// a hole-preserving copy of that directory, opened by the real code
		if c01Tmpl == "" {
			must("create", s.Create(c01Blocks*4096))
			must("open", s.Open())
			must("mode", s.SetReplicaMode("RW"))
			w(1, 0)
			w(2, 1)
			w(3, 2)
			// chain: a1 (automatic, base) < a2 (automatic) < u3 (user) < a4 (automatic, latest) < head
			must("snapshot a1", s.Snapshot("a1", false, "2020-01-01T00:00:00Z"))
			w(4, 0)
			must("snapshot a2", s.Snapshot("a2", false, "2020-01-01T00:00:00Z"))
			w(5, 1)
			must("snapshot u3", s.Snapshot("u3", true, "2020-01-01T00:00:00Z"))
			w(6, 0)
			must("snapshot a4", s.Snapshot("a4", false, "2020-01-01T00:00:00Z"))
			w(7, 2)
			must("close", s.Close())
			t := c14Scratch() + "/c01-template"
			os.RemoveAll(t)
			must("template copy", ea.CopyDir(x.dir, t))
			c01Tmpl = t
		} else {
			must("copy of the template", ea.CopyDir(c01Tmpl, x.dir))
		}
		must("open", s.Open())
		must("mode", s.SetReplicaMode("RW"))
		if cfg.Init == "closed" {
			must("close", s.Close())
		}
		if cfg.Init == "wo" {
			must("mode WO", s.SetReplicaMode("WO"))
		}
		calls := make([][]func() string, len(cfg.Threads))
		results := make([][]string, len(cfg.Threads))
		for k, op := range cfg.Threads {
			calls[k] = x.calls(k, op)
			results[k] = make([]string, len(calls[k]))
		}
		if order == nil {
			vs.NoChoice(false)
			for k := range cfg.Threads {
				k := k
				vs.Go(fmt.Sprintf("op%d:%s", k, cfg.Threads[k]), func() {
					for i, f := range calls[k] {
						results[k][i] = f()
					}
				})
			}
			vs.Quiesce(0)
			vs.NoChoice(true)
		} else {
			next := make([]int, len(cfg.Threads))
			for _, k := range order {
				k, i := k, next[k]
				next[k]++
				vs.Go(fmt.Sprintf("ref%d.%d", k, i), func() { results[k][i] = calls[k][i]() })
				vs.Quiesce(0)
			}
		}
		var rs []string
		stuck := false
		for k := range results {
			for i, r := range results[k] {
				if r == "" {
					r = fmt.Sprintf("%s.%d:NEVER-RETURNED", cfg.Threads[k], i)
					stuck = true
				}
				rs = append(rs, r)
			}
		}
		outcome = strings.Join(rs, " ; ")
		if stuck {
			var bl []string
			for _, t := range vs.Threads() {
				if !t.Done && (strings.HasPrefix(t.Name, "op") || strings.HasPrefix(t.Name, "ref")) {
					bl = append(bl, t.Name+" in "+t.Kind+" at "+t.Loc)
				}
			}
			outcome += " || BLOCKED " + strings.Join(bl, ",")
			return
		}
		done := false
		vs.Go("final-state", func() { outcome += " || " + x.state(); done = true })
		vs.Quiesce(0)
		if !done {
			outcome += " || FINAL-STATE-BLOCKED"
		}
	})
	return outcome, res
}

// c01Merges: every sequential merge of the threads' call sequences.
func c01Merges(n []int) [][]int {
	var out [][]int
	pos := make([]int, len(n))
	total := 0
	for _, x := range n {
		total += x
	}
	var cur []int
	var rec func()
	rec = func() {
		if len(cur) == total {
			out = append(out, append([]int(nil), cur...))
			return
		}
		for i := range n {
			if pos[i] < n[i] {
				cur = append(cur, i)
				pos[i]++
				rec()
				pos[i]--
				cur = cur[:len(cur)-1]
			}
		}
	}
	rec()
	return out
}

var c01Allowed = map[string]map[string]string{}

func c01Reference(cfg *C01Cfg) (map[string]string, string) {
	key := cfg.String()
	if m, ok := c01Allowed[key]; ok {
		return m, ""
	}
	var n []int
	for _, op := range cfg.Threads {
		switch op {
		case "Rm":
			n = append(n, 3)
		case "ULM":
			n = append(n, 2)
		default:
			n = append(n, 1)
		}
	}
	m := map[string]string{}
	for _, ord := range c01Merges(n) {
		o, res := c01Exec(cfg, defaultChooser{}, false, ord)
		if res.Fatal != "" || len(res.Panics) > 0 || res.HorizonHit {
			return nil, fmt.Sprintf("reference order %v of %s failed: fatal=%q panics=%v horizon=%v", ord, key, res.Fatal, res.Panics, res.HorizonHit)
		}
		if _, ok := m[o]; !ok {
			m[o] = fmt.Sprint(ord)
		}
	}
	c01Allowed[key] = m
	return m, ""
}

func c01Run(cfg *C01Cfg, ch vs.Chooser, trace bool) (*Outcome, *vs.Result) {
	allowed, errs := c01Reference(cfg)
	if errs != "" {
		if strings.Contains(errs, "panics=[{") {
			// a purely sequential order of the calls already panics / calls logrus.Fatal: a violation, not a harness error
			out := &Outcome{Obs: "a sequential order crashes"}
			out.Violations = append(out.Violations, Viol{Oracle: "sequential-order-crashes", Sig: "sequential-order-crashes:" + strings.Join(cfg.Threads, "||"), Detail: errs})
			return out, &vs.Result{}
		}
		return nil, &vs.Result{Fatal: errs}
	}
	o, res := c01Exec(cfg, ch, trace, nil)
	out := &Outcome{Obs: o}
	if res.Fatal != "" || len(res.Panics) > 0 || res.HorizonHit {
		return out, res
	}
	tag := strings.Join(cfg.Threads, "||")
	if strings.Contains(o, "BLOCKED") {
		out.Violations = append(out.Violations, Viol{Oracle: "call-never-returns", Sig: "call-never-returns:" + tag, Detail: o})
		return out, res
	}
	if _, ok := allowed[o]; !ok {
		var al []string
		for a, ord := range allowed {
			al = append(al, "  merge "+ord+": "+a)
		}
		sort.Strings(al)
		out.Violations = append(out.Violations, Viol{Oracle: "not-linearizable", Sig: "not-linearizable:" + tag,
			Detail: "the concurrent execution ended in results/state that no sequential merge of the same calls produces.\n observed: " + o + "\n sequential outcomes:\n" + strings.Join(al, "\n")})
	}
	return out, res
}

func c01Configs(part, tier string) []C01Cfg {
	var out []C01Cfg
	add := func(t ...string) { out = append(out, C01Cfg{Name: part, Threads: t}) }
	switch part {
	case "C01conc":
		// data path against itself and against everything that rebuilds or shifts the block map
		for _, p := range [][]string{{"W0", "R0"}, {"W0", "Wu"}, {"Wu", "Ru"}, {"Wu", "Wu"}, {"W0", "W0"}, {"W1", "Ru"},
			{"W0", "Rm"}, {"R0", "Rm"}, {"Ru", "Rm"}, {"W0", "Reload"}, {"R1", "Reload"}, {"W0", "ULM"}, {"W1", "ULM"}, {"W2", "ULM"}, {"Wu", "ULM"}, {"R0", "ULM"}, {"R1", "ULM"},
			{"W0", "Snap"}, {"Wu", "Snap"}, {"W0", "Revert"}, {"R0", "Revert"}, {"W2", "Resize"}, {"R2", "Resize"}, {"W0", "Close"}, {"R0", "Close"}} {
			add(p...)
		}
		add("W0", "R0", "Rm")
		add("Wu", "R0", "Snap")
		if tier == "thorough" {
			add("W0", "R0", "ULM")
			add("W0", "Wu", "Rm")
			add("W1", "R1", "Revert")
		}
	case "C06conc":
		// snapshot contents against concurrent writes and chain surgery (the state includes every file's contents)
		for _, p := range [][]string{{"Snap", "W0"}, {"Snap", "Wu"}, {"Snap", "Rm"}, {"Snap", "Revert"}, {"Revert", "W1"}, {"Revert", "Rm"}, {"Rm", "W1"}, {"Rm", "Wu"},
			{"Snap", "Reload"}, {"Revert", "Reload"}} {
			add(p...)
		}
		add("Snap", "W0", "W1")
		if tier == "thorough" {
			add("Snap", "Rm", "W0")
			add("Revert", "Rm", "W0")
		}
	case "C17conc":
		// the open/closed state and the mode against concurrent calls: a replica is opened once, I/O is applied only while
		// open and RW/WO, removals and SetRevisionCounter only while RW
		for _, p := range [][]string{{"Open", "Open"}, {"Open", "W0"}, {"Open", "R0"}, {"Open", "Snap"}, {"Open", "Close"}, {"Open", "ModeRW"}} {
			out = append(out, C01Cfg{Name: part, Init: "closed", Threads: p})
		}
		out = append(out, C01Cfg{Name: part, Init: "closed", Threads: []string{"Open", "Open", "W0"}})
		// a rebuilding (WO) replica: removals and SetRevisionCounter are refused, also in the middle of the rebuild epilogue
		for _, p := range [][]string{{"RmRaw", "ULM"}, {"Rm", "ULM"}, {"RmRaw", "W0"}, {"SetRev", "W0"}, {"RmRaw", "R0"}, {"ModeRW", "RmRaw"}, {"ModeRW", "SetRev"}} {
			out = append(out, C01Cfg{Name: part, Init: "wo", Threads: p})
		}
		for _, p := range [][]string{{"Close", "W0"}, {"Close", "Wu"}, {"Close", "Close"}, {"Close", "SetRev"}, {"ModeWO", "W0"}, {"ModeWO", "Rm"}, {"ModeWO", "SetRev"}, {"Close", "Open"}, {"Close", "Revert"}, {"Close", "ModeWO"}} {
			add(p...)
		}
	case "C16conc":
		// growing the volume against everything else: afterwards the whole volume (probe write on the last block) works
		for _, p := range [][]string{{"Resize", "W0"}, {"Resize", "W2"}, {"Resize", "R2"}, {"Resize", "ULM"}, {"Resize", "Reload"}, {"Resize", "Snap"}, {"Resize", "Rm"}, {"Resize", "Revert"},
			{"Resize", "Close"}, {"Resize", "Resize"}} {
			add(p...)
		}
		if tier == "thorough" {
			add("Resize", "ULM", "W2")
			add("Resize", "Snap", "W2")
		}
	case "C08conc":
		// writers of the metadata files against each other: after every interleaving the directory, as a process death
		// would leave it (the after-death view of the state), opens with the chain and data of a sequential merge
		for _, p := range [][]string{{"CloneSt", "Snap"}, {"CloneSt", "Resize"}, {"CloneSt", "Rebuilding"}, {"CloneSt", "Checkpoint"}, {"Rebuilding", "Snap"}, {"Checkpoint", "Snap"},
			{"Rebuilding", "Checkpoint"}, {"Snap", "Resize"}, {"Revert", "Resize"}, {"Snap", "Snap"}, {"Rm", "Snap"}, {"Rebuilding", "Revert"}, {"Checkpoint", "Revert"}, {"Rm", "Rebuilding"}} {
			add(p...)
		}
		if tier == "thorough" {
			add("CloneSt", "Snap", "Rebuilding")
			add("Checkpoint", "Resize", "Snap")
		}
	case "C12conc":
		// management operations against each other
		for _, p := range [][]string{{"Snap", "Snap"}, {"Snap", "Resize"}, {"Rm", "Resize"}, {"Rm", "Reload"}, {"Rm", "Rm"}, {"Revert", "Resize"}, {"Revert", "Revert"},
			{"Reload", "Resize"}, {"ULM", "Resize"}, {"Close", "Snap"}, {"Close", "Rm"}, {"Close", "Revert"}, {"Close", "Reload"}, {"ModeWO", "Rm"}, {"ModeWO", "SetRev"}, {"Close", "Close"}, {"Snap", "SetRev"},
			{"CloneSt", "Snap"}, {"CloneSt", "Resize"}, {"CloneSt", "Rebuilding"}, {"CloneSt", "Checkpoint"}, {"Rebuilding", "Snap"}, {"Checkpoint", "Snap"}, {"Rebuilding", "Checkpoint"}, {"Checkpoint", "Rm"}} {
			add(p...)
		}
		if tier == "thorough" {
			add("Snap", "Rm", "Resize")
			add("Close", "Rm", "W0")
		}
	}
	return out
}

func checkC01conc() int { return checkSimple("C01", "C01conc", "C01-conc.part") }
func checkC06conc() int { return checkSimple("C06", "C06conc", "C06-conc.part") }
func checkC12conc() int { return checkSimple("C12", "C12conc", "C12-conc.part") }
func checkC17conc() int { return checkSimple("C17", "C17conc", "C17-conc.part") }
func checkC16conc() int { return checkSimple("C16", "C16conc", "C16-conc.part") }
func checkC08conc() int { return checkSimple("C08", "C08conc", "C08-conc.part") }
