package ed

import (
	"crypto/sha1"
	"fmt"
	"net/http"
	"net/http/httptest"
	"os"
	"regexp"
	"sort"
	"strings"

	"github.com/openebs/jiva/backend/remote"
	"github.com/openebs/jiva/controller"
	"github.com/openebs/jiva/types"
	"github.com/openebs/jiva/verifshim/vs"

	"verif/harness/eb"
)

// C18Cfg is one configuration of the controller-atomicity harness: a real controller.Controller (package controller
// fully rewritten: Controller.RWMutex, the fan-out goroutines and wait groups of MultiWriterAt/replicator, the
// monitoring goroutines are scheduling points / managed threads) with real *remote.Remote backends in front of
// engine E-B's model replica nodes, brought to an initial membership, then a pair/triple of API calls run
// concurrently.  Every interleaving's per-call results and final canonical state must equal those of SOME sequential
// order of the same calls, where AddReplica counts as two events (check+create | attach), as in E-B's event semantics.
type C18Cfg struct {
	Name string   `json:"name"`
	Init string   `json:"init"` // rw3 | rw2wo (replicas 0,1 RW, replica 2 attached WO and synced) | rw2 (RF 3, two RW)
	Ops  []string `json:"ops"`  // W0 W1 R Rm<i> Add<j> Ver<j> Mon<i> Snap
}

func (c C18Cfg) String() string {
	return fmt.Sprintf("%s init=%s ops=%s", c.Name, c.Init, strings.Join(c.Ops, "||"))
}

func c18ip(i int) string   { return fmt.Sprintf("10.0.0.%d", i+1) }
func c18addr(i int) string { return "tcp://" + c18ip(i) + ":9502" }

type c18Cluster struct {
	onlyIO      bool              // the configuration consists of data-path calls only (W, R, SF, WF)
	initialRW   map[int]bool      // nodes that were RW when the operations started
	curOp       map[string]string // scheduler thread -> the call it is executing
	late        []string          // requests a controller operation sent to a replica that was not a member at that moment
	c           *controller.Controller
	nodes       []*eb.ModelNode
	bes         map[int]*remote.Remote // latest backend per node
	gateOn      bool                   // reference runs: AddReplica stops after factory.Create until released
	gateRel     bool
	gated       bool
	notes       []string
	rf          int
	q           *c03Quorum      // C03conc: oracle evaluated when a mutating data call reaches a replica (nil otherwise)
	verOK       map[int]bool    // node -> its last VerifyRebuildReplica succeeded (RbOff follows only then)
	failREST    map[string]bool // "node/action": the REST call fails with a connection error
	slowREST    map[string]bool // "node/action": the REST call parks until releaseSlow
	releaseSlow bool
	slowParked  int
	failWrites  map[int]int  // op WF<i>: payload byte -> node+1 on which that write fails
	failSync    map[int]bool // op SF<i>: flushes fail on these nodes from now on
	blamed      []string     // SF: who must have left / must still be in service (evaluated with the invariants)
	failReads   map[int]bool // op RF: reads fail on these nodes (the replicas that were RW when the cluster was built)
}

var c18cur *c18Cluster
var c18TransportSet bool

type c18Transport struct{}

func (c18Transport) RoundTrip(req *http.Request) (*http.Response, error) {
	cl := c18cur
	host := strings.Split(req.URL.Host, ":")[0]
	var n int
	if _, err := fmt.Sscanf(host, "10.0.0.%d", &n); err != nil || cl == nil || n < 1 || n > len(cl.nodes) {
		return nil, fmt.Errorf("dial tcp %s: connection refused", req.URL.Host)
	}
	// a removed replica receives no further calls: an operation that addresses members only (prepare / verify rebuild,
	// volume snapshot) holds the controller lock from its membership look-up to its last request, so the replica it talks
	// to is listed at the moment the request arrives (the scheduler runs one thread at a time: the view is consistent)
	if op := cl.curOp[vs.ThreadName()]; cl.c != nil && (strings.HasPrefix(op, "Prep") || strings.HasPrefix(op, "Ver") || op == "Snap") {
		member := false
		for _, r := range cl.c.VerifView().Replicas {
			if r.Address == c18addr(n-1) {
				member = true
			}
		}
		if !member {
			cl.late = append(cl.late, fmt.Sprintf("%s sent %s %s to node %d, which is not a member of the volume at that moment (it was removed while the operation ran)", op, req.Method, req.URL.Path, n))
		}
	}
	if act := req.URL.Query().Get("action"); act != "" {
		key := fmt.Sprintf("%d/%s", n-1, act)
		if cl.failREST[key] {
			return nil, fmt.Errorf("injected failure of %s on node %d", act, n)
		}
		if cl.slowREST[key] && !cl.releaseSlow {
			// a slow request: it reaches the node only when the harness lets it
			cl.slowParked++
			vs.Block("slow REST request "+key, func() bool { return cl.releaseSlow })
		}
	}
	rec := httptest.NewRecorder()
	cl.nodes[n-1].ServeHTTP(rec, req)
	return rec.Result(), nil
}

type c18IOs struct {
	cl   *c18Cluster
	node int
	n    *eb.ModelNode
}

func (x c18IOs) WriteAt(b []byte, off int64) (int, error) {
	if len(b) > 0 && x.cl.failWrites[int(b[0])] == x.node+1 {
		return 0, fmt.Errorf("injected write failure on node %d", x.node+1)
	}
	if q := x.cl.q; q != nil {
		if err := q.reach(x.cl, x.node, "W", int(b[0]), off); err != nil {
			return 0, err
		}
	}
	return x.n.WriteAt(b, off)
}
func (x c18IOs) ReadAt(b []byte, off int64) (int, error) {
	if x.cl.failReads[x.node] {
		return 0, fmt.Errorf("injected read failure on node %d", x.node+1)
	}
	return x.n.ReadAt(b, off)
}
func (x c18IOs) Sync() (int, error) {
	if x.cl.failSync[x.node] {
		return -1, fmt.Errorf("injected flush failure on node %d", x.node+1)
	}
	if q := x.cl.q; q != nil {
		if err := q.reach(x.cl, x.node, "S", 0, 0); err != nil {
			return -1, err
		}
	}
	return x.n.Sync()
}
func (x c18IOs) Unmap(o, l int64) (int, error) {
	if q := x.cl.q; q != nil {
		if err := q.reach(x.cl, x.node, "U", 0, o); err != nil {
			return -1, err
		}
	}
	return x.n.Unmap(o, l)
}
func (x c18IOs) Close() error { return nil }

type c18Factory struct{ cl *c18Cluster }

func (f c18Factory) Create(address string) (types.Backend, error) {
	cl := f.cl
	var n int
	if _, err := fmt.Sscanf(address, "tcp://10.0.0.%d:9502", &n); err != nil || n < 1 || n > len(cl.nodes) {
		return nil, fmt.Errorf("dial tcp %s: no route to host", address)
	}
	n--
	r := remote.NewForVerif(address, c18ip(n)+":9502", c18IOs{cl, n, cl.nodes[n]})
	if err := r.VerifAttach(); err != nil {
		return nil, err
	}
	cl.bes[n] = r
	// the part of the real monitorPing that does not need a data connection: StopMonitoring's token is answered
	// with nil on the monitor channel (the "stale" wake-up of Controller.monitoring)
	vs.Go(fmt.Sprintf("monitorPing-stub%d", n), func() {
		vs.Recv(r.VerifCloseChan())
		vs.Send(r.VerifMonitorChan(), nil)
	})
	if cl.gateOn && !cl.gated {
		cl.gated = true
		vs.Block("add-gate (between factory.Create and the attach)", func() bool { return cl.gateRel })
	}
	return r, nil
}

// the REAL signalling and liveness probe of backend/remote (HTTP through the in-process transport to the model node)
func (f c18Factory) SignalToAdd(address, action string) error {
	return (&remote.Factory{}).SignalToAdd(address, action)
}
func (f c18Factory) VerifyReplicaAlive(address string) bool {
	return (&remote.Factory{}).VerifyReplicaAlive(address)
}

type c18Frontend struct{ up bool }

func (f *c18Frontend) Startup(string, string, string, int64, int64, types.IOs) error {
	f.up = true
	return nil
}
func (f *c18Frontend) Shutdown() error { f.up = false; return nil }
func (f *c18Frontend) State() types.State {
	if f.up {
		return types.StateUp
	}
	return types.StateDown
}
func (f *c18Frontend) Stats() types.Stats  { return types.Stats{} }
func (f *c18Frontend) Resize(uint64) error { return nil }

func c18Block(k int) []byte {
	b := make([]byte, eb.Block)
	for i := range b {
		b[i] = byte(k*37 + 11)
	}
	return b
}

func (cl *c18Cluster) rest(node int, action, body string) error {
	req, _ := http.NewRequest("POST", "http://"+c18ip(node)+":9502/v1/replicas/1?action="+action, strings.NewReader(body))
	req.Header.Set("Content-Type", "application/json")
	resp, err := http.DefaultClient.Do(req)
	if err != nil {
		return err
	}
	defer resp.Body.Close()
	if resp.StatusCode != 200 {
		return fmt.Errorf("%s on node %d: status %d", action, node, resp.StatusCode)
	}
	return nil
}

// build brings the controller to the initial membership the way a deployment gets there: register, start on the
// elected replica, add (WO) + sync + verify (RW) for the others.  Runs on the main thread of the execution.
func c18Build(init string) (*c18Cluster, error) {
	if !c18TransportSet {
		http.DefaultTransport = c18Transport{}
		c18TransportSet = true
	}
	rf := 3
	switch init {
	case "rf2":
		rf = 2
	case "rf1":
		rf = 1
	}
	os.Setenv("REPLICATION_FACTOR", fmt.Sprint(rf))
	cl := &c18Cluster{bes: map[int]*remote.Remote{}, rf: rf}
	c18cur = cl
	for i := 0; i < 4; i++ {
		cl.nodes = append(cl.nodes, eb.NewModelNode(c18addr(i)))
	}
	cl.c = controller.NewController(controller.WithName("vol"), controller.WithRF(rf), controller.WithBackend(c18Factory{cl}),
		controller.WithFrontend(&c18Frontend{}, "127.0.0.1"), controller.WithClusterIP("127.0.0.1"))
	c := cl.c
	for i := 0; i < rf/2+1; i++ {
		if err := c.RegisterReplica(types.RegReplica{Address: c18ip(i), UUID: fmt.Sprintf("uuid-%d", i), RevCount: 1, RepType: "Backend", RepState: "closed"}); err != nil {
			return nil, fmt.Errorf("register %d: %v", i, err)
		}
	}
	v := c.VerifView()
	if v.MaxRevReplica == "" {
		return nil, fmt.Errorf("no replica elected after %d registrations", rf/2+1)
	}
	if err := c.Start("tcp://" + v.MaxRevReplica + ":9502"); err != nil {
		return nil, fmt.Errorf("start: %v", err)
	}
	first := 0
	if v.MaxRevReplica == c18ip(1) {
		first = 1
	}
	join := func(i int, verify bool) error {
		if err := c.AddReplica(c18addr(i)); err != nil {
			return fmt.Errorf("add %d: %v", i, err)
		}
		if err := cl.rest(i, "setrebuilding", `{"rebuilding":true}`); err != nil {
			return err
		}
		src := -1
		for _, r := range c.ListReplicas() {
			if r.Mode == types.RW {
				fmt.Sscanf(r.Address, "tcp://10.0.0.%d:9502", &src)
				src--
				break
			}
		}
		if src < 0 {
			return fmt.Errorf("no RW source for %d", i)
		}
		if err := cl.nodes[i].SyncFrom(cl.nodes[src]); err != nil {
			return err
		}
		if !verify {
			return nil
		}
		if err := c.VerifyRebuildReplica(c18addr(i)); err != nil {
			return fmt.Errorf("verify %d: %v", i, err)
		}
		return cl.rest(i, "setrebuilding", `{"rebuilding":false}`)
	}
	if rf == 1 {
		if err := cl.writeAll(c, 9, 3); err != nil {
			return nil, err
		}
		return cl, nil
	}
	second := 1 - first
	if err := join(second, true); err != nil {
		return nil, err
	}
	if err := cl.writeAll(c, 9, 3); err != nil { // one acknowledged write before the third replica joins
		return nil, err
	}
	switch init {
	case "rw3":
		if err := join(2, true); err != nil {
			return nil, err
		}
	case "rw2wo":
		if err := join(2, false); err != nil {
			return nil, err
		}
	case "rw2", "rf2":
	default:
		return nil, fmt.Errorf("unknown init %q", init)
	}
	return cl, nil
}

func (cl *c18Cluster) writeAll(c *controller.Controller, k int, blk int) error {
	n, err := c.WriteAt(c18Block(k), int64(blk)*eb.Block)
	if err != nil || n != eb.Block {
		return fmt.Errorf("initial write: n=%d err=%v", n, err)
	}
	return nil
}

var uuidRe = regexp.MustCompile(`[0-9a-f]{8}-[0-9a-f]{4}-[0-9a-f]{4}-[0-9a-f]{4}-[0-9a-f]{12}`)

// op runs one API call and returns its result as text.
func (cl *c18Cluster) op(name string) string {
	c := cl.c
	if vs.Active() {
		if cl.curOp == nil {
			cl.curOp = map[string]string{}
		}
		cl.curOp[vs.ThreadName()] = name
	}
	idx := func() int { var i int; fmt.Sscanf(name[len(name)-1:], "%d", &i); return i }
	e := func(err error) string {
		if err == nil {
			return "ok"
		}
		if os.Getenv("VERIF_ED_ERRTEXT") != "" {
			return "err(" + err.Error() + ")"
		}
		return "err"
	}
	switch {
	case name == "W0" || name == "W1":
		k := idx()
		n, err := c.WriteAt(c18Block(k+1), int64(k)*eb.Block)
		return fmt.Sprintf("%s:n=%d,%s", name, n, e(err))
	case strings.HasPrefix(name, "FailCp"):
		if cl.failREST == nil {
			cl.failREST = map[string]bool{}
		}
		cl.failREST[fmt.Sprintf("%d/setcheckpoint", idx())] = true
		return name + ":set"
	case strings.HasPrefix(name, "SlowCp"):
		if cl.slowREST == nil {
			cl.slowREST = map[string]bool{}
		}
		cl.slowREST[fmt.Sprintf("%d/setcheckpoint", idx())] = true
		return name + ":set"
	case strings.HasPrefix(name, "Sync"):
		// what sync.AddReplica does on the joining replica: mark rebuilding, copy the source's snapshots
		i := idx()
		if err := cl.rest(i, "setrebuilding", `{"rebuilding":true}`); err != nil {
			return name + ":err"
		}
		src := -1
		for _, r := range c.ListReplicas() {
			if r.Mode == types.RW {
				fmt.Sscanf(r.Address, "tcp://10.0.0.%d:9502", &src)
				src--
				break
			}
		}
		if src < 0 {
			return name + ":nosource"
		}
		return name + ":" + e(cl.nodes[i].SyncFrom(cl.nodes[src]))
	case strings.HasPrefix(name, "Reb"):
		// first step of the rebuild on the joining replica: it marks itself rebuilding (the copy has not happened yet)
		return name + ":" + e(cl.rest(idx(), "setrebuilding", `{"rebuilding":true}`))
	case strings.HasPrefix(name, "Wipe"):
		// the replica process restarts with an empty directory (what a replica that finds itself half rebuilt does
		// before it registers for a fresh add)
		cl.nodes[idx()] = eb.NewModelNode(c18addr(idx()))
		return name + ":done"
	case strings.HasPrefix(name, "Restart"):
		// the replica process restarts (its data stays) and is ready for a fresh add
		cl.nodes[idx()].Restart()
		return name + ":done"
	case strings.HasPrefix(name, "SF"):
		// a flush that fails on node <i> (and only there): the volume stays writable, that replica - and no other - leaves
		if cl.failSync == nil {
			cl.failSync = map[int]bool{}
		}
		cl.failSync[idx()] = true
		n, err := c.Sync()
		failed := idx()
		var rwBefore []int
		for i := range cl.nodes {
			if cl.nodes[i].View().Mode == "RW" {
				rwBefore = append(rwBefore, i)
			}
		}
		_ = rwBefore
		cl.blamed = append(cl.blamed, fmt.Sprint(failed))
		return fmt.Sprintf("%s:n=%d,%s", name, n, e(err))
	case strings.HasPrefix(name, "WF"):
		// a write of block 1 whose data call fails on node <i> (the failure belongs to this write only: it is keyed by
		// the payload)
		b := c18Block(5)
		if cl.failWrites == nil {
			cl.failWrites = map[int]int{}
		}
		cl.failWrites[int(b[0])] = idx() + 1
		n, err := c.WriteAt(b, eb.Block)
		return fmt.Sprintf("%s:n=%d,%s", name, n, e(err))
	case name == "R":
		buf := make([]byte, eb.Block)
		n, err := c.ReadAt(buf, 0)
		return fmt.Sprintf("R:n=%d,%s,data=%.6x", n, e(err), sha1.Sum(buf))
	case name == "RF" || name == "RF0":
		// a read that fails on both replicas that were RW when the cluster was built (RF0: only on node 0)
		cl.failReads = map[int]bool{0: true, 1: name == "RF"}
		buf := make([]byte, eb.Block)
		n, err := c.ReadAt(buf, 0)
		cl.failReads = nil
		return fmt.Sprintf("%s:n=%d,%s,data=%.6x", name, n, e(err), sha1.Sum(buf))
	case strings.HasPrefix(name, "RW"):
		return name + ":" + e(c.SetReplicaMode(c18addr(idx()), types.RW))
	case strings.HasPrefix(name, "Err"):
		return name + ":" + e(c.SetReplicaMode(c18addr(idx()), types.ERR))
	case strings.HasPrefix(name, "Rm"):
		return name + ":" + e(c.RemoveReplica(c18addr(idx())))
	case strings.HasPrefix(name, "Add"):
		return name + ":" + e(c.AddReplica(c18addr(idx())))
	case strings.HasPrefix(name, "Grow"):
		// volume resize to the initial size plus <k> blocks (a request below the current size must be refused)
		return name + ":" + e(c.Resize("vol", fmt.Sprint(eb.VolSize+idx()*eb.Block)))
	case strings.HasPrefix(name, "Prep"):
		// the controller's part of the start of a rebuild (chain look-ups on the source and on the joiner, transfer of the
		// head's metadata through the sync agents - which the model nodes do not have: the call ends in an error there)
		_, err := c.PrepareRebuildReplica(c18addr(idx()))
		return name + ":" + e(err)
	case strings.HasPrefix(name, "Ver"):
		// the controller half of the end of a rebuild; the replica's own half (RbOff) is a separate call
		err := c.VerifyRebuildReplica(c18addr(idx()))
		if cl.verOK == nil {
			cl.verOK = map[int]bool{}
		}
		cl.verOK[idx()] = err == nil
		return name + ":" + e(err)
	case strings.HasPrefix(name, "RbOff"):
		// what sync.AddReplica does on the replica after a successful verification: clear the rebuilding flag
		if !cl.verOK[idx()] {
			return name + ":skipped"
		}
		return name + ":" + e(cl.rest(idx(), "setrebuilding", `{"rebuilding":false}`))
	case strings.HasPrefix(name, "Mon"):
		r := cl.bes[idx()]
		if r == nil {
			return name + ":nobackend"
		}
		vs.Send(r.VerifMonitorChan(), fmt.Errorf("ping failure (injected)"))
		return name + ":sent"
	case name == "Snap":
		_, err := c.Snapshot("snap-user")
		return "Snap:" + e(err)
	}
	return name + ":?"
}

// state is the canonical final state: the controller's private bookkeeping and every node's abstract state.
func (cl *c18Cluster) state() string {
	v := cl.c.VerifView()
	var reps, bes []string
	for _, r := range v.Replicas {
		reps = append(reps, r.Address[len("tcp://10.0.0."):len("tcp://10.0.0.")+1]+":"+string(r.Mode))
	}
	sort.Strings(reps)
	for _, b := range v.Backends {
		bes = append(bes, b.Address[len("tcp://10.0.0."):len("tcp://10.0.0.")+1]+":"+b.Mode)
	}
	names := map[string]string{}
	norm := func(s string) string {
		return uuidRe.ReplaceAllStringFunc(s, func(u string) string {
			if _, ok := names[u]; !ok {
				names[u] = fmt.Sprintf("U%d", len(names))
			}
			return names[u]
		})
	}
	var nodes []string
	for i, n := range cl.nodes {
		nv := n.View()
		nodes = append(nodes, fmt.Sprintf("n%d{%s %s rev=%d chain=%s cp=%s rb=%v data=%.8x}", i+1, nv.State, nv.Mode, nv.Rev, norm(strings.Join(nv.Chain, ",")), norm(nv.Checkpoint), nv.Rebuilding, sha1.Sum([]byte(nv.Data))))
	}
	return fmt.Sprintf("ctl{ro=%v rw=%d cp=%s replicas=%v backends=%v writers=%d readers=%d} %s", v.ReadOnly, v.RWReplicaCount, norm(v.Checkpoint), reps, bes, v.NWriters, v.NReaders, strings.Join(nodes, " "))
}

var c18Invariants []string

// c18Agreement: every replica the controller lists as RW holds the same data, chain and revision counter as the
// others (evaluated at quiescence of a concurrent run; used where a replica is re-added at the same address, so that
// a delayed stale monitor wake-up - which may detach the new attachment, an availability matter - keeps the run from
// being comparable with the sequential orders).
var c18Agreement []string

func (cl *c18Cluster) agreement() []string {
	v := cl.c.VerifView()
	var out []string
	if v.Checkpoint != "" {
		for _, r := range v.Replicas {
			var n int
			fmt.Sscanf(r.Address, "tcp://10.0.0.%d:9502", &n)
			if cp := cl.nodes[n-1].View().Checkpoint; r.Mode == types.RW && cp != v.Checkpoint {
				out = append(out, fmt.Sprintf("the controller recorded checkpoint %s but the RW replica on node %d persists %q", v.Checkpoint, n, cp))
			}
		}
	}
	first := -1
	for _, r := range v.Replicas {
		if r.Mode != types.RW {
			continue
		}
		var n int
		fmt.Sscanf(r.Address, "tcp://10.0.0.%d:9502", &n)
		n--
		if first < 0 {
			first = n
			continue
		}
		a, b := cl.nodes[first].View(), cl.nodes[n].View()
		if a.Data != b.Data {
			out = append(out, fmt.Sprintf("RW replicas on nodes %d and %d hold different data", first+1, n+1))
		}
		if strings.Join(a.Chain, ",") != strings.Join(b.Chain, ",") {
			out = append(out, fmt.Sprintf("RW replicas on nodes %d and %d have different chains %v / %v", first+1, n+1, a.Chain, b.Chain))
		}
		if a.Rev != b.Rev {
			out = append(out, fmt.Sprintf("RW replicas on nodes %d and %d report revision counters %d / %d", first+1, n+1, a.Rev, b.Rev))
		}
	}
	return out
}

// invariants are the clauses of C18 that hold at every quiescent point: no address twice, not more data replicas than
// the replication factor, at most one replica rebuilding (WO), reported RW count = number of RW entries, the replica
// list and the backends that get I/O agree.
func (cl *c18Cluster) invariants() []string {
	v := cl.c.VerifView()
	var out []string
	for _, l := range cl.late {
		out = append(out, "removed-replica-called: "+l)
	}
	if len(cl.blamed) > 0 && cl.onlyIO {
		// flushes failed on exactly the nodes in cl.blamed and nothing else touched the membership: those replicas - and
		// no other - have left the service
		failed := map[int]bool{}
		for _, b := range cl.blamed {
			var i int
			fmt.Sscan(b, &i)
			failed[i] = true
		}
		listed := map[int]types.Mode{}
		for _, r := range v.Replicas {
			var n int
			fmt.Sscanf(r.Address, "tcp://10.0.0.%d:9502", &n)
			listed[n-1] = r.Mode
		}
		for i := range cl.initialRW {
			m, ok := listed[i]
			if failed[i] && ok && m == types.RW {
				out = append(out, fmt.Sprintf("failed-replica-in-service: node %d failed the flush but is still RW", i+1))
			}
			if !failed[i] && (!ok || m != types.RW) {
				out = append(out, fmt.Sprintf("healthy-replica-detached: node %d did not fail any call but is no longer RW (flush failures were injected on %v)", i+1, cl.blamed))
			}
		}
	}
	seen := map[string]bool{}
	wo, rw := 0, 0
	for _, r := range v.Replicas {
		if seen[r.Address] {
			out = append(out, "address "+r.Address+" appears twice in the replica list")
		}
		seen[r.Address] = true
		switch r.Mode {
		case types.WO:
			wo++
		case types.RW:
			rw++
		}
	}
	if len(v.Replicas) > 3 {
		out = append(out, fmt.Sprintf("%d data replicas with replication factor 3", len(v.Replicas)))
	}
	if wo > 1 {
		out = append(out, fmt.Sprintf("%d replicas are WO (rebuilding) at the same time", wo))
	}
	if rw != v.RWReplicaCount {
		out = append(out, fmt.Sprintf("RWReplicaCount=%d but %d replicas are listed RW", v.RWReplicaCount, rw))
	}
	if len(v.Backends) != len(v.Replicas) {
		out = append(out, fmt.Sprintf("%d replicas listed but %d backends", len(v.Replicas), len(v.Backends)))
	}
	for _, b := range v.Backends {
		if !seen[b.Address] {
			out = append(out, "backend "+b.Address+" is not in the replica list")
		}
	}
	return out
}

// c18Run performs one execution.  order == nil: the ops run concurrently (explored).  order != nil: a sequential
// reference — the events of order are run one after the other, each to quiescence; event "k" = op k, "k+" = the
// second half of AddReplica op k.
func c18Run(cfg *C18Cfg, ch vs.Chooser, trace bool, order []string) (string, *vs.Result) {
	outcome := ""
	res := vs.Run(vs.Config{Chooser: ch, PostUnlockPoints: true, Horizon: 20000, Trace: trace}, func() {
		vs.NoChoice(true) // the sequential build of the initial membership is not explored
		cl, err := c18Build(cfg.Init)
		if err != nil {
			vs.Fatal("cannot build the initial cluster: " + err.Error())
		}
		vs.Quiesce(0)
		vs.NoChoice(order != nil)
		results := make([]string, len(cfg.Ops))
		// an op is one call or a '+'-separated sequence of calls run by one thread (e.g. "WF2+Restart2+Add2")
		cl.onlyIO = true
		for _, o := range cfg.Ops {
			for _, call := range strings.Split(o, "+") {
				if !(strings.HasPrefix(call, "W") || call == "R" || strings.HasPrefix(call, "SF") || strings.HasPrefix(call, "RF")) {
					cl.onlyIO = false
				}
			}
		}
		cl.initialRW = map[int]bool{}
		for _, r := range cl.c.VerifView().Replicas {
			if r.Mode == types.RW {
				var n int
				fmt.Sscanf(r.Address, "tcp://10.0.0.%d:9502", &n)
				cl.initialRW[n-1] = true
			}
		}
		released := make([]int, len(cfg.Ops))
		start := func(k int) {
			calls := strings.Split(cfg.Ops[k], "+")
			vs.Go(fmt.Sprintf("op%d:%s", k, cfg.Ops[k]), func() {
				var rs []string
				for j, c := range calls {
					if order != nil && j > 0 {
						j := j
						vs.Block("next call of the sequence (reference run)", func() bool { return released[k] > j })
					}
					rs = append(rs, cl.op(c))
				}
				results[k] = strings.Join(rs, ",")
			})
		}
		if order == nil {
			for k := range cfg.Ops {
				start(k)
			}
			vs.Quiesce(0)
			if cl.slowParked > 0 && !cl.releaseSlow {
				// everything that can run without the slow request(s) has run: now they arrive
				cl.releaseSlow = true
				vs.Quiesce(0)
			}
		} else {
			// event "k.j" = call j of op k; "k.j+" = the second half of that call when it is an AddReplica
			for _, ev := range order {
				var k, j int
				fmt.Sscanf(ev, "%d.%d", &k, &j)
				calls := strings.Split(cfg.Ops[k], "+")
				switch {
				case strings.HasSuffix(ev, "+"):
					cl.gateRel = true
				default:
					if strings.HasPrefix(calls[j], "Add") {
						cl.gateOn, cl.gated, cl.gateRel = true, false, false
					}
					released[k] = j + 1
					if j == 0 {
						start(k)
					}
				}
				vs.Quiesce(0)
			}
		}
		for k, r := range results {
			if r == "" {
				results[k] = cfg.Ops[k] + ":NEVER-RETURNED"
			}
		}
		var blocked []string
		for _, t := range vs.Threads() {
			if !t.Done && strings.HasPrefix(t.Name, "op") {
				blocked = append(blocked, t.Name+" in "+t.Kind)
			}
		}
		outcome = strings.Join(results, " ; ") + " || " + cl.state()
		if order == nil {
			c18Invariants = cl.invariants()
			c18Agreement = cl.agreement()
		}
		if len(blocked) > 0 {
			outcome += " || BLOCKED " + strings.Join(blocked, ",")
		}
	})
	return outcome, res
}

// c18Orders enumerates the sequential orders of the events of the ops (AddReplica = two events, in order).
func c18Orders(ops []string) [][]string {
	var evs [][]string
	for k, o := range ops {
		var l []string
		for j, c := range strings.Split(o, "+") {
			l = append(l, fmt.Sprintf("%d.%d", k, j))
			if strings.HasPrefix(c, "Add") {
				l = append(l, fmt.Sprintf("%d.%d+", k, j))
			}
		}
		evs = append(evs, l)
	}
	var out [][]string
	pos := make([]int, len(evs))
	var cur []string
	total := 0
	for _, e := range evs {
		total += len(e)
	}
	var rec func()
	rec = func() {
		if len(cur) == total {
			out = append(out, append([]string(nil), cur...))
			return
		}
		for i := range evs {
			if pos[i] < len(evs[i]) {
				cur = append(cur, evs[i][pos[i]])
				pos[i]++
				rec()
				pos[i]--
				cur = cur[:len(cur)-1]
			}
		}
	}
	rec()
	return out
}

type defaultChooser struct{}

func (defaultChooser) Choose([]vs.Option) int { return 0 }

var c18Allowed = map[string]map[string]string{} // cfg -> outcome -> the sequential order that produces it

func c18Reference(cfg *C18Cfg) (map[string]string, string) {
	key := cfg.String()
	if m, ok := c18Allowed[key]; ok {
		return m, ""
	}
	m := map[string]string{}
	for _, ord := range c18Orders(cfg.Ops) {
		o, res := c18Run(cfg, defaultChooser{}, false, ord)
		if res.Fatal != "" || len(res.Panics) > 0 || res.HorizonHit {
			return nil, fmt.Sprintf("reference order %v of %s failed: fatal=%q panics=%v horizon=%v", ord, key, res.Fatal, res.Panics, res.HorizonHit)
		}
		if _, ok := m[o]; !ok {
			m[o] = strings.Join(ord, ",")
		}
	}
	c18Allowed[key] = m
	return m, ""
}

func runC18(cfg *C18Cfg, ch vs.Chooser, trace bool) (*Outcome, *vs.Result) {
	allowed, errs := c18Reference(cfg)
	if errs != "" {
		return nil, &vs.Result{Fatal: errs}
	}
	o, res := c18Run(cfg, ch, trace, nil)
	out := &Outcome{Obs: o}
	if res.Fatal != "" || len(res.Panics) > 0 || res.HorizonHit {
		return out, res
	}
	for _, iv := range c18Invariants {
		if iv != "" {
			out.Violations = append(out.Violations, Viol{Oracle: "membership-invariant", Sig: "membership-invariant:" + cfg.Init + ":" + strings.Join(cfg.Ops, "||"), Detail: iv + "\n final: " + o})
		}
	}
	if cfg.Name == "readd" || cfg.Name == "cpslow" {
		for _, a := range c18Agreement {
			out.Violations = append(out.Violations, Viol{Oracle: "rw-replicas-disagree", Sig: "rw-replicas-disagree:" + cfg.Init + ":" + strings.Join(cfg.Ops, "||"), Detail: a + "\n final: " + o})
		}
		return out, res
	}
	if _, ok := allowed[o]; !ok {
		var al []string
		for a, ord := range allowed {
			al = append(al, "  order "+ord+": "+a)
		}
		sort.Strings(al)
		out.Violations = append(out.Violations, Viol{Oracle: "not-serializable", Sig: "not-serializable:" + cfg.Init + ":" + strings.Join(cfg.Ops, "||"),
			Detail: "the concurrent execution ended in results/state that no sequential order of the same calls produces.\n observed: " + o + "\n sequential outcomes:\n" + strings.Join(al, "\n")})
	}
	return out, res
}

func c18Configs(tier string) []C18Cfg {
	var out []C18Cfg
	add := func(init string, ops ...string) { out = append(out, C18Cfg{Name: "atom", Init: init, Ops: ops}) }
	// pairs over {WriteAt, ReadAt, AddReplica, RemoveReplica, monitor failure, Snapshot, VerifyRebuild}
	for _, p := range [][]string{
		{"W0", "W1"}, {"W0", "R"}, {"W0", "Rm1"}, {"W0", "Mon1"}, {"W0", "Snap"}, {"R", "Rm1"}, {"R", "Mon1"}, {"R", "Snap"},
		{"Rm1", "Mon1"}, {"Rm1", "Mon0"}, {"Rm0", "Rm1"}, {"Snap", "Rm1"}, {"Snap", "Mon1"}, {"Mon0", "Mon1"},
	} {
		add("rw3", p...)
	}
	for _, p := range [][]string{{"W0", "Ver2+RbOff2"}, {"R", "Ver2+RbOff2"}, {"Ver2+RbOff2", "Rm1"}, {"Ver2+RbOff2", "Mon0"}, {"Ver2+RbOff2", "Rm2"}, {"Ver2+RbOff2", "Mon2"}, {"Snap", "Ver2+RbOff2"}} {
		add("rw2wo", p...)
	}
	for _, p := range [][]string{{"W0", "Add2"}, {"R", "Add2"}, {"Add2", "Rm1"}, {"Add2", "Mon0"}, {"Add2", "Add3"}, {"Add2", "Add2"}, {"Snap", "Add2"}} {
		add("rw2", p...)
	}
	// the controller's prepare-rebuild step against the removal of the very replica it prepares
	for _, p := range [][]string{{"Prep2", "Mon2"}, {"Prep2", "Rm2"}, {"Prep2", "WF2"}, {"Prep2", "Err2"}, {"Prep2", "Mon0"}} {
		add("rw2wo", p...)
	}
	// the last replica leaves (the frontend is shut down on that path)
	for _, p := range [][]string{{"Rm0", "Rm0"}, {"Rm0", "Mon0"}, {"Rm0", "W0"}, {"Rm0", "R"}, {"Mon0", "W0"}, {"Rm0", "Err0"}} {
		add("rf1", p...)
	}
	for _, p := range [][]string{{"Rm0", "Rm1"}, {"Rm0", "Mon1"}, {"Mon0", "Mon1"}} {
		add("rf2", p...)
	}
	if tier == "thorough" {
		add("rw3", "W0", "Rm1", "Mon2")
		add("rw3", "W0", "R", "Mon1")
		add("rw2wo", "W0", "Ver2+RbOff2", "Mon0")
		add("rw2", "W0", "Add2", "Mon0")
	}
	return out
}

func checkC18() int { return checkSimple("C18", "C18atom", "C18-atomicity.part") }

// c16GrowConfigs: overlapping volume resize requests on the controller (part C16grow of C16): two grows to different
// sizes, a grow against writes, snapshot, a monitor failure and a removal.  A request that arrives while a larger grow
// is in progress is a shrink by the time it is served: it must be refused without reaching a replica.
func c16GrowConfigs(tier string) []C18Cfg {
	var out []C18Cfg
	add := func(init string, ops ...string) { out = append(out, C18Cfg{Name: "grow", Init: init, Ops: ops}) }
	for _, p := range [][]string{{"Grow2", "Grow1"}, {"Grow1", "Grow1"}, {"Grow2", "W0"}, {"Grow2", "R"}, {"Grow2", "Snap"}, {"Grow2", "Mon1"}, {"Grow2", "Rm1"}} {
		add("rw3", p...)
	}
	add("rf2", "Grow2", "Grow1")
	add("rw2wo", "Grow2", "Grow1")
	if tier == "thorough" {
		add("rw3", "Grow2", "Grow1", "W0")
		add("rw3", "Grow3", "Grow2", "Grow1")
	}
	return out
}

func checkC16Grow() int { return checkSimple("C16", "C16grow", "C16-grow.part") }

// c13Configs: the snapshot-centred configurations of the controller-atomicity harness (part C13conc of C13): a volume
// snapshot runs concurrently with replica-set changes and writes.  A snapshot that is taken on fewer than RF replicas,
// or at different points of the write sequence on different replicas, ends in node chains / data that no sequential
// order of the same calls produces.
func c13Configs(tier string) []C18Cfg {
	var out []C18Cfg
	add := func(init string, ops ...string) { out = append(out, C18Cfg{Name: "snap", Init: init, Ops: ops}) }
	for _, p := range [][]string{{"Snap", "Mon1"}, {"Snap", "Mon0"}, {"Snap", "Rm1"}, {"Snap", "Rm0"}, {"Snap", "W0"}, {"Snap", "Snap"}, {"Snap", "Mon1", "W0"}} {
		add("rw3", p...)
	}
	for _, p := range [][]string{{"Snap", "Mon1"}, {"Snap", "Rm0"}, {"Snap", "W0"}} {
		add("rf2", p...)
	}
	for _, p := range [][]string{{"Snap", "Ver2+RbOff2"}, {"Snap", "Mon2"}, {"Snap", "Mon0"}} {
		add("rw2wo", p...)
	}
	add("rw2", "Snap", "Add2")
	// a checkpoint fan-out in which one replica fails the call and another one is slow, while the membership moves on to
	// a newer checkpoint: afterwards every RW replica persists the checkpoint the controller recorded
	out = append(out, C18Cfg{Name: "cpslow", Init: "rw2wo", Ops: []string{"FailCp0+SlowCp1+Ver2+RbOff2", "Rm0+Add3+Sync3+Ver3+RbOff3"}})
	out = append(out, C18Cfg{Name: "cpslow", Init: "rw2wo", Ops: []string{"SlowCp1+Ver2+RbOff2", "Mon0+Add3+Sync3+Ver3+RbOff3"}})
	if tier == "thorough" {
		add("rw3", "Snap", "Rm1", "W0")
		add("rw3", "Snap", "Mon1", "Mon2")
		add("rw2wo", "Snap", "Ver2+RbOff2", "W0")
	}
	return out
}

func checkC13() int { return checkSimple("C13", "C13conc", "C13-conc.part") }

// c04Configs: reads against promotion, removal and failures (part C04conc of C04): a read is served only by a replica that
// is RW, fails over when its replica fails, and fails when no RW replica can serve it - in every interleaving the read's
// result (count, error, data digest) and the final membership are those of some sequential order.
func c04Configs(tier string) []C18Cfg {
	var out []C18Cfg
	add := func(init string, ops ...string) { out = append(out, C18Cfg{Name: "read", Init: init, Ops: ops}) }
	for _, p := range [][]string{{"RF", "Ver2+RbOff2"}, {"RF0", "Ver2+RbOff2"}, {"R", "Ver2+RbOff2"}, {"RF", "RW2"}, {"RF0", "RW2"}, {"RF", "Rm2"}, {"RF", "Mon2"}, {"R", "Err0"}, {"RF0", "Err1"}, {"RF", "W0"}} {
		add("rw2wo", p...)
	}
	for _, p := range [][]string{{"RF", "Rm2"}, {"RF0", "Mon1"}, {"RF", "Err2"}, {"RF0", "R"}, {"RF0", "W0"}} {
		add("rw3", p...)
	}
	if tier == "thorough" {
		add("rw2wo", "RF", "Ver2+RbOff2", "W0")
		add("rw3", "RF0", "R", "Mon1")
	}
	return out
}

func checkC04() int { return checkSimple("C04", "C04conc", "C04-conc.part") }

// c02Configs: writes (also with one replica failing the write) against membership changes (part C02conc of C02): in every
// interleaving the write's result and the final membership / node contents are those of some sequential order - so a
// replica that failed the write is the one detached, and a replica attached meanwhile does not silently miss the write.
func c02Configs(tier string) []C18Cfg {
	var out []C18Cfg
	add := func(init string, ops ...string) { out = append(out, C18Cfg{Name: "write", Init: init, Ops: ops}) }
	for _, p := range [][]string{{"WF1", "Err2"}, {"WF1", "Rm2"}, {"WF1", "Mon2"}, {"WF1", "W0"}, {"WF1", "Rm0"}, {"WF2", "Err0"}, {"W0", "Err1"}, {"WF1", "Snap"}} {
		add("rw3", p...)
	}
	for _, p := range [][]string{{"W0", "Add2"}, {"WF1", "Add2"}, {"WF0", "Add2"}} {
		add("rw2", p...)
	}
	for _, p := range [][]string{{"W0", "Ver2+RbOff2"}, {"WF1", "Ver2+RbOff2"}, {"WF2", "Ver2+RbOff2"}, {"W0", "RW2"}, {"WF1", "RW2"}, {"WF2", "Rm1"}, {"WF0", "Mon2"}} {
		add("rw2wo", p...)
	}
	// a flush failing on one replica, in every position of the writer list, alone and against a write / a read
	for _, p := range [][]string{{"SF0"}, {"SF1"}, {"SF2"}, {"SF0", "W0"}, {"SF1", "W0"}, {"SF2", "R"}, {"SF1", "SF1"}} {
		add("rw3", p...)
	}
	if tier == "thorough" {
		add("rw3", "WF1", "Err2", "W0")
		add("rw2wo", "WF1", "Ver2+RbOff2", "W0")
	}
	return out
}

func checkC02() int { return checkSimple("C02", "C02conc", "C02-conc.part") }

// c10PromConfigs: promotion of a rebuilt replica against concurrent writes (part C10prom of C10): after every
// interleaving all RW replicas report the same revision counter, as after some sequential order (the outcome contains
// every node's counter).
func c10PromConfigs(tier string) []C18Cfg {
	var out []C18Cfg
	add := func(init string, ops ...string) { out = append(out, C18Cfg{Name: "promotion", Init: init, Ops: ops}) }
	for _, p := range [][]string{{"W0", "Ver2+RbOff2"}, {"W1", "Ver2+RbOff2"}, {"WF1", "Ver2+RbOff2"}, {"W0", "W1", "Ver2+RbOff2"}, {"Ver2+RbOff2", "Snap"}, {"Ver2+RbOff2", "Mon0"}} {
		add("rw2wo", p...)
	}
	if tier == "thorough" {
		add("rw2wo", "W0", "WF1", "Ver2+RbOff2")
	}
	return out
}

func checkC10prom() int { return checkSimple("C10", "C10prom", "C10-prom.part") }

// c05Configs: the failure of a replica noticed through different paths while other calls run (part C05conc of C05): the
// failed replica ends up detached, survivors hold every acknowledged write, and a detached replica comes back only
// through a fresh add and a verification of THAT attachment - every interleaving ends as some sequential order does.
func c05ConcConfigs(tier string) []C18Cfg {
	var out []C18Cfg
	add := func(init string, ops ...string) { out = append(out, C18Cfg{Name: "failure", Init: init, Ops: ops}) }
	out = append(out, C18Cfg{Name: "readd", Init: "rw2wo", Ops: []string{"Ver2+RbOff2", "WF2+Restart2+Add2"}})
	out = append(out, C18Cfg{Name: "readd", Init: "rw2wo", Ops: []string{"Ver2+RbOff2", "WF2+Wipe2+Add2+Reb2"}})
	out = append(out, C18Cfg{Name: "readd", Init: "rw2wo", Ops: []string{"Ver2+RbOff2", "Mon2+Wipe2+Add2+Reb2"}})
	out = append(out, C18Cfg{Name: "readd", Init: "rw3", Ops: []string{"WF1+Restart1+Add1", "W0"}})
	out = append(out, C18Cfg{Name: "readd", Init: "rw3", Ops: []string{"WF1+Restart1+Add1", "Mon1"}})
	out = append(out, C18Cfg{Name: "readd", Init: "rw2wo", Ops: []string{"Ver2+RbOff2", "Mon2+Restart2+Add2"}})
	for _, p := range [][]string{{"Ver2+RbOff2", "WF2"}, {"Ver2+RbOff2", "Mon2"}, {"Ver2+RbOff2", "Rm2"}, {"Ver2+RbOff2", "Err2"}, {"Ver2+RbOff2", "WF0"}, {"Ver2+RbOff2", "Mon0"}} {
		add("rw2wo", p...)
	}
	for _, p := range [][]string{{"WF1", "Mon1"}, {"WF1", "Rm1"}, {"WF1", "Err1"}, {"Mon1", "Err1"}, {"WF1", "R"}, {"Mon1", "R"}} {
		add("rw3", p...)
	}
	// a flush failing on one replica (every position of the writer list): that replica and no other leaves
	for _, p := range [][]string{{"SF0"}, {"SF1"}, {"SF2"}, {"SF0", "W0"}, {"SF2", "W0"}, {"SF1", "R"}} {
		add("rw3", p...)
	}
	if tier == "thorough" {
		out = append(out, C18Cfg{Name: "readd", Init: "rw2wo", Ops: []string{"Ver2+RbOff2", "WF2+Restart2+Add2", "W0"}})
		add("rw3", "WF1", "Mon1", "R")
	}
	return out
}

func checkC05conc() int { return checkSimple("C05", "C05conc", "C05-conc.part") }
