package ed

import (
	"bytes"
	"encoding/binary"
	"fmt"
	"io"
	"net"
	"runtime"
	"strings"
	"sync"
	"time"

	"github.com/openebs/jiva/rpc"
)

// bufConn is a net.Conn over a byte buffer: writes append, reads consume, EOF at the end.
type bufConn struct{ bytes.Buffer }

func (c *bufConn) Close() error                       { return nil }
func (c *bufConn) LocalAddr() net.Addr                { return vaddr("buf") }
func (c *bufConn) RemoteAddr() net.Addr               { return vaddr("buf") }
func (c *bufConn) SetDeadline(t time.Time) error      { return nil }
func (c *bufConn) SetReadDeadline(t time.Time) error  { return nil }
func (c *bufConn) SetWriteDeadline(t time.Time) error { return nil }

type CodecResult struct {
	RoundTrips       int64    `json:"round_trips"`
	Truncations      int64    `json:"truncations"`
	BadMagic         int64    `json:"bad_magic"`
	BackToBack       int64    `json:"back_to_back"`
	LayoutMismatches int64    `json:"layout_mismatches_vs_reference"`
	Violations       []Viol   `json:"-"`
	Samples          []string `json:"samples"`
}

func payload(n int, pat int) []byte {
	if n == 0 {
		return nil
	}
	b := make([]byte, n)
	for i := range b {
		switch pat {
		case 0:
			b[i] = 0
		case 1:
			b[i] = 0xff
		default:
			b[i] = byte(i*131 + i>>8 + 7)
		}
	}
	return b
}

func refEncode(m *rpc.Message) []byte {
	var b bytes.Buffer
	binary.Write(&b, binary.LittleEndian, m.MagicVersion)
	binary.Write(&b, binary.LittleEndian, m.Seq)
	binary.Write(&b, binary.LittleEndian, m.Type)
	binary.Write(&b, binary.LittleEndian, m.Offset)
	binary.Write(&b, binary.LittleEndian, m.Size)
	binary.Write(&b, binary.LittleEndian, uint32(len(m.Data)))
	b.Write(m.Data)
	return b.Bytes()
}

func sameMsg(a, b *rpc.Message) bool {
	return a.MagicVersion == b.MagicVersion && a.Seq == b.Seq && a.Type == b.Type && a.Offset == b.Offset && a.Size == b.Size && bytes.Equal(a.Data, b.Data)
}

// CheckCodec enumerates the product of the small frame domains through the real rpc.Wire.Write -> rpc.Wire.Read.
func CheckCodec() *CodecResult { return checkCodec("") }

// checkCodec(only): only == "" runs everything; otherwise only the part that can produce violation signature only
// (used to confirm / replay a codec violation).
func checkCodec(only string) *CodecResult {
	res := &CodecResult{}
	part1 := only == "" || (strings.HasPrefix(only, "roundtrip:codec:") && only != "roundtrip:codec:stream")
	part2 := only == "" || !part1
	var mu sync.Mutex
	viol := func(oracle, sig, f string, a ...interface{}) {
		mu.Lock()
		if len(res.Violations) < 20 {
			res.Violations = append(res.Violations, Viol{Oracle: oracle, Sig: oracle + ":codec:" + sig, Detail: fmt.Sprintf(f, a...)})
		}
		mu.Unlock()
	}
	seqs := []uint32{0, 1, 1<<32 - 1}
	i64s := []int64{0, 1, -1, 1 << 31, 1<<63 - 1}
	lens := []int{0, 1, 4095, 4096, 8095, 8096, 8097, 65536}
	type task func()
	tasks := make(chan task, 256)
	var wg sync.WaitGroup
	for i := 0; i < runtime.NumCPU(); i++ {
		wg.Add(1)
		go func() {
			defer wg.Done()
			for t := range tasks {
				t()
			}
		}()
	}
	var rt, tr, bm, bb, lm int64
	add := func(p *int64, n int64) { mu.Lock(); *p += n; mu.Unlock() }
	for typ := uint32(0); typ <= 9 && part1; typ++ {
		for _, ln := range lens {
			for pat := 0; pat < 3; pat++ {
				typ, ln, pat := typ, ln, pat
				tasks <- func() {
					data := payload(ln, pat)
					var n, l int64
					for _, seq := range seqs {
						for _, off := range i64s {
							for _, size := range i64s {
								m := &rpc.Message{MagicVersion: rpc.MagicVersion, Seq: seq, Type: typ, Offset: off, Size: size, Data: data}
								c := &bufConn{}
								w := rpc.NewWire(c)
								if err := w.Write(m); err != nil {
									viol("roundtrip", "write", "Wire.Write(type=%d seq=%d off=%d size=%d len=%d): %v", typ, seq, off, size, ln, err)
									continue
								}
								enc := append([]byte(nil), c.Bytes()...)
								if !bytes.Equal(enc, refEncode(m)) {
									l++
								}
								got, err := rpc.NewWire(c).Read()
								n++
								if err != nil {
									viol("roundtrip", "read", "Wire.Read of an encoded frame (type=%d seq=%d off=%d size=%d len=%d pat=%d) failed: %v", typ, seq, off, size, ln, pat, err)
									continue
								}
								if !sameMsg(got, m) {
									viol("roundtrip", "changed", "frame changed by Write->Read: sent type=%d seq=%d off=%d size=%d len=%d pat=%d, got type=%d seq=%d off=%d size=%d len=%d", typ, seq, off, size, ln, pat, got.Type, got.Seq, got.Offset, got.Size, len(got.Data))
								}
								if c.Len() != 0 {
									viol("roundtrip", "leftover", "%d bytes left after decoding one frame", c.Len())
								}
							}
						}
					}
					add(&rt, n)
					add(&lm, l)
				}
			}
		}
	}
	// every truncation point, bad magic / version, two frames back to back
	for typ := uint32(0); typ <= 9 && part2; typ++ {
		for _, ln := range lens {
			typ, ln := typ, ln
			tasks <- func() {
				m := &rpc.Message{MagicVersion: rpc.MagicVersion, Seq: 1<<32 - 1, Type: typ, Offset: 1<<63 - 1, Size: -1, Data: payload(ln, 2)}
				c := &bufConn{}
				rpc.NewWire(c).Write(m)
				enc := append([]byte(nil), c.Bytes()...)
				var n int64
				for t := 0; t < len(enc) && (only == "" || strings.HasPrefix(only, "truncation")); t++ {
					if ln > 8097 && t > 64 && t < len(enc)-64 && t%4096 > 1 && t%4096 < 4095 {
						continue // the 64 KiB frame: header, both ends and every 4 KiB boundary +-1
					}
					tc := &bufConn{}
					tc.Write(enc[:t])
					got, err := rpc.NewWire(tc).Read()
					n++
					if err == nil {
						viol("truncation", "accepted", "frame (type=%d len=%d) truncated to %d of %d bytes was decoded as a frame: %+v", typ, ln, t, len(enc), got)
					}
				}
				add(&tr, n)
				var k int64
				for _, magic := range []uint16{0, 0xffff, 0x1b02, 0x1b04, 0x031b} {
					bad := append([]byte(nil), enc...)
					binary.LittleEndian.PutUint16(bad, magic)
					tc := &bufConn{}
					tc.Write(bad)
					_, err := rpc.NewWire(tc).Read()
					k++
					if err == nil {
						viol("badmagic", "accepted", "frame with magic/version %#x was accepted", magic)
					}
				}
				add(&bm, k)
				// two frames back to back decode as two frames, then EOF
				tc := &bufConn{}
				w := rpc.NewWire(tc)
				m2 := &rpc.Message{MagicVersion: rpc.MagicVersion, Seq: 7, Type: 9 - typ, Offset: 42, Size: 4096, Data: payload(ln/2, 1)}
				w.Write(m)
				w.Write(m2)
				r := rpc.NewWire(tc)
				g1, e1 := r.Read()
				g2, e2 := r.Read()
				_, e3 := r.Read()
				if e1 != nil || e2 != nil || !sameMsg(g1, m) || !sameMsg(g2, m2) || e3 != io.EOF {
					viol("roundtrip", "stream", "two frames back to back (type=%d len=%d) did not decode as sent: %v %v %v", typ, ln, e1, e2, e3)
				}
				add(&bb, 1)
			}
		}
	}
	close(tasks)
	wg.Wait()
	res.RoundTrips, res.Truncations, res.BadMagic, res.BackToBack, res.LayoutMismatches = rt, tr, bm, bb, lm
	res.Samples = []string{
		"round trip: type=6 seq=4294967295 offset=9223372036854775807 size=-1 payload=8097 bytes pattern 2 -> identical frame",
		"truncation: the 8123-byte encoding of that frame cut after byte t, for every t in [0,8123) -> Wire.Read returns an error",
		"bad magic: first two bytes replaced by 0x1b02 -> Wire.Read returns \"Wrong API version received\"",
	}
	return res
}
