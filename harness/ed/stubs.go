package ed

import (
	"sync"

	"github.com/openebs/jiva/replica"
)

// raceC10 runs the C10conc bodies free (no scheduler) for the race detector.
func raceC10() int {
	r, err := c10Replica()
	if err != nil {
		return 0
	}
	defer C10Cleanup()
	runs := 0
	for rep := 0; rep < 20; rep++ {
		for _, cf := range c10Configs("quick") {
			r.SetReplicaMode("RW")
			var wg sync.WaitGroup
			blk := 0
			for _, ws := range cf.Writers {
				n := len(ws)
				b0 := blk
				blk += n
				wg.Add(1)
				go func() {
					defer wg.Done()
					for k := 0; k < n; k++ {
						r.WriteAt(make([]byte, c10Block), int64((b0+k)%c10Blocks)*c10Block)
					}
				}()
			}
			if cf.Reader > 0 {
				wg.Add(1)
				go func() {
					defer wg.Done()
					for i := 0; i < cf.Reader; i++ {
						r.GetRevisionCounter()
					}
				}()
			}
			if cf.Flip != "" {
				wg.Add(1)
				go func() { defer wg.Done(); r.SetReplicaMode("WO") }()
			}
			wg.Wait()
			_ = replica.VerifEdMode(r)
			runs++
		}
	}
	return runs
}
