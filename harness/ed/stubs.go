package ed

import "github.com/openebs/jiva/verifshim/vs"

type C10Cfg struct{ Name string }

func (c C10Cfg) String() string { return c.Name }
func runC10(c *C10Cfg, ch vs.Chooser, trace bool) (*Outcome, *vs.Result) {
	return nil, &vs.Result{Fatal: "C10conc not built"}
}

type C05Cfg struct{ Name string }

func (c C05Cfg) String() string { return c.Name }
func runC05(c *C05Cfg, ch vs.Chooser, trace bool) (*Outcome, *vs.Result) {
	return nil, &vs.Result{Fatal: "C05mon not built"}
}
