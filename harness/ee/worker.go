package ee

import (
	"bytes"
	"encoding/json"
	"fmt"
	"io"
	"net/http"
	"net/http/httptest"
	"net/url"
	"os"
	"runtime"
	"runtime/debug"
	"strings"
	"syscall"
	"time"

	"verif/harness/kernel"
)

// Unit is the configuration of one work unit (kernel.Request.Cfg); kernel.Request.Path is the batch of request
// descriptors, each of which is tried from the state reached by Class + Prefix.
type Unit struct {
	Side        string   `json:"side"`
	Class       string   `json:"class"`
	ClassEvents []string `json:"class_events,omitempty"` // how the class is built (documentation)
	Prefix      []string `json:"prefix,omitempty"`       // request descriptors executed before the batch
	PrefixKey   string   `json:"prefix_key,omitempty"`   // canonical key expected after Class+Prefix ("" = not checked)
	Repeat      int      `json:"repeat"`                 // every request is sent this many times in a row (repeat family)
	SkipRepeat  []string `json:"skip_repeat,omitempty"`  // signature stems whose repeat tail is suppressed (already reported as blocking)
	KnownHeld   []string `json:"known_held,omitempty"`   // lock-held signatures already found in this run: a further occurrence is recorded after 1 s instead of the full watchdog
	Journal     string   `json:"journal,omitempty"`
	RealNodes   bool     `json:"real_nodes,omitempty"` // controller side: real replica.Server nodes instead of model nodes (classification runs)
	Fresh       bool     `json:"fresh,omitempty"`      // a fresh instance for every request of the batch
	Sequence    bool     `json:"sequence,omitempty"`   // the batch is ONE sequence on one instance (never rebuilt in between)
	C17         bool     `json:"c17,omitempty"`        // C17 REST clause: absent action => 404 and unchanged key
	WatchdogS   int      `json:"watchdog_s,omitempty"`
	Requests    []*Req   `json:"requests,omitempty"` // replay files: the concrete requests (informational)
}

// Result is what one request of the batch produced.
type Result struct {
	I          int                `json:"i"`
	Desc       string             `json:"d"`
	Status     int                `json:"s"`
	Key        string             `json:"k,omitempty"` // canonical key after the first execution (+ probes)
	Changed    bool               `json:"c,omitempty"`
	State      string             `json:"st,omitempty"` // state the request arrived in
	Expect     string             `json:"e,omitempty"`
	Viol       []kernel.Violation `json:"v,omitempty"`
	Obs        []string           `json:"o,omitempty"`
	RepStatus  []int              `json:"r,omitempty"`
	RepSkipped bool               `json:"rs,omitempty"`
	Probes     int                `json:"p,omitempty"`
	WriteProbe int                `json:"w,omitempty"` // end-of-life write/read probes this request was covered by
	Req        *Req               `json:"q,omitempty"`
	PrefixReqs []*Req             `json:"pq,omitempty"` // the concrete prefix requests (violations only)
	History    []string           `json:"h,omitempty"`  // requests executed on the same instance before this one (violations only)
	KeyText    string             `json:"kt,omitempty"`
	Poisoned   bool               `json:"x,omitempty"`
}

type journalLine struct {
	Start *int    `json:"start,omitempty"`
	Desc  string  `json:"desc,omitempty"`
	Done  *Result `json:"done,omitempty"`
	Base  string  `json:"base,omitempty"`
}

var ExitAfter bool

const defaultWatchdog = 20 * time.Second

// outcome of one ServeHTTP call
type outcome struct {
	status  int
	body    []byte
	panicV  string
	stack   string
	fatal   bool
	blocked bool
	mem     int64 // resident set size when the memory bound was hit (0: the watchdog expired)
	dump    string
}

const memLimit = 1 << 30

func rssBytes() int64 {
	b, err := os.ReadFile("/proc/self/statm")
	if err != nil {
		return 0
	}
	var size, res int64
	fmt.Sscanf(string(b), "%d %d", &size, &res)
	return res * int64(os.Getpagesize())
}

func httpRequest(r *Req) (*http.Request, error) {
	u, err := url.ParseRequestURI(r.URL)
	if err != nil {
		return nil, err
	}
	hr := &http.Request{Method: r.Method, URL: u, Proto: "HTTP/1.1", ProtoMajor: 1, ProtoMinor: 1, Header: http.Header{}, Host: "127.0.0.1:9501", RequestURI: r.URL, RemoteAddr: "127.0.0.1:40000"}
	for k, v := range r.Header {
		hr.Header.Set(k, v)
	}
	if b, has := r.Bytes(); has {
		hr.Body = io.NopCloser(bytes.NewReader(b))
		hr.ContentLength = int64(len(b))
	} else {
		hr.Body = http.NoBody
	}
	return hr, nil
}

func allStacks() string {
	buf := make([]byte, 1<<20)
	for {
		n := runtime.Stack(buf, true)
		if n < len(buf) {
			return string(buf[:n])
		}
		buf = make([]byte, 2*len(buf))
	}
}

// handlerGoroutine extracts the goroutine that runs the handler from a full dump, and the innermost jiva frame.
func handlerGoroutine(dump string) (g, where, wait string) {
	for _, s := range strings.Split(dump, "\n\n") {
		if strings.Contains(s, "verif/harness/ee.serve.func1") {
			g = s
			break
		}
	}
	if g == "" {
		return "", "?", "?"
	}
	lines := strings.Split(g, "\n")
	if i := strings.Index(lines[0], "["); i >= 0 {
		wait = strings.Trim(lines[0][i:], "[]:")
		if j := strings.Index(wait, ","); j >= 0 {
			wait = wait[:j]
		}
	}
	for _, l := range lines[1:] {
		if strings.HasPrefix(l, "github.com/openebs/jiva/") {
			where = jivaFunc(l)
			break
		}
	}
	return
}

func jivaFunc(line string) string {
	l := strings.TrimPrefix(line, "github.com/openebs/jiva/")
	if i := strings.LastIndex(l, "("); i > 0 {
		l = l[:i]
	}
	return l
}

func topJivaFrame(stack string) string {
	for _, l := range strings.Split(stack, "\n") {
		if strings.HasPrefix(l, "github.com/openebs/jiva/") {
			return jivaFunc(l)
		}
	}
	return "?"
}

// serve runs one request through the router on its own goroutine: a panic is recovered and recorded (net/http would
// swallow it in production; the property forbids it), logrus.Fatal is a recorded event, and a handler that has not
// returned when the generous watchdog expires is reported with a goroutine dump.
func serve(h http.Handler, r *Req, wd time.Duration) outcome {
	hr, err := httpRequest(r)
	if err != nil {
		return outcome{status: -1, panicV: "harness: cannot build request: " + err.Error()}
	}
	rec := httptest.NewRecorder()
	done := make(chan outcome, 1)
	go func() {
		var o outcome
		defer func() {
			if v := recover(); v != nil {
				if fe, ok := v.(fatalExit); ok {
					o.fatal = true
					o.panicV = fe.msg
				} else {
					o.panicV = fmt.Sprint(v)
				}
				o.stack = string(debug.Stack())
			}
			o.status = rec.Code
			done <- o
		}()
		h.ServeHTTP(rec, hr)
	}()
	t := time.NewTimer(wd)
	defer t.Stop()
	tick := time.NewTicker(250 * time.Millisecond)
	defer tick.Stop()
	for {
		select {
		case o := <-done:
			o.body = rec.Body.Bytes()
			return o
		case <-t.C:
			return outcome{blocked: true, dump: allStacks()}
		case <-tick.C:
			// resource bound, not a timing bound: a request on a 16 KiB volume that makes the process grow by gigabytes
			// is an unbounded allocation (it would end in an OOM kill); stop before it hurts the machine
			if rss := rssBytes(); rss > memLimit {
				return outcome{blocked: true, mem: rss, dump: allStacks()}
			}
		}
	}
}

// sigBodyOutcome is the coarse body class of signatures: absent (no body / zero length), unparsable (not JSON), json.
func sigBodyOutcome(r *Req) string {
	if r.outcome == "" {
		r.outcome = sigBodyOutcome1(r)
	}
	return r.outcome
}

func sigBodyOutcome1(r *Req) string {
	b, has := r.Bytes()
	if !has || len(b) == 0 {
		return "absent"
	}
	var v interface{}
	if err := json.NewDecoder(bytes.NewReader(b)).Decode(&v); err != nil {
		return "unparsable"
	}
	return "json"
}

func sigStem(d Desc) string {
	a := d.Action()
	if a == "" {
		a = d.Act
	}
	return fmt.Sprintf("%s:%s %s?action=%s", d.Side, d.Method, d.Tmpl, a)
}

// Signature of a violation: <oracle>:<side>:<method> <route template>?action=<action>:<body outcome>[:<where>]
func Signature(oracle string, d Desc, r *Req, where string) string {
	out := "any" // the handler (if any) reads no body
	if rt, _ := match(d.Side, d.Method, d.Tmpl, d.Act); rt != nil && rt.Body != nil {
		out = sigBodyOutcome(r)
	}
	s := oracle + ":" + sigStem(d) + ":" + out
	if where != "" {
		s += ":" + where
	}
	return s
}

type expectation struct {
	MustError    bool
	AbsentAction bool
	Reason       string
}

// expected classifies a request conservatively: only what the property states is demanded.
func expected(d Desc, state string, r *Req) expectation {
	if strings.HasPrefix(d.Act, "dup") || d.ID == "empty" {
		return expectation{} // repeated query key / trailing-slash redirect: ambiguous, observed only
	}
	if !pathKnown(d.Side, d.Tmpl) {
		return expectation{MustError: true, Reason: "unknown route"}
	}
	if strings.HasPrefix(d.Act, "pair:") {
		// two routed actions named: the handler of the first name runs (pairExecuted); it must be valid in the state, and
		// the second name must never be what decides
		if ex := pairExecuted(d.Act); d.Side == "R" && !refAllows(state, ex) {
			return expectation{MustError: true, AbsentAction: true, Reason: "the request names two actions; the first one, " + ex + ", is served and it is not in the action map of state " + state}
		}
		return expectation{}
	}
	rt, amb := match(d.Side, d.Method, d.Tmpl, d.Act)
	if amb {
		return expectation{}
	}
	if rt == nil {
		return expectation{MustError: true, Reason: "no route for this method / action"}
	}
	if d.Side == "R" && rt.Action != "" && !refAllows(state, rt.Action) {
		return expectation{MustError: true, AbsentAction: true, Reason: "action " + rt.Action + " is not in the action map of state " + state}
	}
	if rt.Body != nil && rt.Body.Requires && sigBodyOutcome(r) == "unparsable" {
		return expectation{MustError: true, Reason: "unparsable JSON body for a handler that reads one"}
	}
	return expectation{}
}

type runner struct {
	u         *Unit
	wd        time.Duration
	cur       instance
	baseKey   string
	baseText  string
	history   []int // indexes of batch requests executed on cur since it was built
	prefReqs  []*Req
	buildViol []kernel.Violation
	jf        *os.File
	results   []*Result
	batch     []Desc
	reqs      []*Req
	trace     bool
	notes     []string
	counters  map[string]int
}

func (rn *runner) journal(l journalLine) {
	if rn.jf == nil {
		return
	}
	b, _ := json.Marshal(l)
	rn.jf.Write(append(b, '\n'))
}

// after evaluates the oracles that follow every request on instance x.  It returns the violations, whether the
// instance (and the process) must be abandoned, and the number of probe requests answered as expected.
func (rn *runner) after(x instance, d Desc, r *Req, what string) (viol []kernel.Violation, poisoned bool, probesOK int) {
	return rn.after2(x, d, r, what, false)
}

// after2 with light=true (repetitions 2..n of the repeat family) sends only the first probe of the fixed set; TryLock,
// quiescence and the read probe are evaluated as always.
func (rn *runner) after2(x instance, d Desc, r *Req, what string, light bool) (viol []kernel.Violation, poisoned bool, probesOK int) {
	add := func(oracle, where, detail string) {
		viol = append(viol, kernel.Violation{Oracle: oracle, Signature: Signature(oracle, d, r, where), Detail: detail})
	}
	for _, v := range x.quiesce() {
		if v.Oracle == "wedged" {
			add("wedged", "", what+": "+v.Detail)
			return viol, true, 0
		}
		rn.counters["foreign_"+v.Oracle]++
	}
	// (4) no lock left held
	if ok, which := x.tryLockWait(rn.lockWait("lock-held", d, r, x)); !ok {
		add("lock-held", strings.ReplaceAll(which, " ", "-"), fmt.Sprintf("%s: the handler returned but the %s is still held %v later (TryLock fails)\n%s", what, which, rn.wd, allStacks()))
		return viol, true, 0
	}
	// (6) well-formed probe requests are still served
	for pi, p := range x.probes() {
		if light && pi > 0 {
			break
		}
		pr := &Req{Method: p.Method, URL: p.URL, Header: map[string]string{}}
		// a probe is itself a request of the alphabet: what it breaks is attributed to it, not to the request before it
		pd := Desc{Side: d.Side, Method: p.Method, Tmpl: p.Tmpl, ID: "-", Act: "-", Body: "none", CT: "n"}
		addP := func(oracle, where, detail string) {
			viol = append(viol, kernel.Violation{Oracle: oracle, Signature: Signature(oracle, pd, pr, where), Detail: detail})
		}
		o := serve(x.router(), pr, rn.wd)
		switch {
		case o.blocked:
			g, where, wait := handlerGoroutine(o.dump)
			add("probe-blocked", where, fmt.Sprintf("%s: afterwards the probe %s %s did not return within %v; handler goroutine (%s):\n%s", what, p.Method, p.URL, rn.wd, wait, g))
			return viol, true, probesOK
		case o.panicV != "":
			addP("panic", topJivaFrame(o.stack), fmt.Sprintf("probe %s %s (sent after %s) panicked: %s\n%s", p.Method, p.URL, what, o.panicV, o.stack))
			return viol, true, probesOK
		case o.status != p.Want:
			add("probe-status", fmt.Sprintf("%s-%s->%d", p.Method, p.Tmpl, o.status), fmt.Sprintf("%s: afterwards the probe %s %s was answered %d, expected %d: %s", what, p.Method, p.URL, o.status, p.Want, clip(string(o.body), 300)))
		default:
			probesOK++
		}
		if ok, which := x.tryLockWait(rn.lockWait("lock-held", pd, pr, x)); !ok {
			addP("lock-held", strings.ReplaceAll(which, " ", "-"), fmt.Sprintf("probe %s %s (sent after %s): the handler returned but the %s is still held %v later (TryLock fails)\n%s", p.Method, p.URL, what, which, rn.wd, allStacks()))
			return viol, true, probesOK
		}
	}
	if ok, err := x.readProbe(); ok {
		if err != nil {
			add("probe-read", "", what+": afterwards "+err.Error())
		} else {
			probesOK++
		}
	}
	resetLogging() // a setlogging request redirects logrus process-wide
	return viol, false, probesOK
}

// lockWait is the generous watchdog, except for a lock-held signature this run has already found (and will confirm
// with the full watchdog): further occurrences of the same thing are only counted.
func (rn *runner) lockWait(oracle string, d Desc, r *Req, x instance) time.Duration {
	if len(rn.u.KnownHeld) == 0 {
		return rn.wd
	}
	if ok, which := x.tryLock(); !ok {
		sig := Signature(oracle, d, r, strings.ReplaceAll(which, " ", "-"))
		for _, k := range rn.u.KnownHeld {
			if k == sig {
				return time.Second
			}
		}
	}
	return rn.wd
}

func clip(s string, n int) string {
	if len(s) > n {
		return s[:n] + "…"
	}
	return s
}

// exec sends one request to instance x and evaluates oracles (1)-(3) and (5); it does not run the after() oracles.
func (rn *runner) exec(x instance, d Desc, r *Req, state string, what string) (o outcome, viol []kernel.Violation, poisoned bool, exp expectation, obs []string) {
	exp = expected(d, state, r)
	if node, k := d.FaultOf(); k > 0 {
		armFault(node, k)
		rn.counters["requests_with_a_fault_point"]++
	}
	o = serve(x.router(), r, rn.wd)
	if disarmFault() {
		rn.counters["fault_points_reached"]++
	}
	add := func(oracle, where, detail string) {
		viol = append(viol, kernel.Violation{Oracle: oracle, Signature: Signature(oracle, d, r, where), Detail: detail})
	}
	switch {
	case o.blocked:
		g, where, wait := handlerGoroutine(o.dump)
		if o.mem > 0 {
			// same oracle as the watchdog (which of the two bounds trips first depends on the machine's speed)
			add("blocked", where, fmt.Sprintf("%s: the handler had not returned and the process had grown to %d MiB resident (bound %d MiB: unbounded allocation); its goroutine is in state [%s] at %s:\n%s", what, o.mem>>20, memLimit>>20, wait, where, g))
		} else {
			add("blocked", where, fmt.Sprintf("%s: the handler did not return within %v; its goroutine is in state [%s] at %s:\n%s", what, rn.wd, wait, where, g))
		}
		return o, viol, true, exp, nil
	case o.fatal:
		add("fatal-exit", topJivaFrame(o.stack), fmt.Sprintf("%s: logrus.Fatal - the process would have exited\n%s\n%s", what, clip(logBuf.String(), 1500), o.stack))
		return o, viol, true, exp, nil
	case o.panicV != "":
		add("panic", topJivaFrame(o.stack), fmt.Sprintf("%s: handler panicked: %s\n%s", what, o.panicV, o.stack))
		return o, viol, true, exp, nil
	}
	if exp.MustError && o.status < 400 {
		oracle := "accepted-malformed"
		if exp.AbsentAction {
			oracle = "accepted-out-of-state"
		}
		add(oracle, "", fmt.Sprintf("%s: answered %d, an error status is required (%s); response: %s", what, o.status, exp.Reason, clip(string(o.body), 300)))
	}
	if rn.u.C17 && exp.AbsentAction && o.status != 404 {
		add("c17rest-not-404", "", fmt.Sprintf("%s: answered %d, 404 is required (%s)", what, o.status, exp.Reason))
	}
	if !exp.MustError && o.status < 400 {
		g := BodyGroup(d.Body)
		rt, _ := match(d.Side, d.Method, d.Tmpl, d.Act)
		if rt != nil && rt.Body != nil && (g == "wrongtype" || g == "arr" || g == "num" || g == "str" || sigBodyOutcome(r) == "unparsable") {
			obs = append(obs, fmt.Sprintf("ambiguous-accept:%s:%s->%d", sigStem(d), g, o.status))
		}
		if d.ID == "empty" || strings.HasPrefix(d.Act, "dup") {
			obs = append(obs, fmt.Sprintf("ambiguous-route:%s:id=%s:act=%s->%d", sigStem(d), d.ID, strings.SplitN(d.Act, ":", 2)[0], o.status))
		}
	}
	return o, viol, false, exp, obs
}

func (rn *runner) build() error {
	rn.buildViol = nil
	x, err := newInst(rn.u.Side, rn.u.Class, rn.u.RealNodes)
	if err != nil {
		return fmt.Errorf("building state class %s/%s: %v", rn.u.Side, rn.u.Class, err)
	}
	// bring the instance into the canonical "after probes" form; the probes are requests like any other: what they
	// break in a freshly built state class is a violation (reported with the first request of the batch)
	d0 := Desc{Side: rn.u.Side, Method: "-", Tmpl: "-", ID: "-", Act: "-", Body: "none", CT: "n"}
	if v, p, _ := rn.after(x, d0, &Req{}, "building the state class"); len(v) > 0 || p {
		x.destroy(p)
		if p {
			ExitAfter = true
		}
		rn.buildViol = v
		return nil
	}
	rn.prefReqs = nil
	for i, ds := range rn.u.Prefix {
		d, err := ParseDesc(ds)
		if err != nil {
			return err
		}
		r, err := Build(d, x.facts())
		if err != nil {
			return err
		}
		rn.prefReqs = append(rn.prefReqs, r)
		what := fmt.Sprintf("prefix[%d] %s", i, ds)
		_, v, p, _, _ := rn.exec(x, d, r, x.state(), what)
		if !p {
			var v2 []kernel.Violation
			v2, p, _ = rn.after(x, d, r, what)
			v = append(v, v2...)
		}
		if len(v) > 0 || p {
			x.destroy(p)
			if p {
				ExitAfter = true
			}
			return fmt.Errorf("NONDETERMINISM: prefix request %s violated on replay although it did not when it was explored: %+v", ds, v[0])
		}
	}
	rn.cur = x
	rn.baseKey, rn.baseText = x.key()
	rn.history = nil
	rn.counters["instances_built"]++
	if rn.trace && os.Getenv("VERIF_EE_KEYTEXT") != "" {
		rn.notes = append(rn.notes, "BASE KEY "+rn.baseKey+"\n"+rn.baseText)
	}
	if rn.u.PrefixKey != "" && rn.u.PrefixKey != rn.baseKey {
		return fmt.Errorf("NONDETERMINISM: state %s/%s + %v has key %s, expected %s\n%s", rn.u.Side, rn.u.Class, rn.u.Prefix, rn.baseKey, rn.u.PrefixKey, rn.baseText)
	}
	return nil
}

// retire ends the life of the current instance: the state-changing probe (1-block write + read-back, where the state
// allows it) covers every request executed on it; when it fails after a run of several requests each of them is
// re-run alone on a fresh instance to find the one that broke the data path.
func (rn *runner) retire(poisoned bool) {
	x := rn.cur
	if x == nil {
		return
	}
	rn.cur = nil
	if poisoned {
		x.destroy(true)
		return
	}
	ok, err, transient := x.writeProbe()
	if transient {
		rn.counters["write_probe_failed_once_then_served"]++
	}
	hist := rn.history
	rn.history = nil
	x.destroy(false)
	if !ok {
		return
	}
	rn.counters["write_probes"]++
	for _, i := range hist {
		rn.results[i].WriteProbe++
	}
	if err == nil {
		return
	}
	if len(hist) == 1 {
		res := rn.results[hist[0]]
		d := rn.batch[hist[0]]
		res.Req = rn.reqs[hist[0]]
		res.PrefixReqs = rn.prefReqs
		res.Viol = append(res.Viol, kernel.Violation{Oracle: "probe-write", Signature: Signature("probe-write", d, res.Req, ""), Detail: "after " + res.Desc + ": " + err.Error()})
		return
	}
	rn.counters["write_probe_bisections"]++
	for _, i := range hist {
		// the same state again: state class + prefix (build() also re-checks the canonical key)
		if err := rn.build(); err != nil || rn.cur == nil {
			continue
		}
		y := rn.cur
		rn.cur, rn.history = nil, nil
		d := rn.batch[i]
		r, _ := Build(d, y.facts())
		_, _, p, _, _ := rn.exec(y, d, r, y.state(), "bisect "+d.String())
		if !p {
			_, p, _ = rn.after(y, d, r, "bisect")
		}
		if !p {
			if ok, err, _ := y.writeProbe(); ok && err != nil {
				rn.results[i].Req = r
				rn.results[i].PrefixReqs = rn.prefReqs
				rn.results[i].Viol = append(rn.results[i].Viol, kernel.Violation{Oracle: "probe-write", Signature: Signature("probe-write", d, r, ""), Detail: "after " + d.String() + ": " + err.Error()})
			}
		}
		y.destroy(p)
		if p {
			ExitAfter = true
			return
		}
	}
}

func (rn *runner) skipRepeat(d Desc) bool {
	st := sigStem(d)
	for _, s := range rn.u.SkipRepeat {
		if s == st {
			return true
		}
	}
	return false
}

// one runs request i of the batch.
func (rn *runner) one(i int) (poisoned bool, err error) {
	d := rn.batch[i]
	res := rn.results[i]
	if rn.cur == nil {
		if err := rn.build(); err != nil {
			return false, err
		}
	}
	if rn.cur == nil { // the probes failed on the fresh state class
		res.Viol = rn.buildViol
		res.Req = &Req{Method: "(probe set on the fresh state class)"}
		res.Poisoned = true
		return true, nil
	}
	x := rn.cur
	r, err := Build(d, x.facts())
	if err != nil {
		return false, err
	}
	rn.reqs[i] = r
	state := x.state()
	res.State = state
	keyBefore := rn.baseKey
	if rn.u.Sequence && len(rn.history) > 0 {
		keyBefore, _ = x.key()
	}
	hist := append([]int(nil), rn.history...)
	rn.history = append(rn.history, i)
	what := d.String()
	o, viol, p, exp, obs := rn.exec(x, d, r, state, what)
	res.Status = o.status
	res.Expect = exp.Reason
	res.Obs = obs
	rn.counters["requests"]++
	if !p {
		var v2 []kernel.Violation
		var n int
		v2, p, n = rn.after(x, d, r, what)
		viol = append(viol, v2...)
		res.Probes += n
	}
	if !p {
		k, txt := x.key()
		res.Key = k
		if rn.trace {
			res.KeyText = txt
		}
		if rn.u.C17 && exp.AbsentAction && k != keyBefore {
			viol = append(viol, kernel.Violation{Oracle: "c17rest-side-effect", Signature: Signature("c17rest-side-effect", d, r, ""),
				Detail: fmt.Sprintf("%s was refused (%d; %s) but the canonical state changed:\n--- before\n%s\n--- after\n%s", what, o.status, exp.Reason, rn.baseText, txt)})
		}
		res.Changed = k != rn.baseKey
	}
	// repeat family: the same request again, Repeat-1 more times
	if !p && len(viol) == 0 && rn.u.Repeat > 1 {
		if rn.skipRepeat(d) {
			res.RepSkipped = true
		} else {
			for k := 2; k <= rn.u.Repeat; k++ {
				whatK := fmt.Sprintf("%s (repetition %d of %d)", what, k, rn.u.Repeat)
				ok, vk, pk, _, _ := rn.exec(x, d, r, x.state(), whatK)
				rn.counters["requests"]++
				rn.counters["repeat_requests"]++
				res.RepStatus = append(res.RepStatus, ok.status)
				if !pk {
					var v2 []kernel.Violation
					var n int
					v2, pk, n = rn.after2(x, d, r, whatK, true)
					vk = append(vk, v2...)
					res.Probes += n
				}
				for j := range vk {
					vk[j].Signature += fmt.Sprintf(":rep%d", k)
				}
				// only the poisoning oracles and the probes are new information on a repetition; a status expectation
				// that held the first time is re-evaluated against the state the repetition arrives in
				viol = append(viol, vk...)
				if pk || len(vk) > 0 {
					p = pk
					break
				}
			}
			if !p {
				k, _ := x.key()
				if k != rn.baseKey {
					res.Changed = true
				}
			}
		}
	}
	if len(viol) > 0 {
		res.Viol = viol
		res.Req = r
		res.PrefixReqs = rn.prefReqs
		for _, h := range hist {
			res.History = append(res.History, rn.batch[h].String())
		}
	}
	if rn.trace {
		res.Req = r
		rn.notes = append(rn.notes, fmt.Sprintf("%s  [state %s] -> %d  key=%s changed=%v repeats=%v %s", what, state, o.status, res.Key, res.Changed, res.RepStatus, clip(strings.TrimSpace(string(o.body)), 200)))
	}
	res.Poisoned = p
	return p, nil
}

// Exec is the worker body of engine E-E.
func Exec(req *kernel.Request) (resp *kernel.Response) {
	resp = &kernel.Response{Counters: map[string]int{}}
	var u Unit
	if err := json.Unmarshal(req.Cfg, &u); err != nil {
		resp.Err = "cfg: " + err.Error()
		return
	}
	setup()
	rn := &runner{u: &u, wd: defaultWatchdog, trace: req.Trace, counters: resp.Counters}
	if u.WatchdogS > 0 {
		rn.wd = time.Duration(u.WatchdogS) * time.Second
	}
	if u.Repeat < 1 {
		u.Repeat = 1
	}
	defer func() {
		if r := recover(); r != nil {
			resp.Err = fmt.Sprintf("harness panic: %v\n%s", r, debug.Stack())
			ExitAfter = true
		}
		if rn.jf != nil {
			rn.jf.Close()
		}
	}()
	if u.Journal != "" {
		f, err := os.OpenFile(u.Journal, os.O_CREATE|os.O_WRONLY|os.O_APPEND, 0644)
		if err != nil {
			resp.Err = "journal: " + err.Error()
			return
		}
		rn.jf = f
		// the Go runtime writes "fatal error: …" to file descriptor 2 and then dumps every goroutine: keep the HEAD of
		// that output in a file next to the journal (the pool only keeps the tail)
		if ef, err := os.OpenFile(u.Journal+".stderr", os.O_CREATE|os.O_WRONLY|os.O_APPEND, 0644); err == nil {
			syscall.Dup2(int(ef.Fd()), 2)
			ef.Close()
		}
	}
	for i, s := range req.Path {
		d, err := ParseDesc(s)
		if err != nil {
			resp.Err = err.Error()
			return
		}
		rn.batch = append(rn.batch, d)
		rn.results = append(rn.results, &Result{I: i, Desc: s, Status: -1})
		rn.reqs = append(rn.reqs, nil)
	}
	if err := rn.build(); err != nil {
		resp.Err = err.Error()
		return
	}
	if rn.cur != nil {
		resp.Key, resp.KeyText = rn.baseKey, rn.baseText
	} else {
		resp.Key = "(probes failed)"
	}
	rn.journal(journalLine{Base: rn.baseKey})
	executed := 0
	for i := range rn.batch {
		ii := i
		rn.journal(journalLine{Start: &ii, Desc: rn.batch[i].String()})
		p, err := rn.one(i)
		if err != nil {
			resp.Err = err.Error()
			rn.retire(true)
			return
		}
		executed++
		res := rn.results[i]
		if p {
			rn.retire(true)
			ExitAfter = true // a stuck or panicked handler may hold locks and goroutines: this process is abandoned
			rn.journal(journalLine{Done: res})
			break
		}
		if !u.Sequence && (res.Changed || len(res.Viol) > 0 || u.Fresh) {
			rn.retire(false)
			if ExitAfter {
				rn.journal(journalLine{Done: res})
				break
			}
		}
		rn.journal(journalLine{Done: res})
	}
	rn.retire(false)
	for _, r := range rn.results[:executed] {
		b, _ := json.Marshal(r)
		resp.Note = append(resp.Note, string(b))
	}
	if req.Trace {
		resp.Note = append(resp.Note, rn.notes...)
	}
	resp.Counters["executed"] = executed
	return
}
