package ee

import (
	"fmt"
	"sort"
	"strings"

	"github.com/gorilla/mux"
	crest "github.com/openebs/jiva/controller/rest"
	rrest "github.com/openebs/jiva/replica/rest"
)

// walkRoutes lists what the real router registers: "METHOD template?action=name".
func walkRoutes(rt *mux.Router) []string {
	var out []string
	rt.Walk(func(r *mux.Route, _ *mux.Router, _ []*mux.Route) error {
		tmpl, err := r.GetPathTemplate()
		if err != nil {
			return nil
		}
		methods, _ := r.GetMethods()
		if len(methods) == 0 {
			methods = []string{"*"}
		}
		qs, _ := r.GetQueriesTemplates()
		act := ""
		for _, q := range qs {
			if strings.HasPrefix(q, "action=") {
				act = "?" + q
			}
		}
		for _, m := range methods {
			out = append(out, m+" "+tmpl+act)
		}
		return nil
	})
	sort.Strings(out)
	return out
}

// CheckRouteTables compares the harness's route tables with what the real routers register; a difference means the
// request alphabet no longer covers the router (the check must fail loudly, not pass silently).
func CheckRouteTables() error {
	for _, side := range []string{"R", "C"} {
		var rt *mux.Router
		if side == "R" {
			rt = rrest.NewRouter(rrest.NewServer(nil))
		} else {
			rt = crest.NewRouter(crest.NewServer(nil))
		}
		real := walkRoutes(rt)
		var mine []string
		for _, r := range routesOf(side) {
			a := ""
			if r.Action != "" {
				a = "?action=" + r.Action
			}
			mine = append(mine, r.Method+" "+r.Tmpl+a)
		}
		sort.Strings(mine)
		if strings.Join(real, "\n") != strings.Join(mine, "\n") {
			return fmt.Errorf("side %s: the router registers\n  %s\nbut the harness's route table has\n  %s", side, strings.Join(diff(real, mine), "\n  "), strings.Join(diff(mine, real), "\n  "))
		}
	}
	return nil
}

func diff(a, b []string) []string {
	in := map[string]bool{}
	for _, x := range b {
		in[x] = true
	}
	var out []string
	for _, x := range a {
		if !in[x] {
			out = append(out, x)
		}
	}
	if len(out) == 0 {
		out = []string{"(nothing the other side lacks)"}
	}
	return out
}
