package ee

import (
	"crypto/sha1"
	"fmt"
	"net/http"
	"os"
	"path/filepath"
	"regexp"
	"sort"
	"strings"
	"sync"
	"time"

	fibmap "github.com/frostschutz/go-fibmap"
	"github.com/openebs/jiva/controller"
	crest "github.com/openebs/jiva/controller/rest"
	"github.com/openebs/jiva/replica"
	rrest "github.com/openebs/jiva/replica/rest"
	"github.com/openebs/jiva/sync/rebuild"
	"github.com/openebs/jiva/types"
	"github.com/openebs/jiva/util"
	"github.com/sirupsen/logrus"

	"verif/harness/eb"
	"verif/harness/kernel"
)

const (
	Block   = 4096
	VolSize = 4 * Block
)

// ReplicaClasses / ControllerClasses are the seed state classes.
var ReplicaClasses = []string{"initial", "closed", "open-rw", "open-wo", "dirty", "rebuilding", "chain3", "error-meta"}
var ControllerClasses = []string{"none", "registering", "rw1", "rw1wo", "rw2wo", "rw3cp", "readonly"}

// controller class -> E-B event list (RF=3, 4 node identities; node 3 is never attached)
var controllerClassEvents = map[string][]string{
	"none":        {},
	"registering": {"Reg:0"},
	"rw1":         {"Reg:0", "Reg:1", "Start:0"},
	"rw1wo":       {"Reg:0", "Reg:1", "Start:0", "Add:1"},
	"rw2wo":       {"Reg:0", "Reg:1", "Start:0", "Add:1", "Sync:1", "Verify:1", "Add:2"},
	"rw3cp":       {"Reg:0", "Reg:1", "Start:0", "Add:1", "Sync:1", "Verify:1", "Add:2", "Sync:2", "Verify:2", "W:0", "Snap:0"},
	"readonly":    {"Reg:0", "Reg:1", "Start:0", "Add:1", "Sync:1", "Verify:1", "Remove:1"},
}

// replica class -> description of how it is built (documentation for evidence / replay files)
var replicaClassEvents = map[string][]string{
	"initial":    {"NewServer(empty dir)"},
	"closed":     {"Create(16384)"},
	"open-rw":    {"Create(16384)", "Open", "SetReplicaMode(RW)"},
	"open-wo":    {"Create(16384)", "Open", "SetReplicaMode(WO)"},
	"dirty":      {"Create(16384)", "Open", "SetReplicaMode(RW)", "WriteAt(block 0)", "Snapshot(s1,user)"},
	"rebuilding": {"Create(16384)", "Open", "SetReplicaMode(WO)", "SetRebuilding(true)"},
	"chain3": {"Create(16384)", "Open", "SetReplicaMode(RW)", "WriteAt(block 0)", "Snapshot(s1,user)", "WriteAt(block 1)", "Snapshot(s2,auto)", "WriteAt(block 0)", "Snapshot(s3,user)",
		"SetCheckpoint(volume-snap-s3.img)", "Close", "Open", "SetReplicaMode(RW)"},
	"error-meta": {"Create(16384)", "overwrite volume.meta with bytes that are not JSON"},
}

func ClassEvents(side, class string) []string {
	if side == "R" {
		return replicaClassEvents[class]
	}
	return controllerClassEvents[class]
}

type probe struct {
	Method, URL string
	Want        int
	Tmpl        string
}

// tryLockWait waits (generously) for the locks to become free: goroutines the request woke may hold them briefly.
func tryLockWait(x instance, wd time.Duration) (bool, string) {
	deadline := time.Now().Add(wd)
	for {
		ok, which := x.tryLock()
		if ok {
			return true, ""
		}
		if time.Now().After(deadline) {
			return false, which
		}
		time.Sleep(200 * time.Microsecond)
	}
}

// instance is one server behind its real router.
type instance interface {
	router() http.Handler
	quiesce() []kernel.Violation // wait for goroutines the request woke; deliver internal events; "wedged" violations
	tryLock() (bool, string)     // every lock of the server object is free
	tryLockWait(wd time.Duration) (bool, string)
	key() (string, string)
	facts() Facts
	state() string // replica: Status() state; controller: summary used only for reporting
	probes() []probe
	readProbe() (applicable bool, err error) // does not change the state
	// writeProbe changes the state: run at the end of an instance's life.  transient: the first attempt failed, a later
	// one (after the failure had been digested by the controller) was served - recorded, not a violation
	writeProbe() (applicable bool, err error, transient bool)
	destroy(poisoned bool)
}

// ---------------------------------------------------------------------------------------------------------------
// process-wide set-up

type ring struct {
	mu sync.Mutex
	b  []byte
}

func (r *ring) Write(p []byte) (int, error) {
	r.mu.Lock()
	r.b = append(r.b, p...)
	if len(r.b) > 16384 {
		r.b = r.b[len(r.b)-16384:]
	}
	r.mu.Unlock()
	return len(p), nil
}
func (r *ring) String() string { r.mu.Lock(); defer r.mu.Unlock(); return string(r.b) }

type fatalExit struct{ msg string }

var (
	setupOnce sync.Once
	scratch   string
	logBuf    = &ring{}
	instSeq   int
)

func resetLogging() {
	logrus.SetOutput(logBuf)
	logrus.SetLevel(logrus.WarnLevel)
	logrus.StandardLogger().ExitFunc = func(code int) { panic(fatalExit{"logrus.Fatal: the process would exit here"}) }
}

func setup() {
	setupOnce.Do(func() {
		base := os.Getenv("VERIF_EE_SCRATCH")
		if base == "" {
			base = filepath.Join(os.TempDir(), fmt.Sprintf("verif-ee-%d", os.Getpid()))
		}
		scratch = filepath.Join(base, fmt.Sprintf("w%d", os.Getpid()))
		os.RemoveAll(scratch)
		if err := os.MkdirAll(scratch, 0755); err != nil {
			panic(err)
		}
		util.VerifNoSync = true // durability is engine C's subject
		go replica.CreateHoles()
		// the E-B cluster installs the in-process http.DefaultTransport and its own logrus hooks on first use; build
		// one throw-away cluster now so that our logging set-up is the one that stays
		eb.NewCluster(&eb.Cfg{RF: 3, N: 4, Drain: true}, scratch).Destroy()
		http.DefaultTransport = eeTransport{http.DefaultTransport}
		resetLogging()
	})
}

// eeTransport sits in front of E-B's in-process transport.  With model replica nodes there is no sync agent (port
// 9504: a process launcher around ssync/sfold that needs real files): such a request is refused like a connection to
// a port nobody listens on.  Everything else - and everything when the cluster has real nodes - goes to E-B's transport.
type eeTransport struct{ base http.RoundTripper }

var realNodes bool

// the armed fault point of the request being served (see Desc.FaultOf): calls to faultHost are counted, the faultK-th fails
var (
	faultMu    sync.Mutex
	faultHost  string
	faultK     int
	faultSeen  int
	faultFired int
)

func armFault(node, k int) {
	faultMu.Lock()
	faultHost, faultK, faultSeen = fmt.Sprintf("10.0.0.%d:9502", node), k, 0
	faultMu.Unlock()
}

func disarmFault() (fired bool) {
	faultMu.Lock()
	fired = faultK > 0 && faultSeen >= faultK
	faultHost, faultK, faultSeen = "", 0, 0
	faultMu.Unlock()
	return
}

func (t eeTransport) RoundTrip(req *http.Request) (*http.Response, error) {
	faultMu.Lock()
	hit := false
	if faultK > 0 && req.URL.Host == faultHost {
		faultSeen++
		hit = faultSeen == faultK
	}
	faultMu.Unlock()
	if hit {
		if req.Body != nil {
			req.Body.Close()
		}
		return nil, fmt.Errorf("read tcp 10.0.0.100:40000->%s: read: connection reset by peer (injected fault point)", req.URL.Host)
	}
	if !realNodes && strings.HasSuffix(req.URL.Host, ":9504") {
		return nil, fmt.Errorf("dial tcp %s: connect: connection refused (no sync agent behind a model node)", req.URL.Host)
	}
	return t.base.RoundTrip(req)
}

// Cleanup removes the worker's scratch directory.
func Cleanup() {
	if scratch != "" {
		os.RemoveAll(scratch)
	}
}

func resetGlobals() {
	types.ShouldPunchHoles = false
	types.DrainOps = types.DrainDone
	if util.Logrotator != nil {
		util.Logrotator.Close()
		util.Logrotator = nil
	}
	rebuild.Info = nil
	os.Unsetenv("DEBUG_TIMEOUT")
	os.Unsetenv("RPC_PING_TIMEOUT")
	resetLogging()
}

func globalsText() string {
	return fmt.Sprintf("G punch=%v drain=%v logrot=%v rebuildinfo=%v env=%q/%q", types.ShouldPunchHoles, types.DrainOps, util.Logrotator != nil, rebuild.Info != nil,
		os.Getenv("DEBUG_TIMEOUT"), os.Getenv("RPC_PING_TIMEOUT"))
}

// ---------------------------------------------------------------------------------------------------------------
// replica side

type rInst struct {
	class string
	dir   string
	srv   *replica.Server
	rt    http.Handler
	fx    Facts
}

func fill(buf []byte, tag byte) {
	for i := range buf {
		buf[i] = tag + byte(i%7)
	}
}

func newReplicaInst(class string) (x *rInst, err error) {
	setup()
	resetGlobals()
	instSeq++
	x = &rInst{class: class, dir: filepath.Join(scratch, fmt.Sprintf("r%d", instSeq))}
	os.RemoveAll(x.dir)
	if err := os.MkdirAll(x.dir, 0755); err != nil {
		return nil, err
	}
	x.srv = replica.NewServer("127.0.0.1:9502", x.dir, 512, "")
	s := x.srv
	step := func(what string, e error) {
		if err == nil && e != nil {
			err = fmt.Errorf("%s: %v", what, e)
		}
	}
	w := func(blk int, tag byte) {
		buf := make([]byte, Block)
		fill(buf, tag)
		_, e := s.WriteAt(buf, int64(blk)*Block)
		step("write", e)
	}
	const ts = "2020-01-01T00:00:00Z"
	openAs := func(mode string) {
		step("create", s.Create(VolSize))
		step("open", s.Open())
		step("mode", s.SetReplicaMode(mode))
	}
	switch class {
	case "initial":
	case "closed":
		step("create", s.Create(VolSize))
	case "error-meta":
		step("create", s.Create(VolSize))
		step("corrupt", os.WriteFile(filepath.Join(x.dir, "volume.meta"), []byte("\x00not json"), 0644))
	case "open-rw":
		openAs("RW")
	case "open-wo":
		openAs("WO")
	case "dirty":
		openAs("RW")
		w(0, 10)
		step("snapshot", s.Snapshot("s1", true, ts))
	case "rebuilding":
		openAs("WO")
		step("setrebuilding", s.SetRebuilding(true))
	case "chain3":
		openAs("RW")
		w(0, 10)
		step("snapshot", s.Snapshot("s1", true, ts))
		w(1, 20)
		step("snapshot", s.Snapshot("s2", false, ts))
		w(0, 30)
		step("snapshot", s.Snapshot("s3", true, ts))
		step("checkpoint", s.SetCheckpoint("volume-snap-s3.img"))
		step("close", s.Close())
		step("open", s.Open())
		step("mode", s.SetReplicaMode("RW"))
	default:
		err = fmt.Errorf("unknown replica state class %q", class)
	}
	if err != nil {
		return x, err
	}
	x.rt = rrest.NewRouter(rrest.NewServer(s))
	x.fx = x.computeFacts()
	return x, nil
}

func shortName(full string) string {
	return strings.TrimSuffix(strings.TrimPrefix(full, "volume-snap-"), ".img")
}

func (x *rInst) computeFacts() Facts {
	fx := Facts{"HEAD": "volume-head-000.img", "LATEST": "volume-snap-s1.img", "BASE": "volume-snap-s1.img", "MID": "volume-snap-s2.img", "CP": "volume-snap-s2.img"}
	if r := x.srv.Replica(); r != nil {
		if ch, err := r.Chain(); err == nil && len(ch) > 0 {
			fx["HEAD"] = ch[0]
			if len(ch) > 1 {
				fx["LATEST"] = ch[1]
				fx["BASE"] = ch[len(ch)-1]
			}
			if len(ch) > 3 {
				fx["MID"] = ch[2]
			}
		}
		if cp := r.Info().Checkpoint; cp != "" {
			fx["CP"] = cp
		}
	} else if info, err := replica.ReadInfo(x.dir); err == nil && info.Head != "" {
		fx["HEAD"] = info.Head
	}
	for _, k := range []string{"LATEST", "BASE", "MID", "CP"} {
		fx[k+"N"] = shortName(fx[k])
	}
	return fx
}

func (x *rInst) router() http.Handler        { return x.rt }
func (x *rInst) facts() Facts                { return x.fx }
func (x *rInst) quiesce() []kernel.Violation { return nil }

func (x *rInst) state() string {
	st, _ := x.srv.Status()
	return string(st)
}

func (x *rInst) tryLock() (bool, string) {
	if !x.srv.VerifTryLock() {
		return false, "replica.Server lock"
	}
	if r := x.srv.Replica(); r != nil && !r.VerifTryLock() {
		return false, "replica.Replica lock"
	}
	return true, ""
}

func (x *rInst) tryLockWait(wd time.Duration) (bool, string) { return tryLockWait(x, wd) }
func (x *cInst) tryLockWait(wd time.Duration) (bool, string) { return tryLockWait(x, wd) }

func (x *rInst) probes() []probe {
	return []probe{{"GET", "/v1/replicas/1", 200, "/v1/replicas/{id}"}, {"GET", "/v1/replicas", 200, "/v1/replicas"}, {"GET", "/v1/stats", 200, "/v1/stats"}, {"GET", "/ping", 200, "/ping"}}
}

func (x *rInst) readProbe() (bool, error) {
	if x.srv.Replica() == nil {
		return false, nil
	}
	buf := make([]byte, Block)
	n, err := x.srv.ReadAt(buf, 0)
	if err != nil || n != Block {
		return true, fmt.Errorf("ReadAt(4096,0) on an open replica -> (%d, %v)", n, err)
	}
	return true, nil
}

func (x *rInst) writeProbe() (bool, error, bool) {
	ok, err := x.writeProbe1()
	return ok, err, false
}

func (x *rInst) writeProbe1() (bool, error) {
	r := x.srv.Replica()
	if r == nil {
		return false, nil
	}
	if m := r.GetReplicaMode(); m != "RW" && m != "WO" {
		return false, nil
	}
	_, info := x.srv.Status()
	if info.Size < 2*Block {
		return false, nil
	}
	buf := make([]byte, Block)
	fill(buf, 77)
	if n, err := x.srv.WriteAt(buf, Block); err != nil || n != Block {
		return true, fmt.Errorf("WriteAt(4096,4096) in mode %s -> (%d, %v)", r.GetReplicaMode(), n, err)
	}
	got := make([]byte, Block)
	if n, err := x.srv.ReadAt(got, Block); err != nil || n != Block || string(got) != string(buf) {
		return true, fmt.Errorf("read-back after the probe write -> (%d, %v), equal=%v", n, err, string(got) == string(buf))
	}
	return true, nil
}

var (
	uuidRe    = regexp.MustCompile(`"UUID":"[^"]*"`)
	createdRe = regexp.MustCompile(`"Created":"[^"]*"`)
)

func imgDesc(path string) string {
	f, err := os.Open(path)
	if err != nil {
		return "ERR"
	}
	defer f.Close()
	st, _ := f.Stat()
	size := st.Size()
	if size > 64<<20 {
		return fmt.Sprintf("size=%d (content not hashed)", size)
	}
	nblk := int((size + Block - 1) / Block)
	alloc := make([]byte, nblk)
	for i := range alloc {
		alloc[i] = '-'
	}
	exts, errno := fibmap.Fiemap(f.Fd(), 0, uint64(size), 4096)
	if errno != 0 {
		return "FIEMAPERR"
	}
	h := sha1.New()
	buf := make([]byte, Block)
	for _, e := range exts {
		for b := e.Logical / Block; b < (e.Logical+e.Length+Block-1)/Block && int(b) < nblk; b++ {
			alloc[b] = 'x'
		}
	}
	for b := 0; b < nblk; b++ {
		if alloc[b] == 'x' {
			n, _ := f.ReadAt(buf, int64(b)*Block)
			fmt.Fprintf(h, "%d:", b)
			h.Write(buf[:n])
		}
	}
	return fmt.Sprintf("size=%d alloc=%s data=%x", size, alloc, h.Sum(nil)[:6])
}

func (x *rInst) key() (string, string) {
	replica.VerifFlushHoles()
	var b strings.Builder
	st, info := x.srv.Status()
	info.UUID = ""
	info.BackingFile = nil
	fmt.Fprintf(&b, "S state=%s info=%+v actionchan=%d\n%s\n", st, info, replica.VerifActionChannelLen(), globalsText())
	if rep := x.srv.Replica(); rep != nil {
		vs := rep.VerifState()
		vs.Info.UUID = ""
		for i := range vs.FileNames {
			vs.FileNames[i] = filepath.Base(vs.FileNames[i])
		}
		fmt.Fprintf(&b, "R loc=%v snapindx=%d ucs=%v active=%v files=%v mode=%s revcache=%d used=%d/%d info=%+v clone=%s\n", vs.Location, vs.SnapIndx, vs.UserCreatedSnap, vs.Active, vs.FileNames, vs.Mode,
			vs.RevisionCache, vs.UsedBlocks, vs.UsedLogical, vs.Info, rep.GetCloneStatus())
		var ds []string
		for k, d := range vs.Disks {
			ds = append(ds, fmt.Sprintf("%s>%s u=%v r=%v rev=%d", k, d.Parent, d.UserCreated, d.Removed, d.RevisionCounter))
		}
		sort.Strings(ds)
		var cs []string
		for p, l := range vs.Children {
			cs = append(cs, p+"<"+strings.Join(l, ","))
		}
		sort.Strings(cs)
		fmt.Fprintf(&b, "R disks=%v children=%v\n", ds, cs)
	} else {
		b.WriteString("R closed\n")
	}
	ents, err := os.ReadDir(x.dir)
	if err != nil {
		fmt.Fprintf(&b, "F <no directory>\n")
	}
	for _, e := range ents { // ReadDir sorts by name
		n := e.Name()
		p := filepath.Join(x.dir, n)
		switch {
		case e.IsDir():
			fmt.Fprintf(&b, "F %s/ (dir)\n", n)
		case strings.HasSuffix(n, ".img"):
			fmt.Fprintf(&b, "F %s %s\n", n, imgDesc(p))
		case strings.HasSuffix(n, ".log"):
			fmt.Fprintf(&b, "F %s (log)\n", n)
		default:
			c, _ := os.ReadFile(p)
			s := strings.TrimSpace(string(c))
			s = createdRe.ReplaceAllString(uuidRe.ReplaceAllString(s, ""), "")
			if len(s) > 600 {
				h := sha1.Sum([]byte(s))
				s = fmt.Sprintf("len=%d sha=%x", len(s), h[:6])
			}
			fmt.Fprintf(&b, "F %s %q\n", n, s)
		}
	}
	txt := b.String()
	h := sha1.Sum([]byte(txt))
	return fmt.Sprintf("%x", h[:12]), txt
}

func (x *rInst) destroy(poisoned bool) {
	if !poisoned && x.srv != nil && x.srv.Replica() != nil {
		done := make(chan struct{})
		go func() {
			defer func() { recover(); close(done) }()
			x.srv.Close()
		}()
		select {
		case <-done:
		case <-time.After(30 * time.Second):
		}
	}
	os.RemoveAll(x.dir)
	resetGlobals()
}

// ---------------------------------------------------------------------------------------------------------------
// controller side

type cInst struct {
	class string
	cl    *eb.Cluster
	rt    http.Handler
	fx    Facts
}

func newControllerInst(class string, real bool) (*cInst, error) {
	setup()
	resetGlobals()
	evs, ok := controllerClassEvents[class]
	if !ok {
		return nil, fmt.Errorf("unknown controller state class %q", class)
	}
	realNodes = real
	cfg := &eb.Cfg{RF: 3, N: 4, Drain: true, Real: real}
	instSeq++
	x := &cInst{class: class, cl: eb.NewCluster(cfg, filepath.Join(scratch, fmt.Sprintf("c%d", instSeq)))}
	resetLogging()
	for _, ev := range evs {
		x.cl.Step(ev)
		if v := x.cl.Violations(); len(v) > 0 {
			return x, fmt.Errorf("building class %s: event %s: %+v", class, ev, v[0])
		}
	}
	x.rt = crest.NewRouter(crest.NewServer(x.cl.Controller()))
	x.fx = x.computeFacts()
	return x, nil
}

func (x *cInst) computeFacts() Facts {
	v := x.cl.View()
	fx := Facts{"ATT0ADDR": eb.Addr(0), "ATT1ADDR": eb.Addr(1), "DETADDR": eb.Addr(3), "ATT0IP": eb.IP(0), "DETIP": eb.IP(3), "REGIP": eb.IP(2),
		"HEAD": "volume-head-000.img", "LATEST": "volume-snap-s1.img", "BASE": "volume-snap-s1.img", "CP": "volume-snap-s2.img"}
	sig := v.MaxRevReplica
	if sig == "" {
		sig = eb.IP(0)
	}
	fx["SIGIP"] = sig
	fx["SIGADDR"] = "tcp://" + sig + ":9502"
	nv := x.cl.NodeView(0)
	if len(nv.Chain) > 0 {
		fx["LATEST"] = nv.Chain[0]
		fx["BASE"] = nv.Chain[len(nv.Chain)-1]
	}
	if v.Checkpoint != "" {
		fx["CP"] = v.Checkpoint
	}
	for _, k := range []string{"LATEST", "BASE", "CP"} {
		fx[k+"N"] = shortName(fx[k])
	}
	return fx
}

func (x *cInst) router() http.Handler { return x.rt }
func (x *cInst) facts() Facts         { return x.fx }

func (x *cInst) quiesce() []kernel.Violation {
	x.cl.Settle()
	var out []kernel.Violation
	take := func() bool {
		stop := false
		for _, v := range x.cl.Violations() {
			if v.Oracle == "wedged" {
				out = append(out, v)
				stop = true
			} else {
				out = append(out, kernel.Violation{Oracle: "foreign:" + v.Oracle, Signature: v.Signature, Detail: v.Detail})
			}
		}
		return stop
	}
	if take() {
		return out
	}
	x.cl.DrainInternal()
	take()
	return out
}

func (x *cInst) tryLock() (bool, string) {
	if !x.cl.Controller().VerifTryLock() {
		return false, "controller.Controller lock"
	}
	return true, ""
}

func modeCounts(v controller.VerifView) (rw, wo, er int) {
	for _, r := range v.Replicas {
		switch r.Mode {
		case types.RW:
			rw++
		case types.WO:
			wo++
		case types.ERR:
			er++
		}
	}
	return
}

func (x *cInst) state() string {
	v := x.cl.View()
	rw, wo, er := modeCounts(v)
	return fmt.Sprintf("rw=%d wo=%d err=%d reg=%d ro=%v", rw, wo, er, len(v.Registered), v.ReadOnly)
}

func (x *cInst) probes() []probe {
	ps := []probe{{"GET", "/v1/replicas", 200, "/v1/replicas"}, {"GET", "/v1/volumes", 200, "/v1/volumes"}, {"GET", "/v1/volumes/" + b64("vol"), 200, "/v1/volumes/{id}"}, {"GET", "/v1/checkpoint", 200, "/v1/checkpoint"}}
	v := x.cl.View()
	if len(v.Replicas) > 0 {
		ps = append(ps, probe{"GET", "/v1/replicas/" + b64(v.Replicas[0].Address), 200, "/v1/replicas/{id}"})
	}
	return ps
}

func (x *cInst) readProbe() (bool, error) { return false, nil } // a controller read moves the round-robin cursor

func (x *cInst) writeProbe() (bool, error, bool) {
	var first error
	for attempt := 0; attempt < 3; attempt++ {
		ok, err := x.writeProbe1()
		if !ok {
			return attempt > 0, first, false // the state no longer allows writes (e.g. the failure made the volume read-only)
		}
		if err == nil {
			return true, nil, attempt > 0
		}
		if first == nil {
			first = err
		}
		x.quiesce() // let the controller digest the failure (ERR marking, monitor wake-ups)
	}
	return true, first, false
}

func (x *cInst) writeProbe1() (bool, error) {
	v := x.cl.View()
	rw, _, _ := modeCounts(v)
	if v.ReadOnly || rw < 2 || len(v.Backends) == 0 {
		return false, nil
	}
	c := x.cl.Controller()
	buf := make([]byte, Block)
	fill(buf, 99)
	n, err := c.WriteAt(buf, Block)
	x.cl.Settle()
	if err != nil || n != Block {
		return true, fmt.Errorf("Controller.WriteAt(4096,4096) with %d RW replicas, ReadOnly=false -> (%d, %v)", rw, n, err)
	}
	got := make([]byte, Block)
	n, err = c.ReadAt(got, Block)
	x.cl.Settle()
	if err != nil || n != Block || string(got) != string(buf) {
		return true, fmt.Errorf("Controller.ReadAt after the probe write -> (%d, %v), equal=%v", n, err, string(got) == string(buf))
	}
	return true, nil
}

func (x *cInst) key() (string, string) {
	k, txt := x.cl.Key()
	v := x.cl.View()
	extra := fmt.Sprintf("X quorumreplicas=%d snapdeletion=%v %s\n", v.QuorumReplicas, v.SnapDeletion, globalsText())
	h := sha1.Sum([]byte(k + extra))
	return fmt.Sprintf("%x", h[:12]), txt + extra
}

func (x *cInst) destroy(poisoned bool) {
	if !poisoned {
		x.cl.Destroy()
	}
	resetGlobals()
}

func newInst(side, class string, real bool) (instance, error) {
	if side == "R" {
		x, err := newReplicaInst(class)
		if err != nil {
			if x != nil {
				x.destroy(false)
			}
			return nil, err
		}
		return x, nil
	}
	x, err := newControllerInst(class, real)
	if err != nil {
		if x != nil {
			x.destroy(false)
		}
		return nil, err
	}
	return x, nil
}
