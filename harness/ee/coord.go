package ee

import (
	"bufio"
	"encoding/json"
	"fmt"
	"os"
	"path/filepath"
	"regexp"
	"sort"
	"strings"
	"sync"
	"time"

	"verif/harness/kernel"
)

// Plan selects bounds of one check.
type Plan struct {
	Property       string
	Sides          []string
	FullDepth      int // levels explored with the full alphabet
	Depth          int // total depth (levels beyond FullDepth use the reduced alphabet)
	Repeat         int
	RepeatDepth    int  // levels 1..RepeatDepth run the repeat family; deeper levels send every request once
	ExpandAll      bool // false: beyond level 1 only the first state found per (state class, route, action) is expanded
	ExpandAllDepth int  // states found at levels <= ExpandAllDepth are all expanded; deeper levels: per (state, route, action) only the state reached by the best-formed request
	ExtraFullLevel int  // thorough: after the reduced alphabet reached Depth, the rest of the full alphabet is sent from the states of this level (budget permitting)
	Budget         time.Duration
	C17            bool
	Chunk          int
	MaxReport      int
	OnlyOracle     func(oracle string) bool // which oracles count for this property (others are recorded as foreign)
	Alphabet       func(side string, reduced bool) []Desc
	Classes        func(side string) []string
	Workers        int
}

type stateNode struct {
	side, class string
	prefix      []string
	key         string
	depth       int
}

type found struct {
	v        kernel.Violation
	side     string
	class    string
	prefix   []string
	desc     string
	history  []string
	req      *Req
	prefReqs []*Req
	state    string
	classes  map[string]int
	died     bool
	sequence bool
}

type Coordinator struct {
	plan     *Plan
	pool     *kernel.Pool
	scratch  string
	start    time.Time
	deadline time.Time

	mu         sync.Mutex
	unitSeq    int
	skipRepeat map[string]bool
	knownHeld  map[string]bool
	harnessErr string

	// counters
	faultReqs, faultHit                                                                                                  int
	states, transitions, repeatRuns, repeatRequests, repSuppressed, probesOK, writeProbes, deaths, instances, bisections int
	perClass                                                                                                             map[string]int
	status                                                                                                               map[string]map[int]int
	obs                                                                                                                  map[string]int
	foreign                                                                                                              map[string]int
	expectCount                                                                                                          map[string]int
	bodyClasses                                                                                                          map[string]int
	matrix                                                                                                               map[string]map[string]int // C17: state -> action -> status histogram key
	seen                                                                                                                 map[string]bool
	perLevel                                                                                                             []int
	execPerLevel                                                                                                         []int
	samples                                                                                                              []interface{}
	viol                                                                                                                 map[string]*found // by oracle|signature
	violOrder                                                                                                            []string
	repSeen                                                                                                              map[string]bool
	notExpanded                                                                                                          int
	transientWrites                                                                                                      int
	phases                                                                                                               []string
	fullDepthCompleted                                                                                                   int
	keyRechecks                                                                                                          int
	broken                                                                                                               map[string]bool
	exhaustive                                                                                                           bool
	depthCompleted                                                                                                       int
	detOK                                                                                                                int
}

func NewCoordinator(p *Plan) *Coordinator {
	if p.Chunk == 0 {
		p.Chunk = 160
	}
	if p.MaxReport == 0 {
		p.MaxReport = 15
	}
	if p.Workers == 0 {
		p.Workers = 16
	}
	if p.OnlyOracle == nil {
		p.OnlyOracle = func(o string) bool { return !strings.HasPrefix(o, "c17rest") }
	}
	c := &Coordinator{plan: p, skipRepeat: map[string]bool{}, knownHeld: map[string]bool{}, perClass: map[string]int{}, status: map[string]map[int]int{"R": {}, "C": {}}, obs: map[string]int{}, foreign: map[string]int{},
		expectCount: map[string]int{}, bodyClasses: map[string]int{}, matrix: map[string]map[string]int{}, seen: map[string]bool{}, repSeen: map[string]bool{}, broken: map[string]bool{}, viol: map[string]*found{}, exhaustive: true, depthCompleted: -1}
	c.scratch = filepath.Join(os.TempDir(), fmt.Sprintf("verif-ee-%d", os.Getpid()))
	os.RemoveAll(c.scratch)
	os.MkdirAll(c.scratch, 0755)
	c.pool = &kernel.Pool{Args: []string{"worker"}, Env: []string{"VERIF_EE_SCRATCH=" + c.scratch, "GOMAXPROCS=2", "GOTRACEBACK=single"}, N: p.Workers, Timeout: 240 * time.Second}
	c.pool.Start()
	c.start = time.Now()
	c.deadline = c.start.Add(p.Budget)
	return c
}

func (c *Coordinator) Close() {
	c.pool.Close()
	os.RemoveAll(c.scratch)
}

func (c *Coordinator) fail(f string, a ...interface{}) {
	c.mu.Lock()
	if c.harnessErr == "" {
		c.harnessErr = fmt.Sprintf(f, a...)
	}
	c.mu.Unlock()
}

func (c *Coordinator) failed() bool { c.mu.Lock(); defer c.mu.Unlock(); return c.harnessErr != "" }

type unitJob struct {
	u     Unit
	batch []string
	trace bool
}

type unitOut struct {
	job     *unitJob
	baseKey string
	results []*Result // executed requests, in batch order (may be shorter than the batch)
	notes   []string
	died    bool
	diedAt  int // index of the in-flight request when the worker died (-1: none)
	log     string
	err     string
	cnt     map[string]int
}

var fatalRe = regexp.MustCompile(`(?m)^(fatal error: .*|panic: .*|runtime: .*out of memory.*)$`)

func deathCause(log string) string {
	m := fatalRe.FindAllString(log, -1)
	if len(m) == 0 {
		return "process-exit"
	}
	s := m[0]
	s = strings.TrimPrefix(s, "fatal error: ")
	s = strings.ReplaceAll(s, " ", "-")
	if len(s) > 60 {
		s = s[:60]
	}
	return s
}

// runUnit executes one unit on a worker and, when the worker dies, reconstructs what happened from the journal.
func (c *Coordinator) runUnit(j *unitJob) *unitOut {
	c.mu.Lock()
	c.unitSeq++
	j.u.Journal = filepath.Join(c.scratch, fmt.Sprintf("journal-%d", c.unitSeq))
	if j.u.SkipRepeat == nil {
		for s := range c.skipRepeat {
			j.u.SkipRepeat = append(j.u.SkipRepeat, s)
		}
		sort.Strings(j.u.SkipRepeat)
		for s := range c.knownHeld {
			j.u.KnownHeld = append(j.u.KnownHeld, s)
		}
		sort.Strings(j.u.KnownHeld)
	}
	c.mu.Unlock()
	defer os.Remove(j.u.Journal)
	defer os.Remove(j.u.Journal + ".stderr")
	cfg, _ := json.Marshal(j.u)
	done := make(chan *kernel.Response, 1)
	c.pool.Submit(&kernel.Request{Cfg: cfg, Path: j.batch, Trace: j.trace}, func(r *kernel.Response) { done <- r })
	r := <-done
	out := &unitOut{job: j, diedAt: -1, cnt: r.Counters}
	if r.Died {
		out.died = true
		out.log = r.Log
		if b, err := os.ReadFile(j.u.Journal + ".stderr"); err == nil && len(b) > 0 {
			if len(b) > 6000 {
				b = append(b[:6000], []byte("\n…")...)
			}
			out.log = string(b)
		}
		f, err := os.Open(j.u.Journal)
		if err != nil {
			out.err = "worker died and left no journal: " + r.Err + "\n" + tailS(r.Log, 3000)
			return out
		}
		defer f.Close()
		sc := bufio.NewScanner(f)
		sc.Buffer(make([]byte, 1<<20), 64<<20)
		inflight := -1
		for sc.Scan() {
			var l journalLine
			if json.Unmarshal(sc.Bytes(), &l) != nil {
				continue
			}
			switch {
			case l.Base != "":
				out.baseKey = l.Base
			case l.Start != nil:
				inflight = *l.Start
			case l.Done != nil:
				out.results = append(out.results, l.Done)
				if inflight == l.Done.I {
					inflight = -1
				}
			}
		}
		out.diedAt = inflight
		if inflight < 0 {
			out.err = "worker died outside a request (" + r.Err + "):\n" + tailS(r.Log, 3000)
		} else if r.Err == "timeout" {
			out.err = fmt.Sprintf("worker exceeded the unit timeout during request %s:\n%s", j.batch[inflight], tailS(r.Log, 3000))
		}
		return out
	}
	if r.Err != "" {
		out.err = r.Err
		return out
	}
	out.baseKey = r.Key
	for _, n := range r.Note {
		if strings.HasPrefix(n, "{") {
			var res Result
			if err := json.Unmarshal([]byte(n), &res); err == nil {
				out.results = append(out.results, &res)
				continue
			}
		}
		out.notes = append(out.notes, n)
	}
	return out
}

func tailS(s string, n int) string {
	if len(s) > n {
		return s[len(s)-n:]
	}
	return s
}

// runBatch runs a batch of descriptors from one state, re-submitting the remainder whenever a worker stopped early
// (poisoned after a violation, or dead).  It returns one Result per descriptor (nil when not executed: budget).
func (c *Coordinator) runBatch(st *stateNode, batch []string, fresh bool) ([]*Result, string) {
	res := make([]*Result, len(batch))
	off := 0
	baseKey := ""
	rep := c.plan.Repeat
	if st.depth+1 > c.plan.RepeatDepth {
		rep = 1
	}
	for off < len(batch) && !c.failed() {
		if time.Now().After(c.deadline) {
			return res, baseKey // budget: the remaining requests stay nil
		}
		if c.isBroken(st) {
			return res, baseKey // the state violates on its own (probe set): it is not explored
		}
		j := &unitJob{u: Unit{Side: st.side, Class: st.class, Prefix: st.prefix, PrefixKey: st.key, Repeat: rep, C17: c.plan.C17, Fresh: fresh}, batch: batch[off:]}
		out := c.runUnit(j)
		if out.err != "" {
			c.fail("unit %s/%s prefix=%v: %s", st.side, st.class, st.prefix, out.err)
			return res, baseKey
		}
		if out.baseKey != "" {
			baseKey = out.baseKey
			if st.key != "" {
				c.mu.Lock()
				c.keyRechecks++ // the worker compared the key of the state it rebuilt with the one recorded at exploration
				c.mu.Unlock()
			}
		}
		c.mu.Lock()
		for k, v := range out.cnt {
			switch k {
			case "instances_built":
				c.instances += v
			case "write_probes":
				c.writeProbes += v
			case "write_probe_bisections":
				c.bisections += v
			case "write_probe_failed_once_then_served":
				c.transientWrites += v
			case "requests_with_a_fault_point":
				c.faultReqs += v
			case "fault_points_reached":
				c.faultHit += v
			default:
				if strings.HasPrefix(k, "foreign_") {
					c.foreign[strings.TrimPrefix(k, "foreign_")] += v
				}
			}
		}
		c.mu.Unlock()
		n := 0
		for _, r := range out.results {
			if r.Req != nil && strings.HasPrefix(r.Req.Method, "(probe set") {
				c.mu.Lock()
				c.broken[stateID(st)] = true
				c.mu.Unlock()
			}
			for _, v := range r.Viol {
				if v.Oracle == "blocked" || v.Oracle == "probe-blocked" {
					c.mu.Lock()
					c.skipRepeat[sigStem(mustDesc(r.Desc))] = true
					c.mu.Unlock()
				}
				if v.Oracle == "lock-held" {
					c.mu.Lock()
					c.knownHeld[strings.Split(v.Signature, ":rep")[0]] = true
					c.mu.Unlock()
				}
			}
			res[off+r.I] = r
			r.I += off
			if r.I-off+1 > n {
				n = r.I - off + 1
			}
		}
		if out.died {
			i := out.diedAt
			d, _ := ParseDesc(batch[off+i])
			cause := deathCause(out.log)
			// the request is rebuilt only to compute the body outcome of the signature
			fx := Facts{}
			rq, _ := Build(d, fx)
			if rq == nil {
				rq = &Req{}
			}
			r := &Result{I: off + i, Desc: batch[off+i], Status: -1, Poisoned: true, Req: rq,
				Viol: []kernel.Violation{{Oracle: "died", Signature: Signature("died", d, rq, cause), Detail: fmt.Sprintf("the worker process died while serving %s (state class %s/%s, prefix %v)\n%s", batch[off+i], st.side, st.class, st.prefix, clip(out.log, 3500))}}}
			for k := 0; k < i; k++ {
				if res[off+k] != nil && !res[off+k].Changed {
					r.History = append(r.History, batch[off+k])
				} else {
					r.History = nil
				}
			}
			res[off+i] = r
			c.mu.Lock()
			c.deaths++
			c.mu.Unlock()
			n = i + 1
		}
		if n == 0 {
			c.fail("unit %s/%s made no progress on %s", st.side, st.class, batch[off])
			return res, baseKey
		}
		off += n
	}
	return res, baseKey
}

func stateID(st *stateNode) string {
	return st.side + "/" + st.class + "|" + strings.Join(st.prefix, ",")
}

func (c *Coordinator) isBroken(st *stateNode) bool {
	c.mu.Lock()
	defer c.mu.Unlock()
	return c.broken[stateID(st)]
}

func vkey(v kernel.Violation) string { return v.Oracle + "|" + v.Signature }

// record folds one result into the counters and collects violations.
func (c *Coordinator) record(st *stateNode, r *Result, level int) {
	d, _ := ParseDesc(r.Desc)
	c.transitions++
	c.perClass[st.side+"/"+st.class]++
	c.status[st.side][r.Status]++
	c.bodyClasses[BodyGroup(d.Body)]++
	for _, s := range r.RepStatus {
		c.status[st.side][s]++
	}
	c.transitions += len(r.RepStatus)
	c.repeatRequests += len(r.RepStatus)
	if len(r.RepStatus) > 0 {
		c.repeatRuns++
	}
	if r.RepSkipped {
		c.repSuppressed++
	}
	c.probesOK += r.Probes
	if r.Expect != "" {
		c.expectCount[r.Expect[:minInt(len(r.Expect), 40)]]++
	}
	for _, o := range r.Obs {
		c.obs[o]++
	}
	if c.plan.C17 && d.Side == "R" && d.Tmpl == "/v1/replicas/{id}" && d.Method == "POST" && d.Action() != "" {
		m := c.matrix[r.State]
		if m == nil {
			m = map[string]int{}
			c.matrix[r.State] = m
		}
		m[fmt.Sprintf("%s:%d", d.Action(), r.Status)]++
	}
	for _, v := range r.Viol {
		base := v
		if !c.plan.OnlyOracle(strings.Split(v.Oracle, ":")[0]) {
			c.foreign[v.Oracle]++
			continue
		}
		k := vkey(base)
		if f, ok := c.viol[k]; ok {
			f.classes[st.side+"/"+st.class]++
			continue
		}
		f := &found{v: v, side: st.side, class: st.class, prefix: st.prefix, desc: r.Desc, history: r.History, req: r.Req, prefReqs: r.PrefixReqs, state: r.State, classes: map[string]int{st.side + "/" + st.class: 1}, died: v.Oracle == "died"}
		c.viol[k] = f
		c.violOrder = append(c.violOrder, k)
	}
}

func minInt(a, b int) int {
	if a < b {
		return a
	}
	return b
}

func chunks(l []string, n int) [][]string {
	var out [][]string
	for len(l) > 0 {
		k := n
		if k > len(l) {
			k = len(l)
		}
		out = append(out, l[:k])
		l = l[k:]
	}
	return out
}

func descStrings(ds []Desc) []string {
	out := make([]string, len(ds))
	for i, d := range ds {
		out[i] = d.String()
	}
	return out
}

// explore runs `alphabet` from every state of the frontier, in parallel, and returns the new states.
func (c *Coordinator) explore(frontier []*stateNode, alpha map[string][]string, level int, chunk int) (next []*stateNode, complete bool) {
	type task struct {
		st    *stateNode
		batch []string
		res   []*Result
	}
	var tasks []*task
	for _, st := range frontier {
		for _, b := range chunks(alpha[st.side], chunk) {
			tasks = append(tasks, &task{st: st, batch: b})
		}
	}
	complete = true
	var wg sync.WaitGroup
	sem := make(chan struct{}, c.plan.Workers)
	for _, t := range tasks {
		if time.Now().After(c.deadline) || c.failed() {
			complete = false
			break
		}
		t := t
		sem <- struct{}{}
		wg.Add(1)
		go func() {
			defer wg.Done()
			defer func() { <-sem }()
			t0 := time.Now()
			t.res, _ = c.runBatch(t.st, t.batch, false)
			if os.Getenv("VERIF_EE_DEBUG") != "" {
				fmt.Fprintf(os.Stderr, "task %s/%s prefix=%d first=%s n=%d took %.1fs (t=%.1f)\n", t.st.side, t.st.class, len(t.st.prefix), t.batch[0], len(t.batch), time.Since(t0).Seconds(), time.Since(c.start).Seconds())
			}
		}()
	}
	wg.Wait()
	executed := 0
	newStates := 0
	type repCand struct {
		node *stateNode
		rank int
	}
	reps := map[string]repCand{}
	var repOrder []string
	for _, t := range tasks {
		for _, r := range t.res {
			if r == nil {
				if !c.isBroken(t.st) {
					complete = false
				}
				continue
			}
			executed++
			c.record(t.st, r, level)
			if len(r.Viol) > 0 || r.Key == "" {
				continue // violating states are not expanded
			}
			if c.seen[r.Key] {
				continue
			}
			c.seen[r.Key] = true
			newStates++
			np := append(append([]string{}, t.st.prefix...), r.Desc)
			node := &stateNode{side: t.st.side, class: t.st.class, prefix: np, key: r.Key, depth: t.st.depth + 1}
			if !c.plan.ExpandAll && level > c.plan.ExpandAllDepth {
				// representatives: per (state, route, action) only the state reached by the best-formed request is expanded
				rk := t.st.side + "/" + t.st.class + "|" + strings.Join(t.st.prefix, ",") + "|" + sigStem(mustDesc(r.Desc))
				rank := bodyRank(mustDesc(r.Desc))
				if old, ok := reps[rk]; ok {
					c.notExpanded++
					if rank < old.rank {
						reps[rk] = repCand{node, rank}
					}
				} else {
					reps[rk] = repCand{node, rank}
					repOrder = append(repOrder, rk)
				}
			} else {
				next = append(next, node)
			}
			if len(c.samples) < 10 && (len(np) >= 2 || len(c.samples) < 4) {
				c.samples = append(c.samples, c.sampleOf(t.st, r))
			}
		}
		if t.res == nil && !c.isBroken(t.st) {
			complete = false
		}
	}
	for _, rk := range repOrder {
		next = append(next, reps[rk].node)
	}
	c.states += newStates
	c.perLevel = append(c.perLevel, newStates)
	c.execPerLevel = append(c.execPerLevel, executed)
	fmt.Fprintf(os.Stderr, "[%s E-E] level %d: %d states x alphabet -> executed %d requests (+repeats), new states %d, total states %d, violations so far %d, %.1fs\n",
		c.plan.Property, level, len(frontier), executed, newStates, c.states, len(c.viol), time.Since(c.start).Seconds())
	return next, complete
}

func (c *Coordinator) sampleOf(st *stateNode, r *Result) map[string]interface{} {
	d, _ := ParseDesc(r.Desc)
	rq, _ := Build(d, Facts{})
	m := map[string]interface{}{"side": st.side, "state_class": st.class, "class_events": ClassEvents(st.side, st.class), "prefix": st.prefix, "request": r.Desc, "status": r.Status, "state_changed": r.Changed}
	if rq != nil {
		if rq.BodyLen > 300 {
			rq.Body, rq.BodyB64 = nil, nil
		}
		m["request_written_out_symbols_unresolved"] = rq
	}
	return m
}

// Run is the whole check.
func (c *Coordinator) Run() int {
	p := c.plan
	if err := CheckRouteTables(); err != nil {
		fmt.Fprintf(os.Stderr, "HARNESS ERROR: route tables out of date: %v\n", err)
		return 2
	}
	alphaFull := map[string][]string{}
	alphaRed := map[string][]string{}
	for _, s := range p.Sides {
		alphaFull[s] = descStrings(p.Alphabet(s, false))
		alphaRed[s] = descStrings(p.Alphabet(s, true))
	}
	// level 0: the state classes, each built twice (determinism of the canonical key)
	var roots []*stateNode
	for _, s := range p.Sides {
		for _, cl := range p.Classes(s) {
			roots = append(roots, &stateNode{side: s, class: cl})
		}
	}
	var wg sync.WaitGroup
	keys := make([][2]string, len(roots))
	for i, st := range roots {
		for k := 0; k < 2; k++ {
			i, st, k := i, st, k
			wg.Add(1)
			go func() {
				defer wg.Done()
				res, bk := c.runBatch(st, []string{Desc{st.side, "GET", "/v1/replicas", "-", "-", "none", "n"}.String()}, false)
				keys[i][k] = bk
				// a state class whose probe set already fails when it is built is never explored: what the probes found there
				// is a result like any other (this result used to be dropped: a class broken from the start went unreported)
				if k == 0 {
					c.mu.Lock()
					for _, r := range res {
						if r != nil && len(r.Viol) > 0 {
							c.record(st, r, 0)
						}
					}
					c.mu.Unlock()
				}
			}()
		}
	}
	wg.Wait()
	for i, st := range roots {
		if c.failed() {
			break
		}
		if keys[i][0] == "" || keys[i][0] != keys[i][1] {
			c.fail("NONDETERMINISM: state class %s/%s built twice has keys %q and %q", st.side, st.class, keys[i][0], keys[i][1])
			break
		}
		c.detOK++
		st.key = keys[i][0]
		if !c.seen[st.key] {
			c.seen[st.key] = true
			c.states++
		}
	}
	c.perLevel = append(c.perLevel, c.states)
	c.execPerLevel = append(c.execPerLevel, 0)
	if !c.failed() {
		c.depthCompleted = 0
		// pilot: the reduced alphabet (with the repeat family) from every class - finds blocking handlers early so that
		// the repeat tails of the other body variants of the same route can be suppressed (each costs one watchdog period)
		fmt.Fprintf(os.Stderr, "[%s E-E] alphabets: %v full, %v reduced; %d state classes\n", p.Property, lens(alphaFull), lens(alphaRed), len(roots))
		frontier := roots
		frontiers := map[int][]*stateNode{}
		for level := 1; level <= p.Depth && len(frontier) > 0 && !c.failed(); level++ {
			var next []*stateNode
			complete := true
			frontiers[level] = frontier
			if level == 1 && p.Repeat > 1 {
				_, ok := c.explore(frontier, alphaRed, 0, 400) // pilot (its results are counted; states found again below)
				c.perLevel = c.perLevel[:len(c.perLevel)-1]
				c.execPerLevel = c.execPerLevel[:len(c.execPerLevel)-1]
				complete = ok
				// the pilot's states are re-found by the full level: forget them so that level 1 reports them
				c.states = len(roots2keys(roots))
				c.repSeen = map[string]bool{}
				c.notExpanded = 0
				c.seen = map[string]bool{}
				for _, st := range roots {
					c.seen[st.key] = true
				}
			}
			if complete {
				a := alphaFull
				if level > p.FullDepth {
					a = alphaRed
				}
				ch := p.Chunk
				if level > 1 {
					ch = p.Chunk / 2
				}
				next, complete = c.explore(frontier, a, level, ch)
				name := "full alphabet"
				if level > p.FullDepth {
					name = "reduced alphabet"
				}
				c.phases = append(c.phases, fmt.Sprintf("level %d: %s from %d states, complete=%v", level, name, len(frontier), complete))
			}
			if !complete {
				c.exhaustive = false
				break
			}
			c.depthCompleted = level
			if level <= p.FullDepth {
				c.fullDepthCompleted = level
			}
			frontier = next
		}
		// thorough tier: once the reduced alphabet has been taken to the full depth, the rest of the FULL alphabet is sent
		// from every state of level ExtraFullLevel-1 for as long as the budget lasts (states found here are counted, not expanded)
		if l := p.ExtraFullLevel; l > 1 && c.exhaustive && !c.failed() && len(frontiers[l]) > 0 {
			rest := map[string][]string{}
			for _, s := range p.Sides {
				in := map[string]bool{}
				for _, d := range alphaRed[s] {
					in[d] = true
				}
				for _, d := range alphaFull[s] {
					if !in[d] {
						rest[s] = append(rest[s], d)
					}
				}
			}
			_, complete := c.explore(frontiers[l], rest, l, p.Chunk)
			c.phases = append(c.phases, fmt.Sprintf("level %d: rest of the full alphabet from %d states, complete=%v", l, len(frontiers[l]), complete))
			if complete {
				c.fullDepthCompleted = l
			} else {
				c.exhaustive = false
			}
		}
	}
	return c.finish(alphaFull, alphaRed)
}

func roots2keys(r []*stateNode) map[string]bool {
	m := map[string]bool{}
	for _, s := range r {
		m[s.key] = true
	}
	return m
}

func lens(m map[string][]string) map[string]int {
	o := map[string]int{}
	for k, v := range m {
		o[k] = len(v)
	}
	return o
}

// confirm re-runs a violation 5 times on fresh instances; all 5 must show the same oracle and signature.
func (c *Coordinator) confirm(f *found) (ok bool, seq bool, note string) {
	try := func(u Unit, batch []string) (int, string) {
		hits := 0
		var wg sync.WaitGroup
		var mu sync.Mutex
		last := ""
		for k := 0; k < 5; k++ {
			wg.Add(1)
			go func() {
				defer wg.Done()
				uu := u
				out := c.runUnit(&unitJob{u: uu, batch: batch})
				hit := false
				if f.died {
					hit = out.died && out.diedAt == len(batch)-1 && Signature("died", mustDesc(batch[len(batch)-1]), builtOrEmpty(batch[len(batch)-1]), deathCause(out.log)) == f.v.Signature
				} else if out.err == "" && !out.died {
					for _, r := range out.results {
						for _, v := range r.Viol {
							if v.Oracle == f.v.Oracle && v.Signature == f.v.Signature {
								hit = true
							}
						}
					}
				}
				mu.Lock()
				if hit {
					hits++
				} else {
					last = fmt.Sprintf("died=%v at=%d err=%s results=%d", out.died, out.diedAt, clip(out.err, 300), len(out.results))
				}
				mu.Unlock()
			}()
		}
		wg.Wait()
		return hits, last
	}
	skip := []string{"-"} // non-nil: the repeat tail is never suppressed in a confirmation
	u := Unit{Side: f.side, Class: f.class, Prefix: f.prefix, Repeat: c.repeatFor(len(f.prefix) + 1), C17: c.plan.C17, Fresh: true, SkipRepeat: skip}
	n, last := try(u, []string{f.desc})
	if n == 5 {
		return true, false, ""
	}
	if len(f.history) > 0 {
		// not reproducible alone: the requests served by the same instance before it may matter - replay the sequence
		u.Fresh = false
		u.Sequence = true
		batch := append(append([]string{}, f.history...), f.desc)
		n2, last2 := try(u, batch)
		if n2 == 5 {
			return true, true, ""
		}
		return false, false, fmt.Sprintf("alone %d/5 (%s), as a sequence of %d requests %d/5 (%s)", n, last, len(batch), n2, last2)
	}
	return false, false, fmt.Sprintf("alone %d/5 (%s)", n, last)
}

func (c *Coordinator) repeatFor(level int) int {
	if level > c.plan.RepeatDepth {
		return 1
	}
	return c.plan.Repeat
}

// bodyRank orders requests from best-formed to worst (representative choice in the quick tier).
func bodyRank(d Desc) int {
	r := 0
	switch {
	case d.Body == "valid":
		r = 0
	case d.Body == "unk":
		r = 2
	case strings.HasPrefix(d.Body, "prot.") && !strings.Contains(d.Body, ".t"):
		r = 4
	case strings.HasPrefix(d.Body, "bad.") && !strings.Contains(d.Body, ".t"):
		r = 6
	case d.Body == "none":
		r = 8
	default:
		r = 10
	}
	if !strings.HasPrefix(d.CT, "j") {
		r++
	}
	if strings.Contains(d.CT, "!") {
		r += 2
	}
	if strings.HasPrefix(d.Act, "dup") {
		r += 20
	}
	return r
}

func mustDesc(s string) Desc { d, _ := ParseDesc(s); return d }
func (c *Coordinator) finish(alphaFull, alphaRed map[string][]string) int {
	p := c.plan
	if c.harnessErr != "" {
		fmt.Fprintf(os.Stderr, "HARNESS ERROR (check is broken, nothing is claimed): %s\n", c.harnessErr)
		return 2
	}
	findings := kernel.LoadFindings()
	reported, known, overCap := 0, 0, 0
	var vlist []map[string]interface{}
	// every violation is believed only if it fails 5 times out of 5; the confirmations run concurrently
	type conf struct {
		ok, seq bool
		note    string
		kf      *kernel.Finding
		skip    bool
	}
	confs := make([]*conf, len(c.violOrder))
	var cwg sync.WaitGroup
	nNew := 0
	for i, k := range c.violOrder {
		f := c.viol[k]
		cf := &conf{kf: kernel.KnownFor(findings, p.Property, f.v.Signature)}
		confs[i] = cf
		if cf.kf == nil {
			if nNew >= p.MaxReport {
				cf.skip = true
				continue
			}
			nNew++
		}
		cwg.Add(1)
		go func() {
			defer cwg.Done()
			cf.ok, cf.seq, cf.note = c.confirm(f)
		}()
	}
	cwg.Wait()
	for i, k := range c.violOrder {
		f := c.viol[k]
		cf := confs[i]
		if cf.skip {
			overCap++
			continue
		}
		if !cf.ok {
			fmt.Fprintf(os.Stderr, "HARNESS ERROR (nondeterminism): violation %s %s on %s/%s %s did not reproduce 5/5: %s\n  %s\n", f.v.Oracle, f.v.Signature, f.side, f.class, f.desc, cf.note, firstLines(f.v.Detail, 8))
			return 2
		}
		if cf.kf != nil {
			known++
			fmt.Printf("KNOWN-FINDING: property=%s %s [signature %s; state class %s/%s; request %s]\n", p.Property, cf.kf.What, f.v.Signature, f.side, f.class, f.desc)
			vlist = append(vlist, map[string]interface{}{"signature": f.v.Signature, "oracle": f.v.Oracle, "known": true, "classes": f.classes})
			continue
		}
		seq := cf.seq
		path := []string{f.desc}
		u := Unit{Side: f.side, Class: f.class, ClassEvents: ClassEvents(f.side, f.class), Prefix: f.prefix, Repeat: c.repeatFor(len(f.prefix) + 1), C17: p.C17, Fresh: true, SkipRepeat: []string{"-"}}
		if seq {
			path = append(append([]string{}, f.history...), f.desc)
			u.Fresh, u.Sequence = false, true
		}
		if f.req != nil {
			u.Requests = append(append([]*Req{}, f.prefReqs...), f.req)
		}
		cfg, _ := json.Marshal(u)
		rp := kernel.WriteReplay(&kernel.Replay{Property: p.Property, Engine: "E-E", Cfg: cfg, Path: path, Violation: f.v,
			Note: fmt.Sprintf("state class %s/%s built by %v; prefix requests %v; the request arrived in state %q; seen in classes %v", f.side, f.class, ClassEvents(f.side, f.class), f.prefix, f.state, f.classes)})
		reported++
		fmt.Printf("VIOLATION property=%s replay=%s\n  oracle=%s signature=%s\n  state class=%s/%s prefix=%v request=%s\n  %s\n", p.Property, rp, f.v.Oracle, f.v.Signature, f.side, f.class, f.prefix, f.desc, firstLines(f.v.Detail, 14))
		vlist = append(vlist, map[string]interface{}{"signature": f.v.Signature, "oracle": f.v.Oracle, "known": false, "replay": rp, "classes": f.classes, "state_class": f.side + "/" + f.class, "request": f.desc, "sequence": seq})
	}
	wall := time.Since(c.start)
	routes := map[string][]string{}
	actions := map[string][]string{}
	for _, s := range p.Sides {
		for _, r := range routesOf(s) {
			a := ""
			if r.Action != "" {
				a = "?action=" + r.Action
			}
			routes[s] = append(routes[s], r.Method+" "+r.Tmpl+a)
			if r.Action != "" {
				actions[s] = append(actions[s], r.Action)
			}
		}
		routes[s] = append(routes[s], "unknown/extra paths: "+strings.Join(extraPaths[s], " "))
	}
	statusOut := map[string]map[string]int{}
	for s, m := range c.status {
		statusOut[s] = map[string]int{}
		for code, n := range m {
			statusOut[s][fmt.Sprint(code)] = n
		}
	}
	if len(c.samples) == 0 {
		c.samples = append(c.samples, map[string]interface{}{"note": "no state-changing request was executed"})
	}
	cov := map[string]interface{}{
		"states": c.states, "transitions": c.transitions, "traces_validated_against_impl": c.transitions, "samples": c.samples, "exhaustive": c.exhaustive,
		"evaluations": c.transitions, "distinct_nontrivial": c.states,
		"rule": "explicit breadth-first search over server states with the REST request alphabet itself as the transition relation, on the real routers (ServeHTTP on a recorder) around a real replica.Server on disk (replica side) and a real controller.Controller with real *remote.Remote backends over model replica nodes (controller side); seeded with the listed state classes; every request of the alphabet is sent once in every state of every level and then 7 more times in a row (repeat family); a state is distinct/non-trivial when its canonical key (dump of the server object + files / E-B key) is new; states reached by a violating request are not expanded",
		"states_found_but_not_expanded_quick_tier_representatives_only": c.notExpanded, "expand_all_states": p.ExpandAll, "expand_all_states_found_up_to_level": p.ExpandAllDepth, "repeat_family_levels": p.RepeatDepth,
		"phases": c.phases, "full_alphabet_depth_completed": c.fullDepthCompleted, "depth_completed": c.depthCompleted, "max_depth": p.Depth, "full_alphabet_depth": p.FullDepth, "states_per_level": c.perLevel, "requests_per_level_without_repeats": c.execPerLevel,
		"alphabet_full": lens(alphaFull), "alphabet_reduced": lens(alphaRed),
		"requests_per_state_class": c.perClass, "routes": routes, "actions": actions, "body_classes": c.bodyClasses,
		"repeat_family_runs": c.repeatRuns, "repeat_family_requests": c.repeatRequests, "repeat_family_suppressed_same_signature_as_reported_blocking": c.repSuppressed,
		"status_codes_observed": statusOut, "probe_requests_answered_as_expected": c.probesOK, "write_read_probes": c.writeProbes, "write_probe_bisections": c.bisections, "write_probe_failed_once_then_served_observation": c.transientWrites,
		"requests_with_one_replica_call_failing_in_transit": c.faultReqs, "of_those_the_call_was_made_and_failed": c.faultHit, "fault_points_node_dot_kth_call": OutboundFaults,
		"worker_process_deaths": c.deaths, "instances_built": c.instances, "determinism_class_keys_identical": c.detOK, "determinism_state_keys_rechecked_on_rebuild": c.keyRechecks,
		"expectations_demanded": c.expectCount, "observations_ambiguous_not_violations": topN(c.obs, 60), "foreign_oracle_events_not_counted": c.foreign,
		"violations_listed": vlist, "state_classes_violating_on_their_own_not_explored": len(c.broken), "known_findings_hit": known, "violations_over_report_cap": overCap, "state_classes": classDoc(p),
	}
	if p.C17 {
		cov["state_action_status_matrix"] = c.matrix
		cov["reference_action_map"] = refActions
	}
	assumptions := []string{
		"requests are delivered by ServeHTTP on an httptest recorder: net/http's own parsing limits (header size, malformed request lines) are not exercised",
		"a handler that has not returned within 20 s (wall clock; jiva's own sleeps are scaled by 1/10000) is reported as blocked, with its goroutine dump",
		"instances are reused for consecutive requests that leave the canonical key unchanged; every violation is re-run 5 times on a fresh instance (alone, else as the sequence served by that instance) before it is reported",
		"the 1-block write/read probe changes the state and is therefore run at the end of every instance's life (after every state-changing request, after a run of state-preserving ones, with bisection when it fails); the GET probes, TryLock and (replica) a 1-block read run after every request",
		"controller side: replica nodes are E-B's sequential model nodes behind the in-process transport; the harness plays remote.monitorPing (internal events are drained after every request)",
		"replica side: nobody consumes replica.ActionChannel (in a replica process sync.AddReplica takes one signal per registration and none afterwards)",
		"/debug/pprof/profile and /debug/pprof/trace (wall-clock sampling endpoints of net/http/pprof) are not requested",
		"map iteration order inside jiva is not enumerated; keys and oracles are order-insensitive",
	}
	ev := &kernel.Evidence{PropertyID: p.Property, Tier: kernel.Tier(), Seed: kernel.Seed(), Level: "model_checking", Coverage: cov, Assumptions: assumptions, WallS: wall.Seconds(), Violations: reported}
	if p.C17 {
		ev.PropertyID = "C17"
		if err := writeEvidenceAs(ev, "C17-rest.part.json"); err != nil {
			fmt.Fprintf(os.Stderr, "evidence: %v\n", err)
			return 2
		}
	} else if err := kernel.WriteEvidence(ev); err != nil {
		fmt.Fprintf(os.Stderr, "evidence: %v\n", err)
		return 2
	}
	fmt.Printf("%s[E-E]: states=%d requests=%d (repeat-family runs %d) depth=%d/%d exhaustive=%v violations=%d known=%d deaths=%d wall=%.1fs\n",
		p.Property, c.states, c.transitions, c.repeatRuns, c.depthCompleted, p.Depth, c.exhaustive, reported, known, c.deaths, wall.Seconds())
	if reported > 0 {
		return 1
	}
	return 0
}

func writeEvidenceAs(e *kernel.Evidence, name string) error {
	dir := filepath.Join(kernel.OutDir(), "evidence")
	os.MkdirAll(dir, 0755)
	b, _ := json.MarshalIndent(e, "", " ")
	return os.WriteFile(filepath.Join(dir, name), append(b, '\n'), 0644)
}

func classDoc(p *Plan) map[string]interface{} {
	m := map[string]interface{}{}
	for _, s := range p.Sides {
		for _, c := range p.Classes(s) {
			m[s+"/"+c] = ClassEvents(s, c)
		}
	}
	return m
}

func topN(m map[string]int, n int) map[string]int {
	type kv struct {
		k string
		v int
	}
	var l []kv
	for k, v := range m {
		l = append(l, kv{k, v})
	}
	sort.Slice(l, func(i, j int) bool { return l[i].v > l[j].v || (l[i].v == l[j].v && l[i].k < l[j].k) })
	out := map[string]int{}
	for i, x := range l {
		if i >= n {
			out["(more)"] += x.v
			continue
		}
		out[x.k] = x.v
	}
	return out
}

func firstLines(s string, n int) string {
	l := strings.Split(s, "\n")
	if len(l) > n {
		l = append(l[:n], "…")
	}
	return strings.Join(l, "\n  ")
}

// ReplayFile re-executes a replay artefact in a worker sub-process (the request may kill the process).
func ReplayFile(path string) int {
	rp, err := kernel.ReadReplay(path)
	if err != nil {
		fmt.Fprintln(os.Stderr, err)
		return 2
	}
	var u Unit
	if err := json.Unmarshal(rp.Cfg, &u); err != nil {
		fmt.Fprintln(os.Stderr, "replay cfg:", err)
		return 2
	}
	c := NewCoordinator(&Plan{Property: rp.Property, Workers: 1, Budget: time.Hour, Repeat: u.Repeat, OnlyOracle: func(string) bool { return true }})
	defer c.Close()
	u.Requests = nil
	fmt.Printf("replay %s: state class %s/%s (%v), prefix %v\n", path, u.Side, u.Class, ClassEvents(u.Side, u.Class), u.Prefix)
	out := c.runUnit(&unitJob{u: u, batch: rp.Path, trace: true})
	for _, n := range out.notes {
		fmt.Println("  ", n)
	}
	hit := false
	if out.died {
		if out.diedAt >= 0 {
			fmt.Printf("  the worker process DIED while serving %s\n%s\n", rp.Path[out.diedAt], indent(clip(out.log, 3500)))
			hit = rp.Violation.Oracle == "died"
			if hit {
				fmt.Printf("VIOLATION property=%s replay=%s\n  oracle=died signature=%s\n", rp.Property, path, Signature("died", mustDesc(rp.Path[out.diedAt]), builtOrEmpty(rp.Path[out.diedAt]), deathCause(out.log)))
			}
		} else {
			fmt.Println("harness error:", out.err)
			return 2
		}
	} else if out.err != "" {
		fmt.Println("harness error:", out.err)
		return 2
	}
	for _, r := range out.results {
		for _, v := range r.Viol {
			fmt.Printf("VIOLATION property=%s replay=%s\n  oracle=%s signature=%s\n  %s\n", rp.Property, path, v.Oracle, v.Signature, firstLines(v.Detail, 40))
			hit = true
		}
	}
	if hit {
		return 1
	}
	fmt.Println("replay: no violation")
	return 0
}

func builtOrEmpty(desc string) *Req {
	if r, err := Build(mustDesc(desc), Facts{}); err == nil {
		return r
	}
	return &Req{}
}

func indent(s string) string { return "    " + strings.ReplaceAll(s, "\n", "\n    ") }
