// Package ee is engine E-E: every request shape of the management APIs in every server state, on the real routers
// controller/rest.NewRouter and replica/rest.NewRouter (ServeHTTP on a recorder, no sockets), in worker sub-processes.
package ee

import (
	"encoding/base64"
	"fmt"
	"net/url"
	"sort"
	"strings"
)

// Desc names one request of the alphabet.  It is symbolic: ids and names that depend on the server state ($HEAD,
// $LATEST, the id of an attached replica, ...) are resolved against the facts of the state class when the request is
// built, so the same descriptor means "delete the head" in every class.
type Desc struct {
	Side   string // "R" replica router, "C" controller router
	Method string
	Tmpl   string // route template of the router, or an unknown path
	ID     string // id class ("-" when the template has no {id})
	Act    string // "-" no query | "=name" | "unknown" | "empty" | "dup:name" (?action=name&action=nosuch) | "dup2:name" (?action=nosuch&action=name)
	Body   string // body class
	CT     string // "j" application/json | "n" none | "j!h.k" application/json and the k-th call this request makes to the REST API of replica node h fails in transit (controller side only)
}

func (d Desc) String() string {
	return strings.Join([]string{d.Side, d.Method, d.Tmpl, d.ID, d.Act, d.Body, d.CT}, "|")
}

func ParseDesc(s string) (Desc, error) {
	f := strings.Split(s, "|")
	if len(f) != 7 {
		return Desc{}, fmt.Errorf("bad request descriptor %q", s)
	}
	return Desc{f[0], f[1], f[2], f[3], f[4], f[5], f[6]}, nil
}

// Action is the action name the query selects ("" when none / unknown / empty).
func (d Desc) Action() string {
	switch {
	case strings.HasPrefix(d.Act, "="):
		return d.Act[1:]
	case strings.HasPrefix(d.Act, "dup:"):
		return d.Act[4:]
	case strings.HasPrefix(d.Act, "pair:"):
		return pairExecuted(d.Act)
	}
	return ""
}

var Methods = []string{"GET", "POST", "PUT", "DELETE", "PATCH"}

// OutboundFaults are the "h.k" fault points of the controller-side alphabet: the k-th REST call to replica node h
// (1 = 10.0.0.1) made while the request is served fails.  Counting per destination keeps the point the same whatever
// order the controller's fan-out goroutines run in.
var OutboundFaults = []string{"1.1", "1.2", "2.1", "2.2"}

// FaultOf returns the fault point of a descriptor (0, 0 when it has none).
func (d Desc) FaultOf() (node, k int) {
	if i := strings.Index(d.CT, "!"); i >= 0 {
		fmt.Sscanf(d.CT[i+1:], "%d.%d", &node, &k)
	}
	return
}

type field struct{ K, V string } // V is a raw JSON value

// bodySpec describes the well-typed body of one handler.
type bodySpec struct {
	Valid    []field            // valid names / values
	Unknown  []field            // same shape, names that do not exist
	Prot     map[string][]field // protected names (head, latest snapshot, base, checkpoint)
	Bad      map[string][]field // well-typed but invalid values
	Requires bool               // the handler must refuse a body it cannot parse
}

// route is one registered route of a router.
type route struct {
	Method string // "*" = any
	Tmpl   string
	Action string // "" = no Queries("action", …) matcher
	Prefix bool   // PathPrefix route
	Body   *bodySpec
	Mut    bool // may change server state when well-formed (used to pick the reduced alphabet)
}

func f(kv ...string) []field {
	var out []field
	for i := 0; i+1 < len(kv); i += 2 {
		out = append(out, field{kv[i], kv[i+1]})
	}
	return out
}

func q(s string) string { return `"` + s + `"` }

const created = `"2020-01-01T00:00:00Z"`

var logBody = `{"enable":false,"maxlogfilesize":1,"retentionperiod":1,"maxbackups":1}`
var logBodyOn = `{"enable":true,"maxlogfilesize":1,"retentionperiod":1,"maxbackups":1}`

// ---- replica router (replica/rest/router.go) ----------------------------------------------------------------

var replicaActions = []string{"start", "reload", "updatecloneinfo", "snapshot", "open", "close", "resize", "removedisk", "replacedisk", "setrebuilding",
	"setlogging", "create", "revert", "prepareremovedisk", "setrevisioncounter", "setreplicamode", "setcheckpoint"}

// names NewReplica advertises but the router does not register
var replicaUnroutedActions = []string{"updatediskmode", "setreplicacounter"}

func replicaBody(a string) *bodySpec {
	switch a {
	case "start":
		return &bodySpec{Valid: f("Action", q("start")), Unknown: f("Action", q("bogus")), Bad: map[string][]field{"add": f("Action", q("add")), "emptyval": f("Action", q(""))}, Requires: true}
	case "updatecloneinfo":
		return &bodySpec{Valid: f("snapname", q("s1"), "revisioncounter", q("5")), Unknown: f("snapname", q("nosuch"), "revisioncounter", q("5")),
			Bad: map[string][]field{"rev": f("snapname", q("s1"), "revisioncounter", q("x")), "negrev": f("snapname", q("s1"), "revisioncounter", q("-3"))}, Requires: true}
	case "snapshot":
		return &bodySpec{Valid: f("name", q("x1"), "usercreated", "true", "created", created), Unknown: f("name", q("x2"), "usercreated", "false", "created", created),
			Prot: map[string][]field{
				"latest": f("name", q("$LATESTN"), "usercreated", "true", "created", created),
				"base":   f("name", q("$BASEN"), "usercreated", "true", "created", created),
				"head":   f("name", q("$HEAD"), "usercreated", "true", "created", created),
				"cp":     f("name", q("$CPN"), "usercreated", "false", "created", created)},
			Bad:      map[string][]field{"noname": f("name", q(""), "usercreated", "true", "created", created), "nocreated": f("name", q("x3"), "usercreated", "true", "created", q("")), "slash": f("name", q("../x"), "usercreated", "true", "created", created)},
			Requires: true}
	case "resize":
		return &bodySpec{Valid: f("name", q("vol"), "size", q("32768")), Unknown: f("name", q("nosuch"), "size", q("32768")),
			Bad:      map[string][]field{"shrink": f("name", q("vol"), "size", q("4096")), "garbage": f("name", q("vol"), "size", q("12q")), "emptysize": f("name", q("vol"), "size", q("")), "neg": f("name", q("vol"), "size", q("-4096")), "same": f("name", q("vol"), "size", q("16384"))},
			Requires: true}
	case "removedisk":
		return &bodySpec{Valid: f("name", q("$MID")), Unknown: f("name", q("volume-snap-nosuch.img")),
			Prot:     map[string][]field{"head": f("name", q("$HEAD")), "latest": f("name", q("$LATEST")), "base": f("name", q("$BASE")), "cp": f("name", q("$CP"))},
			Bad:      map[string][]field{"emptyname": f("name", q("")), "meta": f("name", q("volume.meta")), "dotdot": f("name", q("../x"))},
			Requires: true}
	case "replacedisk":
		return &bodySpec{Valid: f("target", q("$BASE"), "source", q("$MID")), Unknown: f("target", q("volume-snap-nosuch.img"), "source", q("volume-snap-nosuch2.img")),
			Prot: map[string][]field{"head": f("target", q("$HEAD"), "source", q("$LATEST")), "latest": f("target", q("$LATEST"), "source", q("$BASE")),
				"base": f("target", q("$MID"), "source", q("$BASE")), "cp": f("target", q("$CP"), "source", q("$BASE"))},
			Bad:      map[string][]field{"same": f("target", q("$MID"), "source", q("$MID")), "emptynames": f("target", q(""), "source", q("")), "srchead": f("target", q("$BASE"), "source", q("$HEAD"))},
			Requires: true}
	case "setrebuilding":
		return &bodySpec{Valid: f("rebuilding", "true"), Unknown: f("rebuilding", "false"), Requires: true}
	case "setlogging":
		return &bodySpec{Valid: f("logtofile", logBody), Unknown: f("logtofile", logBodyOn),
			Bad: map[string][]field{"neg": f("logtofile", `{"enable":true,"maxlogfilesize":-1,"retentionperiod":-1,"maxbackups":-1}`)}, Requires: true}
	case "create":
		return &bodySpec{Valid: f("size", q("16384")), Unknown: f("size", q("8192")),
			Bad:      map[string][]field{"zero": f("size", q("0")), "garbage": f("size", q("12q")), "neg": f("size", q("-4096")), "odd": f("size", q("1000")), "max": f("size", q("4611686018427387904")), "emptysize": f("size", q(""))},
			Requires: true}
	case "revert":
		return &bodySpec{Valid: f("name", q("$BASE"), "created", created), Unknown: f("name", q("volume-snap-nosuch.img"), "created", created),
			Prot:     map[string][]field{"head": f("name", q("$HEAD"), "created", created), "latest": f("name", q("$LATEST"), "created", created), "cp": f("name", q("$CP"), "created", created), "meta": f("name", q("volume.meta"), "created", created)},
			Bad:      map[string][]field{"noname": f("name", q(""), "created", created), "nocreated": f("name", q("$BASE"), "created", q(""))},
			Requires: true}
	case "prepareremovedisk":
		return &bodySpec{Valid: f("name", q("$MID")), Unknown: f("name", q("nosuch")),
			Prot:     map[string][]field{"head": f("name", q("$HEAD")), "latest": f("name", q("$LATEST")), "base": f("name", q("$BASE")), "cp": f("name", q("$CP")), "shortmid": f("name", q("$MIDN"))},
			Bad:      map[string][]field{"emptyname": f("name", q(""))},
			Requires: true}
	case "setrevisioncounter":
		return &bodySpec{Valid: f("counter", q("7")), Unknown: f("counter", q("1")), Bad: map[string][]field{"garbage": f("counter", q("x")), "neg": f("counter", q("-1")), "huge": f("counter", q("99999999999999999999"))}, Requires: true}
	case "setreplicamode":
		return &bodySpec{Valid: f("mode", q("RW")), Unknown: f("mode", q("WO")), Bad: map[string][]field{"err": f("mode", q("ERR")), "junk": f("mode", q("junk")), "emptymode": f("mode", q(""))}, Requires: true}
	case "setcheckpoint":
		return &bodySpec{Valid: f("snapshotName", q("$LATEST")), Unknown: f("snapshotName", q("volume-snap-nosuch.img")),
			Prot: map[string][]field{"head": f("snapshotName", q("$HEAD")), "base": f("snapshotName", q("$BASE"))}, Bad: map[string][]field{"emptyname": f("snapshotName", q(""))}, Requires: true}
	}
	return nil // reload, open, close: no body
}

func replicaRoutes() []route {
	rs := []route{
		{Method: "GET", Tmpl: "/ping"}, {Method: "GET", Tmpl: "/"}, {Method: "GET", Tmpl: "/v1/schemas"}, {Method: "GET", Tmpl: "/v1/schemas/{id}"}, {Method: "GET", Tmpl: "/v1"},
		{Method: "GET", Tmpl: "/v1/stats"}, {Method: "GET", Tmpl: "/v1/rebuildinfo"}, {Method: "GET", Tmpl: "/v1/replicas"}, {Method: "GET", Tmpl: "/v1/replicas/{id}"},
		{Method: "GET", Tmpl: "/v1/replicas/{id}/volusage"}, {Method: "DELETE", Tmpl: "/v1/replicas/{id}", Mut: true}, {Method: "DELETE", Tmpl: "/v1/delete", Mut: true},
		{Method: "*", Tmpl: "/metrics"}, {Method: "*", Tmpl: "/debug/pprof/", Prefix: true},
	}
	for _, a := range replicaActions {
		rs = append(rs, route{Method: "POST", Tmpl: "/v1/replicas/{id}", Action: a, Body: replicaBody(a), Mut: true})
	}
	return rs
}

// refActions is the reference state -> allowed-actions table of the replica API (restated from the documented
// behaviour of replica/rest/model.go NewReplica; deliberately NOT read from the implementation at run time, so that an
// action added to the wrong state's map is a finding).  Only routed actions are listed.
var refActions = map[string][]string{
	"initial": {"start", "create", "resize", "updatecloneinfo"},
	"open": {"start", "resize", "close", "setrebuilding", "setlogging", "snapshot", "reload", "removedisk", "replacedisk", "revert", "prepareremovedisk",
		"setreplicamode", "setrevisioncounter", "updatecloneinfo", "setcheckpoint"},
	"closed": {"start", "open", "resize", "removedisk", "replacedisk", "revert", "updatecloneinfo", "prepareremovedisk"},
	"dirty": {"start", "resize", "setrebuilding", "setlogging", "close", "snapshot", "reload", "removedisk", "replacedisk", "revert", "setreplicamode",
		"prepareremovedisk", "updatecloneinfo", "setcheckpoint"},
	"rebuilding": {"setrebuilding", "setlogging", "close", "reload", "setreplicamode", "setrevisioncounter", "updatecloneinfo", "setcheckpoint"},
	"error":      {},
}

func refAllows(state, action string) bool {
	for _, a := range refActions[state] {
		if a == action {
			return true
		}
	}
	return false
}

// ---- controller router (controller/rest/router.go) -----------------------------------------------------------

var controllerVolumeActions = []string{"start", "shutdown", "snapshot", "revert", "resize", "setlogging", "deleteSnapshot"}
var controllerReplicaActions = []string{"preparerebuild", "verifyrebuild"}

func controllerBody(key string) *bodySpec {
	switch key {
	case "start":
		return &bodySpec{Valid: f("replicas", `["$SIGADDR"]`), Unknown: f("replicas", `["tcp://10.9.9.9:9502"]`),
			Bad:      map[string][]field{"emptylist": f("replicas", `[]`), "junk": f("replicas", `["notanaddress"]`), "att": f("replicas", `["$ATT0ADDR"]`), "two": f("replicas", `["$SIGADDR","$DETADDR"]`)},
			Requires: true}
	case "snapshot":
		return &bodySpec{Valid: f("name", q("x1")), Unknown: f("name", q("")),
			Prot:     map[string][]field{"latest": f("name", q("$LATESTN")), "cp": f("name", q("$CPN")), "base": f("name", q("$BASEN"))},
			Bad:      map[string][]field{"slash": f("name", q("../x"))},
			Requires: true}
	case "revert":
		return &bodySpec{Valid: f("name", q("$BASEN")), Unknown: f("name", q("nosuch")),
			Prot: map[string][]field{"latest": f("name", q("$LATESTN")), "cp": f("name", q("$CPN")), "head": f("name", q("$HEAD"))}, Bad: map[string][]field{"emptyname": f("name", q(""))}, Requires: true}
	case "resize":
		return &bodySpec{Valid: f("name", q("vol"), "size", q("32768")), Unknown: f("name", q("nosuch"), "size", q("32768")),
			Bad:      map[string][]field{"shrink": f("name", q("vol"), "size", q("4096")), "garbage": f("name", q("vol"), "size", q("12q")), "emptysize": f("name", q("vol"), "size", q("")), "neg": f("name", q("vol"), "size", q("-4096")), "same": f("name", q("vol"), "size", q("16384"))},
			Requires: true}
	case "setlogging":
		return &bodySpec{Valid: f("logtofile", logBody), Unknown: f("logtofile", logBodyOn), Requires: true}
	case "deleteSnapshot":
		return &bodySpec{Valid: f("name", q("$BASEN")), Unknown: f("name", q("nosuch")),
			Prot: map[string][]field{"cp": f("name", q("$CPN")), "latest": f("name", q("$LATESTN")), "head": f("name", q("$HEAD")), "emptyname": f("name", q(""))}, Requires: true}
	case "register":
		reg := func(addr, uuid, rev, typ, st string) []field {
			return f("Address", q(addr), "UUID", q(uuid), "RevCount", q(rev), "RepType", q(typ), "RepState", q(st), "UpTime", "1000")
		}
		return &bodySpec{Valid: reg("$REGIP", "uuid-r", "1", "Backend", "closed"), Unknown: reg("10.9.9.9", "uuid-x", "1", "Backend", "closed"),
			Prot: map[string][]field{"att": reg("$ATT0IP", "uuid-0", "1", "Backend", "closed"), "leader": reg("$SIGIP", "uuid-s", "9", "Backend", "closed")},
			Bad: map[string][]field{"nouuid": reg("$REGIP", "", "1", "Backend", "closed"), "quorum": reg("$REGIP", "uuid-q", "1", "quorum", "closed"), "rebuilding": reg("$REGIP", "uuid-r", "7", "Backend", "rebuilding"),
				"rev": reg("$REGIP", "uuid-r", "notanumber", "Backend", "closed"), "sameuuid": reg("$DETIP", "uuid-0", "1", "Backend", "closed")},
			Requires: true}
	case "createreplica", "createquorum":
		return &bodySpec{Valid: f("address", q("$DETADDR")), Unknown: f("address", q("tcp://10.9.9.9:9502")),
			Prot:     map[string][]field{"att": f("address", q("$ATT0ADDR")), "att1": f("address", q("$ATT1ADDR"))},
			Bad:      map[string][]field{"junk": f("address", q("notanaddress")), "emptyaddr": f("address", q(""))},
			Requires: true}
	case "update":
		return &bodySpec{Valid: f("mode", q("ERR")), Unknown: f("mode", q("RW")), Bad: map[string][]field{"wo": f("mode", q("WO")), "junk": f("mode", q("junk")), "emptymode": f("mode", q(""))}, Requires: true}
	case "journal":
		return &bodySpec{Valid: f("limit", "5"), Unknown: f("limit", "0"), Bad: map[string][]field{"neg": f("limit", "-1"), "big": f("limit", "2147483647")}, Requires: true}
	case "timeout":
		return &bodySpec{Valid: f("timeout", q("5")), Unknown: f("rpcPingTimeout", q("5")), Bad: map[string][]field{"both": f("timeout", q("x"), "rpcPingTimeout", q("y")), "emptyvals": f("timeout", q(""), "rpcPingTimeout", q(""))}, Requires: true}
	}
	return nil
}

func controllerRoutes() []route {
	rs := []route{
		{Method: "GET", Tmpl: "/"}, {Method: "GET", Tmpl: "/v1/schemas"}, {Method: "GET", Tmpl: "/v1/schemas/{id}"}, {Method: "GET", Tmpl: "/v1"},
		{Method: "GET", Tmpl: "/v1/volumes"}, {Method: "GET", Tmpl: "/v1/volumes/{id}"}, {Method: "GET", Tmpl: "/v1/stats"}, {Method: "GET", Tmpl: "/v1/checkpoint"},
	}
	for _, a := range controllerVolumeActions {
		m := "POST"
		if a == "deleteSnapshot" {
			m = "DELETE"
		}
		rs = append(rs, route{Method: m, Tmpl: "/v1/volumes/{id}", Action: a, Body: controllerBody(a), Mut: true})
	}
	rs = append(rs,
		route{Method: "GET", Tmpl: "/v1/replicas"}, route{Method: "GET", Tmpl: "/v1/replicas/{id}"},
		route{Method: "POST", Tmpl: "/v1/register", Body: controllerBody("register"), Mut: true},
		route{Method: "POST", Tmpl: "/v1/replicas", Body: controllerBody("createreplica"), Mut: true},
		route{Method: "POST", Tmpl: "/v1/quorumreplicas", Body: controllerBody("createquorum"), Mut: true},
		route{Method: "POST", Tmpl: "/v1/replicas/{id}", Action: "preparerebuild", Mut: true},
		route{Method: "POST", Tmpl: "/v1/replicas/{id}", Action: "verifyrebuild", Mut: true},
		route{Method: "DELETE", Tmpl: "/v1/replicas/{id}", Mut: true},
		route{Method: "PUT", Tmpl: "/v1/replicas/{id}", Body: controllerBody("update"), Mut: true},
		route{Method: "*", Tmpl: "/metrics"},
		route{Method: "POST", Tmpl: "/v1/journal", Body: controllerBody("journal")},
		route{Method: "POST", Tmpl: "/v1/delete", Mut: true},
		route{Method: "POST", Tmpl: "/timeout", Body: controllerBody("timeout"), Mut: true},
		route{Method: "*", Tmpl: "/debug/pprof/", Prefix: true},
	)
	return rs
}

var routeCache = map[string][]route{}

func routesOf(side string) []route {
	if r, ok := routeCache[side]; ok {
		return r
	}
	var r []route
	if side == "R" {
		r = replicaRoutes()
	} else {
		r = controllerRoutes()
	}
	routeCache[side] = r
	return r
}

// extra path templates: concrete paths below the pprof prefix and paths no route knows
var extraPaths = map[string][]string{
	"R": {"/debug/pprof/cmdline", "/debug/pprof/goroutine", "/debug/pprof/nosuch", "/nosuch", "/v1/nosuch", "/v1/replicas/{id}/nosuch", "/v2/replicas", "/v1/volumes", "/PING"},
	"C": {"/debug/pprof/cmdline", "/debug/pprof/goroutine", "/debug/pprof/nosuch", "/nosuch", "/v1/nosuch", "/v1/volumes/{id}/nosuch", "/v2/volumes", "/ping", "/v1/rebuildinfo", "/v1/replicas/{id}/volusage"},
}

// templates lists every path template of a side: the router's own plus the extras.
func templates(side string) []string {
	seen := map[string]bool{}
	var out []string
	for _, r := range routesOf(side) {
		if !seen[r.Tmpl] {
			seen[r.Tmpl] = true
			out = append(out, r.Tmpl)
		}
	}
	for _, p := range extraPaths[side] {
		if !seen[p] {
			seen[p] = true
			out = append(out, p)
		}
	}
	return out
}

// match finds the registered route a request selects (nil: the router knows no such route).  Repeated action keys are
// not decided here (ambiguous=true).
func match(side, method, tmpl, act string) (r *route, ambiguous bool) {
	if strings.HasPrefix(act, "dup") {
		ambiguous = true
	}
	rs := routesOf(side)
	action := ""
	if strings.HasPrefix(act, "=") {
		action = act[1:]
	}
	for i := range rs {
		x := &rs[i]
		if x.Method != "*" && x.Method != method {
			continue
		}
		if x.Prefix {
			if !strings.HasPrefix(tmpl, x.Tmpl) {
				continue
			}
		} else if x.Tmpl != tmpl {
			continue
		}
		if x.Action != "" && x.Action != action {
			continue
		}
		if ambiguous {
			return nil, true
		}
		return x, false
	}
	return nil, ambiguous
}

// pathKnown reports whether any method/action of the router serves this template.
func pathKnown(side, tmpl string) bool {
	for _, x := range routesOf(side) {
		if x.Tmpl == tmpl || (x.Prefix && strings.HasPrefix(tmpl, x.Tmpl)) {
			return true
		}
	}
	return false
}

// ---- ids ----------------------------------------------------------------------------------------------------

// id classes per template: primary ids get the full body family, the others a small one.
func idsFor(side, tmpl string) (primary, others []string) {
	if !strings.Contains(tmpl, "{id}") {
		return []string{"-"}, nil
	}
	switch {
	case strings.Contains(tmpl, "/schemas/"):
		return []string{"schema"}, []string{"nosuch", "empty", "long"}
	case side == "R":
		return []string{"1", "2"}, []string{"vol", "b64addr", "nb64", "empty", "long"}
	case strings.HasPrefix(tmpl, "/v1/volumes/"):
		return []string{"vol", "1"}, []string{"2", "volraw", "att0", "det", "unkb64", "nb64", "empty", "long"}
	default: // controller /v1/replicas/{id}
		return []string{"att0", "att1", "det"}, []string{"unkb64", "1", "2", "vol", "nb64", "empty", "long"}
	}
}

// ---- bodies -------------------------------------------------------------------------------------------------

func jsonOf(fs []field) string {
	var b strings.Builder
	b.WriteString("{")
	for i, x := range fs {
		if i > 0 {
			b.WriteString(",")
		}
		b.WriteString(q(x.K) + ":" + x.V)
	}
	b.WriteString("}")
	return b.String()
}

// tokens splits a JSON text into its lexical tokens (structural characters, strings, numbers, literals).
func tokens(s string) []string {
	var out []string
	for i := 0; i < len(s); {
		c := s[i]
		switch {
		case c == ' ' || c == '\n' || c == '\t':
			i++
		case strings.ContainsRune("{}[]:,", rune(c)):
			out = append(out, string(c))
			i++
		case c == '"':
			j := i + 1
			for j < len(s) && s[j] != '"' {
				if s[j] == '\\' {
					j++
				}
				j++
			}
			out = append(out, s[i:j+1])
			i = j + 1
		default:
			j := i
			for j < len(s) && !strings.ContainsRune("{}[]:, \n\t\"", rune(s[j])) {
				j++
			}
			out = append(out, s[i:j])
			i = j
		}
	}
	return out
}

func wrongTypes(v string) map[string]string {
	switch {
	case strings.HasPrefix(v, `"`):
		return map[string]string{"num": "5", "obj": "{}"}
	case v == "true" || v == "false":
		return map[string]string{"str": `"yes"`}
	case strings.HasPrefix(v, "["):
		return map[string]string{"str": `"str"`, "nums": "[1,2]"}
	case strings.HasPrefix(v, "{"):
		return map[string]string{"num": "7"}
	default:
		return map[string]string{"str": `"x"`, "frac": "1.5"}
	}
}

func sortedKeys(m map[string][]field) []string {
	var ks []string
	for k := range m {
		ks = append(ks, k)
	}
	sort.Strings(ks)
	return ks
}

// base returns the named, untruncated bodies of a spec: class -> fields.
func (s *bodySpec) base() ([]string, map[string][]field) {
	m := map[string][]field{"valid": s.Valid}
	order := []string{"valid"}
	if s.Unknown != nil {
		m["unk"] = s.Unknown
		order = append(order, "unk")
	}
	for _, k := range sortedKeys(s.Prot) {
		m["prot."+k] = s.Prot[k]
		order = append(order, "prot."+k)
	}
	for _, k := range sortedKeys(s.Bad) {
		m["bad."+k] = s.Bad[k]
		order = append(order, "bad."+k)
	}
	return order, m
}

var genericSmall = []string{"none", "obj", "nonjson"}
var genericFull = []string{"none", "empty", "obj", "arr", "null", "num", "str", "nonjson", "hugeobj", "deep"}

// family lists the body classes generated for a matched route: full = the primary-id family.
// Content-Type none is generated for the untruncated classes only (withCTnone).
func family(r *route, full bool) (classes []string, withCTnone map[string]bool) {
	withCTnone = map[string]bool{}
	if !full {
		classes = []string{"none", "obj"}
		if r.Body != nil {
			classes = append(classes, "valid")
		}
		for _, c := range classes {
			withCTnone[c] = true
		}
		return
	}
	classes = append(classes, genericFull...)
	for _, c := range genericFull {
		withCTnone[c] = true
	}
	if r.Body == nil {
		return
	}
	order, m := r.Body.base()
	for _, name := range order {
		classes = append(classes, name)
		withCTnone[name] = true
		if strings.HasPrefix(name, "bad.") {
			continue // truncations are generated for valid / unknown / protected names
		}
		n := len(tokens(jsonOf(m[name])))
		for i := 1; i < n; i++ {
			classes = append(classes, fmt.Sprintf("%s.t%d", name, i))
		}
	}
	for _, fl := range r.Body.Valid {
		var kinds []string
		for k := range wrongTypes(fl.V) {
			kinds = append(kinds, k)
		}
		sort.Strings(kinds)
		for _, k := range kinds {
			c := "wt." + fl.K + "." + k
			classes = append(classes, c)
			withCTnone[c] = true
		}
	}
	classes = append(classes, "huge", "extra", "dupfield")
	withCTnone["huge"] = true
	return
}

// BodyGroup is the coarse body class used in signatures and tables.
func BodyGroup(class string) string {
	switch {
	case class == "none" || class == "empty":
		return "absent"
	case strings.Contains(class, ".t"):
		return "truncated"
	case strings.HasPrefix(class, "wt."):
		return "wrongtype"
	case class == "valid" || class == "unk" || strings.HasPrefix(class, "prot.") || strings.HasPrefix(class, "bad.") || class == "extra" || class == "dupfield":
		return strings.Split(class, ".")[0]
	}
	return class
}

// Alphabet generates the request alphabet of one side.  reduced=true: one well-formed request per (route, action, id
// class of interest, valid/unknown/protected/bad body) plus one malformed one - the requests that can change state.
func Alphabet(side string, reduced bool) []Desc {
	var out []Desc
	emit := func(d Desc) { out = append(out, d) }
	acts := func(tmpl string) []string {
		var names []string
		if side == "R" {
			names = append(append([]string{}, replicaActions...), replicaUnroutedActions...)
		} else {
			names = append(append([]string{}, controllerVolumeActions...), controllerReplicaActions...)
		}
		isRes := tmpl == "/v1/replicas/{id}" || tmpl == "/v1/volumes/{id}"
		a := []string{"-"}
		if isRes {
			for _, n := range names {
				a = append(a, "="+n)
			}
			a = append(a, "unknown", "empty", "dup:"+names[0], "dup2:"+names[0])
		} else {
			a = append(a, "="+names[0], "unknown")
		}
		return a
	}
	for _, tmpl := range templates(side) {
		prim, others := idsFor(side, tmpl)
		for _, method := range Methods {
			for _, act := range acts(tmpl) {
				r, amb := match(side, method, tmpl, act)
				if r != nil && (r.Action != "" || act == "-") {
					if reduced {
						if !r.Mut {
							continue
						}
						ids := prim[:1]
						if tmpl == "/v1/replicas/{id}" && side == "C" {
							ids = prim[:2] // the first and the second attached replica (the WO one in the RW+WO classes)
						}
						for _, id := range ids {
							if r.Body == nil {
								emit(Desc{side, method, tmpl, id, act, "none", "j"})
								continue
							}
							order, _ := r.Body.base()
							for _, c := range order {
								emit(Desc{side, method, tmpl, id, act, c, "j"})
							}
							emit(Desc{side, method, tmpl, id, act, "valid.t3", "j"})
							emit(Desc{side, method, tmpl, id, act, "none", "j"})
						}
						continue
					}
					for _, id := range prim {
						cl, ctn := family(r, true)
						for _, c := range cl {
							emit(Desc{side, method, tmpl, id, act, c, "j"})
							if ctn[c] {
								emit(Desc{side, method, tmpl, id, act, c, "n"})
							}
						}
					}
					if side == "C" && r.Mut {
						// one failing call at every point: the well-formed request again, with the k-th call it makes to the
						// REST API of one replica failing in transit (connection reset before the request is delivered)
						body := "none"
						if r.Body != nil {
							body = "valid"
						}
						for _, ft := range OutboundFaults {
							emit(Desc{side, method, tmpl, prim[0], act, body, "j!" + ft})
						}
					}
					for _, id := range others {
						cl, _ := family(r, false)
						for _, c := range cl {
							emit(Desc{side, method, tmpl, id, act, c, "j"})
						}
						emit(Desc{side, method, tmpl, id, act, "none", "n"})
					}
					continue
				}
				if reduced {
					continue
				}
				// no route (or an ambiguous repeated key, or a superfluous action on an action-less route): generic family
				_ = amb
				ids := prim
				if len(ids) > 2 {
					ids = ids[:2]
				}
				if len(others) > 0 {
					ids = append(append([]string{}, ids...), "nb64")
				}
				for _, id := range ids {
					for _, c := range genericSmall {
						emit(Desc{side, method, tmpl, id, act, c, "j"})
					}
					emit(Desc{side, method, tmpl, id, act, "none", "n"})
				}
			}
		}
	}
	return out
}

// ---- building the concrete request --------------------------------------------------------------------------------

// Facts are the state-dependent names a descriptor's symbols resolve to.
type Facts map[string]string

// Req is a concrete request.
type Req struct {
	Method  string            `json:"method"`
	URL     string            `json:"url"`
	Header  map[string]string `json:"headers"`
	Body    *string           `json:"body,omitempty"`        // UTF-8 body
	BodyB64 *string           `json:"body_base64,omitempty"` // body that is not valid UTF-8
	BodyLen int               `json:"body_len"`
	raw     []byte
	hasBody bool
	outcome string
}

func (r *Req) Bytes() ([]byte, bool) { return r.raw, r.hasBody }

func b64(s string) string { return base64.StdEncoding.EncodeToString([]byte(s)) }

func resolveID(side, class string, fx Facts) string {
	switch class {
	case "-":
		return ""
	case "1", "2":
		return class
	case "vol":
		if side == "C" {
			return b64("vol")
		}
		return "vol"
	case "volraw":
		return "vol"
	case "att0":
		return b64(fx["ATT0ADDR"])
	case "att1":
		return b64(fx["ATT1ADDR"])
	case "det":
		return b64(fx["DETADDR"])
	case "unkb64":
		return b64("tcp://10.9.9.9:9502")
	case "b64addr":
		return b64("tcp://127.0.0.1:9502")
	case "nb64":
		return "!!not*base64!!"
	case "empty":
		return ""
	case "long":
		return strings.Repeat("A", 4096)
	case "schema":
		if side == "C" {
			return "volume"
		}
		return "replica"
	case "nosuch":
		return "nosuch"
	}
	return class
}

func resolve(s string, fx Facts) string {
	if !strings.Contains(s, "$") {
		return s
	}
	// longest symbols first
	keys := make([]string, 0, len(fx))
	for k := range fx {
		keys = append(keys, k)
	}
	sort.Slice(keys, func(i, j int) bool { return len(keys[i]) > len(keys[j]) })
	for _, k := range keys {
		s = strings.ReplaceAll(s, "$"+k, fx[k])
	}
	return s
}

// bodyBytes returns the body of a class for a matched route (r may be nil for generic classes).
func bodyBytes(r *route, class string, fx Facts) ([]byte, bool, error) {
	switch class {
	case "none":
		return nil, false, nil
	case "empty":
		return []byte{}, true, nil
	case "obj":
		return []byte("{}"), true, nil
	case "arr":
		return []byte("[]"), true, nil
	case "null":
		return []byte("null"), true, nil
	case "num":
		return []byte("17"), true, nil
	case "str":
		return []byte(`"just a string"`), true, nil
	case "nonjson":
		return []byte("\x00\xff\xfe<html>not json at all</html>"), true, nil
	case "hugeobj":
		return []byte(`{"name":"` + strings.Repeat("A", 1<<20) + `"}`), true, nil
	case "deep":
		return []byte(strings.Repeat(`{"a":`, 2000) + "1" + strings.Repeat("}", 2000)), true, nil
	}
	if r == nil || r.Body == nil {
		return nil, false, fmt.Errorf("body class %s needs a body spec", class)
	}
	_, m := r.Body.base()
	name, trunc := class, -1
	if i := strings.LastIndex(class, ".t"); i > 0 {
		if _, err := fmt.Sscanf(class[i+2:], "%d", &trunc); err == nil {
			name = class[:i]
		} else {
			trunc = -1
		}
	}
	if fs, ok := m[name]; ok {
		txt := resolve(jsonOf(fs), fx)
		if trunc >= 0 {
			tk := tokens(txt)
			if trunc > len(tk) {
				trunc = len(tk)
			}
			txt = strings.Join(tk[:trunc], "")
		}
		return []byte(txt), true, nil
	}
	switch {
	case strings.HasPrefix(class, "wt."):
		p := strings.SplitN(class, ".", 3)
		fs := append([]field{}, r.Body.Valid...)
		for i := range fs {
			if fs[i].K == p[1] {
				fs[i].V = wrongTypes(fs[i].V)[p[2]]
			}
		}
		return []byte(resolve(jsonOf(fs), fx)), true, nil
	case class == "huge":
		fs := append([]field{}, r.Body.Valid...)
		done := false
		for i := range fs {
			if strings.HasPrefix(fs[i].V, `"`) {
				fs[i].V = q(strings.Repeat("A", 1<<20))
				done = true
				break
			}
		}
		if !done {
			fs = append(fs, field{"pad", q(strings.Repeat("A", 1<<20))})
		}
		return []byte(resolve(jsonOf(fs), fx)), true, nil
	case class == "extra":
		fs := append(append([]field{}, r.Body.Valid...), field{"id", q("7")}, field{"type", q("bogus")}, field{"links", `{"self":"x"}`}, field{"actions", `{"a":"b"}`}, field{"nosuchfield", "[1,2,3]"})
		return []byte(resolve(jsonOf(fs), fx)), true, nil
	case class == "dupfield":
		fs := append(append([]field{}, r.Body.Valid...), r.Body.Unknown...)
		return []byte(resolve(jsonOf(fs), fx)), true, nil
	}
	return nil, false, fmt.Errorf("unknown body class %s", class)
}

// pairExecuted: a request that names two routed actions (?action=a&action=b).  The router of this mux version matches a
// Queries pair against the FIRST value of the key, and so does the state/action gate (checkAction reads
// URL.Query().Get): the handler of the first name runs and the gate is evaluated for the same name.  (A first version of
// this class assumed that the route registered first wins; the run on the unchanged tree showed the start handler
// answering ?action=start&action=setrebuilding and the assumption was corrected before anything was claimed.)
func pairExecuted(act string) string {
	f := strings.Split(act, ":")
	if len(f) != 3 {
		return ""
	}
	return f[1]
}

// Build turns a descriptor into a concrete request.
func Build(d Desc, fx Facts) (*Req, error) {
	path := d.Tmpl
	if strings.Contains(path, "{id}") {
		id := resolveID(d.Side, d.ID, fx)
		path = strings.Replace(path, "{id}", url.PathEscape(id), 1)
	}
	q := ""
	switch {
	case d.Act == "-":
	case strings.HasPrefix(d.Act, "="):
		q = "?action=" + url.QueryEscape(d.Act[1:])
	case d.Act == "unknown":
		q = "?action=nosuchaction"
	case d.Act == "empty":
		q = "?action="
	case strings.HasPrefix(d.Act, "dup:"):
		q = "?action=" + d.Act[4:] + "&action=nosuchaction"
	case strings.HasPrefix(d.Act, "dup2:"):
		q = "?action=nosuchaction&action=" + d.Act[5:]
	case strings.HasPrefix(d.Act, "pair:"):
		f := strings.Split(d.Act, ":")
		q = "?action=" + f[1] + "&action=" + f[2]
	default:
		return nil, fmt.Errorf("bad action class %q", d.Act)
	}
	r, _ := match(d.Side, d.Method, d.Tmpl, d.Act)
	if strings.HasPrefix(d.Act, "pair:") {
		r, _ = match(d.Side, d.Method, d.Tmpl, "="+pairExecuted(d.Act))
	}
	if r == nil && strings.HasPrefix(d.Act, "dup") {
		// a repeated key: the body family of the first value's route, if any
		first := d.Act[strings.Index(d.Act, ":")+1:]
		r, _ = match(d.Side, d.Method, d.Tmpl, "="+first)
	}
	body, has, err := bodyBytes(r, d.Body, fx)
	if err != nil {
		return nil, err
	}
	req := &Req{Method: d.Method, URL: path + q, Header: map[string]string{}, raw: body, hasBody: has, BodyLen: len(body)}
	if strings.HasPrefix(d.CT, "j") {
		req.Header["Content-Type"] = "application/json"
	}
	if has {
		if isUTF8(body) {
			s := string(body)
			req.Body = &s
		} else {
			s := base64.StdEncoding.EncodeToString(body)
			req.BodyB64 = &s
		}
	}
	return req, nil
}

func isUTF8(b []byte) bool {
	for _, r := range string(b) {
		if r == '�' {
			return false
		}
	}
	for _, c := range b {
		if c == 0 {
			return false
		}
	}
	return true
}

// C17Alphabet is the request alphabet of the C17 REST clause: every action name (routed, advertised-but-unrouted,
// unknown) on POST /v1/replicas/1 with every untruncated well-typed body of that action (valid, unknown, protected,
// bad values) and without a body.  The same requests move the replica through its states.
func C17Alphabet(side string, reduced bool) []Desc {
	var out []Desc
	if side != "R" {
		return nil
	}
	const tmpl = "/v1/replicas/{id}"
	for _, a := range replicaActions {
		r, _ := match("R", "POST", tmpl, "="+a)
		if r != nil && r.Body != nil {
			order, _ := r.Body.base()
			for _, c := range order {
				out = append(out, Desc{"R", "POST", tmpl, "1", "=" + a, c, "j"})
			}
		}
		out = append(out, Desc{"R", "POST", tmpl, "1", "=" + a, "none", "j"})
	}
	for _, a := range replicaUnroutedActions {
		out = append(out, Desc{"R", "POST", tmpl, "1", "=" + a, "none", "j"}, Desc{"R", "POST", tmpl, "1", "=" + a, "obj", "j"})
	}
	out = append(out, Desc{"R", "POST", tmpl, "1", "unknown", "none", "j"}, Desc{"R", "DELETE", tmpl, "1", "-", "none", "j"})
	// a request that names TWO routed actions: the state/action gate must hold for the action whose handler runs
	for _, a := range replicaActions {
		for _, b := range replicaActions {
			if a == b {
				continue
			}
			body := "none"
			if r, _ := match("R", "POST", tmpl, "="+pairExecuted("pair:"+a+":"+b)); r != nil && r.Body != nil {
				if order, _ := r.Body.base(); len(order) > 0 {
					body = order[0]
				}
			}
			out = append(out, Desc{"R", "POST", tmpl, "1", "pair:" + a + ":" + b, body, "j"})
		}
	}
	return out
}
