//go:build verif

// Added to package replica by the E-D verification overlay (never present in /repo).
package replica

// VerifEdRevisionCache returns the in-memory copy of the revision counter (no lock taken: called at quiescence).
func VerifEdRevisionCache(r *Replica) int64 { return r.revisionCache }

// VerifEdMode returns the replica mode (no lock taken: called at quiescence).
func VerifEdMode(r *Replica) string { return string(r.mode) }
