//go:build verif

// Added to package replica by the E-D verification overlay (never present in /repo).
package replica

import "github.com/openebs/jiva/types"

// VerifEdRevisionCache returns the in-memory copy of the revision counter (no lock taken: called at quiescence).
func VerifEdRevisionCache(r *Replica) int64 { return r.revisionCache }

// VerifEdMode returns the replica mode (no lock taken: called at quiescence).
func VerifEdMode(r *Replica) string { return string(r.mode) }

// VerifEdDrain is the drain branch of CreateHoles (played by a managed stub thread in engine E-D's C14conc harness).
func VerifEdDrain() {
	drainHoleCreatorChan()
	types.DrainOps = types.DrainDone
}

// VerifEdCloseFiles closes the chain files of a replica without any locking or metadata update (harness clean-up
// outside the scheduler).
func VerifEdCloseFiles(r *Replica) {
	for i, f := range r.volume.files {
		if f != nil && !r.isBackingFile(i) {
			f.Close()
		}
	}
}
