// Package vtimesl is injected by the verification overlay as github.com/openebs/jiva/verifshim/vtimesl and replaces the
// "time" import of package rpc in the default overlay profile: only Sleep is scaled (the 2 s pause of the client's
// transport-error path, the 2 s polling of Server.Stop); deadlines (After), tickers and clocks are the real ones, so no
// request can time out because of the scaling.
package vtimesl

import "time"

type Duration = time.Duration
type Time = time.Time

const (
	Nanosecond  = time.Nanosecond
	Microsecond = time.Microsecond
	Millisecond = time.Millisecond
	Second      = time.Second
	Minute      = time.Minute
	Hour        = time.Hour
)

// Scale divides every Sleep.
var Scale Duration = 10000

func Sleep(d Duration) {
	s := d / Scale
	if s <= 0 {
		s = 1
	}
	time.Sleep(s)
}
func Now() Time                    { return time.Now() }
func Since(t Time) Duration        { return time.Since(t) }
func After(d Duration) <-chan Time { return time.After(d) }

type Ticker = time.Ticker

func NewTicker(d Duration) *Ticker { return time.NewTicker(d) }

type Timer = time.Timer

func NewTimer(d Duration) *Timer { return time.NewTimer(d) }
