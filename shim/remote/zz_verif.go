//go:build verif

// Added to package remote by the verification overlay.  NewForVerif builds a real *Remote (real doAction / info /
// SetReplicaMode / … code, real closeChan / monitorChan) around a harness-supplied data path: the controller's
// replicator type-asserts *remote.Remote, so a stand-in backend has to be the real type.
package remote

import (
	"fmt"
	"net"
	"net/http"

	"github.com/openebs/jiva/rpc"
	"github.com/openebs/jiva/types"
)

func NewForVerif(address, controlAddress string, ios types.IOs) *Remote {
	// the channels are created by the expressions of Factory.Create itself (tools/gen -> zz_verif_chans.go)
	cc, mc := verifChans()
	return &Remote{
		IOs:         ios,
		Name:        address,
		replicaURL:  fmt.Sprintf("http://%s/v1/replicas/1", controlAddress),
		pingURL:     fmt.Sprintf("http://%s/ping", controlAddress),
		httpClient:  &http.Client{Timeout: timeout},
		closeChan:   cc,
		monitorChan: mc,
	}
}

// NewForVerifRPC is NewForVerif with the data path of Factory.Create: the real rpc client on conn, sharing the
// Remote's closeChan (a transport error puts a token there, as in production).
func NewForVerifRPC(address, controlAddress string, conn net.Conn) *Remote {
	r := NewForVerif(address, controlAddress, nil)
	r.IOs = rpc.NewClient(conn, r.closeChan)
	return r
}

// VerifStartMonitor is Factory.Create's `go r.monitorPing(remote)` for a NewForVerifRPC backend.
func (r *Remote) VerifStartMonitor() { go r.monitorPing(r.IOs.(*rpc.Client)) }

// VerifPingInterval is the period of monitorPing's ticker (the harness owns that ticker through vtime.TickerHook).
var VerifPingInterval = pingInveral

// VerifAttach repeats the admission part of Factory.Create for a NewForVerif backend: the replica must report
// state "closed", then it is opened.
func (r *Remote) VerifAttach() error {
	replica, err := r.info()
	if err != nil {
		return err
	}
	if replica.State != "closed" {
		return fmt.Errorf("Replica must be closed, Can not add in state: %s", replica.State)
	}
	return r.open()
}

func (r *Remote) VerifCloseChan() chan struct{}          { return r.closeChan }
func (r *Remote) VerifMonitorChan() types.MonitorChannel { return r.monitorChan }
