//go:build verif

// Added to package remote by the E-D verification overlay (never present in /repo).
package remote

import (
	"net"

	"github.com/openebs/jiva/rpc"
	"github.com/openebs/jiva/types"
	"github.com/openebs/jiva/verifshim/vs"
)

// VerifEdNew builds a real *Remote around conn the way Factory.Create does after its REST calls: same channel
// capacities, the rpc client shares the Remote's closeChan.
func VerifEdNew(name string, conn net.Conn) (*Remote, *rpc.Client) {
	r := &Remote{
		Name:        name,
		closeChan:   make(chan struct{}, 5),
		monitorChan: make(types.MonitorChannel, 5),
	}
	c := rpc.NewClient(conn, r.closeChan)
	r.IOs = c
	return r, c
}

// VerifEdStartMonitor is Factory.Create's `go r.monitorPing(remote)`.
func VerifEdStartMonitor(r *Remote, c *rpc.Client) {
	vs.Go("r.monitorPing", func() { r.monitorPing(c) })
}

// VerifEdChanLens returns len(closeChan), len(monitorChan).
func VerifEdChanLens(r *Remote) (int, int) { return len(r.closeChan), len(r.monitorChan) }
