//go:build verif

// Added to package remote by the E-D verification overlay (never present in /repo).
package remote

import (
	"github.com/openebs/jiva/rpc"
)

// VerifEdClient returns the rpc client Factory.Create put behind the Remote's data path.
func VerifEdClient(r *Remote) *rpc.Client { return r.IOs.(*rpc.Client) }

// VerifEdChanLens returns len(closeChan), len(monitorChan).
func VerifEdChanLens(r *Remote) (int, int) { return len(r.closeChan), len(r.monitorChan) }
