// Package vsync is injected by the E-D verification overlay as github.com/openebs/jiva/verifshim/vsync and replaces
// the "sync" import of the instrumented jiva packages.  The types have the method sets of their sync counterparts and
// are implemented on the cooperative scheduler of verifshim/vs: Lock/RLock/Wait/Do are scheduling points whose
// enabledness the scheduler knows; an unlock of an unlocked mutex panics (a fatal error in production) and is recorded.
// Without an active execution they are the real sync primitives.
package vsync

import (
	"sync"

	"github.com/openebs/jiva/verifshim/vs"
)

type (
	Mutex     = vs.Mutex
	RWMutex   = vs.RWMutex
	WaitGroup = vs.WaitGroup
	Once      = vs.Once
	Locker    = sync.Locker
)
