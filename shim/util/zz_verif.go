//go:build verif

package util

// VerifNoSync, when set by a harness that does not study durability (engines A, B, E, F), turns SyncDir into a no-op
// and drops O_SYNC from metadata writes (see tools/gen perfPatches).  Engine C never sets it.
var VerifNoSync bool
