// Package vs is injected by the E-D verification overlay as github.com/openebs/jiva/verifshim/vs.
//
// It is the run-time of engine E-D (SCHED): a cooperative scheduler under which exactly one managed goroutine runs
// at a time (baton passing over private wake channels).  The overlay generator (/verif/tools/instr) rewrites every
// `go`, channel send/receive/close/range, `select` of the instrumented jiva packages into calls of the generic helpers
// below and redirects their "sync" and "time" imports to verifshim/vsync and verifshim/vtimev, which are built on
// this package too.  Every hooked operation is a *scheduling point*: the thread announces the operation it is about
// to perform together with a predicate telling whether the operation could complete now (its enabledness), and the
// Chooser (the explorer of /verif/harness/ed) picks which enabled thread performs its operation next, or that virtual
// time advances to the next timer deadline.
//
// When no execution is active (S == nil) every helper is a plain pass-through to the Go primitive; the same
// harness bodies then run free under the Go race detector.
package vs

import (
	"fmt"
	"net"
	"reflect"
	"runtime"
	"sort"
	"strings"
	"sync"
	"time"
	"unsafe"
)

// ---------------------------------------------------------------------------------------------------------------
// Scheduler

// Option is one thing that can happen next at a choice point.
type Option struct {
	Thread int  // thread id, or -1 = advance virtual time to the next timer deadline, or -2-k = select case k
	Cost   int  // 0 = the default continuation, 1 = a deviation
	Kind   byte // 'p' preemption / non-default thread, 't' timer fires although threads are enabled, 's' non-first ready select case, 'h' harness choice
}

// Chooser decides at every point with more than one option.  Options[0] is always the default (cost 0).
type Chooser interface {
	Choose(opts []Option) int
}

type Event struct {
	Step   int    `json:"step"`
	Thread int    `json:"thread"`
	Name   string `json:"name"`
	Kind   string `json:"kind"`
	Loc    string `json:"loc,omitempty"`
	Now    int64  `json:"now_ns"`
	Note   string `json:"note,omitempty"`
}

type Blocked struct {
	Thread int    `json:"thread"`
	Name   string `json:"name"`
	Kind   string `json:"kind"`
	Loc    string `json:"loc,omitempty"`
}

type Panic struct {
	Thread int    `json:"thread"`
	Name   string `json:"name"`
	Value  string `json:"value"`
	Stack  string `json:"stack,omitempty"`
}

type Config struct {
	Chooser   Chooser
	Horizon   int                       // maximum number of scheduling points of one execution
	TimeLimit time.Duration             // timers with a deadline beyond this virtual time never fire (0 = no limit)
	Trace     bool                      // record every point with its source location
	StepHook  func()                    // called at every scheduling point by the thread that holds the baton
	ExecHook  func(thread, kind string) // called when a thread has been scheduled and is about to perform its operation
	ExitHook  func(name string)
	// PostUnlockPoints makes the release of a Mutex / RWMutex a scheduling point of its own, placed right AFTER the
	// release: a thread waiting for the lock may then run before the releasing thread's next (unsynchronised) statement.
	// Without it a critical section that was narrowed ("update under the lock, write the file after it") is never
	// interleaved with another holder of the lock, because the releasing thread runs on to its next synchronisation
	// operation.
	PostUnlockPoints bool
}

type Result struct {
	Points       int
	ChoicePoints int
	Digest       uint64 // order-sensitive hash of (thread, op kind) of every point and of every choice taken
	Deadlock     bool   // no enabled thread, no timer, and the main thread was not waiting for quiescence
	HorizonHit   bool
	Blocked      []Blocked // threads still blocked when the execution ended
	Panics       []Panic
	Trace        []Event
	Now          int64
	Stacks       string // goroutine dump taken when the execution ended abnormally (trace mode only)
	Fatal        string // harness error (unsupported construct, real blocking detected, ...)
}

type thread struct {
	id   int
	name string
	wake chan struct{}
	kind string
	en   func() bool
	loc  string
	done bool
	quie bool // waiting for quiescence
	nsel int  // selects performed by this thread

	// rendezvous on unbuffered channels: what this parked thread offers, and what a partner did with it
	offers  []offer
	matched bool        // a partner has completed one of the offers
	mIdx    int         // which offer
	mVal    interface{} // value received (recv offers)
}

// offer is one pending operation of a parked thread on an unbuffered channel.
type offer struct {
	key  unsafe.Pointer
	send bool
	val  interface{} // value to hand over (send offers)
	idx  int         // select case index (0 for a plain send/recv)
}

type timer struct {
	seq      int
	deadline int64
	period   int64
	fire     func(now int64)
	stopped  bool
}

type Sched struct {
	cfg      Config
	threads  []*thread
	cur      *thread
	now      int64
	timers   []*timer
	tseq     int
	aborting bool
	finished chan struct{}
	finOnce  bool
	wg       sync.WaitGroup
	closed   map[unsafe.Pointer]struct{}
	keep     []interface{}
	res      *Result
	opts     []Option
	ens      []*thread
	noChoice bool
}

// S is the active execution; nil = pass-through mode.
var S *Sched

func Active() bool { return S != nil }

// Run executes main as thread 0 under the scheduler and returns when the execution has ended and every managed
// goroutine is gone.
func Run(cfg Config, main func()) *Result {
	if S != nil {
		panic("vs.Run: nested")
	}
	if cfg.Horizon == 0 {
		cfg.Horizon = 100000
	}
	s := &Sched{cfg: cfg, finished: make(chan struct{}), closed: map[unsafe.Pointer]struct{}{}, res: &Result{}}
	s.res.Digest = 1469598103934665603
	S = s
	t := s.newThread("main", main)
	s.cur = t
	t.wake <- struct{}{}
	wd := time.NewTimer(30 * time.Second)
	select {
	case <-s.finished:
		wd.Stop()
	case <-wd.C:
		// a managed goroutine blocked for real: the harness is broken (uninstrumented blocking operation)
		buf := make([]byte, 1<<20)
		n := runtime.Stack(buf, true)
		s.res.Fatal = "watchdog: execution did not end within 30 s wall clock (an uninstrumented operation blocks)"
		s.res.Stacks = string(buf[:n])
		S = nil
		return s.res
	}
	s.wg.Wait()
	s.res.Now = s.now
	S = nil
	return s.res
}

func (s *Sched) newThread(name string, f func()) *thread {
	t := &thread{id: len(s.threads), name: name, wake: make(chan struct{}, 1), kind: "start", en: always}
	s.threads = append(s.threads, t)
	s.wg.Add(1)
	go func() {
		defer s.wg.Done()
		normal := false
		defer func() {
			if normal {
				return
			}
			if r := recover(); r != nil {
				if s.aborting {
					return
				}
				st := make([]byte, 16384)
				st = st[:runtime.Stack(st, false)]
				s.res.Panics = append(s.res.Panics, Panic{Thread: t.id, Name: t.name, Value: fmt.Sprint(r), Stack: string(st)})
				t.done = true
				s.finish()
			}
		}()
		<-t.wake
		if s.aborting {
			return
		}
		f()
		if s.cfg.ExitHook != nil && !s.aborting {
			s.cfg.ExitHook(t.name)
		}
		normal = true
		s.exit(t)
	}()
	return t
}

func always() bool { return true }
func never() bool  { return false }

func (s *Sched) mix(a, b uint64) {
	h := s.res.Digest
	h ^= a
	h *= 1099511628211
	h ^= b
	h *= 1099511628211
	s.res.Digest = h
}

func kindHash(k string) uint64 {
	var h uint64 = 14695981039346656037
	for i := 0; i < len(k); i++ {
		h ^= uint64(k[i])
		h *= 1099511628211
	}
	return h
}

func callerLoc() string {
	pcs := make([]uintptr, 12)
	n := runtime.Callers(3, pcs)
	fr := runtime.CallersFrames(pcs[:n])
	for {
		f, more := fr.Next()
		if !strings.Contains(f.File, "/verifshim/") && !strings.Contains(f.File, "/shim/v") {
			fn := f.Function
			if i := strings.LastIndex(fn, "/"); i >= 0 {
				fn = fn[i+1:]
			}
			file := f.File
			if i := strings.LastIndex(file, "/"); i >= 0 {
				file = file[i+1:]
			}
			return fmt.Sprintf("%s (%s:%d)", fn, file, f.Line)
		}
		if !more {
			return ""
		}
	}
}

// enter is called first by every helper: while an execution is being torn down the calling goroutine ends here.
func (s *Sched) enter() {
	if s.aborting {
		runtime.Goexit()
	}
}

// point announces the calling thread's next operation and returns when the chooser has scheduled it (the operation
// is enabled at that moment and nothing runs until the thread reaches its next point).
func (s *Sched) point(kind string, en func() bool) {
	s.enter()
	t := s.cur
	t.kind, t.en = kind, en
	if s.cfg.Trace {
		t.loc = callerLoc()
	}
	s.dispatch(t)
	if s.cfg.ExecHook != nil {
		s.cfg.ExecHook(t.name, kind)
	}
	if s.cfg.Trace {
		s.res.Trace = append(s.res.Trace, Event{Step: s.res.Points, Thread: t.id, Name: t.name, Kind: kind, Loc: t.loc, Now: s.now})
	}
	s.mix(uint64(t.id), kindHash(kind))
}

func (s *Sched) note(n string) {
	if s.cfg.Trace {
		s.res.Trace = append(s.res.Trace, Event{Step: s.res.Points, Thread: -1, Name: "-", Kind: "note", Now: s.now, Note: n})
	}
}

// dispatch: the baton holder decides who runs next.  from may be a finished thread.
func (s *Sched) dispatch(from *thread) {
	s.res.Points++
	if s.res.Points > s.cfg.Horizon {
		s.res.HorizonHit = true
		s.finishFrom(from)
		return
	}
	if s.cfg.StepHook != nil {
		s.cfg.StepHook()
	}
	var chosen *thread
	for {
		ens := s.ens[:0]
		if !from.done && from.en() {
			ens = append(ens, from)
		}
		for _, t := range s.threads {
			if t != from && !t.done && t.en() {
				ens = append(ens, t)
			}
		}
		s.ens = ens
		tm := s.nextTimer()
		if len(ens) == 0 {
			if tm != nil {
				s.advance(tm)
				continue
			}
			// quiescent
			for _, t := range s.threads {
				if !t.done && t.quie {
					chosen = t
				}
			}
			if chosen == nil {
				s.res.Deadlock = true
				s.finishFrom(from)
				return
			}
			chosen.quie = false
			break
		}
		opts := s.opts[:0]
		for i, t := range ens {
			c := 1
			if i == 0 {
				c = 0
			}
			opts = append(opts, Option{Thread: t.id, Cost: c, Kind: 'p'})
		}
		if tm != nil {
			opts = append(opts, Option{Thread: -1, Cost: 1, Kind: 't'})
		}
		s.opts = opts
		k := 0
		if len(opts) > 1 && !s.noChoice {
			s.res.ChoicePoints++
			k = s.cfg.Chooser.Choose(opts)
			if k < 0 || k >= len(opts) {
				s.res.Fatal = fmt.Sprintf("chooser returned %d of %d options (replay diverged)", k, len(opts))
				s.finishFrom(from)
				return
			}
			s.mix(0xc0, uint64(k))
		}
		if opts[k].Thread == -1 {
			s.advance(tm)
			continue
		}
		chosen = ens[k]
		break
	}
	if chosen == from {
		return
	}
	s.cur = chosen
	chosen.wake <- struct{}{}
	if from.done {
		return
	}
	<-from.wake
	if s.aborting {
		runtime.Goexit()
	}
}

func (s *Sched) nextTimer() *timer {
	var best *timer
	for _, t := range s.timers {
		if s.cfg.TimeLimit > 0 && t.deadline > int64(s.cfg.TimeLimit) {
			continue
		}
		if best == nil || t.deadline < best.deadline || (t.deadline == best.deadline && t.seq < best.seq) {
			best = t
		}
	}
	return best
}

// advance moves virtual time to tm's deadline and fires every timer due at that time (in arming order).
func (s *Sched) advance(tm *timer) {
	if tm.deadline > s.now {
		s.now = tm.deadline
	}
	var due []*timer
	for _, t := range s.timers {
		if t.deadline <= s.now {
			due = append(due, t)
		}
	}
	sort.Slice(due, func(i, j int) bool {
		if due[i].deadline != due[j].deadline {
			return due[i].deadline < due[j].deadline
		}
		return due[i].seq < due[j].seq
	})
	for _, t := range due {
		if t.period > 0 {
			t.deadline += t.period
		} else {
			s.removeTimer(t)
		}
		t.fire(s.now)
	}
	s.mix(0x7e, uint64(s.now))
	s.note(fmt.Sprintf("virtual time -> %v (%d timer(s) fired)", time.Duration(s.now), len(due)))
}

func (s *Sched) removeTimer(t *timer) bool {
	for i, x := range s.timers {
		if x == t {
			s.timers = append(s.timers[:i], s.timers[i+1:]...)
			return true
		}
	}
	return false
}

func (s *Sched) exit(t *thread) {
	t.done = true
	if t.id == 0 {
		s.finish()
		return
	}
	if s.aborting {
		return
	}
	s.dispatch(t)
}

func (s *Sched) finishFrom(from *thread) {
	s.finish()
	if !from.done {
		runtime.Goexit()
	}
}

// finish ends the execution: every parked thread is released and ends through runtime.Goexit.
func (s *Sched) finish() {
	if s.finOnce {
		return
	}
	s.finOnce = true
	for _, t := range s.threads {
		if !t.done {
			s.res.Blocked = append(s.res.Blocked, Blocked{Thread: t.id, Name: t.name, Kind: t.kind, Loc: t.loc})
		}
	}
	if s.cfg.Trace && (s.res.Deadlock || s.res.HorizonHit || len(s.res.Panics) > 0) {
		buf := make([]byte, 1<<18)
		s.res.Stacks = string(buf[:runtime.Stack(buf, true)])
	}
	s.aborting = true
	for _, t := range s.threads {
		if !t.done && t != s.cur {
			select {
			case t.wake <- struct{}{}:
			default:
			}
		}
	}
	close(s.finished)
}

// Fatal reports a harness error and ends the execution.
func Fatal(msg string) {
	s := S
	if s == nil {
		panic("vs: " + msg)
	}
	if s.res.Fatal == "" {
		s.res.Fatal = msg
	}
	s.finishFrom(s.cur)
}

// ---------------------------------------------------------------------------------------------------------------
// Threads and harness primitives

// Go starts f as a new managed thread (pass-through: a goroutine).
func Go(name string, f func()) {
	s := S
	if s == nil {
		go f()
		return
	}
	s.enter()
	s.newThread(name, f)
}

// Touch is an explicit scheduling point placed before an access to a field that the code under test shares without
// synchronisation.
func Touch(what string) {
	if s := S; s != nil {
		s.point("touch "+what, always)
	}
}

// Yield is a plain scheduling point.
func Yield() {
	if s := S; s != nil {
		s.point("yield", always)
	} else {
		runtime.Gosched()
	}
}

var (
	freeMu   sync.Mutex
	freeCond = sync.NewCond(&freeMu)
)

// Atomic runs f as one indivisible step of harness state (pass-through: under a global lock, then wakes Block waiters).
func Atomic(f func()) {
	if S != nil {
		S.enter()
		f()
		return
	}
	freeMu.Lock()
	f()
	freeCond.Broadcast()
	freeMu.Unlock()
}

// Block is a scheduling point that is enabled when pred holds; the caller continues with pred true and nothing run in
// between (pass-through: waits on a condition variable signalled by Atomic; pred is evaluated under the global lock).
func Block(what string, pred func() bool) {
	if s := S; s != nil {
		s.point(what, pred)
		return
	}
	freeMu.Lock()
	for !pred() {
		freeCond.Wait()
	}
	freeMu.Unlock()
}

// Quiesce blocks the calling (main) thread until no other thread is enabled and every armed timer (within the time
// limit) has fired.  Pass-through: sleeps for d of wall clock.
func Quiesce(d time.Duration) {
	s := S
	if s == nil {
		time.Sleep(d)
		return
	}
	s.enter()
	t := s.cur
	t.quie = true
	s.point("quiesce", func() bool { return false })
}

// NoChoice(true) makes every following scheduling decision the default one without consulting the chooser (used for
// sequential set-up phases inside an execution that are not to be explored); NoChoice(false) ends that.
func NoChoice(on bool) {
	if s := S; s != nil {
		s.noChoice = on
	}
}

// Choose is a harness-level choice among n alternatives (0 is the default; others cost one 'h' deviation).
func Choose(n int) int {
	s := S
	if s == nil || n <= 1 {
		return 0
	}
	s.enter()
	opts := make([]Option, n)
	for i := range opts {
		c := 1
		if i == 0 {
			c = 0
		}
		opts[i] = Option{Thread: -2 - i, Cost: c, Kind: 'h'}
	}
	s.res.ChoicePoints++
	k := s.cfg.Chooser.Choose(opts)
	s.mix(0xc1, uint64(k))
	return k
}

// ThreadInfo describes a managed thread (for the harness's oracles at quiescence).
type ThreadInfo struct {
	ID   int
	Name string
	Done bool
	Kind string // pending operation of a thread that is not done
	Loc  string
}

func Threads() []ThreadInfo {
	s := S
	if s == nil {
		return nil
	}
	out := make([]ThreadInfo, 0, len(s.threads))
	for _, t := range s.threads {
		out = append(out, ThreadInfo{t.id, t.name, t.done, t.kind, t.loc})
	}
	return out
}

// NowNS is the virtual clock.
func NowNS() int64 {
	if s := S; s != nil {
		return s.now
	}
	return time.Now().UnixNano()
}

// SelectsDone returns how many selects the running thread has performed (lets a harness tell whether a call went
// through a select at all).
func SelectsDone() int {
	if s := S; s != nil && s.cur != nil {
		return s.cur.nsel
	}
	return 0
}

// ThreadName returns the name of the running managed thread.
func ThreadName() string {
	if s := S; s != nil && s.cur != nil {
		return s.cur.name
	}
	return ""
}

// Note adds a line to the trace.
func Note(format string, a ...interface{}) {
	if s := S; s != nil && s.cfg.Trace {
		s.note(fmt.Sprintf(format, a...))
	}
}

// ---------------------------------------------------------------------------------------------------------------
// Virtual timers (used by verifshim/vtimev)

type TimerH struct{ t *timer }

// AddTimer arms a virtual timer; fire runs inside the scheduler when virtual time reaches the deadline.
func AddTimer(d time.Duration, period time.Duration, fire func(now int64)) *TimerH {
	s := S
	s.enter()
	if d < 0 {
		d = 0
	}
	s.tseq++
	t := &timer{seq: s.tseq, deadline: s.now + int64(d), period: int64(period), fire: fire}
	s.timers = append(s.timers, t)
	return &TimerH{t}
}

func (h *TimerH) Stop() bool {
	s := S
	if s == nil {
		return false
	}
	s.enter()
	return s.removeTimer(h.t)
}

// SleepNS blocks the calling thread until virtual time has advanced by d.
func SleepNS(d time.Duration) {
	s := S
	fired := false
	AddTimer(d, 0, func(int64) { fired = true })
	s.point("sleep "+d.String(), func() bool { return fired })
}

// ---------------------------------------------------------------------------------------------------------------
// Channels

func key[C any](ch C) unsafe.Pointer { return *(*unsafe.Pointer)(unsafe.Pointer(&ch)) }

func (s *Sched) isClosed(k unsafe.Pointer) bool { _, ok := s.closed[k]; return ok }

// partner finds a parked thread (lowest id first) that offers the opposite operation on the unbuffered channel k.
func (s *Sched) partner(self *thread, k unsafe.Pointer, wantSend bool) (*thread, int) {
	for _, t := range s.threads {
		if t == self || t.done || t.matched {
			continue
		}
		for i := range t.offers {
			if t.offers[i].key == k && t.offers[i].send == wantSend {
				return t, i
			}
		}
	}
	return nil, -1
}

// rendezvous performs the calling thread's operation on the unbuffered channel k after it has been scheduled:
// either a partner already completed it (matched), or a parked partner is completed now, or the channel is closed.
// Returns (value, ok, closedSend).
func (s *Sched) rendezvous(t *thread, k unsafe.Pointer, send bool, v interface{}) (interface{}, bool) {
	defer func() { t.offers, t.matched, t.mVal = nil, false, nil }()
	if t.matched {
		return t.mVal, true
	}
	if p, i := s.partner(t, k, !send); p != nil {
		p.matched, p.mIdx = true, i
		if send {
			p.mVal = v
			return nil, true
		}
		return p.offers[i].val, true
	}
	if s.isClosed(k) {
		if send {
			panic("send on closed channel")
		}
		return nil, false
	}
	Fatal("vs: rendezvous scheduled without a partner (scheduler bug)")
	return nil, false
}

func as[T any](v interface{}) T {
	var z T
	if v == nil {
		return z
	}
	x, _ := v.(T)
	return x
}

func Send[T any](ch chan<- T, v T) {
	s := S
	if s == nil {
		ch <- v
		return
	}
	if ch == nil {
		s.point("send nil-chan", never)
	}
	k := key(ch)
	if cap(ch) == 0 {
		// rendezvous: enabled when a receiver is parked on the channel (or it is closed: the send then panics)
		t := s.cur
		t.offers = []offer{{key: k, send: true, val: v}}
		s.point("send (unbuffered)", func() bool {
			if t.matched || s.isClosed(k) {
				return true
			}
			p, _ := s.partner(t, k, false)
			return p != nil
		})
		s.rendezvous(t, k, true, v)
		return
	}
	s.point("send", func() bool { return len(ch) < cap(ch) || s.isClosed(k) })
	ch <- v
}

func Recv[T any](ch <-chan T) T {
	v, _ := Recv2(ch)
	return v
}

func Recv2[T any](ch <-chan T) (T, bool) {
	s := S
	if s == nil {
		v, ok := <-ch
		return v, ok
	}
	if ch == nil {
		s.point("recv nil-chan", never)
	}
	k := key(ch)
	if cap(ch) == 0 {
		t := s.cur
		t.offers = []offer{{key: k, send: false}}
		s.point("recv (unbuffered)", func() bool {
			if t.matched || s.isClosed(k) {
				return true
			}
			p, _ := s.partner(t, k, true)
			return p != nil
		})
		v, ok := s.rendezvous(t, k, false, nil)
		return as[T](v), ok
	}
	s.point("recv", func() bool { return len(ch) > 0 || s.isClosed(k) })
	v, ok := <-ch
	return v, ok
}

func Close[T any](ch chan<- T) {
	s := S
	if s == nil {
		close(ch)
		return
	}
	s.point("close", always)
	close(ch) // panics on a double close exactly like production
	s.closed[key(ch)] = struct{}{}
	s.keep = append(s.keep, ch)
}

// RangeGuard wraps the operand of every `range` statement the rewriter was not told about: ranging over a channel
// there would block for real, ranging over a map with more than one entry would make the schedule nondeterministic.
func RangeGuard[T any](x T) T {
	if S == nil {
		return x
	}
	switch v := reflect.ValueOf(x); v.Kind() {
	case reflect.Chan:
		Fatal("range over a channel that the rewriter was not configured for at " + callerLoc())
	case reflect.Map:
		if v.Len() > 1 {
			Fatal("range over a map with >1 entries that the rewriter was not configured for at " + callerLoc())
		}
	}
	return x
}

// SortedKeys returns the keys of m in ascending order (replaces map iteration order at configured sites).
func SortedKeys[K interface {
	~int | ~int8 | ~int16 | ~int32 | ~int64 | ~uint | ~uint8 | ~uint16 | ~uint32 | ~uint64 | ~uintptr | ~string
}, V any](m map[K]V) []K {
	ks := make([]K, 0, len(m))
	for k := range m {
		ks = append(ks, k)
	}
	sort.Slice(ks, func(i, j int) bool { return ks[i] < ks[j] })
	return ks
}

// Val carries the value received by a Select.
type Val struct {
	V  interface{}
	OK bool
}

type Case struct {
	send  bool
	isNil bool
	unbuf bool           // unbuffered channel: rendezvous
	key   unsafe.Pointer //
	val   interface{}    // value of a send case on an unbuffered channel
	ready func(s *Sched) bool
	do    func() Val
	rv    reflect.Value // pass-through mode
	sv    reflect.Value
}

func R[T any](ch <-chan T) Case {
	if S == nil {
		return Case{rv: reflect.ValueOf(ch)}
	}
	if ch == nil {
		return Case{isNil: true}
	}
	k := key(ch)
	if cap(ch) == 0 {
		return Case{unbuf: true, key: k}
	}
	return Case{
		ready: func(s *Sched) bool { return len(ch) > 0 || s.isClosed(k) },
		do:    func() Val { v, ok := <-ch; return Val{V: v, OK: ok} },
	}
}

func Snd[T any](ch chan<- T, v T) Case {
	if S == nil {
		return Case{send: true, rv: reflect.ValueOf(ch), sv: reflect.ValueOf(&v).Elem()}
	}
	if ch == nil {
		return Case{isNil: true, send: true}
	}
	k := key(ch)
	if cap(ch) == 0 {
		return Case{send: true, unbuf: true, key: k, val: v}
	}
	return Case{
		send:  true,
		ready: func(s *Sched) bool { return len(ch) < cap(ch) || s.isClosed(k) },
		do:    func() Val { ch <- v; return Val{} },
	}
}

// As converts the value a Select received on ch back to the channel's element type.
func As[T any](ch <-chan T, v Val) T {
	var z T
	if v.V == nil {
		return z
	}
	if rv, ok := v.V.(reflect.Value); ok {
		x, _ := rv.Interface().(T)
		return x
	}
	x, _ := v.V.(T)
	return x
}

func As2[T any](ch <-chan T, v Val) (T, bool) { return As(ch, v), v.OK }

// Select performs one of the ready cases; with several ready cases the chooser picks (case order = source order, the
// first ready case is the default).  Returns the index among the non-default cases, or -1 for `default`.
func Select(hasDefault bool, cases ...Case) (int, Val) { return doSelect(hasDefault, false, cases) }

// SelectPrio is Select with a fixed priority (first ready case in source order); used by harness code only.
func SelectPrio(hasDefault bool, cases ...Case) (int, Val) { return doSelect(hasDefault, true, cases) }

func doSelect(hasDefault, prio bool, cases []Case) (int, Val) {
	s := S
	if s == nil {
		return freeSelect(hasDefault, prio, cases)
	}
	t := s.cur
	caseReady := func(i int) bool {
		c := &cases[i]
		if c.isNil {
			return false
		}
		if c.unbuf {
			if s.isClosed(c.key) {
				return true
			}
			p, _ := s.partner(t, c.key, !c.send)
			return p != nil
		}
		return c.ready(s)
	}
	anyReady := func() bool {
		if t.matched {
			return true
		}
		for i := range cases {
			if caseReady(i) {
				return true
			}
		}
		return false
	}
	if hasDefault {
		s.point("select(default)", always)
	} else {
		// while parked, the unbuffered cases are offers other threads can complete
		t.offers = t.offers[:0]
		for i := range cases {
			if cases[i].unbuf && !cases[i].isNil {
				t.offers = append(t.offers, offer{key: cases[i].key, send: cases[i].send, val: cases[i].val, idx: i})
			}
		}
		s.point("select", anyReady)
	}
	s.cur.nsel++
	if t.matched {
		// a partner completed one of the unbuffered cases while this thread was parked
		i := t.offers[t.mIdx].idx
		v := t.mVal
		t.offers, t.matched, t.mVal = nil, false, nil
		if cases[i].send {
			return i, Val{}
		}
		return i, Val{V: v, OK: true}
	}
	var ready [8]int
	rd := ready[:0]
	for i := range cases {
		if caseReady(i) {
			rd = append(rd, i)
		}
	}
	if len(rd) == 0 {
		t.offers = nil
		return -1, Val{}
	}
	k := 0
	if len(rd) > 1 && !prio && !s.noChoice {
		opts := make([]Option, len(rd))
		for i := range rd {
			c := 1
			if i == 0 {
				c = 0
			}
			opts[i] = Option{Thread: -2 - rd[i], Cost: c, Kind: 's'}
		}
		s.res.ChoicePoints++
		k = s.cfg.Chooser.Choose(opts)
		if k < 0 || k >= len(rd) {
			s.res.Fatal = fmt.Sprintf("chooser returned %d of %d select options (replay diverged)", k, len(rd))
			s.finishFrom(s.cur)
		}
		s.mix(0xc2, uint64(k))
		if s.cfg.Trace {
			s.note(fmt.Sprintf("select: ready cases %v, took case %d", rd, rd[k]))
		}
	}
	i := rd[k]
	if cases[i].unbuf {
		own := t.offers
		t.offers = nil // the other offers are withdrawn
		_ = own
		v, ok := s.rendezvous(t, cases[i].key, cases[i].send, cases[i].val)
		if cases[i].send {
			return i, Val{}
		}
		return i, Val{V: v, OK: ok}
	}
	t.offers = nil
	return i, cases[i].do()
}

func freeSelect(hasDefault, prio bool, cases []Case) (int, Val) {
	mk := func(def bool) []reflect.SelectCase {
		var sc []reflect.SelectCase
		for _, c := range cases {
			if c.send {
				sc = append(sc, reflect.SelectCase{Dir: reflect.SelectSend, Chan: c.rv, Send: c.sv})
			} else {
				sc = append(sc, reflect.SelectCase{Dir: reflect.SelectRecv, Chan: c.rv})
			}
		}
		if def {
			sc = append(sc, reflect.SelectCase{Dir: reflect.SelectDefault})
		}
		return sc
	}
	if prio {
		for i, c := range cases {
			one := []reflect.SelectCase{{Dir: reflect.SelectRecv, Chan: c.rv}, {Dir: reflect.SelectDefault}}
			if c.send {
				one[0] = reflect.SelectCase{Dir: reflect.SelectSend, Chan: c.rv, Send: c.sv}
			}
			if k, v, ok := reflect.Select(one); k == 0 {
				if c.send {
					return i, Val{}
				}
				return i, Val{V: v, OK: ok}
			}
		}
	}
	i, v, ok := reflect.Select(mk(hasDefault))
	if hasDefault && i == len(cases) {
		return -1, Val{}
	}
	if cases[i].send {
		return i, Val{}
	}
	return i, Val{V: v, OK: ok}
}

// HalfCloser is what rpc.Wire.CloseRead/CloseWrite need from the connection; the E-D profile rewrites the type
// assertion `w.conn.(*net.TCPConn)` to `w.conn.(vs.HalfCloser)` (which *net.TCPConn satisfies) so that the harness's
// in-memory connection can be shut down the way a TCP connection is.
type HalfCloser interface {
	CloseRead() error
	CloseWrite() error
}

// ---------------------------------------------------------------------------------------------------------------
// Locks (used by verifshim/vsync)

type Mutex struct {
	m      sync.Mutex
	locked bool
}

func (m *Mutex) Lock() {
	s := S
	if s == nil {
		m.m.Lock()
		return
	}
	s.point("lock", func() bool { return !m.locked })
	m.locked = true
}

func (m *Mutex) TryLock() bool {
	s := S
	if s == nil {
		return m.m.TryLock()
	}
	s.point("trylock", always)
	if m.locked {
		return false
	}
	m.locked = true
	return true
}

func (m *Mutex) Unlock() {
	s := S
	if s == nil {
		m.m.Unlock()
		return
	}
	s.enter()
	if !m.locked {
		panic("sync: unlock of unlocked mutex") // a fatal error in production
	}
	m.locked = false
	if s.cfg.PostUnlockPoints && !s.aborting {
		s.point("after unlock", always)
	}
}

// RWMutex models Go's writer preference: a Lock call first announces itself (from then on new RLock calls wait) and
// then waits for the readers to drain.
type RWMutex struct {
	m       sync.RWMutex
	w       bool
	r       int
	wannnce int
}

func (m *RWMutex) Lock() {
	s := S
	if s == nil {
		m.m.Lock()
		return
	}
	s.point("rw.lock announce", always)
	m.wannnce++
	s.point("rw.lock", func() bool { return !m.w && m.r == 0 })
	m.wannnce--
	m.w = true
}

func (m *RWMutex) Unlock() {
	s := S
	if s == nil {
		m.m.Unlock()
		return
	}
	s.enter()
	if !m.w {
		panic("sync: Unlock of unlocked RWMutex")
	}
	m.w = false
	if s.cfg.PostUnlockPoints && !s.aborting {
		s.point("after rw.unlock", always)
	}
}

func (m *RWMutex) RLock() {
	s := S
	if s == nil {
		m.m.RLock()
		return
	}
	s.point("rw.rlock", func() bool { return !m.w && m.wannnce == 0 })
	m.r++
}

func (m *RWMutex) RUnlock() {
	s := S
	if s == nil {
		m.m.RUnlock()
		return
	}
	s.enter()
	if m.r <= 0 {
		panic("sync: RUnlock of unlocked RWMutex")
	}
	m.r--
	if s.cfg.PostUnlockPoints && !s.aborting {
		s.point("after rw.runlock", always)
	}
}

func (m *RWMutex) TryLock() bool {
	s := S
	if s == nil {
		return m.m.TryLock()
	}
	s.point("rw.trylock", always)
	if m.w || m.r > 0 || m.wannnce > 0 {
		return false
	}
	m.w = true
	return true
}

func (m *RWMutex) TryRLock() bool {
	s := S
	if s == nil {
		return m.m.TryRLock()
	}
	s.point("rw.tryrlock", always)
	if m.w || m.wannnce > 0 {
		return false
	}
	m.r++
	return true
}

func (m *RWMutex) RLocker() sync.Locker { return (*rlocker)(m) }

type rlocker RWMutex

func (r *rlocker) Lock()   { (*RWMutex)(r).RLock() }
func (r *rlocker) Unlock() { (*RWMutex)(r).RUnlock() }

type WaitGroup struct {
	wg sync.WaitGroup
	n  int
}

func (w *WaitGroup) Add(d int) {
	s := S
	if s == nil {
		w.wg.Add(d)
		return
	}
	s.enter()
	w.n += d
	if w.n < 0 {
		panic("sync: negative WaitGroup counter")
	}
}

func (w *WaitGroup) Done() { w.Add(-1) }

func (w *WaitGroup) Wait() {
	s := S
	if s == nil {
		w.wg.Wait()
		return
	}
	s.point("wg.wait", func() bool { return w.n == 0 })
}

type Once struct {
	o       sync.Once
	done    bool
	running bool
}

func (o *Once) Do(f func()) {
	s := S
	if s == nil {
		o.o.Do(f)
		return
	}
	s.point("once", func() bool { return !o.running })
	if o.done {
		return
	}
	o.running = true
	defer func() { o.done = true; o.running = false }()
	f()
}

// DialHook, when set, answers the net.Dial calls that the E-D profile rewrites to vs.Dial (backend/remote
// Factory.Create): the harness hands out one end of an in-memory connection pair instead of a TCP socket.
var DialHook func(network, addr string) (net.Conn, error)

func Dial(orig func(string, string) (net.Conn, error), network, addr string) (net.Conn, error) {
	if DialHook != nil {
		return DialHook(network, addr)
	}
	return orig(network, addr)
}
