//go:build verif

// Added to package replica by the verification overlay for engine E-E (REST request enumeration): lock probes.
package replica

// VerifTryLock reports whether the replica Server's lock is free (and leaves it free).
func (s *Server) VerifTryLock() bool {
	if s.TryLock() {
		s.Unlock()
		return true
	}
	return false
}

// VerifTryLock reports whether the Replica's own lock is free (and leaves it free).
func (r *Replica) VerifTryLock() bool {
	if r.TryLock() {
		r.Unlock()
		return true
	}
	return false
}

// VerifActionChannelLen is the number of unconsumed start signals (the consumer lives in app/replica.go, which a
// REST-only harness does not run; a real replica process consumes one signal per registration round).
func VerifActionChannelLen() int { return len(ActionChannel) }

// VerifDrainActionChannel plays the consumer in app.AutoConfigureReplica once: takes every pending signal.
func VerifDrainActionChannel() []string {
	var out []string
	for {
		select {
		case a := <-ActionChannel:
			out = append(out, a)
		default:
			return out
		}
	}
}
