//go:build verif

// Added to package replica by the verification overlay (never committed to
// /repo).  Read-only accessors for the private state that oracles and
// canonical state keys need, plus a queue flush for the hole puncher.
package replica

import (
	"os"
	"path/filepath"
	"sort"
	realtime "time"

	"github.com/openebs/jiva/types"
	"github.com/openebs/jiva/util"
)

// VerifState is a deep copy of the in-memory bookkeeping of a Replica.
type VerifState struct {
	Location        []uint16
	NFiles          int
	FileNames       []string // names of volume.files[1:], "" when nil
	UserCreatedSnap []bool
	SnapIndx        int
	Active          []string // activeDiskData[1:] names
	Disks           map[string]VerifDisk
	Children        map[string][]string
	Info            Info
	Mode            string
	RevisionCache   int64
	UsedBlocks      int64
	UsedLogical     int64
}

type VerifDisk struct {
	Name, Parent         string
	Removed, UserCreated bool
	RevisionCounter      int64
}

func (r *Replica) VerifState() VerifState {
	var s VerifState
	s.Location = append([]uint16(nil), r.volume.location...)
	s.NFiles = len(r.volume.files)
	for i, f := range r.volume.files {
		if i == 0 {
			continue
		}
		if of, ok := f.(interface{ Name() string }); ok && f != nil {
			s.FileNames = append(s.FileNames, of.Name())
		} else {
			s.FileNames = append(s.FileNames, "")
		}
	}
	s.UserCreatedSnap = append([]bool(nil), r.volume.UserCreatedSnap...)
	s.SnapIndx = r.volume.SnapIndx
	for i, d := range r.activeDiskData {
		if i == 0 {
			continue
		}
		if d == nil {
			s.Active = append(s.Active, "<nil>")
		} else {
			s.Active = append(s.Active, d.Name)
		}
	}
	s.Disks = map[string]VerifDisk{}
	for k, d := range r.diskData {
		s.Disks[k] = VerifDisk{d.Name, d.Parent, d.Removed, d.UserCreated, d.RevisionCounter}
	}
	s.Children = map[string][]string{}
	for p, cs := range r.diskChildrenMap {
		var l []string
		for c := range cs {
			l = append(l, c)
		}
		sort.Strings(l)
		s.Children[p] = l
	}
	s.Info = r.info
	s.Info.BackingFile = nil
	s.Mode = string(r.mode)
	s.RevisionCache = r.revisionCache
	s.UsedBlocks = r.volume.UsedBlocks
	s.UsedLogical = r.volume.UsedLogicalBlocks
	return s
}

// VerifDir returns the replica directory.
func (r *Replica) VerifDir() string { return r.dir }

// VerifSetMode sets the mode field directly (INIT/CLOSED cannot be set through the API).
func (r *Replica) VerifSetMode(m types.Mode) { r.Lock(); r.mode = m; r.Unlock() }

type verifFlushDisk struct {
	f    *os.File
	done chan struct{}
}

func (v *verifFlushDisk) ReadAt(b []byte, o int64) (int, error)  { return 0, nil }
func (v *verifFlushDisk) WriteAt(b []byte, o int64) (int, error) { return 0, nil }
func (v *verifFlushDisk) Close() error                           { return nil }
func (v *verifFlushDisk) Sync() error                            { return nil }
func (v *verifFlushDisk) Truncate(int64) error                   { return nil }
func (v *verifFlushDisk) Fd() uintptr {
	select {
	case <-v.done:
	default:
		close(v.done)
	}
	return v.f.Fd()
}

var verifFlushFile *os.File

// VerifFlushHoles waits until every hole queued so far has been punched (the
// queue is FIFO with a single consumer; a sentinel entry whose Fd() method
// signals is queued behind them).  CreateHoles must be running.
func VerifFlushHoles() {
	if verifFlushFile == nil {
		f, err := os.CreateTemp("", "verif-flush")
		if err != nil {
			panic(err)
		}
		os.Remove(f.Name())
		f.Truncate(1 << 20)
		verifFlushFile = f
	}
	d := &verifFlushDisk{f: verifFlushFile, done: make(chan struct{})}
	HoleCreatorChan <- Hole{f: d, offset: 0, len: 4096}
	<-d.done
	// the sentinel's own fallocate may still be in flight; queue a second one so the first has fully completed
	d2 := &verifFlushDisk{f: verifFlushFile, done: make(chan struct{})}
	HoleCreatorChan <- Hole{f: d2, offset: 0, len: 4096}
	<-d2.done
}

// VerifPendingHoles is the current length of the hole queue.
func VerifPendingHoles() int { return len(HoleCreatorChan) }

// ---- held-hole schedules (engine E-A): a slow hole-punching goroutine ----

// verifHoldDisk is a queue entry whose Fd() method blocks the CreateHoles goroutine until the explorer releases it
// or until somebody asks for the queue to be drained (holeDrainer sets DrainStart and then waits for CreateHoles,
// so a drain request has to let the goroutine run on, exactly as it would wait for a slow goroutine in production).
type verifHoldDisk struct {
	verifFlushDisk
	entered  chan struct{}
	release  chan struct{}
	returned chan struct{}
}

func (v *verifHoldDisk) Fd() uintptr {
	close(v.entered)
	defer close(v.returned)
	for {
		select {
		case <-v.release:
			return v.f.Fd()
		default:
		}
		if types.DrainOps == types.DrainStart {
			return v.f.Fd()
		}
		sleepShort()
	}
}

// VerifHold is the handle of one hold.
type VerifHold struct{ d *verifHoldDisk }

// VerifHoldHoles makes the CreateHoles goroutine stall (as if it were slow) with every hole queued from now on left
// in the queue, in order.  The queue must be empty (flushed) when it is called.
func VerifHoldHoles() *VerifHold {
	VerifFlushHoles()
	d := &verifHoldDisk{entered: make(chan struct{}), release: make(chan struct{}), returned: make(chan struct{})}
	d.f = verifFlushFile
	d.done = make(chan struct{})
	HoleCreatorChan <- Hole{f: d, offset: 0, len: 4096}
	<-d.entered
	return &VerifHold{d}
}

// Over reports whether the stall has ended (released, or overtaken by a drain request).
func (h *VerifHold) Over() bool {
	select {
	case <-h.d.returned:
		return true
	default:
		return false
	}
}

// Release lets the goroutine run on and waits until every hole queued so far has been handled.
func (h *VerifHold) Release() {
	select {
	case <-h.d.release:
	default:
		close(h.d.release)
	}
	<-h.d.returned
	VerifFlushHoles()
}

// VerifDiscardHoles does what holeDrainer does (used by the harness when no replica is open any more).
func VerifDiscardHoles() { holeDrainer() }

// VerifHoleDesc describes one queued hole.
type VerifHoleDesc struct {
	File   string // base name of the target file
	Closed bool   // the queued file object has been closed in the meantime
	Off    int64
	Len    int64
}

// VerifQueuedHoles lists the queue in order.  Only valid while the consumer is stalled by VerifHoldHoles and no
// producer runs (it takes every entry out and puts it back).
func VerifQueuedHoles() []VerifHoleDesc {
	n := len(HoleCreatorChan)
	var out []VerifHoleDesc
	for i := 0; i < n; i++ {
		h := <-HoleCreatorChan
		d := VerifHoleDesc{Off: h.offset, Len: h.len}
		if of, ok := h.f.(*os.File); ok {
			d.File = filepath.Base(of.Name())
			d.Closed = of.Fd() == ^uintptr(0)
		} else if h.f == nil {
			d.File = "<empty>"
		} else {
			d.File = "<other>"
		}
		out = append(out, d)
		HoleCreatorChan <- h
	}
	return out
}

func verifOSync() int {
	if util.VerifNoSync {
		return 0
	}
	return os.O_SYNC
}

func sleepShort() { realtime.Sleep(20 * realtime.Microsecond) }

// ---- a single failing extent query (FIEMAP) during a block-map rebuild ----

type verifBadFd struct {
	types.DiffDisk
	bad  *os.File
	used bool
}

func (v *verifBadFd) Fd() uintptr {
	if !v.used {
		v.used = true
		return v.bad.Fd() // FIEMAP on /dev/null fails
	}
	return v.DiffDisk.Fd()
}

var verifDevNull *os.File

// VerifFailFiemapOnce makes the next extent query on chain file idx (1 = base ... len-1 = head) fail; the returned
// function puts the original file object back.
func (r *Replica) VerifFailFiemapOnce(idx int) (restore func(), ok bool) {
	if idx <= 0 || idx >= len(r.volume.files) || r.volume.files[idx] == nil {
		return func() {}, false
	}
	if verifDevNull == nil {
		f, err := os.Open("/dev/null")
		if err != nil {
			panic(err)
		}
		verifDevNull = f
	}
	orig := r.volume.files[idx]
	r.volume.files[idx] = &verifBadFd{DiffDisk: orig, bad: verifDevNull}
	return func() {
		if idx < len(r.volume.files) {
			if w, ok := r.volume.files[idx].(*verifBadFd); ok {
				r.volume.files[idx] = w.DiffDisk
			}
		}
	}, true
}

// VerifNumFiles is the number of open chain files (head included).
func (r *Replica) VerifNumFiles() int { return len(r.volume.files) - 1 }
