//go:build verif

// Added to package replica by the verification overlay (never committed to
// /repo).  Read-only accessors for the private state that oracles and
// canonical state keys need, plus a queue flush for the hole puncher.
package replica

import (
	"os"
	"sort"

	"github.com/openebs/jiva/types"
	"github.com/openebs/jiva/util"
)

// VerifState is a deep copy of the in-memory bookkeeping of a Replica.
type VerifState struct {
	Location        []uint16
	NFiles          int
	FileNames       []string // names of volume.files[1:], "" when nil
	UserCreatedSnap []bool
	SnapIndx        int
	Active          []string // activeDiskData[1:] names
	Disks           map[string]VerifDisk
	Children        map[string][]string
	Info            Info
	Mode            string
	RevisionCache   int64
	UsedBlocks      int64
	UsedLogical     int64
}

type VerifDisk struct {
	Name, Parent         string
	Removed, UserCreated bool
	RevisionCounter      int64
}

func (r *Replica) VerifState() VerifState {
	var s VerifState
	s.Location = append([]uint16(nil), r.volume.location...)
	s.NFiles = len(r.volume.files)
	for i, f := range r.volume.files {
		if i == 0 {
			continue
		}
		if of, ok := f.(interface{ Name() string }); ok && f != nil {
			s.FileNames = append(s.FileNames, of.Name())
		} else {
			s.FileNames = append(s.FileNames, "")
		}
	}
	s.UserCreatedSnap = append([]bool(nil), r.volume.UserCreatedSnap...)
	s.SnapIndx = r.volume.SnapIndx
	for i, d := range r.activeDiskData {
		if i == 0 {
			continue
		}
		if d == nil {
			s.Active = append(s.Active, "<nil>")
		} else {
			s.Active = append(s.Active, d.Name)
		}
	}
	s.Disks = map[string]VerifDisk{}
	for k, d := range r.diskData {
		s.Disks[k] = VerifDisk{d.Name, d.Parent, d.Removed, d.UserCreated, d.RevisionCounter}
	}
	s.Children = map[string][]string{}
	for p, cs := range r.diskChildrenMap {
		var l []string
		for c := range cs {
			l = append(l, c)
		}
		sort.Strings(l)
		s.Children[p] = l
	}
	s.Info = r.info
	s.Info.BackingFile = nil
	s.Mode = string(r.mode)
	s.RevisionCache = r.revisionCache
	s.UsedBlocks = r.volume.UsedBlocks
	s.UsedLogical = r.volume.UsedLogicalBlocks
	return s
}

// VerifDir returns the replica directory.
func (r *Replica) VerifDir() string { return r.dir }

// VerifSetMode sets the mode field directly (INIT/CLOSED cannot be set through the API).
func (r *Replica) VerifSetMode(m types.Mode) { r.Lock(); r.mode = m; r.Unlock() }

type verifFlushDisk struct {
	f    *os.File
	done chan struct{}
}

func (v *verifFlushDisk) ReadAt(b []byte, o int64) (int, error)  { return 0, nil }
func (v *verifFlushDisk) WriteAt(b []byte, o int64) (int, error) { return 0, nil }
func (v *verifFlushDisk) Close() error                           { return nil }
func (v *verifFlushDisk) Sync() error                            { return nil }
func (v *verifFlushDisk) Truncate(int64) error                   { return nil }
func (v *verifFlushDisk) Fd() uintptr {
	select {
	case <-v.done:
	default:
		close(v.done)
	}
	return v.f.Fd()
}

var verifFlushFile *os.File

// VerifFlushHoles waits until every hole queued so far has been punched (the
// queue is FIFO with a single consumer; a sentinel entry whose Fd() method
// signals is queued behind them).  CreateHoles must be running.
func VerifFlushHoles() {
	if verifFlushFile == nil {
		f, err := os.CreateTemp("", "verif-flush")
		if err != nil {
			panic(err)
		}
		os.Remove(f.Name())
		f.Truncate(1 << 20)
		verifFlushFile = f
	}
	d := &verifFlushDisk{f: verifFlushFile, done: make(chan struct{})}
	HoleCreatorChan <- Hole{f: d, offset: 0, len: 4096}
	<-d.done
	// the sentinel's own fallocate may still be in flight; queue a second one so the first has fully completed
	d2 := &verifFlushDisk{f: verifFlushFile, done: make(chan struct{})}
	HoleCreatorChan <- Hole{f: d2, offset: 0, len: 4096}
	<-d2.done
}

// VerifPendingHoles is the current length of the hole queue.
func VerifPendingHoles() int { return len(HoleCreatorChan) }

func verifOSync() int {
	if util.VerifNoSync {
		return 0
	}
	return os.O_SYNC
}
