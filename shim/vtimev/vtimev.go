// Package vtimev is injected by the E-D verification overlay as github.com/openebs/jiva/verifshim/vtimev and replaces
// the "time" import of the instrumented jiva packages in the E-D profile.  VIRTUAL mode: under an active vs execution
// Now is the scheduler's clock, and Sleep/After/NewTimer/NewTicker arm virtual timers that are scheduler events (they
// fire when nothing else can run, or earlier when the explorer spends a deviation).  Without an active execution
// (free-running -race pass) durations are real but divided by FreeScale.
package vtimev

import (
	"time"

	"github.com/openebs/jiva/verifshim/vs"
)

type Duration = time.Duration
type Time = time.Time
type Month = time.Month

const (
	Nanosecond  = time.Nanosecond
	Microsecond = time.Microsecond
	Millisecond = time.Millisecond
	Second      = time.Second
	Minute      = time.Minute
	Hour        = time.Hour
	RFC3339     = time.RFC3339
)

// FreeScale divides every wait in pass-through mode.
var FreeScale Duration = 1000

// epoch of the virtual clock (any fixed instant; only differences are meaningful)
var epoch = time.Unix(1600000000, 0)

func scaled(d Duration) Duration {
	if d <= 0 {
		return d
	}
	s := d / FreeScale
	if s <= 0 {
		s = 1
	}
	return s
}

func Now() Time {
	if vs.Active() {
		return epoch.Add(Duration(vs.NowNS()))
	}
	return time.Now()
}

func Since(t Time) Duration {
	if vs.Active() {
		return Now().Sub(t)
	}
	return time.Since(t) * FreeScale
}

func Unix(s, n int64) Time            { return time.Unix(s, n) }
func Parse(l, v string) (Time, error) { return time.Parse(l, v) }

func Sleep(d Duration) {
	if vs.Active() {
		vs.SleepNS(d)
		return
	}
	time.Sleep(scaled(d))
}

func After(d Duration) <-chan Time {
	if vs.Active() {
		ch := make(chan Time, 1)
		vs.AddTimer(d, 0, func(now int64) {
			select {
			case ch <- epoch.Add(Duration(now)):
			default:
			}
		})
		return ch
	}
	return time.After(scaled(d))
}

type Timer struct {
	C <-chan Time
	t *time.Timer
	h *vs.TimerH
}

func NewTimer(d Duration) *Timer {
	if vs.Active() {
		ch := make(chan Time, 1)
		h := vs.AddTimer(d, 0, func(now int64) {
			select {
			case ch <- epoch.Add(Duration(now)):
			default:
			}
		})
		return &Timer{C: ch, h: h}
	}
	t := time.NewTimer(scaled(d))
	return &Timer{C: t.C, t: t}
}

func (t *Timer) Stop() bool {
	if t.h != nil {
		return t.h.Stop()
	}
	return t.t.Stop()
}

type Ticker struct {
	C <-chan Time
	t *time.Ticker
	h *vs.TimerH
}

func NewTicker(d Duration) *Ticker {
	if d <= 0 {
		panic("non-positive interval for NewTicker")
	}
	if vs.Active() {
		ch := make(chan Time, 1)
		h := vs.AddTimer(d, d, func(now int64) {
			select {
			case ch <- epoch.Add(Duration(now)):
			default:
			}
		})
		return &Ticker{C: ch, h: h}
	}
	t := time.NewTicker(scaled(d))
	return &Ticker{C: t.C, t: t}
}

func (t *Ticker) Stop() {
	if t.h != nil {
		t.h.Stop()
		return
	}
	t.t.Stop()
}
