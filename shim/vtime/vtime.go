// Package vtime is injected by the verification overlay as
// github.com/openebs/jiva/verifshim/vtime and replaces the "time" import of
// the instrumented jiva packages.  Scaled mode: every wait is divided by
// Scale so that polling loops (holeDrainer's Sleep(1s), the 5 s register
// ticker, the 2 s retry sleeps) cost microseconds.  No oracle of the harness
// depends on wall-clock time.
package vtime

import "time"

type Duration = time.Duration
type Time = time.Time
type Month = time.Month

const (
	Nanosecond  = time.Nanosecond
	Microsecond = time.Microsecond
	Millisecond = time.Millisecond
	Second      = time.Second
	Minute      = time.Minute
	Hour        = time.Hour
	RFC3339     = time.RFC3339
)

// Scale divides every sleep / timer duration.
var Scale Duration = 10000

// SleepHook, when set, is called instead of sleeping (used by harnesses that
// want to count or gate sleeps).
var SleepHook func(d Duration) bool

func scaled(d Duration) Duration {
	if d <= 0 {
		return d
	}
	s := d / Scale
	if s <= 0 {
		s = 1
	}
	return s
}

func Sleep(d Duration) {
	if h := SleepHook; h != nil && h(d) {
		return
	}
	time.Sleep(scaled(d))
}
func Now() Time                       { return time.Now() }
func Since(t Time) Duration           { return time.Since(t) }
func After(d Duration) <-chan Time    { return time.After(scaled(d)) }
func Unix(s, n int64) Time            { return time.Unix(s, n) }
func Parse(l, v string) (Time, error) { return time.Parse(l, v) }

type Ticker struct {
	C <-chan Time
	t *time.Ticker
}

// TickerHook, when it returns a channel for a duration, makes NewTicker(d) deliver from that channel only (a harness
// that owns a background loop's period, e.g. the 60 s snapshot cleaner, fires it by hand or never).
var TickerHook func(d Duration) <-chan Time

func NewTicker(d Duration) *Ticker {
	if h := TickerHook; h != nil {
		if c := h(d); c != nil {
			return &Ticker{C: c}
		}
	}
	t := time.NewTicker(scaled(d))
	return &Ticker{C: t.C, t: t}
}
func (t *Ticker) Stop() {
	if t.t != nil {
		t.t.Stop()
	}
}

type Timer struct {
	C <-chan Time
	t *time.Timer
}

func NewTimer(d Duration) *Timer { t := time.NewTimer(scaled(d)); return &Timer{C: t.C, t: t} }
func (t *Timer) Stop() bool      { return t.t.Stop() }
