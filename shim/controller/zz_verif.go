//go:build verif

// Added to package controller by the verification overlay: read-only views of private state.
package controller

import (
	"io"
	"sort"

	"github.com/openebs/jiva/types"
)

type VerifBackend struct {
	Address string
	Mode    string
	Backend types.Backend
}

type VerifView struct {
	ReadOnly       bool
	RWReplicaCount int
	Checkpoint     string
	MaxRevReplica  string
	StartSignalled bool
	Size           int64
	Replicas       []types.Replica // order preserved
	Backends       []VerifBackend  // sorted by address
	Writers        []string        // writerIndex values by index
	Readers        []string        // readerIndex values by index
	NWriters       int             // len(MultiWriterAt.writers)
	NReaders       int
	Next           int
	BackendsAvail  bool
	Registered     map[string]types.RegReplica
	FrontendUp     bool
	SnapDeletion   bool
	QuorumReplicas int
}

// VerifView must be called without the controller lock held by the caller and while no controller call is running.
func (c *Controller) VerifView() VerifView {
	v := VerifView{ReadOnly: c.ReadOnly, RWReplicaCount: c.RWReplicaCount, Checkpoint: c.Checkpoint, MaxRevReplica: c.MaxRevReplica,
		StartSignalled: c.StartSignalled, Size: c.size, SnapDeletion: c.IsSnapDeletionInProgress, QuorumReplicas: len(c.quorumReplicas)}
	v.Replicas = append(v.Replicas, c.replicas...)
	if c.backend != nil {
		for a, b := range c.backend.backends {
			v.Backends = append(v.Backends, VerifBackend{a, string(b.mode), b.backend})
		}
		sort.Slice(v.Backends, func(i, j int) bool { return v.Backends[i].Address < v.Backends[j].Address })
		for i := 0; i < len(c.backend.writerIndex); i++ {
			v.Writers = append(v.Writers, c.backend.writerIndex[i])
		}
		for i := 0; i < len(c.backend.readerIndex); i++ {
			v.Readers = append(v.Readers, c.backend.readerIndex[i])
		}
		if mw, ok := c.backend.writer.(*MultiWriterAt); ok && mw != nil {
			v.NWriters = len(mw.writers)
		}
		v.NReaders = len(c.backend.readers)
		v.Next = c.backend.next
		v.BackendsAvail = c.backend.backendsAvailable
	}
	v.Registered = map[string]types.RegReplica{}
	for k, r := range c.RegisteredReplicas {
		v.Registered[k] = r
	}
	if c.frontend != nil {
		v.FrontendUp = c.frontend.State() == types.StateUp
	}
	return v
}

// VerifTryLock reports whether the controller lock is free (and leaves it free).
func (c *Controller) VerifTryLock() bool {
	if c.TryLock() {
		c.Unlock()
		return true
	}
	return false
}

// VerifCanonicalOrder owns one source of nondeterminism: buildReadWriters fills the reader and writer lists in Go map
// iteration order.  Any order is a legal outcome; between two events the harness permutes the lists the controller
// built (membership untouched, index maps kept consistent) into address order so that a replayed path behaves the
// same way every time.  The round-robin cursor is left as it is.
// VerifCanonicalOrderIfFree canonicalises under the controller lock; false when the lock is taken.
// VerifViewIfFree takes the view under the controller lock if the lock is free (for harnesses whose controller
// goroutines run free: the maps must not be read while one of them writes).
func (c *Controller) VerifViewIfFree() (VerifView, bool) {
	if !c.TryLock() {
		return VerifView{}, false
	}
	defer c.Unlock()
	return c.VerifView(), true
}

func (c *Controller) VerifCanonicalOrderIfFree() bool {
	if !c.TryLock() {
		return false
	}
	defer c.Unlock()
	c.VerifCanonicalOrder()
	return true
}

func (c *Controller) VerifCanonicalOrder() {
	r := c.backend
	if r == nil {
		return
	}
	if mw, ok := r.writer.(*MultiWriterAt); ok && mw != nil && len(mw.writers) == len(r.writerIndex) {
		type pw struct {
			a string
			w Writer
		}
		var l []pw
		for i, w := range mw.writers {
			l = append(l, pw{r.writerIndex[i], w})
		}
		sort.SliceStable(l, func(i, j int) bool { return l[i].a < l[j].a })
		for i, p := range l {
			mw.writers[i] = p.w
			r.writerIndex[i] = p.a
		}
	}
	if len(r.readers) == len(r.readerIndex) {
		type pr struct {
			a  string
			rd io.ReaderAt
		}
		var l []pr
		for i, rd := range r.readers {
			l = append(l, pr{r.readerIndex[i], rd})
		}
		sort.SliceStable(l, func(i, j int) bool { return l[i].a < l[j].a })
		for i, p := range l {
			r.readers[i] = p.rd
			r.readerIndex[i] = p.a
		}
	}
}
