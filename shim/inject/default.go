//go:build !debug
// +build !debug

// Replacement of /repo/error-inject/default.go used by the verification
// overlay: the same no-op API, but two of the delay points call a
// harness-settable hook so that an explorer can decide when a dequeued hole
// is punched and what happens inside UpdateLUNMap's unlocked window.
package inject

var Envs map[string](map[string]bool)

// Hooks (nil = no-op, exactly the production behaviour).
var (
	PunchHoleHook      func()
	UpdateLUNMapHook   func()
	PreloadHook        func()
	PrepareRebuildHook func()
	SetCheckpointHook  func(addr string)
)

func AddTimeout()     {}
func AddPingTimeout() {}
func AddPreloadTimeout() {
	if h := PreloadHook; h != nil {
		h()
	}
}
func AddPunchHoleTimeout() {
	if h := PunchHoleHook; h != nil {
		h()
	}
}
func DisablePunchHoles() bool { return false }
func PanicAfterPrepareRebuild() {
	if h := PrepareRebuildHook; h != nil {
		h()
	}
}
func PanicWhileSettingCheckpoint(addr string) {
	if h := SetCheckpointHook; h != nil {
		h(addr)
	}
}

// WaitActionHook (engine E-F): stands in front of the registration loop's wait for the controller's action.  It
// returns (action, tick, handled); handled=false means "not mine": the original select runs.
var WaitActionHook func(replicaAddress string) (string, bool, bool)

func WaitAction(replicaAddress string) (string, bool, bool) {
	if h := WaitActionHook; h != nil {
		return h(replicaAddress)
	}
	return "", false, false
}

var UpdateLUNMapTimeoutTriggered bool

func AddUpdateLUNMapTimeout() {
	if h := UpdateLUNMapHook; h != nil {
		h()
	}
}
