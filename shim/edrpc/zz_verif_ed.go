//go:build verif

// Added to package rpc by the E-D verification overlay (never present in /repo): read-only accessors for the oracles.
package rpc

// VerifClientErr returns the client's sticky transport error.
func VerifClientErr(c *Client) error { return c.err }

// VerifInflight returns (type, offset, size) of every request registered in c.messages.
func VerifInflight(c *Client) [][3]int64 {
	out := make([][3]int64, 0, len(c.messages))
	for _, m := range c.messages {
		out = append(out, [3]int64{int64(m.Type), m.Offset, m.Size})
	}
	return out
}

// VerifQueues returns len(requests), len(send), len(responses).
func VerifQueues(c *Client) (int, int, int) { return len(c.requests), len(c.send), len(c.responses) }

// VerifExits returns the reader/writer exit flags of the wire.
func VerifExits(c *Client) (bool, bool) { return c.wire.readExit, c.wire.writeExit }

// VerifTimeout returns the deadline the client arms for an operation of the given frame type.
func VerifTimeout(typ uint32) int64 {
	switch typ {
	case TypeRead:
		return int64(opReadTimeout)
	case TypeWrite:
		return int64(opWriteTimeout)
	case TypeSync:
		return int64(opSyncTimeout)
	case TypeUnmap:
		return int64(opUnmapTimeout)
	}
	return int64(opPingTimeout)
}

// VerifRegistered returns the number of requests registered in c.messages.
func VerifRegistered(c *Client) int { return len(c.messages) }
