// Package vsmaps is injected by the verification overlay as github.com/openebs/jiva/verifshim/vsmaps.  It owns one source
// of nondeterminism: Go's map iteration order.  /verif/tools/instr rewrites
//
//	for k, v := range m { … }      into      for k, v, it := vsmaps.Start(m); it.Next(&k, &v); { … }
//
// which visits the keys in ascending order and is otherwise transparent: m is evaluated once, k and v are ONE pair of
// variables shared by all iterations (the loop-variable semantics of go < 1.22, which the instrumented module uses),
// entries deleted during the loop are not produced, v is the value at the time the entry is reached, break / continue /
// labels keep their meaning.  No other dependency.
package vsmaps

import "sort"

type Ordered interface {
	~int | ~int8 | ~int16 | ~int32 | ~int64 | ~uint | ~uint8 | ~uint16 | ~uint32 | ~uint64 | ~uintptr | ~float32 | ~float64 | ~string
}

type Iter[K Ordered, V any] struct {
	m    map[K]V
	keys []K
	i    int
}

func New[K Ordered, V any](m map[K]V) *Iter[K, V] {
	it := &Iter[K, V]{m: m, keys: make([]K, 0, len(m))}
	for k := range m {
		it.keys = append(it.keys, k)
	}
	sort.Slice(it.keys, func(i, j int) bool { return it.keys[i] < it.keys[j] })
	return it
}

// Start declares the loop's key and value variables (zero values) and the iterator.
func Start[K Ordered, V any](m map[K]V) (K, V, *Iter[K, V]) {
	var k K
	var v V
	return k, v, New(m)
}

// StartK is Start for `for k := range m`.
func StartK[K Ordered, V any](m map[K]V) (K, *Iter[K, V]) {
	var k K
	return k, New(m)
}

// StartV is Start for `for _, v := range m`.
func StartV[K Ordered, V any](m map[K]V) (V, *Iter[K, V]) {
	var v V
	return v, New(m)
}

// Next moves to the next key that is still in the map and stores key and value through the non-nil pointers.
func (it *Iter[K, V]) Next(k *K, v *V) bool {
	for it.i < len(it.keys) {
		key := it.keys[it.i]
		it.i++
		val, ok := it.m[key]
		if !ok {
			continue
		}
		if k != nil {
			*k = key
		}
		if v != nil {
			*v = val
		}
		return true
	}
	return false
}
