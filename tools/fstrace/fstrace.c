// fstrace: ptrace tracer of engine E-C (property C08).  x86-64 Linux only.
//
//   fstrace --dir DIR --log FILE [--snap-each OUT] [--fail K ERRNO] [--all-threads] -- victim args...
//
// Runs the victim under ptrace (PTRACE_O_TRACESYSGOOD|TRACECLONE|TRACEFORK|TRACEVFORK|TRACEEXEC|EXITKILL|
// TRACESECCOMP; every thread of the victim is followed).  A seccomp filter installed in the child before exec
// makes only the system calls of interest stop (RET_TRACE); everything else runs at full speed.
//
// The victim brackets ONE operation with two marker system calls
//        getpriority(0x7e57, 1)   ... operation ...   getpriority(0x7e57, 2)
// (an invalid `which`: the kernel answers EINVAL, nothing happens).  Between the markers every *counted* call is
// numbered 0,1,2,...  Counted calls are the file-system calls that can change the replica directory DIR:
//   openat/open/creat with O_CREAT or O_TRUNC or write access, write, pwrite64, rename/renameat/renameat2,
//   link/linkat, unlink/unlinkat, fsync, fdatasync, ftruncate, truncate, fallocate, mkdir/mkdirat
// whose path argument(s) lie inside DIR or whose descriptor resolves (through /proc/<tid>/fd) to DIR or a file in it.
// By default only calls issued by the thread that issued the start marker are counted (the victim runs the
// operation under runtime.LockOSThread); calls of other threads that touch DIR inside the window are logged with
// "k":-1.  --all-threads counts every thread.
//
// Modes (combinable):
//   always          one JSON line per counted call in FILE (written at the exit stop, so it carries the result),
//                   plus {"marker":1|2,...} lines and a final {"done":...} line.  This is `--trace`.
//   --snap-each OUT at the ENTRY stop of counted call k (the call has not executed) copy DIR, holes preserved, to
//                   OUT/<k>: the directory a process killed at that instant leaves behind.  At the end marker copy
//                   DIR to OUT/final (death right after the operation returned).
//   --fail K ERRNO  counted call K is not executed; it returns -ERRNO.
//
// Exit status: the victim's (128+signal when it was killed); 97 = tracer-internal error; 98 = no start marker seen.
#define _GNU_SOURCE
#include <stdio.h>
#include <stdlib.h>
#include <string.h>
#include <unistd.h>
#include <errno.h>
#include <fcntl.h>
#include <signal.h>
#include <dirent.h>
#include <stddef.h>
#include <limits.h>
#include <sys/ptrace.h>
#include <sys/wait.h>
#include <sys/user.h>
#include <sys/syscall.h>
#include <sys/uio.h>
#include <sys/stat.h>
#include <sys/prctl.h>
#include <linux/seccomp.h>
#include <linux/filter.h>
#include <linux/audit.h>

#define MARK_WHICH 0x7e57
#ifndef PTRACE_O_TRACESECCOMP
#define PTRACE_O_TRACESECCOMP 0x80
#endif
#ifndef PTRACE_EVENT_SECCOMP
#define PTRACE_EVENT_SECCOMP 7
#endif

static char dir[PATH_MAX];
static size_t dirlen;
static const char *snapdir = NULL;
static int failK = -1, failErr = 0, allThreads = 0;
static FILE *logf;
static int counting = 0, counter = 0, sawStart = 0, sawEnd = 0, others = 0;
static pid_t markTid = 0;

struct rec {
  int k; long nr; char name[16]; char p[PATH_MAX]; char q[PATH_MAX]; char fl[160];
  long long len, off; int creates; int injected;
};
struct th { pid_t tid; int await; struct rec r; };
static struct th ths[1024]; static int nth = 0;

static struct th *get(pid_t t) {
  for (int i = 0; i < nth; i++) if (ths[i].tid == t) return &ths[i];
  if (nth == 1024) { fprintf(stderr, "fstrace: too many threads\n"); exit(97); }
  memset(&ths[nth], 0, sizeof ths[nth]); ths[nth].tid = t; return &ths[nth++];
}

static const int traced[] = { SYS_open, SYS_openat, SYS_creat, SYS_write, SYS_pwrite64, SYS_rename, SYS_renameat,
  SYS_renameat2, SYS_link, SYS_linkat, SYS_unlink, SYS_unlinkat, SYS_fsync, SYS_fdatasync, SYS_ftruncate,
  SYS_truncate, SYS_fallocate, SYS_mkdir, SYS_mkdirat, SYS_getpriority };
#define NTRACED ((int)(sizeof traced / sizeof traced[0]))

static void install_filter(void) {
  struct sock_filter f[4 + 2 * NTRACED + 1]; int n = 0;
  f[n++] = (struct sock_filter)BPF_STMT(BPF_LD | BPF_W | BPF_ABS, offsetof(struct seccomp_data, arch));
  f[n++] = (struct sock_filter)BPF_JUMP(BPF_JMP | BPF_JEQ | BPF_K, AUDIT_ARCH_X86_64, 1, 0);
  f[n++] = (struct sock_filter)BPF_STMT(BPF_RET | BPF_K, SECCOMP_RET_ALLOW);
  f[n++] = (struct sock_filter)BPF_STMT(BPF_LD | BPF_W | BPF_ABS, offsetof(struct seccomp_data, nr));
  for (int i = 0; i < NTRACED; i++) {
    f[n++] = (struct sock_filter)BPF_JUMP(BPF_JMP | BPF_JEQ | BPF_K, (unsigned)traced[i], 0, 1);
    f[n++] = (struct sock_filter)BPF_STMT(BPF_RET | BPF_K, SECCOMP_RET_TRACE);
  }
  f[n++] = (struct sock_filter)BPF_STMT(BPF_RET | BPF_K, SECCOMP_RET_ALLOW);
  struct sock_fprog prog = { .len = (unsigned short)n, .filter = f };
  if (prctl(PR_SET_NO_NEW_PRIVS, 1, 0, 0, 0)) { perror("fstrace: no_new_privs"); _exit(97); }
  if (prctl(PR_SET_SECCOMP, SECCOMP_MODE_FILTER, &prog)) { perror("fstrace: seccomp"); _exit(97); }
}

static void readstr(pid_t pid, unsigned long addr, char *buf, size_t n) {
  size_t i = 0; buf[0] = 0;
  while (i < n - 1) {
    // read up to the end of the page so that an unmapped next page cannot fail the whole read
    size_t chunk = 4096 - ((addr + i) & 4095); if (chunk > n - 1 - i) chunk = n - 1 - i;
    struct iovec l = { buf + i, chunk }, r = { (void *)(addr + i), chunk };
    ssize_t k = process_vm_readv(pid, &l, 1, &r, 1, 0);
    if (k <= 0) break;
    for (ssize_t j = 0; j < k; j++) if (!buf[i + j]) return;
    i += k;
  }
  buf[i] = 0;
}

static int fdpath(pid_t tid, long fd, char *out, size_t n) {
  char p[64]; snprintf(p, sizeof p, "/proc/%d/fd/%ld", tid, fd);
  ssize_t k = readlink(p, out, n - 1); if (k < 0) { out[0] = 0; return -1; }
  out[k] = 0;
  size_t L = strlen(out); const char *del = " (deleted)";
  if (L > strlen(del) && !strcmp(out + L - strlen(del), del)) out[L - strlen(del)] = 0;
  return 0;
}

// resolve a path argument given relative to dirfd into an absolute path (no symlink resolution: the victim is given
// a canonical DIR and builds its paths from it)
static void abspath(pid_t tid, long dirfd, const char *p, char *out, size_t n) {
  if (p[0] == '/') { snprintf(out, n, "%s", p); return; }
  char base[PATH_MAX];
  if ((int)dirfd == AT_FDCWD) { char l[64]; snprintf(l, sizeof l, "/proc/%d/cwd", tid); ssize_t k = readlink(l, base, sizeof base - 1); if (k < 0) k = 0; base[k] = 0; }
  else fdpath(tid, dirfd, base, sizeof base);
  snprintf(out, n, "%s/%s", base, p);
}

static int under(const char *p) { return strncmp(p, dir, dirlen) == 0 && (p[dirlen] == '/' || p[dirlen] == 0); }
static const char *rel(const char *p) { if (under(p)) { if (p[dirlen] == 0) return "."; return p + dirlen + 1; } return p; }

static void flagstr(long fl, char *out, size_t n) {
  out[0] = 0;
  const char *acc = (fl & O_ACCMODE) == O_RDONLY ? "O_RDONLY" : (fl & O_ACCMODE) == O_WRONLY ? "O_WRONLY" : "O_RDWR";
  snprintf(out, n, "%s", acc);
#define F(x) if (fl & x) { strncat(out, "|" #x, n - strlen(out) - 1); }
  F(O_CREAT) F(O_EXCL) F(O_TRUNC) F(O_APPEND) F(O_SYNC) F(O_DSYNC) F(O_DIRECT) F(O_DIRECTORY)
#undef F
}

// classify the call at its entry; returns 1 when it is a counted call (touches DIR and can change it)
static int classify(pid_t t, struct user_regs_struct *r, struct rec *c) {
  long nr = r->orig_rax; char a[PATH_MAX], b[PATH_MAX];
  memset(c, 0, sizeof *c); c->nr = nr; c->len = -1; c->off = -1; c->k = -1;
  switch (nr) {
  case SYS_open: case SYS_openat: case SYS_creat: {
    long dfd = AT_FDCWD, fl; unsigned long pa;
    if (nr == SYS_openat) { dfd = (int)r->rdi; pa = r->rsi; fl = r->rdx; }
    else if (nr == SYS_open) { pa = r->rdi; fl = r->rsi; }
    else { pa = r->rdi; fl = O_CREAT | O_WRONLY | O_TRUNC; }
    readstr(t, pa, a, sizeof a); abspath(t, dfd, a, c->p, sizeof c->p);
    strcpy(c->name, "openat"); flagstr(fl, c->fl, sizeof c->fl);
    if (!under(c->p)) return 0;
    if (!((fl & (O_CREAT | O_TRUNC)) || (fl & O_ACCMODE) != O_RDONLY)) return 0;
    if (fl & O_CREAT) c->creates = access(c->p, F_OK) != 0;
    return 1; }
  case SYS_rename: case SYS_renameat: case SYS_renameat2: case SYS_link: case SYS_linkat: {
    long d1 = AT_FDCWD, d2 = AT_FDCWD; unsigned long p1, p2;
    if (nr == SYS_rename || nr == SYS_link) { p1 = r->rdi; p2 = r->rsi; }
    else { d1 = (int)r->rdi; p1 = r->rsi; d2 = (int)r->rdx; p2 = r->r10; }
    readstr(t, p1, a, sizeof a); readstr(t, p2, b, sizeof b);
    abspath(t, d1, a, c->p, sizeof c->p); abspath(t, d2, b, c->q, sizeof c->q);
    strcpy(c->name, (nr == SYS_link || nr == SYS_linkat) ? "link" : "rename");
    return under(c->p) || under(c->q); }
  case SYS_unlink: case SYS_unlinkat: {
    long d1 = AT_FDCWD; unsigned long p1;
    if (nr == SYS_unlink) p1 = r->rdi; else { d1 = (int)r->rdi; p1 = r->rsi; if (r->rdx & AT_REMOVEDIR) strcpy(c->fl, "AT_REMOVEDIR"); }
    readstr(t, p1, a, sizeof a); abspath(t, d1, a, c->p, sizeof c->p); strcpy(c->name, "unlink");
    return under(c->p); }
  case SYS_mkdir: case SYS_mkdirat: {
    long d1 = AT_FDCWD; unsigned long p1;
    if (nr == SYS_mkdir) p1 = r->rdi; else { d1 = (int)r->rdi; p1 = r->rsi; }
    readstr(t, p1, a, sizeof a); abspath(t, d1, a, c->p, sizeof c->p); strcpy(c->name, "mkdir");
    return under(c->p); }
  case SYS_truncate:
    readstr(t, r->rdi, a, sizeof a); abspath(t, AT_FDCWD, a, c->p, sizeof c->p); strcpy(c->name, "truncate"); c->len = r->rsi;
    return under(c->p);
  case SYS_write: case SYS_pwrite64: case SYS_fsync: case SYS_fdatasync: case SYS_ftruncate: case SYS_fallocate:
    if (fdpath(t, (int)r->rdi, c->p, sizeof c->p) < 0) return 0;
    if (!under(c->p)) return 0;
    switch (nr) {
    case SYS_write: strcpy(c->name, "write"); c->len = r->rdx; break;
    case SYS_pwrite64: strcpy(c->name, "pwrite64"); c->len = r->rdx; c->off = r->r10; break;
    case SYS_fsync: strcpy(c->name, "fsync"); break;
    case SYS_fdatasync: strcpy(c->name, "fdatasync"); break;
    case SYS_ftruncate: strcpy(c->name, "ftruncate"); c->len = r->rsi; break;
    case SYS_fallocate: strcpy(c->name, "fallocate"); snprintf(c->fl, sizeof c->fl, "mode=0x%llx", (unsigned long long)r->rsi); c->off = r->rdx; c->len = r->r10; break;
    }
    // the descriptor's own open flags tell whether writes go through O_SYNC/O_DIRECT
    if (nr == SYS_write || nr == SYS_pwrite64) {
      char fi[64], line[256]; snprintf(fi, sizeof fi, "/proc/%d/fdinfo/%d", t, (int)r->rdi);
      FILE *f = fopen(fi, "r");
      if (f) { while (fgets(line, sizeof line, f)) if (!strncmp(line, "flags:", 6)) { long fl = strtol(line + 6, NULL, 8); flagstr(fl, c->fl, sizeof c->fl); } fclose(f); }
    }
    return 1;
  }
  return 0;
}

static void jstr(FILE *f, const char *s) {
  fputc('"', f);
  for (; *s; s++) { unsigned char ch = *s; if (ch == '"' || ch == '\\') { fputc('\\', f); fputc(ch, f); } else if (ch < 0x20) fprintf(f, "\\u%04x", ch); else fputc(ch, f); }
  fputc('"', f);
}

static void logrec(struct th *h, long long ret) {
  struct rec *c = &h->r;
  fprintf(logf, "{\"k\":%d,\"tid\":%d,\"sys\":", c->k, h->tid); jstr(logf, c->name);
  fprintf(logf, ",\"path\":"); jstr(logf, rel(c->p));
  if (c->q[0]) { fprintf(logf, ",\"path2\":"); jstr(logf, rel(c->q)); }
  if (c->fl[0]) { fprintf(logf, ",\"flags\":"); jstr(logf, c->fl); }
  if (c->len >= 0) fprintf(logf, ",\"len\":%lld", c->len);
  if (c->off >= 0) fprintf(logf, ",\"off\":%lld", c->off);
  if (c->creates) fprintf(logf, ",\"creates\":true");
  if (c->injected) fprintf(logf, ",\"injected\":true");
  fprintf(logf, ",\"ret\":%lld}\n", ret); fflush(logf);
}

// ---- hole-preserving copy of the replica directory (flat: the replica keeps no sub-directories) ----
static int copy_file(const char *src, const char *dst, int direct) {
  int in = open(src, O_RDONLY); if (in < 0) return errno == ENOENT ? 0 : -1;
  struct stat st; if (fstat(in, &st)) { close(in); return -1; }
  if (!S_ISREG(st.st_mode)) { close(in); return 0; }
  int out = -1;
  if (direct) out = open(dst, O_WRONLY | O_CREAT | O_TRUNC | O_DIRECT, 0644);
  if (out < 0) { direct = 0; out = open(dst, O_WRONLY | O_CREAT | O_TRUNC, 0644); }
  if (out < 0) { close(in); return -1; }
  if (ftruncate(out, st.st_size)) { close(in); close(out); return -1; }
  static char *buf; enum { BUFSZ = 1 << 20 };
  if (!buf && posix_memalign((void **)&buf, 4096, BUFSZ)) return -1;
  off_t pos = 0; int rc = 0;
  while (pos < st.st_size) {
    off_t d = lseek(in, pos, SEEK_DATA); if (d < 0) { if (errno == ENXIO) break; rc = -1; break; }
    off_t h = lseek(in, d, SEEK_HOLE); if (h < 0) h = st.st_size;
    off_t o = d;
    while (o < h) {
      size_t want = (size_t)(h - o) > BUFSZ ? BUFSZ : (size_t)(h - o);
      ssize_t k = pread(in, buf, want, o); if (k <= 0) { rc = -1; break; }
      size_t w = (size_t)k;
      if (direct && ((w & 4095) || (o & 4095))) {
        // unaligned tail (metadata-sized file): finish through a buffered descriptor
        int fl = fcntl(out, F_GETFL); fcntl(out, F_SETFL, fl & ~O_DIRECT); direct = 0;
      }
      if (pwrite(out, buf, w, o) != (ssize_t)w) { rc = -1; break; }
      o += k;
    }
    if (rc) break;
    pos = h;
  }
  close(in); close(out); return rc;
}

static int copy_dir(const char *src, const char *dst) {
  if (mkdir(dst, 0755) && errno != EEXIST) return -1;
  DIR *d = opendir(src); if (!d) return -1;
  struct dirent *e; int rc = 0;
  // names that are hard links of one file in the source stay hard links of one file in the copy (the replica links a
  // snapshot to its head before it renames the metadata; code that recognises that leftover by inode must still do so)
  enum { MAXL = 256 }; static ino_t seen_ino[MAXL]; static char seen_path[MAXL][PATH_MAX]; int nseen = 0;
  while ((e = readdir(d))) {
    if (!strcmp(e->d_name, ".") || !strcmp(e->d_name, "..")) continue;
    char a[PATH_MAX], b[PATH_MAX]; snprintf(a, sizeof a, "%s/%s", src, e->d_name); snprintf(b, sizeof b, "%s/%s", dst, e->d_name);
    size_t L = strlen(e->d_name); int img = L > 4 && !strcmp(e->d_name + L - 4, ".img");
    struct stat st; int linked = 0;
    if (!stat(a, &st) && S_ISREG(st.st_mode) && st.st_nlink > 1) {
      for (int k = 0; k < nseen; k++) if (seen_ino[k] == st.st_ino) { unlink(b); if (!link(seen_path[k], b)) linked = 1; break; }
      if (!linked && nseen < MAXL) { seen_ino[nseen] = st.st_ino; snprintf(seen_path[nseen], PATH_MAX, "%s", b); nseen++; }
    }
    if (linked) continue;
    if (copy_file(a, b, img)) { rc = -1; fprintf(stderr, "fstrace: copy %s: %s\n", a, strerror(errno)); }
  }
  closedir(d); return rc;
}

static void snap(const char *name) {
  char dst[PATH_MAX]; snprintf(dst, sizeof dst, "%s/%s", snapdir, name);
  if (copy_dir(dir, dst)) { fprintf(stderr, "fstrace: snapshot %s failed\n", dst); exit(97); }
}

static void usage(void) { fprintf(stderr, "usage: fstrace --dir DIR --log FILE [--trace] [--snap-each OUT] [--fail K ERRNO] [--all-threads] -- cmd args...\n"); exit(97); }

int main(int argc, char **argv) {
  int i = 1; const char *logpath = NULL; dir[0] = 0;
  for (; i < argc; i++) {
    if (!strcmp(argv[i], "--")) { i++; break; }
    else if (!strcmp(argv[i], "--dir") && i + 1 < argc) { snprintf(dir, sizeof dir, "%s", argv[++i]); }
    else if (!strcmp(argv[i], "--log") && i + 1 < argc) logpath = argv[++i];
    else if (!strcmp(argv[i], "--trace")) { }
    else if (!strcmp(argv[i], "--all-threads")) allThreads = 1;
    else if (!strcmp(argv[i], "--snap-each") && i + 1 < argc) snapdir = argv[++i];
    else if (!strcmp(argv[i], "--fail") && i + 2 < argc) { failK = atoi(argv[i + 1]); failErr = atoi(argv[i + 2]); i += 2; }
    else usage();
  }
  if (!dir[0] || i >= argc) usage();
  dirlen = strlen(dir); while (dirlen > 1 && dir[dirlen - 1] == '/') dir[--dirlen] = 0;
  logf = logpath ? fopen(logpath, "w") : stderr;
  if (!logf) { perror("fstrace: log"); return 97; }
  if (snapdir && mkdir(snapdir, 0755) && errno != EEXIST) { perror("fstrace: snap dir"); return 97; }

  pid_t child = fork();
  if (child < 0) { perror("fork"); return 97; }
  if (child == 0) {
    ptrace(PTRACE_TRACEME, 0, 0, 0); raise(SIGSTOP);
    install_filter();
    execvp(argv[i], argv + i); perror("fstrace: exec"); _exit(127);
  }
  int st; if (waitpid(child, &st, 0) < 0 || !WIFSTOPPED(st)) { fprintf(stderr, "fstrace: child did not stop\n"); return 97; }
  if (ptrace(PTRACE_SETOPTIONS, child, 0, PTRACE_O_TRACESYSGOOD | PTRACE_O_TRACECLONE | PTRACE_O_TRACEFORK | PTRACE_O_TRACEVFORK |
                 PTRACE_O_TRACEEXEC | PTRACE_O_EXITKILL | PTRACE_O_TRACESECCOMP)) { perror("fstrace: setoptions"); return 97; }
  get(child);
  ptrace(PTRACE_CONT, child, 0, 0);
  int exitcode = -1;
  for (;;) {
    pid_t t = waitpid(-1, &st, __WALL);
    if (t < 0) { if (errno == EINTR) continue; break; }
    if (WIFEXITED(st) || WIFSIGNALED(st)) {
      if (t == child) exitcode = WIFEXITED(st) ? WEXITSTATUS(st) : 128 + WTERMSIG(st);
      continue;
    }
    if (!WIFSTOPPED(st)) continue;
    int sig = WSTOPSIG(st), ev = (unsigned)st >> 16; struct th *h = get(t);
    long resume = h->await ? PTRACE_SYSCALL : PTRACE_CONT;
    if (sig == SIGTRAP && ev == PTRACE_EVENT_SECCOMP) {
      struct user_regs_struct r; if (ptrace(PTRACE_GETREGS, t, 0, &r)) { ptrace(resume, t, 0, 0); continue; }
      long nr = r.orig_rax;
      if (nr == SYS_getpriority) {
        if ((long)r.rdi == MARK_WHICH) {
          if ((long)r.rsi == 1 && !sawStart) { sawStart = 1; counting = 1; counter = 0; markTid = t; fprintf(logf, "{\"marker\":1,\"tid\":%d}\n", t); fflush(logf); }
          else if ((long)r.rsi == 2 && counting && (allThreads || t == markTid)) {
            counting = 0; sawEnd = 1; if (snapdir) snap("final");
            fprintf(logf, "{\"marker\":2,\"tid\":%d,\"calls\":%d,\"other_thread_calls\":%d}\n", t, counter, others); fflush(logf);
          }
        }
        ptrace(resume, t, 0, 0); continue;
      }
      if (!counting || h->await) { ptrace(resume, t, 0, 0); continue; }
      struct rec c;
      if (!classify(t, &r, &c)) { ptrace(resume, t, 0, 0); continue; }
      if (!allThreads && t != markTid) { others++; c.k = -1; h->r = c; h->await = 1; ptrace(PTRACE_SYSCALL, t, 0, 0); continue; }
      c.k = counter++;
      if (snapdir) { char nm[32]; snprintf(nm, sizeof nm, "%d", c.k); snap(nm); }
      if (c.k == failK) {
        c.injected = 1; r.orig_rax = (unsigned long long)-1; r.rax = (unsigned long long)(-(long)failErr);
        if (ptrace(PTRACE_SETREGS, t, 0, &r)) { perror("fstrace: setregs"); exit(97); }
      }
      h->r = c; h->await = 1;
      ptrace(PTRACE_SYSCALL, t, 0, 0);
    } else if (sig == (SIGTRAP | 0x80)) {
      if (h->await) {
        struct user_regs_struct r; ptrace(PTRACE_GETREGS, t, 0, &r);
        // the exit stop of the recorded call (other syscall stops can only come from a signal handler run in between)
        if ((long)r.orig_rax == h->r.nr || h->r.injected) {
          if (h->r.injected) { r.rax = (unsigned long long)(-(long)failErr); ptrace(PTRACE_SETREGS, t, 0, &r); }
          logrec(h, (long long)r.rax); h->await = 0;
          ptrace(PTRACE_CONT, t, 0, 0); continue;
        }
      }
      ptrace(resume, t, 0, 0);
    } else if (sig == SIGTRAP && ev) {
      ptrace(resume, t, 0, 0); // clone/fork/exec events
    } else if (sig == SIGSTOP) {
      ptrace(resume, t, 0, 0); // initial stop of an auto-attached thread
    } else {
      ptrace(resume, t, 0, sig); // signal-delivery stop: hand the signal on (Go preempts with SIGURG)
    }
  }
  fprintf(logf, "{\"done\":true,\"calls\":%d,\"start\":%d,\"end\":%d,\"exit\":%d}\n", counter, sawStart, sawEnd, exitcode); fflush(logf);
  if (!sawStart && exitcode == 0) return 98;
  return exitcode < 0 ? 97 : exitcode;
}
