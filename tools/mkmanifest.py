#!/usr/bin/env python3
"""Regenerates /verif/MANIFEST.json from the table below (kept in one place so it is always schema-valid)."""
import json, sys

EA = "E-A REPLICA-OPSEQ"
EB = "E-B CTRL-BFS"
EC = "E-C FS-CRASH"
EF = "E-F CLUSTER"
EE = "E-E REST-ENUM"
ED = "E-D SCHED"
checks = {
 "C06": dict(engine=EA, design="§3 E-A, §4 C06",
   text="Explicit-state BFS over every operation sequence (writes of each shape, user/automatic snapshots, system-performed removals, mark-removed, reopen with preload, rebuild-style reload+UpdateLUNMap, revert) up to the stated depth on a real on-disk replica with hole punching on; in every reachable state every retained user snapshot is compared byte-for-byte with the reference model, both by an independent extent walk over the chain files and by copying the directory, reverting the copy with the real code and reading it.",
   note="Trusted: the reference model (ea/model.go), ext4 FIEMAP, in-process sparse.FoldFile standing for the sfold child. Bounds: 2-3 blocks, depth 5 (quick) / 7 (thorough), <=3 snapshots; holes are punched before the next event.",
   technique="explicit-state BFS with replay on the real replica.Server vs reference model"),

 "C01": dict(engine=EA, design="§3 E-A, §4 C01",
   text="Explicit-state BFS over every sequence of writes (15 shapes: aligned 1-3 blocks, sub-block at start/middle/end, spans with unaligned head/tail), reads, user/automatic snapshots, system-performed removals, reverts, close/reopen with and without preload and reload, with hole punching off and on, on 1-3 block volumes; after every path the live volume is read back (every 512-multiple (offset,length) pair on the last level) and compared with the reference model.",
   note="Trusted: reference model, ext4 FIEMAP. Bounds: <=3 blocks, depth as reported in evidence (budgeted), <=4 snapshots. Part 2 (engine E-B, C01range): for EVERY (offset, length) pair with offset in [-2,N+2] and length in [0,N+2] sectors Controller.WriteAt/ReadAt is rejected exactly when the range leaves [0,size), without reaching a replica or changing its data.",
   technique="explicit-state BFS with replay on the real replica.Server vs reference model"),
 "C10": dict(engine=EA, design="§3 E-A, §4 C10",
   text="Explicit-state BFS over sequences of writes, mode flips RW/WO, SetRevisionCounter, close/open, reload, snapshot and reopen on a real replica; after every path the persisted revision counter equals the model's (+1 per write applied while RW, unchanged in WO, SetRevisionCounter only in RW) and is the same after close/reopen. Part 2 (engine E-D): all interleavings up to preemption bound 3 of 2-3 concurrent writers (+ a counter reader, + a mode flip) on one real replica: final counter = initial + number of writes applied while RW, persisted value equal. Part 3 (engine E-C): at every file-system-call boundary of a write (RW and WO) and of SetRevisionCounter the reopened counter is old or new and never lower.",
   note="Bounds: 1 block, depth 6/8 (sequential); 18 thread configurations at P<=3 (thorough 4); 380 crash points. Promotion equalising the counters is checked by E-B/E-F (C04, C07).",
   technique="explicit-state BFS with replay on the real replica.Server vs reference model"),
 "C11": dict(engine=EA, design="§3 E-A, §4 C11",
   text="(1) BFS over every chain of up to 5 (thorough 6) snapshots x user/auto x marked-removed x every checkpoint position, built with real operations; in every state the real GetDeleteCandidateChain must return only snapshots strictly between base and checkpoint that are not retained user snapshots and whose parent is not one. (2) BFS from three non-initial chains in which every deletion the cleaner itself would perform (each candidate the real filter returns, via prepare -> fold -> RemoveDiffDisk) is an event, interleaved with writes/snapshots/marks; after every path live data and every retained user snapshot are compared with the model (extent walk and revert-on-copy); head/latest/base deletion requests must be refused with the state unchanged. (3) Engine E-B part C11rest on REAL replica nodes: the user's DELETE ...?action=deleteSnapshot through the real controller REST handler, for every snapshot name, the checkpoint and an unknown name, in every state reached by snapshots with failing subsets, monitor failures (also undelivered), REST ERR, removal and a real rebuild: it marks a snapshot removed only when all RF replicas are RW (ground truth), a checkpoint is recorded and the target is not the checkpoint; a refused request marks nothing; and the REAL sync.Task.InternalSnapshotCleaner goroutine of each replica, its 60 s ticker driven by hand (Tick, or TickF = the coalesce step fails), interleaved with writes, snapshots and user deletions on a chain with automatic snapshots between base and checkpoint: a cleaner iteration never changes what the live volume reads nor a retained user snapshot.",
   note="Trusted: reference model; sparse.FoldFile in-process stands for the sfold child.",
   technique="explicit-state BFS with replay on the real replica.Server + real cleaner filter vs reference model"),
 "C12": dict(engine=EA, design="§3 E-A, §4 C12",
   text="Explicit-state BFS over management operations with valid and invalid arguments (snapshot with new/duplicate names, mark-removed, system removals, removal of head/latest/base/unknown through both entry points, removal in the wrong mode, revert to member/unknown, grow/shrink/garbage sizes, set-checkpoint member/unknown, reopen, reload) from the empty replica and from a 3-snapshot chain; after every path the chain must be one acyclic head->base path with data+meta files whose names/attributes/parents equal the model's, refused operations must leave the canonical state key unchanged, and close->reopen must reproduce chain, attributes, data and size.",
   note="Bounds: 2 blocks, depth 5 / 4 from the non-initial root (thorough 6/5). Orphans left by reverts are tracked but not targeted.",
   technique="explicit-state BFS with replay on the real replica.Server vs reference model"),
 "C16": dict(engine=EA, design="§3 E-A, §4 C16",
   text="Explicit-state BFS over writes (incl. into the added range), user/auto snapshots, grow by one block (up to twice), shrink / garbage / empty size requests (must be refused, key unchanged), reopen, revert to older smaller snapshots and removals, punching on and off; oracles: live data and every promised snapshot equal the model (old bytes unchanged, new range zeros and writable), size persists across reopen. Part 2 (engine E-B, C16ctl): Controller.Resize with smaller / equal / garbage / empty sizes and a wrong volume name is refused without touching any replica, the controller size or the frontend; a grow (with every subset of replicas failing the REST resize, interleaved with writes, reads, monitor failures, REST ERR, removal, add/sync/verify) resizes every replica still in service, then the frontend, and a replica that failed is no longer RW.",
   note="Replica part: 2-4 blocks, depth 5/7. Controller part: model nodes, RF 2-3, depth 3-4 from three memberships.",
   technique="explicit-state BFS with replay on the real replica.Server vs reference model"),
 "C17": dict(engine=EA, design="§3 E-A, §4 C17",
   text="Explicit-state BFS over the replica's open/closed x mode x rebuilding state machine (close, open, set-mode RW/WO/junk, set-rebuilding, reload) with every Server operation attempted as an event in every reachable state: writes are acknowledged only when open and RW/WO, every I/O call on a closed replica fails, removal/replace/revision-counter updates are refused (state unchanged) unless RW, invalid modes and out-of-state rebuilding flags are refused.",
   note="Lenient reading recorded in evidence: a write refused in INIT mode has already written its data (Replica.WriteAt checks the mode afterwards); acknowledgements are compared, not side effects of refused writes. Part 2 (engine E-E, C17rest): for every replica state class and every REST action, an action absent from the state's action map (independent reference table) is answered 404 and leaves the canonical state key unchanged.",
   technique="explicit-state BFS with replay on the real replica.Server vs reference model"),

 "C02": dict(engine=EB, design="§3 E-B, §4 C02",
   text="Explicit-state BFS over controller histories on a real controller.Controller (real replicator/MultiWriterAt, real *remote.Remote backends): from the initial state and from four membership roots (3 RW, 2 RW+WO, 2 RW, 1 RW+WO) every sequence of add / rebuild-sync / verify / remove / monitor failure / node restart and writes, syncs, unmaps in which EVERY subset of the attached replicas fails the call; per operation: acknowledged (n==len and err==nil) implies applied by a strict majority of the attached writers, a failing replica is detached once the controller is quiescent and never called again, every replica in service holds every acknowledged write.",
   note="Replica nodes are the sequential model eb/node.go behind the real REST client code; a failing call fails before it is applied. RF 1-3, depth 4 from roots / 6-7 from the initial state (thorough +2). Monitor wake-ups are drained after each event (C02 does not quantify over schedules).",
   technique="explicit-state BFS with replay on the real controller, all failing subsets per I/O"),
 "C03": dict(engine=EB, design="§3 E-B, §4 C03",
   text="Explicit-state BFS over every order of membership and mode changes (start, add, verify, I/O error, monitor failure, removal, REST set-mode ERR/RW, snapshot failure, restart) interleaved with writes/syncs/unmaps for RF 1-5: a mutating call reaches a replica only if at least floor(RF/2)+1 replicas are RW (ground truth from the replica list), a call refused as read-only touches no replica, and in every quiescent state ReadOnly is exactly (RW < quorum). Part 2 (engine E-D, C03conc): all interleavings (preemption bound 3) of pairs/triples of concurrent controller calls (writes, failing writes, syncs, unmaps, monitor failure, removal, REST ERR) from five memberships incl. exactly-at-quorum: when an operation's first replica call arrives, at least floor(RF/2)+1 replicas are RW in the replica list, and an operation refused as read-only reaches no replica.",
   note="Model nodes; monitor wake-ups drained (the stale-cache window is C13/C18's subject). Quorum-type replicas outside the alphabet.",
   technique="explicit-state BFS with replay on the real controller"),
 "C04": dict(engine=EB, design="§3 E-B, §4 C04",
   text="Explicit-state BFS with data-bearing nodes: writes while a replica is WO, rebuild-sync, verify (promotion), reads in which every subset of the RW readers fails, consecutive reads walking the round-robin cursor, REST ERR, removal, monitor failures (also with undelivered monitor wake-ups): a successful read was served by a node that is RW in the controller and on the node, returns the acknowledged image, fails only if every RW reader failed; promotion only with matching chains, equal revision counter and (after a completed sync) identical data.",
   note="Model nodes hold real byte images; reader order is canonicalised between events (Go map order) and every cursor position is reached by consecutive reads.",
   technique="explicit-state BFS with replay on the real controller, all failing reader subsets"),
 "C05": dict(engine=EB, design="§3 E-B, §4 C05",
   text="Explicit-state BFS in which faults (I/O error on any subset, monitor/ping failure, explicit removal) hit at every point of short workloads and are noticed in every order (monitor wake-ups are ordinary events that may be delayed past later operations, including the stale wake-up after a re-add): the operation in flight succeeds iff a strict majority of writers containing a RW replica applied it, failed replicas end up detached and receive no further call, survivors hold all acknowledged data, a detached replica returns only through add -> WO -> verify. Part 2 (engine E-D): all interleavings (P<=3, one timer deviation) of the real remote.monitorPing, StopMonitoring/Close and rpc.Client error paths with a controller-style consumer and a concurrent write: a ping or transport failure is always reported on the monitor channel, the monitor goroutine exits, no send blocks.",
   note="Model nodes; the real monitorPing/rpc.Client error paths are engine E-D's subject. Up to 3 faults per path.",
   technique="explicit-state BFS with replay on the real controller, fault point x failing subset x notice order"),
 "C09": dict(engine=EB, design="§3 E-B, §4 C09",
   text="Explicit-state BFS over registration histories for RF 1,2,3,5 with revision-count assignments drawn from {1,5,9} (ties, one replica registered as rebuilding), every order and repetition of registrations, failing start signals, leader unreachable at the next registration, Start by the signalled and by non-signalled replicas: at every SignalToAdd(start) a majority has registered and the target holds the highest revision count among registered, reachable, non-rebuilding replicas; a volume start is accepted only from the signalled replica.",
   note="Model nodes. The replica side's register-until-action loop is represented by the node's pending action; Start with several addresses is outside the alphabet.",
   technique="explicit-state BFS with replay on the real controller"),
 "C13": dict(engine=EB, design="§3 E-B, §4 C13",
   text="Explicit-state BFS over writes, volume snapshots with every failing subset, sticky set-checkpoint failures per replica, removal, monitor failure, delayed monitor wake-ups, add/sync/verify, REST ERR: a snapshot reaches a node only if all RF replicas are RW (ground truth), on success every replica still in service holds it with identical content, a recorded checkpoint implies RF RW replicas that all have it in their chain (as latest when recorded) and persisted it.",
   note="Model nodes with byte images. RF 2-3.",
   technique="explicit-state BFS with replay on the real controller"),
 "C18": dict(engine=EB, design="§3 E-B, §4 C18",
   text="Explicit-state BFS over every event kind including duplicates and unknown addresses (register, start by the wrong replica, add of an attached address, verify of any address, remove of unknown, REST ERR/RW, I/O with one failing subset, monitor failures and delayed wake-ups, restarts) with 3-4 node identities: in every quiescent state addresses are unique, at most RF data replicas, at most one WO, RWReplicaCount equals the RW entries, replica list and backend map agree, writer/reader index maps are exactly the non-ERR / RW backends; a detached backend never receives a call. Part 2 (engine E-D): for 27 pairs (thorough: + triples) of concurrent controller calls from three memberships, every interleaving at lock/goroutine granularity up to preemption bound 3 yields per-call results and a final state equal to those of some sequential order.",
   note="Model nodes. Invariants are evaluated in quiescent states (no undelivered monitor wake-up); per-call oracles run always.",
   technique="explicit-state BFS with replay on the real controller"),
 "C07": dict(engine=EF, design="§3 E-F, §4 C07",
   text="Explicit-state BFS on an in-process cluster of REAL replica.Server nodes behind the real replica/rest and controller/rest routers, with the real sync.Task.AddReplica running for the joining replica under step control: every top-level HTTP request of the task and the unlocked window inside UpdateLUNMap is a gate, and at every gate the explorer may insert foreground writes (also onto blocks that are being synced), a read, or kill the joining process (then monitor failure, restart and a retried rebuild); joiner empty or diverged (it missed writes and an add-time snapshot). At promotion the rebuilt replica's chain, revision counter, live image and every snapshot image (revert-on-copy) must equal the source's; before promotion no read is served by it and it holds every write acknowledged since it was attached; never two WO replicas; a killed rebuild leaves it out of the reader list.",
   note="Stand-in: jiva's sync-agent (a process launcher around ssync/sfold) is replaced by an in-process transfer with the same result (destination = source, data and holes, written into the existing inode). Several replica.Server in one process share package globals (HoleCreatorChan, ShouldPunchHoles). The background snapshot cleaner's ticker is not driven. RF=3, 4-block volume, <=3 foreground writes per rebuild.",
   technique="explicit-state BFS over gate-by-gate interleavings of the real rebuild task with foreground I/O on real replicas"),
 "C14": dict(engine=EE, design="§3 E-E, §4 C14",
   text="Explicit search over server states with the request alphabet itself as the transition relation, on the REAL routers (controller/rest and replica/rest via ServeHTTP, no sockets) in worker sub-processes: every method x every route template x id encodings x every action x body families (valid, unknown names, protected names, truncated at every JSON token boundary, wrong types, [], null, 1 MiB string, non-JSON) x content types, in 8 replica state classes and 7 controller state classes, depth 2 (thorough 3 for the reduced alphabet), plus every request repeated 8 times. After every request: no handler panic, no logrus.Fatal, the worker process is alive, the handler returned (20 s watchdog with goroutine dump), TryLock on the controller / replica server / replica locks succeeds, malformed or out-of-state requests got an error status, and fixed probe requests plus a one-block write/read are still served.",
   note="Controller side runs over model replica nodes (E-B's); the route tables are compared with mux.Router.Walk of the real routers at start (mismatch = exit 2). Two known findings (absurd create size panic, failed quorum-replica add leaves a backend) are listed in known_findings.json.",
   technique="explicit-state search over REST request sequences on the real routers, process-death detection in worker sub-processes"),
 "C15": dict(engine=ED, design="§3 E-D, §4 C15",
   text="(1) Exhaustive codec product: rpc.Wire.Write -> rpc.Wire.Read for every type x boundary seq/offset/size values x payload lengths around the 8096-byte buffer x patterns, every truncation point of an encoded frame and bad magic. (2) Stateless exploration of ALL interleavings, up to a preemption bound and a timer/fault deviation bound, of a real rpc.Client (its loop/read/write goroutines, channels, select statements, sleeps and timers turned into scheduling points by an AST rewrite applied at check time) with 2-3 caller threads, a scripted peer that answers in every permutation of reply order and may stall, close or corrupt at every frame: every caller gets the reply to its own request, after a transport error or deadline every pending and later request returns an error and no thread stays blocked once all armed timers fired, and a token reaches closeChan.",
   note="Scheduling points are synchronisation operations; unsynchronised accesses are reported by a separate free-running -race pass of the same harness bodies (listed in the evidence). Requests that fail only at their own 30 s deadline after racing with the poisoning of the client are recorded as observations (late-fail), as is a failed request being transmitted as an error frame; see DESIGN.",
   technique="stateless DFS over goroutine schedules with preemption/deviation bounding on the rewritten real code + exhaustive codec product"),
 "C19": dict(engine=EF, design="§3 E-F, §4 C19",
   text="Explicit-state BFS over all interleavings of two real procedures under step control on real replicas: the new volume's Controller.Start (attaches the clone and polls its clone status while holding the controller lock; every poll is a gate) and the clone process's start-up tail (status inProgress -> real app.CloneReplica / sync.Task.CloneReplica: list source replicas, set rebuilding, copy the chain from S downward, update clone info, reload, UpdateLUNMap, clear rebuilding -> status completed/error; every HTTP step is a gate), for every snapshot S of the source history, with source-side writes during the copy, a source outage, and a killed and restarted clone process: the clone is RW in the new volume only when its status is completed/NA, whenever it reports completed its image equals the source's revert-on-copy image of S and its revision counter is the one recorded for S, a failed clone reports error and is not RW.",
   note="app.startReplica is an unexported CLI action that listens on sockets: its clone status bracket (the statement `if replicaType == \"clone\" ...`) is extracted VERBATIM from the repository's current app/replica.go by tools/gen into a generated function that the clone task runs; the sync-agent is the in-process stand-in of C07. RF=1 for both volumes, 4-block volume.",
   technique="explicit-state BFS over gate-by-gate interleavings of the real clone task and the real controller start on real replicas"),
 "C08": dict(engine=EC, design="§3 E-C, §4 C08", level="fault_enumeration",
   text="For every (pre-state, operation) pair of a bounded set, a ptrace tracer stops the real replica process at the entry of every file-system call of the operation: the directory as it is at each boundary is copied (= process death there), reopened with the real code and compared with the reference (chain before or after, acknowledged bytes, retained snapshots by revert-on-copy, revision counter); every single call is also made to fail with ENOSPC/EIO and the reported outcome is compared with the reopened state; the call trace of every successful operation is linted for directory fsync after namespace changes and synced metadata.",
   note="Trusted: the tracer (tools/fstrace/fstrace.c), ext4. Power-loss reordering below the syscall boundary is covered only by the durability lint. Known findings (failure reported after the commit point, success after a failed final flush) are listed in known_findings.json.",
   technique="exhaustive crash-point and single-fault enumeration at system-call granularity (ptrace)"),
}
planned = {}
HOLD = set()
ALL = ["C%02d" % i for i in range(1, 20)]

def main():
    m = {
     "version": 1,
     "setup_cmd": "bin/setup",
     "hooks": {
       "guard": "verif",
       "enable": "no hook commits in /repo: every check runs tools/gen, which reads /repo's current working tree and builds the harness with `go build -tags verif -overlay build/ovl/overlay.json` (time->vtime import rewrite, added zz_verif.go accessor files, replaced error-inject/default.go, sorted iteration of map ranges in package controller, startReplica's clone bracket extracted into a generated function; engine E-D adds its go/chan/select/sync rewrite)",
       "baseline_off_cmd": "cd /repo && GOFLAGS=-mod=mod GOPROXY=off GOSUMDB=off go test -vet=off -count=1 ./util/...",
       "source_commits": [],
       "add_only": True,
     },
     "engines": [
       {"name": EA, "path": "harness/ea, harness/cmd/ea", "serves_properties": ["C01", "C06", "C10", "C11", "C12", "C16", "C17"],
        "kind_free_text": "explicit-state breadth-first search over operation sequences on a real on-disk replica.Server (worker processes replay path+event on a fresh replica), canonical-key deduplication, reference model oracle"},
       {"name": EB, "path": "harness/eb, harness/cmd/eb", "serves_properties": ["C02", "C03", "C04", "C05", "C09", "C13", "C18"],
        "kind_free_text": "explicit-state breadth-first search over controller events on a real controller.Controller with real *remote.Remote backends, scripted per-replica failures, harness-played monitor goroutines, model replica nodes behind the real REST clients"},
       {"name": EF, "path": "harness/eb (rebuild.go, realnode.go), harness/cmd/eb", "serves_properties": ["C07", "C19"],
        "kind_free_text": "E-B's cluster with real replica nodes, real REST routers and the real replica-side tasks (rebuild, clone) run under step control: explicit-state search over gate-by-gate interleavings"},
       {"name": ED, "path": "harness/ed, harness/cmd/ed, tools/instr, shim/vs, shim/vsync, shim/vtimev", "serves_properties": ["C15", "C10", "C05", "C18"],
        "kind_free_text": "cooperative scheduler + deviation-bounded stateless DFS over goroutine interleavings of the real rpc / remote / replica / controller code, instrumented at check time by an AST rewrite of go/chan/select/sync/time constructs"},
       {"name": EE, "path": "harness/ee, harness/cmd/ee", "serves_properties": ["C14", "C17"],
        "kind_free_text": "exhaustive REST request enumeration (method x route x id x action x body family) in every server state class, depth-2/3 search over request sequences, repeat family, on the real routers in worker sub-processes"},
       {"name": EC, "path": "harness/ec, harness/cmd/ec, tools/fstrace", "serves_properties": ["C08", "C10"],
        "kind_free_text": "ptrace-driven enumeration of every file-system-call boundary (crash) and every single failing call of replica operations from bounded pre-states"},
     ],
     "checks": [],
     "not_applicable": [],
     "notes": "All instrumentation is generated at check time from /repo's working tree through go build -overlay; /repo only receives fix: commits (see known_findings.json).",
    }
    for pid in ALL:
        if pid in checks and pid not in HOLD:
            c = checks[pid]
            m["checks"].append({
              "property_id": pid,
              "quick_cmd": "VERIF_TIER=quick bin/check %s" % pid,
              "thorough_cmd": "VERIF_TIER=thorough bin/check %s" % pid,
              "evidence_file": "evidence/%s.json" % pid,
              "replay_cmd_template": "bin/check %s --replay {path}" % pid,
              "engine": c["engine"],
              "level_claimed": {"category": c.get("level", "model_checking"), "text": c["text"], "design_ref": c["design"]},
              "level_note": c["note"],
              "technique": c["technique"],
            })
        else:
            m["not_applicable"].append({"property_id": pid, "reason": planned.get(pid, "check not built yet in this revision of /verif (work in progress; DESIGN.md §4 describes the planned model-checking decision procedure)")})
    json.dump(m, open("/verif/MANIFEST.json", "w"), indent=1)
    print("MANIFEST.json: %d checks, %d not_applicable" % (len(m["checks"]), len(m["not_applicable"])))

main()
