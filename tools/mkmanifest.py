#!/usr/bin/env python3
"""Regenerates /verif/MANIFEST.json from the table below (kept in one place so it is always schema-valid)."""
import json, sys

EA = "E-A REPLICA-OPSEQ"
checks = {
 "C06": dict(engine=EA, design="§3 E-A, §4 C06",
   text="Explicit-state BFS over every operation sequence (writes of each shape, user/automatic snapshots, system-performed removals, mark-removed, reopen with preload, rebuild-style reload+UpdateLUNMap, revert) up to the stated depth on a real on-disk replica with hole punching on; in every reachable state every retained user snapshot is compared byte-for-byte with the reference model, both by an independent extent walk over the chain files and by copying the directory, reverting the copy with the real code and reading it.",
   note="Trusted: the reference model (ea/model.go), ext4 FIEMAP, in-process sparse.FoldFile standing for the sfold child. Bounds: 2-3 blocks, depth 5 (quick) / 7 (thorough), <=3 snapshots; holes are punched before the next event.",
   technique="explicit-state BFS with replay on the real replica.Server vs reference model"),

 "C01": dict(engine=EA, design="§3 E-A, §4 C01",
   text="Explicit-state BFS over every sequence of writes (15 shapes: aligned 1-3 blocks, sub-block at start/middle/end, spans with unaligned head/tail), reads, user/automatic snapshots, system-performed removals, reverts, close/reopen with and without preload and reload, with hole punching off and on, on 1-3 block volumes; after every path the live volume is read back (every 512-multiple (offset,length) pair on the last level) and compared with the reference model.",
   note="Trusted: reference model, ext4 FIEMAP. Bounds: <=3 blocks, depth as reported in evidence (budgeted), <=4 snapshots. The controller's out-of-range clause is decided by engine E-B once built.",
   technique="explicit-state BFS with replay on the real replica.Server vs reference model"),
 "C10": dict(engine=EA, design="§3 E-A, §4 C10",
   text="Explicit-state BFS over sequences of writes, mode flips RW/WO, SetRevisionCounter, close/open, reload, snapshot and reopen on a real replica; after every path the persisted revision counter equals the model's (+1 per write applied while RW, unchanged in WO, SetRevisionCounter only in RW) and is the same after close/reopen.",
   note="Sequential histories only in this engine; concurrent writers (E-D) and crash points (E-C) are separate parts. Bounds: 1 block, depth 6/8.",
   technique="explicit-state BFS with replay on the real replica.Server vs reference model"),
 "C11": dict(engine=EA, design="§3 E-A, §4 C11",
   text="(1) BFS over every chain of up to 5 (thorough 6) snapshots x user/auto x marked-removed x every checkpoint position, built with real operations; in every state the real GetDeleteCandidateChain must return only snapshots strictly between base and checkpoint that are not retained user snapshots and whose parent is not one. (2) BFS from three non-initial chains in which every deletion the cleaner itself would perform (each candidate the real filter returns, via prepare -> fold -> RemoveDiffDisk) is an event, interleaved with writes/snapshots/marks; after every path live data and every retained user snapshot are compared with the model (extent walk and revert-on-copy); head/latest/base deletion requests must be refused with the state unchanged.",
   note="Trusted: reference model; sparse.FoldFile in-process stands for the sfold child. The REST precondition of user deletion (all RF replicas RW, checkpoint set) belongs to E-B/E-E.",
   technique="explicit-state BFS with replay on the real replica.Server + real cleaner filter vs reference model"),
 "C12": dict(engine=EA, design="§3 E-A, §4 C12",
   text="Explicit-state BFS over management operations with valid and invalid arguments (snapshot with new/duplicate names, mark-removed, system removals, removal of head/latest/base/unknown through both entry points, removal in the wrong mode, revert to member/unknown, grow/shrink/garbage sizes, set-checkpoint member/unknown, reopen, reload) from the empty replica and from a 3-snapshot chain; after every path the chain must be one acyclic head->base path with data+meta files whose names/attributes/parents equal the model's, refused operations must leave the canonical state key unchanged, and close->reopen must reproduce chain, attributes, data and size.",
   note="Bounds: 2 blocks, depth 5 / 4 from the non-initial root (thorough 6/5). Orphans left by reverts are tracked but not targeted.",
   technique="explicit-state BFS with replay on the real replica.Server vs reference model"),
 "C16": dict(engine=EA, design="§3 E-A, §4 C16",
   text="Explicit-state BFS over writes (incl. into the added range), user/auto snapshots, grow by one block (up to twice), shrink / garbage / empty size requests (must be refused, key unchanged), reopen, revert to older smaller snapshots and removals, punching on and off; oracles: live data and every promised snapshot equal the model (old bytes unchanged, new range zeros and writable), size persists across reopen.",
   note="Replica-level (Server.Resize). Controller.Resize ordering belongs to E-B. Bounds: 2-4 blocks, depth 5/7.",
   technique="explicit-state BFS with replay on the real replica.Server vs reference model"),
 "C17": dict(engine=EA, design="§3 E-A, §4 C17",
   text="Explicit-state BFS over the replica's open/closed x mode x rebuilding state machine (close, open, set-mode RW/WO/junk, set-rebuilding, reload) with every Server operation attempted as an event in every reachable state: writes are acknowledged only when open and RW/WO, every I/O call on a closed replica fails, removal/replace/revision-counter updates are refused (state unchanged) unless RW, invalid modes and out-of-state rebuilding flags are refused.",
   note="Lenient reading recorded in evidence: a write refused in INIT mode has already written its data (Replica.WriteAt checks the mode afterwards); acknowledgements are compared, not side effects of refused writes. REST action gating is checked by E-E.",
   technique="explicit-state BFS with replay on the real replica.Server vs reference model"),
}
planned = {}
ALL = ["C%02d" % i for i in range(1, 20)]

def main():
    m = {
     "version": 1,
     "setup_cmd": "bin/setup",
     "hooks": {
       "guard": "verif",
       "enable": "no hook commits in /repo: every check runs tools/gen, which reads /repo's current working tree and builds the harness with `go build -tags verif -overlay build/ovl/overlay.json` (time->vtime import rewrite, added zz_verif.go accessor files, replaced error-inject/default.go)",
       "baseline_off_cmd": "cd /repo && GOFLAGS=-mod=mod GOPROXY=off GOSUMDB=off go test -vet=off -count=1 ./util/...",
       "source_commits": [],
       "add_only": True,
     },
     "engines": [
       {"name": EA, "path": "harness/ea, harness/cmd/ea", "serves_properties": ["C01", "C06", "C10", "C11", "C12", "C16", "C17"],
        "kind_free_text": "explicit-state breadth-first search over operation sequences on a real on-disk replica.Server (worker processes replay path+event on a fresh replica), canonical-key deduplication, reference model oracle"},
     ],
     "checks": [],
     "not_applicable": [],
     "notes": "All instrumentation is generated at check time from /repo's working tree through go build -overlay; /repo only receives fix: commits (see known_findings.json).",
    }
    for pid in ALL:
        if pid in checks:
            c = checks[pid]
            m["checks"].append({
              "property_id": pid,
              "quick_cmd": "VERIF_TIER=quick bin/check %s" % pid,
              "thorough_cmd": "VERIF_TIER=thorough bin/check %s" % pid,
              "evidence_file": "evidence/%s.json" % pid,
              "replay_cmd_template": "bin/check %s --replay {path}" % pid,
              "engine": c["engine"],
              "level_claimed": {"category": c.get("level", "model_checking"), "text": c["text"], "design_ref": c["design"]},
              "level_note": c["note"],
              "technique": c["technique"],
            })
        else:
            m["not_applicable"].append({"property_id": pid, "reason": planned.get(pid, "check not built yet in this revision of /verif (work in progress; DESIGN.md §4 describes the planned model-checking decision procedure)")})
    json.dump(m, open("/verif/MANIFEST.json", "w"), indent=1)
    print("MANIFEST.json: %d checks, %d not_applicable" % (len(m["checks"]), len(m["not_applicable"])))

main()
