#!/usr/bin/env python3
"""Regenerates /verif/MANIFEST.json from the table below (kept in one place so it is always schema-valid)."""
import json, sys

EA = "E-A REPLICA-OPSEQ"
checks = {
 "C06": dict(engine=EA, design="§3 E-A, §4 C06",
   text="Explicit-state BFS over every operation sequence (writes of each shape, user/automatic snapshots, system-performed removals, mark-removed, reopen with preload, rebuild-style reload+UpdateLUNMap, revert) up to the stated depth on a real on-disk replica with hole punching on; in every reachable state every retained user snapshot is compared byte-for-byte with the reference model, both by an independent extent walk over the chain files and by copying the directory, reverting the copy with the real code and reading it.",
   note="Trusted: the reference model (ea/model.go), ext4 FIEMAP, in-process sparse.FoldFile standing for the sfold child. Bounds: 2-3 blocks, depth 5 (quick) / 7 (thorough), <=3 snapshots; holes are punched before the next event.",
   technique="explicit-state BFS with replay on the real replica.Server vs reference model"),
}
planned = {}
ALL = ["C%02d" % i for i in range(1, 20)]

def main():
    m = {
     "version": 1,
     "setup_cmd": "bin/setup",
     "hooks": {
       "guard": "verif",
       "enable": "no hook commits in /repo: every check runs tools/gen, which reads /repo's current working tree and builds the harness with `go build -tags verif -overlay build/ovl/overlay.json` (time->vtime import rewrite, added zz_verif.go accessor files, replaced error-inject/default.go)",
       "baseline_off_cmd": "cd /repo && GOFLAGS=-mod=mod GOPROXY=off GOSUMDB=off go test -vet=off -count=1 ./util/...",
       "source_commits": [],
       "add_only": True,
     },
     "engines": [
       {"name": EA, "path": "harness/ea, harness/cmd/ea", "serves_properties": ["C01", "C06", "C10", "C11", "C12", "C16", "C17"],
        "kind_free_text": "explicit-state breadth-first search over operation sequences on a real on-disk replica.Server (worker processes replay path+event on a fresh replica), canonical-key deduplication, reference model oracle"},
     ],
     "checks": [],
     "not_applicable": [],
     "notes": "All instrumentation is generated at check time from /repo's working tree through go build -overlay; /repo only receives fix: commits (see known_findings.json).",
    }
    for pid in ALL:
        if pid in checks:
            c = checks[pid]
            m["checks"].append({
              "property_id": pid,
              "quick_cmd": "VERIF_TIER=quick bin/check %s" % pid,
              "thorough_cmd": "VERIF_TIER=thorough bin/check %s" % pid,
              "evidence_file": "evidence/%s.json" % pid,
              "replay_cmd_template": "bin/check %s --replay {path}" % pid,
              "engine": c["engine"],
              "level_claimed": {"category": c.get("level", "model_checking"), "text": c["text"], "design_ref": c["design"]},
              "level_note": c["note"],
              "technique": c["technique"],
            })
        else:
            m["not_applicable"].append({"property_id": pid, "reason": planned.get(pid, "check not built yet in this revision of /verif (work in progress; DESIGN.md §4 describes the planned model-checking decision procedure)")})
    json.dump(m, open("/verif/MANIFEST.json", "w"), indent=1)
    print("MANIFEST.json: %d checks, %d not_applicable" % (len(m["checks"]), len(m["not_applicable"])))

main()
