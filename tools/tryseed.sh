#!/bin/bash
# tryseed.sh <name> <patch.diff> <property-id>... : apply a seeded change to a scratch worktree of /repo (never to /repo
# itself), run the given checks against it (VERIF_REPO), print one line per check, remove the worktree and its build output.
# env: VERIF_TIER (default quick)
name=$1; patch=$2; shift 2
wt=/tmp/wt-try-$name
git -C /repo worktree remove --force $wt >/dev/null 2>&1
git -C /repo worktree add -q --detach $wt HEAD || exit 2
if ! git -C $wt apply "$patch"; then echo "tryseed: patch does not apply"; git -C /repo worktree remove --force $wt; exit 2; fi
B=/verif/build/alt-$(echo -n "$wt" | md5sum | cut -c1-8)
for id in "$@"; do
  start=$(date +%s)
  VERIF_REPO=$wt VERIF_NO_CONFORMANCE=${VERIF_NO_CONFORMANCE-1} /verif/bin/check $id > /tmp/tryseed-$name-$id.log 2>&1
  rc=$?
  echo "seed=$name check=$id exit=$rc wall=$(( $(date +%s) - start ))s $(grep -m1 -o 'signature=[^ ]*' /tmp/tryseed-$name-$id.log) $(grep -c '^VIOLATION' /tmp/tryseed-$name-$id.log) violation line(s)"
done
git -C /repo worktree remove --force $wt
rm -rf $B
