module verif/instr

go 1.23

require golang.org/x/tools v0.29.0
