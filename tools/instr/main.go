// instr generates the E-D (SCHED) overlay profile from /repo's current working tree.
//
//	instr -repo /repo -verif /verif -out /verif/build/ovl-d
//
// For every package of the profile it reads the .go files from /repo as they are now, rewrites them (type-free, on the
// AST) and writes the result under -out plus an overlay.json that maps the rewritten files onto their /repo paths and
// adds the virtual packages github.com/openebs/jiva/verifshim/{vs,vsync,vtimev} and the accessor files.  /repo is
// never written.  Rewrites (only the constructs named, only in the packages configured below):
//
//	import "time"                    -> time  "…/verifshim/vtimev"   (virtual time: timers are scheduler events)
//	import "sync"                    -> sync  "…/verifshim/vsync"    (locks/waitgroups are scheduling points)
//	go f(a…)                         -> { __f := f; __a := a; vs.Go("f", func() { __f(__a) }) }
//	ch <- v                          -> vs.Send(ch, v)
//	<-ch,  v := <-ch                 -> vs.Recv(ch)
//	v, ok := <-ch                    -> v, ok := vs.Recv2(ch)
//	select { … }                     -> { __c := ch…; __i, __v := vs.Select(hasDefault, vs.R(__c)…|vs.Snd(ch, v)…); switch __i { case k: x := vs.As(__c, __v); … } }
//	close(ch)                        -> vs.Close(ch)
//	for x := range ch  (configured)  -> for __r := ch; ; { x, __ok := vs.Recv2(__r); if !__ok { break }; … }
//	for k, v := range m (configured) -> for k, v, __it := vsmaps.Start(m); __it.Next(&k, &v); { … }  (ascending keys, ONE shared pair of loop variables)
//	for … := range x   (any other)   -> for … := range vs.RangeGuard(x)   (run-time failure if x is a channel or a map with >1 entries)
//	x.(*net.TCPConn)   (configured)  -> x.(vs.HalfCloser)
//	statements reading a configured racy field -> preceded by vs.Touch("field")
//
// A construct kind that the profile says must be present in a file and is not found at all (Min below), or a channel construct that is left over after
// the rewrite, makes the generation fail (exit 2): the check then reports a build error, never a silent pass.
package main

import (
	"bytes"
	"encoding/json"
	"flag"
	"fmt"
	"go/ast"
	"go/format"
	"go/parser"
	"go/token"
	"os"
	"path/filepath"
	"sort"
	"strconv"
	"strings"

	"golang.org/x/tools/go/ast/astutil"
)

const shimPath = "github.com/openebs/jiva/verifshim/"

type fileCfg struct {
	RangeChan []string            // source text of channel operands of range statements
	MapRange  []string            // source text of map operands of range statements to iterate in key order
	Touch     map[string][]string // function name -> racy selectors
	HalfClose int                 // number of x.(*net.TCPConn) assertions that must be found
	Dial      int                 // number of net.Dial(...) calls to route through vs.Dial (the harness supplies the connection)
	Min       map[string]int      // construct -> minimum number of rewrites that must happen in this file
}

type pkgCfg struct {
	Dir      string
	Chan     bool // rewrite go/chan/select/close/range
	Sync     bool
	Time     bool
	Files    map[string]fileCfg
	Accessor string   // directory under /verif/shim whose *.go files are added to the package
	MapRange []string // map operands of range statements (any file of the package) to iterate in key order
}

var profile = []pkgCfg{
	{
		Dir: "rpc", Chan: true, Sync: true, Time: true, Accessor: "edrpc",
		Files: map[string]fileCfg{
			"client.go": {
				RangeChan: []string{"c.send"},
				MapRange:  []string{"c.messages"},
				Touch: map[string][]string{
					"operation": {"c.err"},
					"Close":     {"c.wire.readExit", "c.wire.writeExit"},
				},
				Min: map[string]int{"go": 1, "select": 1, "send": 1, "close": 1, "rangechan": 1, "touch:operation:c.err": 1, "touch:Close:c.wire.readExit": 1, "touch:Close:c.wire.writeExit": 1, "time": 1},
			},
			"wire.go":   {HalfClose: 2, Min: map[string]int{"halfclose": 2, "sync": 1}},
			"server.go": {Min: map[string]int{"go": 1, "select": 1, "send": 1, "time": 1}},
		},
	},
	{
		Dir: "backend/remote", Chan: true, Sync: true, Time: true, Accessor: "edremote",
		Files: map[string]fileCfg{
			"remote.go": {Dial: 1, Min: map[string]int{"go": 1, "select": 1, "send": 1, "time": 1, "dial": 1}},
		},
	},
	{
		// engine E-D controller-atomicity harness: the whole package runs under the scheduler
		Dir: "controller", Chan: true, Sync: true, Time: true, Accessor: "edcontroller",
		MapRange: []string{"c.RegisteredReplicas", "c.RegisteredQuorumReplicas", "revisionCounters", "bErr.Errors", "b.Errors",
			"r.backends", "r.quorumBackends", "clients", "replicaChains"},
		Files: map[string]fileCfg{
			"control.go":         {Min: map[string]int{"go": 1, "recv": 1, "sync": 1, "time": 1, "maprange": 1}},
			"multi_writer_at.go": {Min: map[string]int{"go": 1, "sync": 1}},
			"replicator.go":      {Min: map[string]int{"go": 1, "sync": 1, "maprange": 1}},
		},
	},
	{
		// engine E-D overlapping-requests harness (C14conc, controller side): the handlers' own fan-out goroutines
		// and wait groups are managed threads / scheduling points
		Dir: "controller/rest", Chan: true, Sync: true, Time: true,
		Files: map[string]fileCfg{
			"volume.go": {Min: map[string]int{"go": 2, "sync": 1}},
			"delete.go": {Min: map[string]int{"go": 1, "sync": 1}},
		},
	},
	{
		Dir: "replica", Chan: false, Sync: true, Time: true, Accessor: "edreplica",
		Files: map[string]fileCfg{
			"replica.go": {Min: map[string]int{"sync": 1}},
		},
	},
}

func die(f string, a ...interface{}) {
	fmt.Fprintf(os.Stderr, "instr: "+f+"\n", a...)
	os.Exit(2)
}

func id(s string) *ast.Ident                          { return ast.NewIdent(s) }
func sel(p, n string) ast.Expr                        { return &ast.SelectorExpr{X: id(p), Sel: id(n)} }
func call(f ast.Expr, args ...ast.Expr) *ast.CallExpr { return &ast.CallExpr{Fun: f, Args: args} }
func lit(s string) ast.Expr                           { return &ast.BasicLit{Kind: token.STRING, Value: strconv.Quote(s)} }
func intLit(i int) ast.Expr                           { return &ast.BasicLit{Kind: token.INT, Value: strconv.Itoa(i)} }
func define(l []ast.Expr, r ...ast.Expr) *ast.AssignStmt {
	return &ast.AssignStmt{Lhs: l, Tok: token.DEFINE, Rhs: r}
}

type rewriter struct {
	fset     *token.FileSet
	file     string
	cfg      fileCfg
	pkg      pkgCfg
	counter  int
	count    map[string]int
	comm     map[ast.Node]bool // comm statements of select clauses and their receive expressions
	used     bool
	usedMaps bool
}

func (r *rewriter) src(n ast.Node) string {
	var b bytes.Buffer
	format.Node(&b, r.fset, n)
	return b.String()
}
func (r *rewriter) tmp(p string) string { r.counter++; return fmt.Sprintf("__%s%d", p, r.counter) }
func (r *rewriter) hit(k string)        { r.count[k]++; r.used = true }

func isRecv(e ast.Expr) (*ast.UnaryExpr, bool) {
	switch x := e.(type) {
	case *ast.UnaryExpr:
		if x.Op == token.ARROW {
			return x, true
		}
	case *ast.ParenExpr:
		return isRecv(x.X)
	}
	return nil, false
}

func pureRef(e ast.Expr) bool {
	switch x := e.(type) {
	case *ast.Ident:
		return true
	case *ast.SelectorExpr:
		return pureRef(x.X)
	}
	return false
}

func (r *rewriter) rewriteSelect(s *ast.SelectStmt) ast.Stmt {
	iv, vv := r.tmp("i"), r.tmp("v")
	var pre []ast.Stmt
	var cases []ast.Expr
	hasDefault := false
	sw := &ast.SwitchStmt{Tag: id(iv), Body: &ast.BlockStmt{}}
	idx := 0
	usesV := false
	for _, c := range s.Body.List {
		cc := c.(*ast.CommClause)
		if cc.Comm == nil {
			hasDefault = true
			sw.Body.List = append(sw.Body.List, &ast.CaseClause{List: []ast.Expr{intLit(-1)}, Body: cc.Body})
			continue
		}
		var head []ast.Stmt
		hoist := func(ch ast.Expr) ast.Expr {
			t := r.tmp("c")
			pre = append(pre, define([]ast.Expr{id(t)}, ch))
			return id(t)
		}
		switch st := cc.Comm.(type) {
		case *ast.SendStmt:
			cases = append(cases, call(sel("vs", "Snd"), hoist(st.Chan), st.Value))
		case *ast.ExprStmt:
			u, ok := isRecv(st.X)
			if !ok {
				die("%s: select case that is neither send nor receive: %s", r.file, r.src(st))
			}
			cases = append(cases, call(sel("vs", "R"), hoist(u.X)))
		case *ast.AssignStmt:
			u, ok := isRecv(st.Rhs[0])
			if !ok || len(st.Rhs) != 1 {
				die("%s: unsupported select receive: %s", r.file, r.src(st))
			}
			ch := hoist(u.X)
			cases = append(cases, call(sel("vs", "R"), ch))
			fn := "As"
			if len(st.Lhs) == 2 {
				fn = "As2"
			}
			usesV = true
			head = append(head, &ast.AssignStmt{Lhs: st.Lhs, Tok: st.Tok, Rhs: []ast.Expr{call(sel("vs", fn), ch, id(vv))}})
		default:
			die("%s: unsupported select comm statement %T", r.file, st)
		}
		sw.Body.List = append(sw.Body.List, &ast.CaseClause{List: []ast.Expr{intLit(idx)}, Body: append(head, cc.Body...)})
		idx++
	}
	args := append([]ast.Expr{id(strconv.FormatBool(hasDefault))}, cases...)
	pre = append(pre, define([]ast.Expr{id(iv), id(vv)}, call(sel("vs", "Select"), args...)))
	if !usesV {
		pre = append(pre, &ast.AssignStmt{Lhs: []ast.Expr{id("_")}, Tok: token.ASSIGN, Rhs: []ast.Expr{id(vv)}})
	}
	return &ast.BlockStmt{List: append(pre, sw)}
}

func inlineArg(a ast.Expr) bool {
	switch x := a.(type) {
	case *ast.BasicLit:
		return true
	case *ast.Ident:
		return x.Name == "nil" || x.Name == "true" || x.Name == "false"
	}
	return false
}

func (r *rewriter) rewriteGo(g *ast.GoStmt) ast.Stmt {
	var pre []ast.Stmt
	c := g.Call
	fn := c.Fun
	label := "func"
	if _, isLit := fn.(*ast.FuncLit); !isLit {
		label = r.src(fn)
		f := r.tmp("f")
		pre = append(pre, define([]ast.Expr{id(f)}, fn))
		fn = id(f)
	}
	var args []ast.Expr
	for _, a := range c.Args {
		if inlineArg(a) {
			args = append(args, a)
			continue
		}
		t := r.tmp("a")
		pre = append(pre, define([]ast.Expr{id(t)}, a))
		args = append(args, id(t))
	}
	inner := &ast.CallExpr{Fun: fn, Args: args, Ellipsis: c.Ellipsis}
	if c.Ellipsis != token.NoPos {
		inner.Ellipsis = 1
	}
	body := &ast.FuncLit{Type: &ast.FuncType{Params: &ast.FieldList{}}, Body: &ast.BlockStmt{List: []ast.Stmt{&ast.ExprStmt{X: inner}}}}
	pre = append(pre, &ast.ExprStmt{X: call(sel("vs", "Go"), lit(label), body)})
	return &ast.BlockStmt{List: pre}
}

// mapRange rewrites `for k, v := range m {…}` into `for k, v, it := vsmaps.Start(m); it.Next(&k, &v); {…}`: keys in
// ascending order, m evaluated once, ONE shared pair of loop variables (go < 1.22 semantics), still a for statement
// (labels, break, continue unchanged).
func (r *rewriter) mapRange(n *ast.RangeStmt) ast.Stmt {
	it := r.tmp("it")
	blank := func(e ast.Expr) bool {
		if e == nil {
			return true
		}
		i, ok := e.(*ast.Ident)
		return ok && i.Name == "_"
	}
	addr := func(e ast.Expr) ast.Expr {
		if blank(e) {
			return id("nil")
		}
		return &ast.UnaryExpr{Op: token.AND, X: e}
	}
	var init ast.Stmt
	switch {
	case n.Tok == token.DEFINE && !blank(n.Key) && !blank(n.Value):
		init = define([]ast.Expr{n.Key, n.Value, id(it)}, call(sel("vsmaps", "Start"), n.X))
	case n.Tok == token.DEFINE && !blank(n.Key):
		init = define([]ast.Expr{n.Key, id(it)}, call(sel("vsmaps", "StartK"), n.X))
	case n.Tok == token.DEFINE && !blank(n.Value):
		init = define([]ast.Expr{n.Value, id(it)}, call(sel("vsmaps", "StartV"), n.X))
	default: // assignment to existing variables, or no variables at all
		init = define([]ast.Expr{id(it)}, call(sel("vsmaps", "New"), n.X))
	}
	cond := call(&ast.SelectorExpr{X: id(it), Sel: id("Next")}, addr(n.Key), addr(n.Value))
	r.usedMaps = true
	return &ast.ForStmt{Init: init, Cond: cond, Body: n.Body}
}

var notMapNames []string

func contains(l []string, s string) bool {
	for _, x := range l {
		if x == s {
			return true
		}
	}
	return false
}

func (r *rewriter) rewriteRange(c *astutil.Cursor, n *ast.RangeStmt) {
	x := r.src(n.X)
	switch {
	case contains(r.cfg.RangeChan, x):
		if n.Tok == token.ASSIGN || n.Value != nil {
			die("%s: unsupported form of range over channel %s", r.file, x)
		}
		rv, ok := r.tmp("r"), r.tmp("ok")
		var key ast.Expr = id("_")
		if n.Key != nil {
			key = n.Key
		}
		recv := define([]ast.Expr{key, id(ok)}, call(sel("vs", "Recv2"), id(rv)))
		brk := &ast.IfStmt{Cond: &ast.UnaryExpr{Op: token.NOT, X: id(ok)}, Body: &ast.BlockStmt{List: []ast.Stmt{&ast.BranchStmt{Tok: token.BREAK}}}}
		body := append([]ast.Stmt{recv, brk}, n.Body.List...)
		c.Replace(&ast.ForStmt{Init: define([]ast.Expr{id(rv)}, n.X), Body: &ast.BlockStmt{List: body}})
		r.hit("rangechan")
	case (contains(r.cfg.MapRange, x) || contains(r.pkg.MapRange, x)) && !contains(notMapNames, x):
		c.Replace(r.mapRange(n))
		r.hit("maprange")
	default:
		n.X = call(sel("vs", "RangeGuard"), n.X)
		r.hit("rangeguard")
	}
}

// mentions reports whether one of the header nodes contains a selector expression whose source text is want.
func (r *rewriter) mentions(want string, nodes ...ast.Node) bool {
	found := false
	for _, n := range nodes {
		if n == nil || (fmt.Sprintf("%v", n) == "<nil>") {
			continue
		}
		ast.Inspect(n, func(x ast.Node) bool {
			if se, ok := x.(*ast.SelectorExpr); ok && !found && r.src(se) == want {
				found = true
			}
			return !found
		})
	}
	return found
}

func nn(x interface{}) ast.Node {
	switch v := x.(type) {
	case ast.Stmt:
		if v == nil {
			return nil
		}
		return v
	case ast.Expr:
		if v == nil {
			return nil
		}
		return v
	}
	return nil
}

// insertTouches adds vs.Touch(sel) before every statement of the configured functions that reads or writes sel.
func (r *rewriter) insertTouches(f *ast.File) {
	if len(r.cfg.Touch) == 0 {
		return
	}
	for _, d := range f.Decls {
		fd, ok := d.(*ast.FuncDecl)
		if !ok || fd.Body == nil {
			continue
		}
		sels, ok := r.cfg.Touch[fd.Name.Name]
		if !ok {
			continue
		}
		astutil.Apply(fd.Body, nil, func(c *astutil.Cursor) bool {
			st, ok := c.Node().(ast.Stmt)
			if !ok {
				return true
			}
			var hdr []ast.Node
			var bad []ast.Node
			switch s := st.(type) {
			case *ast.IfStmt:
				hdr = []ast.Node{nn(s.Init), nn(s.Cond)}
			case *ast.ForStmt:
				hdr = []ast.Node{nn(s.Init)}
				bad = []ast.Node{nn(s.Cond), nn(s.Post)}
			case *ast.SwitchStmt:
				hdr = []ast.Node{nn(s.Init), nn(s.Tag)}
			case *ast.TypeSwitchStmt:
				hdr = []ast.Node{nn(s.Init), nn(s.Assign)}
			case *ast.RangeStmt:
				hdr = []ast.Node{nn(s.X)}
			case *ast.BlockStmt, *ast.LabeledStmt, *ast.SelectStmt, *ast.CaseClause, *ast.CommClause, *ast.EmptyStmt:
				return true
			default:
				hdr = []ast.Node{st}
			}
			for _, want := range sels {
				for _, b := range bad {
					if b != nil && r.mentions(want, b) {
						die("%s: %s is accessed in a loop header of %s; cannot place a scheduling point", r.file, want, fd.Name.Name)
					}
				}
				var hs []ast.Node
				for _, h := range hdr {
					if h != nil {
						hs = append(hs, h)
					}
				}
				if !r.mentions(want, hs...) {
					continue
				}
				if c.Index() < 0 {
					if _, isComm := c.Parent().(*ast.CommClause); isComm && c.Name() == "Comm" {
						die("%s: %s is accessed in a select comm clause of %s", r.file, want, fd.Name.Name)
					}
					die("%s: %s is accessed in %s by a statement that is not in a statement list (else-if?)", r.file, want, fd.Name.Name)
				}
				c.InsertBefore(&ast.ExprStmt{X: call(sel("vs", "Touch"), lit(want))})
				r.hit("touch:" + fd.Name.Name + ":" + want)
			}
			return true
		})
	}
}

func (r *rewriter) rewriteFile(src []byte) []byte {
	fset := token.NewFileSet()
	r.fset = fset
	// comments are dropped (new nodes have no positions); build constraints are re-attached textually
	f, err := parser.ParseFile(fset, r.file, src, 0)
	if err != nil {
		die("parse %s: %v", r.file, err)
	}
	var header []string
	for _, l := range strings.Split(string(src), "\n") {
		t := strings.TrimSpace(l)
		if strings.HasPrefix(t, "package ") {
			break
		}
		if strings.HasPrefix(t, "//go:build") || strings.HasPrefix(t, "// +build") {
			header = append(header, t)
		}
	}
	for _, l := range strings.Split(string(src), "\n") {
		t := strings.TrimSpace(l)
		if strings.HasPrefix(t, "//go:") && !strings.HasPrefix(t, "//go:build") {
			die("%s: compiler directive %q would be lost by the rewrite", r.file, t)
		}
	}
	for _, im := range f.Imports {
		if im.Path.Value == `"C"` {
			die("%s: cgo file cannot be rewritten", r.file)
		}
	}
	for _, d := range f.Decls {
		if fd, ok := d.(*ast.FuncDecl); ok && fd.Recv == nil && fd.Name.Name == "close" {
			die("%s: package-level func close shadows the builtin", r.file)
		}
	}
	r.insertTouches(f)
	if r.pkg.Chan {
		r.comm = map[ast.Node]bool{}
		ast.Inspect(f, func(n ast.Node) bool {
			if cc, ok := n.(*ast.CommClause); ok && cc.Comm != nil {
				r.comm[cc.Comm] = true
				switch st := cc.Comm.(type) {
				case *ast.ExprStmt:
					if u, ok := isRecv(st.X); ok {
						r.comm[u] = true
					}
				case *ast.AssignStmt:
					if len(st.Rhs) == 1 {
						if u, ok := isRecv(st.Rhs[0]); ok {
							r.comm[u] = true
						}
					}
				}
			}
			return true
		})
		astutil.Apply(f, nil, func(c *astutil.Cursor) bool {
			switch n := c.Node().(type) {
			case *ast.SelectStmt:
				if _, lab := c.Parent().(*ast.LabeledStmt); lab {
					die("%s: labelled select is not supported", r.file)
				}
				c.Replace(r.rewriteSelect(n))
				r.hit("select")
			case *ast.GoStmt:
				c.Replace(r.rewriteGo(n))
				r.hit("go")
			case *ast.SendStmt:
				if !r.comm[n] {
					c.Replace(&ast.ExprStmt{X: call(sel("vs", "Send"), n.Chan, n.Value)})
					r.hit("send")
				}
			case *ast.UnaryExpr:
				if n.Op == token.ARROW && !r.comm[n] {
					fn := "Recv"
					switch p := c.Parent().(type) {
					case *ast.AssignStmt:
						if len(p.Lhs) == 2 && len(p.Rhs) == 1 {
							fn = "Recv2"
						}
					case *ast.ValueSpec:
						if len(p.Names) == 2 && len(p.Values) == 1 {
							fn = "Recv2"
						}
					}
					c.Replace(call(sel("vs", fn), n.X))
					r.hit("recv")
				}
			case *ast.CallExpr:
				if i, ok := n.Fun.(*ast.Ident); ok && i.Name == "close" && len(n.Args) == 1 {
					n.Fun = sel("vs", "Close")
					r.hit("close")
				}
				if r.cfg.Dial > 0 && r.src(n.Fun) == "net.Dial" && len(n.Args) == 2 {
					n.Args = append([]ast.Expr{n.Fun}, n.Args...)
					n.Fun = sel("vs", "Dial")
					r.hit("dial")
				}
			case *ast.RangeStmt:
				r.rewriteRange(c, n)
			case *ast.TypeAssertExpr:
				if r.cfg.HalfClose > 0 && n.Type != nil && r.src(n.Type) == "*net.TCPConn" {
					n.Type = sel("vs", "HalfCloser")
					r.hit("halfclose")
				}
			}
			return true
		})
		// nothing may be left over
		ast.Inspect(f, func(n ast.Node) bool {
			switch x := n.(type) {
			case *ast.GoStmt, *ast.SelectStmt, *ast.SendStmt:
				die("%s: %T left after the rewrite", r.file, x)
			case *ast.UnaryExpr:
				if x.Op == token.ARROW {
					die("%s: receive expression left after the rewrite", r.file)
				}
			}
			return true
		})
	}
	for _, im := range f.Imports {
		p, _ := strconv.Unquote(im.Path.Value)
		if (p == "time" && r.pkg.Time) || (p == "sync" && r.pkg.Sync) {
			if im.Name != nil && im.Name.Name != p {
				die("%s imports %s under another name; not supported", r.file, p)
			}
			im.Name = id(p)
			if p == "time" {
				im.Path.Value = strconv.Quote(shimPath + "vtimev")
			} else {
				im.Path.Value = strconv.Quote(shimPath + "vsync")
				ast.Inspect(f, func(n ast.Node) bool {
					if se, ok := n.(*ast.SelectorExpr); ok {
						if x, ok := se.X.(*ast.Ident); ok && x.Name == "sync" && x.Obj == nil {
							switch se.Sel.Name {
							case "Mutex", "RWMutex", "WaitGroup", "Once", "Locker":
							default:
								die("%s uses sync.%s which the vsync shim does not model", r.file, se.Sel.Name)
							}
						}
					}
					return true
				})
			}
			r.count[p]++
		}
	}
	if r.used {
		astutil.AddNamedImport(fset, f, "vs", shimPath+"vs")
	}
	if r.usedMaps {
		astutil.AddNamedImport(fset, f, "vsmaps", shimPath+"vsmaps")
	}
	for k, min := range r.cfg.Min {
		if r.count[k] < min {
			die("%s/%s: expected at least %d rewrites of kind %q, found %d — the construct the profile is configured for has disappeared", r.pkg.Dir, r.file, min, k, r.count[k])
		}
	}
	var b bytes.Buffer
	for _, h := range header {
		b.WriteString(h + "\n")
	}
	if len(header) > 0 {
		b.WriteString("\n")
	}
	b.WriteString("// Code generated by /verif/tools/instr from " + filepath.Join(r.pkg.Dir, r.file) + "; DO NOT EDIT.\n\n")
	if err := format.Node(&b, fset, f); err != nil {
		die("print %s: %v", r.file, err)
	}
	// the result must parse
	if _, err := parser.ParseFile(token.NewFileSet(), r.file, b.Bytes(), 0); err != nil {
		die("rewritten %s does not parse: %v", r.file, err)
	}
	return b.Bytes()
}

func writeIfChanged(p string, b []byte) {
	if old, err := os.ReadFile(p); err == nil && string(old) == string(b) {
		return
	}
	if err := os.MkdirAll(filepath.Dir(p), 0755); err != nil {
		die("%v", err)
	}
	if err := os.WriteFile(p, b, 0644); err != nil {
		die("%v", err)
	}
}

func main() {
	repo := flag.String("repo", "/repo", "")
	verif := flag.String("verif", "/verif", "")
	out := flag.String("out", "/verif/build/ovl-d", "")
	base := flag.String("base", "", "overlay.json of the default profile (tools/gen) to start from; entries of this profile override it")
	srcRoot := flag.String("src", "", "read the package sources from this copy of the tree instead of -repo (the overlay still maps onto -repo); used to try a seeded change without touching /repo")
	mapsOnly := flag.Bool("maps-only", false, "only rewrite range-over-map loops of -pkgs into sorted-key iteration (verifshim/vsmaps); no sync/time/chan rewriting, no dependency on verifshim/vs")
	pkgs := flag.String("pkgs", "controller", "maps-only: comma separated package directories")
	extraMaps := flag.String("maps", "", "maps-only: comma separated source texts of additional range operands to treat as maps")
	notMap := flag.String("notmap", "", "comma separated source texts of configured map-range operands that are NOT maps in this tree (bin/build-ed passes what the compiler rejected): they are iterated as they are")
	flag.Parse()
	if *notMap != "" {
		notMapNames = strings.Split(*notMap, ",")
	}
	if *srcRoot == "" {
		*srcRoot = *repo
	}
	if *mapsOnly {
		runMapsOnly(*repo, *verif, *out, *base, strings.Split(*pkgs, ","), strings.Split(*extraMaps, ","))
		return
	}
	replace := map[string]string{}
	if *base != "" {
		var bo struct{ Replace map[string]string }
		b, err := os.ReadFile(*base)
		if err != nil {
			die("base overlay: %v", err)
		}
		if err := json.Unmarshal(b, &bo); err != nil {
			die("base overlay: %v", err)
		}
		for k, v := range bo.Replace {
			replace[k] = v
		}
	}
	summary := map[string]map[string]int{}
	for _, pc := range profile {
		dir := filepath.Join(*repo, pc.Dir)
		srcDir := filepath.Join(*srcRoot, pc.Dir)
		ents, err := os.ReadDir(srcDir)
		if err != nil {
			die("package %s: %v", pc.Dir, err)
		}
		seen := map[string]bool{}
		for _, e := range ents {
			n := e.Name()
			if e.IsDir() || !strings.HasSuffix(n, ".go") || strings.HasSuffix(n, "_test.go") {
				continue
			}
			seen[n] = true
			src, err := os.ReadFile(filepath.Join(srcDir, n))
			if err != nil {
				die("%v", err)
			}
			r := &rewriter{file: n, cfg: pc.Files[n], pkg: pc, count: map[string]int{}}
			res := r.rewriteFile(src)
			dst := filepath.Join(*out, pc.Dir, n)
			writeIfChanged(dst, res)
			replace[filepath.Join(dir, n)] = dst
			summary[pc.Dir+"/"+n] = r.count
		}
		for n := range pc.Files {
			if !seen[n] {
				die("%s/%s is configured in the profile but does not exist", pc.Dir, n)
			}
		}
		if pc.Accessor != "" {
			ad := filepath.Join(*verif, "shim", pc.Accessor)
			if ents, err := os.ReadDir(ad); err == nil {
				for _, e := range ents {
					if strings.HasSuffix(e.Name(), ".go") {
						replace[filepath.Join(dir, e.Name())] = filepath.Join(ad, e.Name())
					}
				}
			}
		}
	}
	for _, sp := range []string{"vs", "vsync", "vtimev", "vsmaps"} {
		ents, err := os.ReadDir(filepath.Join(*verif, "shim", sp))
		if err != nil {
			die("%v", err)
		}
		for _, e := range ents {
			if strings.HasSuffix(e.Name(), ".go") {
				replace[filepath.Join(*repo, "verifshim", sp, e.Name())] = filepath.Join(*verif, "shim", sp, e.Name())
			}
		}
	}
	b, _ := json.MarshalIndent(map[string]interface{}{"Replace": replace}, "", " ")
	writeIfChanged(filepath.Join(*out, "overlay.json"), b)
	keys := make([]string, 0, len(summary))
	for k := range summary {
		keys = append(keys, k)
	}
	sort.Strings(keys)
	sb, _ := json.MarshalIndent(summary, "", " ")
	writeIfChanged(filepath.Join(*out, "summary.json"), sb)
	tot := 0
	for _, k := range keys {
		for _, v := range summary[k] {
			tot += v
		}
	}
	fmt.Fprintf(os.Stderr, "instr: %d files, %d rewrites, %d overlay entries\n", len(keys), tot, len(replace))
}

// ---------------------------------------------------------------------------------------------------------------
// maps-only mode (used by bin/build for the engines that run on the default overlay of tools/gen)
//
//	instr -maps-only -pkgs controller -repo R -verif /verif -base <gen overlay.json> -out DIR
//
// rewrites ONLY the `for … := range <map>` loops of the non-test files of the listed packages into
// `for k, v, it := vsmaps.Start(m); it.Next(&k, &v); {…}` (ascending key order; ONE shared pair of loop variables as
// in go < 1.22; m evaluated once; still a for statement).  The file that is rewritten is the one the base overlay
// already provides for that path (so the time->vtime import rewrite of tools/gen is kept), else the file in R.
// Output: DIR/<pkg>/<file>.go (only files that contain such a loop), DIR/overlay.json = base + these files +
// R/verifshim/vsmaps/vsmaps.go -> /verif/shim/vsmaps/vsmaps.go, DIR/maps-summary.json (every range statement of the
// packages with its classification).
//
// The rewrite is type-free; whether a range operand is a map is decided syntactically from the package's own
// declarations: an identifier that the enclosing function (or the package) declares with a map type, `make(map…)`
// or a map composite literal; a selector x.f where every struct field named f declared in the package has a map type.
// Operands that cannot be classified are left alone and listed as "unknown" in the summary; a field name declared
// both with a map type and with another type makes the generation fail (add it to -maps or rename).
func runMapsOnly(repo, verif, out, base string, pkgs, extra []string) {
	replace := map[string]string{}
	if base != "" {
		var bo struct{ Replace map[string]string }
		b, err := os.ReadFile(base)
		if err != nil {
			die("base overlay: %v", err)
		}
		if err := json.Unmarshal(b, &bo); err != nil {
			die("base overlay: %v", err)
		}
		for k, v := range bo.Replace {
			replace[k] = v
		}
	}
	type rangeInfo struct {
		File, Func, Operand, Class string
		Line                       int
	}
	var summary []rangeInfo
	nrew := 0
	for _, pd := range pkgs {
		pd = strings.TrimSpace(pd)
		if pd == "" {
			continue
		}
		dir := filepath.Join(repo, pd)
		ents, err := os.ReadDir(dir)
		if err != nil {
			die("package %s: %v", pd, err)
		}
		fset := token.NewFileSet()
		type pf struct {
			name string
			src  []byte
			f    *ast.File
		}
		var files []*pf
		for _, e := range ents {
			n := e.Name()
			if e.IsDir() || !strings.HasSuffix(n, ".go") || strings.HasSuffix(n, "_test.go") {
				continue
			}
			path := filepath.Join(dir, n)
			if alt, ok := replace[path]; ok {
				path = alt
			}
			src, err := os.ReadFile(path)
			if err != nil {
				die("%v", err)
			}
			f, err := parser.ParseFile(fset, n, src, 0)
			if err != nil {
				die("parse %s/%s: %v", pd, n, err)
			}
			files = append(files, &pf{n, src, f})
		}
		// field names and package-level variables with map / non-map types
		mapField, otherField, pkgMapVar := map[string]bool{}, map[string]bool{}, map[string]bool{}
		isMapExpr := func(e ast.Expr) bool {
			switch x := e.(type) {
			case *ast.CompositeLit:
				_, ok := x.Type.(*ast.MapType)
				return ok
			case *ast.CallExpr:
				if i, ok := x.Fun.(*ast.Ident); ok && i.Name == "make" && len(x.Args) > 0 {
					_, ok := x.Args[0].(*ast.MapType)
					return ok
				}
			}
			return false
		}
		// results of the package's own functions/methods, by name: per result position "map" / "other" / "mixed"
		funcRes := map[string][]string{}
		for _, p := range files {
			for _, d := range p.f.Decls {
				fd, ok := d.(*ast.FuncDecl)
				if !ok || fd.Type.Results == nil {
					continue
				}
				var res []string
				for _, fl := range fd.Type.Results.List {
					_, isMap := fl.Type.(*ast.MapType)
					n := len(fl.Names)
					if n == 0 {
						n = 1
					}
					for i := 0; i < n; i++ {
						if isMap {
							res = append(res, "map")
						} else {
							res = append(res, "other")
						}
					}
				}
				if old, ok := funcRes[fd.Name.Name]; ok {
					if len(old) != len(res) {
						funcRes[fd.Name.Name] = nil
						continue
					}
					for i := range res {
						if old[i] != res[i] {
							res[i] = "mixed"
						}
					}
				}
				funcRes[fd.Name.Name] = res
			}
		}
		for _, p := range files {
			ast.Inspect(p.f, func(n ast.Node) bool {
				if st, ok := n.(*ast.StructType); ok {
					for _, fl := range st.Fields.List {
						_, isMap := fl.Type.(*ast.MapType)
						for _, nm := range fl.Names {
							if isMap {
								mapField[nm.Name] = true
							} else {
								otherField[nm.Name] = true
							}
						}
					}
				}
				return true
			})
			for _, d := range p.f.Decls {
				if gd, ok := d.(*ast.GenDecl); ok && gd.Tok == token.VAR {
					for _, sp := range gd.Specs {
						vs := sp.(*ast.ValueSpec)
						_, isMap := vs.Type.(*ast.MapType)
						for i, nm := range vs.Names {
							if isMap || (i < len(vs.Values) && isMapExpr(vs.Values[i])) {
								pkgMapVar[nm.Name] = true
							}
						}
					}
				}
			}
		}
		for _, p := range files {
			r := &rewriter{fset: fset, file: p.name, count: map[string]int{}}
			for _, d := range p.f.Decls {
				fd, ok := d.(*ast.FuncDecl)
				if !ok || fd.Body == nil {
					continue
				}
				// identifiers the function declares as maps (scoping is ignored: a name is a map if any declaration says so)
				local, localOther := map[string]bool{}, map[string]bool{}
				if fd.Type.Params != nil {
					for _, fl := range fd.Type.Params.List {
						_, isMap := fl.Type.(*ast.MapType)
						for _, nm := range fl.Names {
							if isMap {
								local[nm.Name] = true
							} else {
								localOther[nm.Name] = true
							}
						}
					}
				}
				ast.Inspect(fd.Body, func(n ast.Node) bool {
					switch x := n.(type) {
					case *ast.AssignStmt:
						if ce, ok := x.Rhs[0].(*ast.CallExpr); ok && x.Tok == token.DEFINE && len(x.Rhs) == 1 && !isMapExpr(ce) {
							name := ""
							switch f := ce.Fun.(type) {
							case *ast.Ident:
								name = f.Name
							case *ast.SelectorExpr:
								if _, isPkg := f.X.(*ast.Ident); !isPkg || true {
									name = f.Sel.Name
								}
							}
							if res := funcRes[name]; len(res) == len(x.Lhs) && len(res) > 0 {
								for i, l := range x.Lhs {
									if id, ok := l.(*ast.Ident); ok && id.Name != "_" {
										switch res[i] {
										case "map":
											local[id.Name] = true
										case "other":
											localOther[id.Name] = true
										}
									}
								}
								return true
							}
						}
						if x.Tok == token.DEFINE && len(x.Lhs) == len(x.Rhs) {
							for i, l := range x.Lhs {
								if id, ok := l.(*ast.Ident); ok {
									if isMapExpr(x.Rhs[i]) {
										local[id.Name] = true
									} else {
										localOther[id.Name] = true
									}
								}
							}
						}
					case *ast.ValueSpec:
						_, isMap := x.Type.(*ast.MapType)
						for i, nm := range x.Names {
							if isMap || (i < len(x.Values) && isMapExpr(x.Values[i])) {
								local[nm.Name] = true
							} else {
								localOther[nm.Name] = true
							}
						}
					}
					return true
				})
				classify := func(e ast.Expr) string {
					if contains(extra, r.src(e)) {
						return "map"
					}
					switch x := e.(type) {
					case *ast.Ident:
						switch {
						case local[x.Name] && !localOther[x.Name]:
							return "map"
						case local[x.Name]:
							die("%s/%s: %s is declared both as a map and as something else in %s; use -maps", pd, p.name, x.Name, fd.Name.Name)
						case localOther[x.Name]:
							return "other"
						case pkgMapVar[x.Name]:
							return "map"
						}
						return "unknown"
					case *ast.SelectorExpr:
						switch {
						case mapField[x.Sel.Name] && !otherField[x.Sel.Name]:
							return "map"
						case mapField[x.Sel.Name]:
							die("%s/%s: field name %s is declared with a map type and with another type in the package; use -maps for %s", pd, p.name, x.Sel.Name, r.src(e))
						case otherField[x.Sel.Name]:
							return "other"
						}
						return "unknown"
					case *ast.CompositeLit, *ast.CallExpr:
						if isMapExpr(e) {
							return "map"
						}
					}
					return "unknown"
				}
				astutil.Apply(fd.Body, nil, func(c *astutil.Cursor) bool {
					n, ok := c.Node().(*ast.RangeStmt)
					if !ok {
						return true
					}
					cl := classify(n.X)
					summary = append(summary, rangeInfo{File: pd + "/" + p.name, Func: fd.Name.Name, Operand: r.src(n.X), Class: cl, Line: fset.Position(n.Pos()).Line})
					if cl == "map" {
						c.Replace(r.mapRange(n))
						r.count["maprange"]++
					}
					return true
				})
			}
			if r.count["maprange"] == 0 {
				continue
			}
			astutil.AddNamedImport(fset, p.f, "vsmaps", shimPath+"vsmaps")
			var b bytes.Buffer
			for _, l := range strings.Split(string(p.src), "\n") {
				t := strings.TrimSpace(l)
				if strings.HasPrefix(t, "package ") {
					break
				}
				if strings.HasPrefix(t, "//go:build") || strings.HasPrefix(t, "// +build") {
					b.WriteString(t + "\n")
				}
			}
			if b.Len() > 0 {
				b.WriteString("\n")
			}
			b.WriteString("// Code generated by /verif/tools/instr -maps-only from " + filepath.Join(pd, p.name) + "; DO NOT EDIT.\n\n")
			if err := format.Node(&b, fset, p.f); err != nil {
				die("print %s: %v", p.name, err)
			}
			if _, err := parser.ParseFile(token.NewFileSet(), p.name, b.Bytes(), 0); err != nil {
				die("rewritten %s does not parse: %v", p.name, err)
			}
			dst := filepath.Join(out, pd, p.name)
			writeIfChanged(dst, b.Bytes())
			replace[filepath.Join(dir, p.name)] = dst
			nrew += r.count["maprange"]
		}
	}
	replace[filepath.Join(repo, "verifshim", "vsmaps", "vsmaps.go")] = filepath.Join(verif, "shim", "vsmaps", "vsmaps.go")
	b, _ := json.MarshalIndent(map[string]interface{}{"Replace": replace}, "", " ")
	writeIfChanged(filepath.Join(out, "overlay.json"), b)
	sb, _ := json.MarshalIndent(summary, "", " ")
	writeIfChanged(filepath.Join(out, "maps-summary.json"), sb)
	unk := 0
	for _, s := range summary {
		if s.Class == "unknown" {
			unk++
		}
	}
	fmt.Fprintf(os.Stderr, "instr -maps-only: %d range-over-map loops rewritten, %d range statements unclassified (left alone), %d overlay entries\n", nrew, unk, len(replace))
}
