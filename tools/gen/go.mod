module verif/gen

go 1.23
